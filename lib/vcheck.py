"""Shared machinery for /verif/bin/check.

One decision procedure for every property (DESIGN.md section 5):

  proofs_ok  : the property's theorem file (coq/Props/<id>.v) and everything it
               depends on compiles with coqc, and `Print Assumptions` of every
               theorem shows only allowed assumptions;
  corr_ok    : the model's executable definitions agree with the implementation
               on every generated case (evaluated by vm_compute in coqc from a
               cases_*.v file written by the Go driver that ran /repo);
  oracle_ok  : the property's direct oracle held on every implementation run.

exit 0 iff all three hold (known findings are printed, never hidden);
otherwise search for a failing input and print a VIOLATION line.
"""
import fcntl, glob, hashlib, json, os, re, shutil, subprocess, sys, time

VERIF = os.path.dirname(os.path.dirname(os.path.abspath(__file__)))
REPO = os.environ.get("VERIF_REPO", "/repo")
COQ = os.path.join(VERIF, "coq")
HARNESS = os.path.join(VERIF, "harness")
BUILD = os.path.join(VERIF, "build")
# A scratch copy of the repository can be checked instead of /repo (used to try
# seeded mutations without touching /repo): VERIF_REPO=/tmp/x bin/check Cxx.
# Build products and evidence of such a run are kept apart from the real ones.
ALT = os.path.realpath(REPO) != "/repo"
if ALT:
    BUILD = os.path.join(VERIF, "build", "alt-" + hashlib.sha1(os.path.realpath(REPO).encode()).hexdigest()[:8])
EVID = os.path.join(VERIF, "evidence")
REPLAYS = os.path.join(VERIF, "replays")

GOENV = dict(os.environ, GOFLAGS="-mod=mod", GOPROXY="off", GOSUMDB="off",
             GOTOOLCHAIN="local", CGO_ENABLED=os.environ.get("CGO_ENABLED", "1"))

# Assumptions that may appear under `Print Assumptions`: kernel primitives
# (machine integers / floats) are not axioms of this development; the listed
# standard-library axioms are allowed by the brief when named in the trusted base.
ALLOWED_AXIOM_PREFIXES = (
    "PrimInt63.", "PrimFloat.", "Uint63.", "Coq.Numbers.Cyclic.Int63.",
    "Coq.Floats.", "Sint63.", "Int63.", "FloatOps.", "FloatAxioms.", "SpecFloat.",
    "Uint63Axioms.", "FloatClass.", "PrimArray.",
)
ALLOWED_AXIOMS = {
    "functional_extensionality_dep", "FunctionalExtensionality.functional_extensionality_dep",
    "proof_irrelevance", "ProofIrrelevance.proof_irrelevance",
    "Eqdep.Eq_rect_eq.eq_rect_eq", "JMeq_eq", "JMeq.JMeq_eq", "classic", "Classical_Prop.classic",
}


def log(*a):
    print("[check]", *a, file=sys.stderr, flush=True)


class Lock:
    def __init__(self, name):
        d = os.path.join(VERIF, "build")
        os.makedirs(d, exist_ok=True)
        self.path = os.path.join(d, name + ".lock")

    def __enter__(self):
        self.f = open(self.path, "w")
        fcntl.flock(self.f, fcntl.LOCK_EX)
        return self

    def __exit__(self, *a):
        fcntl.flock(self.f, fcntl.LOCK_UN)
        self.f.close()


def run(cmd, cwd=None, timeout=1800, env=None, stdin=None):
    t0 = time.time()
    try:
        p = subprocess.run(cmd, cwd=cwd, env=env, input=stdin, stdout=subprocess.PIPE,
                           stderr=subprocess.STDOUT, timeout=timeout, text=True,
                           shell=isinstance(cmd, str))
        return p.returncode, p.stdout, time.time() - t0
    except subprocess.TimeoutExpired as e:
        out = e.stdout if isinstance(e.stdout, str) else (e.stdout or b"").decode("utf8", "replace")
        return 124, (out or "") + "\n[timeout after %ss]" % timeout, time.time() - t0


# ---------------------------------------------------------------- Coq side

def coq_files():
    fs = []
    with open(os.path.join(COQ, "_CoqProject")) as f:
        for line in f:
            line = line.strip()
            if line.endswith(".v") and not line.startswith("#"):
                fs.append(line)
    return fs


def coq_closure(prop_ids):
    """The .v files the property's theorem files depend on (transitively), plus its Corr files."""
    roots = ["Props/%s.v" % i for i in prop_ids if os.path.exists(os.path.join(COQ, "Props/%s.v" % i))]
    for i in prop_ids:
        roots += [os.path.relpath(p, COQ) for p in glob.glob(os.path.join(COQ, "Corr", i.split("_")[0] + "*_corr.v"))]
    if not roots:
        return None
    rc, out, _ = run(["coqdep", "-Q", ".", "FunV", "-sort"] + roots, cwd=COQ, timeout=120)
    files = [f for f in out.split() if f.endswith(".v")]
    return set(os.path.normpath(os.path.join(COQ, f)) for f in files) if files else None


def forbidden_scan(only=None):
    """No Admitted/admit/Axiom/Parameter/... in the development (restricted to `only` if given:
    the dependency closure of the property being checked, so that one property's unfinished file
    cannot fail another property's check)."""
    bad = []
    pat = re.compile(r"^\s*(Admitted|Axiom|Axioms|Parameter|Parameters|Conjecture|Admit Obligations|Unset Guard Checking|"
                     r"Unset Positivity Checking|Unset Universe Checking)\b|\badmit\b|bypass_check|\bgive_up\b|-type-in-type")
    for path in glob.glob(os.path.join(COQ, "**", "*.v"), recursive=True):
        if "/cases/" in path or "/Gen/expected/" in path:
            continue
        if only is not None and os.path.normpath(path) not in only:
            continue
        in_comment = 0
        with open(path, errors="replace") as f:
            for n, line in enumerate(f, 1):
                # strip comments (nesting-aware, line based)
                out = ""
                i = 0
                while i < len(line):
                    if line.startswith("(*", i):
                        in_comment += 1; i += 2; continue
                    if line.startswith("*)", i) and in_comment:
                        in_comment -= 1; i += 2; continue
                    if not in_comment:
                        out += line[i]
                    i += 1
                if pat.search(out):
                    bad.append("%s:%d: %s" % (os.path.relpath(path, VERIF), n, out.strip()))
    return bad


def coq_make(targets=None, timeout=3000):
    """Full .vo build (never -vos). Incremental. Returns (ok, log)."""
    run([os.path.join(VERIF, "bin", "gen_coqproject")])
    with Lock("coq"):
        mk = os.path.join(COQ, "Makefile")
        cp = os.path.join(COQ, "_CoqProject")
        if not os.path.exists(mk) or os.path.getmtime(mk) < os.path.getmtime(cp):
            rc, out, _ = run(["coq_makefile", "-f", "_CoqProject", "-o", "Makefile"], cwd=COQ)
            if rc != 0:
                return False, out
        cmd = ["make", "-j16", "-k"] + (targets or [])
        rc, out, dt = run(cmd, cwd=COQ, timeout=timeout)
        return rc == 0, out


def props_check(prop_id):
    """Recompile coq/Props/<id>.v by itself and read its Print Assumptions output.

    Returns dict(ok, theorems=[{name, assumptions, closed}], log).
    """
    rel = "Props/%s.v" % prop_id
    path = os.path.join(COQ, rel)
    res = dict(ok=False, theorems=[], log="", file=rel)
    if not os.path.exists(path):
        res["log"] = "missing " + rel
        return res
    ok, out = coq_make([rel + "o"])
    if not ok:
        res["log"] = out[-6000:]
        # name the first file that failed
        m = re.search(r'File "([^"]+)", line (\d+)', out)
        res["failed_at"] = m.group(0) if m else "make"
        return res
    with Lock("coq"):
        rc, out, _ = run(["coqc", "-Q", ".", "FunV", rel], cwd=COQ, timeout=900)
    res["log"] = out[-6000:]
    if rc != 0:
        res["failed_at"] = rel
        return res
    src = open(path).read()
    names = re.findall(r"^\s*(?:Theorem|Lemma|Corollary)\s+([A-Za-z0-9_']+)", src, re.M)
    printed = re.findall(r"^\s*Print Assumptions\s+([A-Za-z0-9_'.]+)\s*\.", src, re.M)
    # split output into blocks, one per Print Assumptions, in order
    blocks = re.split(r"(?m)^(?=Closed under the global context|Axioms:)", out)
    blocks = [b for b in blocks if b.startswith("Closed under") or b.startswith("Axioms:")]
    allok = True
    for i, nm in enumerate(printed):
        blk = blocks[i] if i < len(blocks) else "MISSING"
        axioms = []
        if blk.startswith("Axioms:"):
            for m in re.finditer(r"(?m)^([A-Za-z0-9_'.]+)\s*:", blk[len("Axioms:"):]):
                axioms.append(m.group(1))
        bad = [a for a in axioms if not (a in ALLOWED_AXIOMS or a.startswith(ALLOWED_AXIOM_PREFIXES)
                                          or a.split(".")[-1] in ALLOWED_AXIOMS)]
        closed = blk.startswith("Closed under")
        if blk == "MISSING" or bad:
            allok = False
        res["theorems"].append(dict(name=nm, closed=closed, assumptions=axioms, disallowed=bad))
    missing = [n for n in names if n not in printed]
    if missing:
        allok = False
        res["log"] += "\ntheorems without Print Assumptions: %s" % missing
    if not printed:
        allok = False
    res["ok"] = allok
    return res


def coqchk(ids, timeout=3000):
    """Independent re-check of the compiled theorem files and everything they depend on (thorough tier).
    Returns dict(ok, axioms, log)."""
    mods = ["FunV.Props." + i for i in ids]
    with Lock("coq"):
        rc, out, dt = run(["coqchk", "-silent", "-o", "-Q", ".", "FunV"] + mods, cwd=COQ, timeout=timeout)
    m = re.search(r"\* Axioms:(.*?)\n\s*\n\* Constants/Inductives relying on type-in-type:(.*?)\n\s*\n\* Constants/Inductives relying on unsafe \(co\)fixpoints:(.*?)\n\s*\n\* Inductives whose positivity is assumed:(.*?)\n", out + "\n\n", re.S)
    res = dict(ok=False, axioms=[], log=out[-1500:], wall_s=round(dt, 1))
    if rc != 0 or not m:
        return res
    axioms = [a.strip() for a in m.group(1).split("\n") if a.strip() and a.strip() != "<none>"]
    unsafe = [x.strip() for g in (2, 3, 4) for x in m.group(g).split("\n") if x.strip() and x.strip() != "<none>"]
    bad = [a for a in axioms if not (a in ALLOWED_AXIOMS or a.startswith(ALLOWED_AXIOM_PREFIXES) or a.split(".")[-1] in ALLOWED_AXIOMS)]
    res.update(ok=not bad and not unsafe, axioms=axioms, unsafe=unsafe, disallowed=bad)
    return res


def props_check_many(ids):
    """props_check over several theorem files (e.g. Props/C16.v and Props/C16_stack.v)."""
    res = dict(ok=True, theorems=[], log="", file=" ".join("Props/%s.vo" % i for i in ids))
    for i in ids:
        r = props_check(i)
        res["ok"] = res["ok"] and r["ok"]
        res["theorems"].extend(r["theorems"])
        res["log"] += r["log"]
        if "failed_at" in r and "failed_at" not in res:
            res["failed_at"] = r["failed_at"]
    return res


def merge_stats(a, b, name=None):
    """Combine the stats.json of several drivers of one property."""
    if not a:
        out = dict(b)
        if name:
            out["rule"] = "[%s] %s" % (name, b.get("rule", ""))
            out["distribution"] = {"%s/%s" % (name, k): v for k, v in b.get("distribution", {}).items()}
        return out
    out = dict(a)
    for k in ("evaluations", "distinct_nontrivial", "oracle_failures"):
        out[k] = int(a.get(k, 0)) + int(b.get(k, 0))
    out["rule"] = a.get("rule", "") + " || [%s] %s" % (name, b.get("rule", ""))
    out["samples"] = (a.get("samples", []) + b.get("samples", []))
    d = dict(a.get("distribution", {}))
    for k, v in b.get("distribution", {}).items():
        d["%s/%s" % (name, k)] = v
    out["distribution"] = d
    for k, v in b.items():
        if k not in out:
            out[k] = v
    return out


def eval_cases(case_files, jobs=16, timeout=1500):
    """Compile each cases_*.v (written by a driver) and collect the mismatch ids it prints.

    Every file must end with `Print M.` where M : list N / list Z / list nat is the
    list of ids of the cases on which model and implementation disagree.
    Returns (ok, mismatches:list[int], log).
    """
    import concurrent.futures as cf

    def one(path):
        d = os.path.dirname(path)
        rc, out, dt = run(["coqc", "-Q", COQ, "FunV", os.path.basename(path)], cwd=d, timeout=timeout)
        return path, rc, out, dt

    mism, logs, ok = [], [], True
    with cf.ThreadPoolExecutor(max_workers=jobs) as ex:
        for path, rc, out, dt in ex.map(one, case_files):
            if rc != 0:
                ok = False
                logs.append("%s: coqc failed (rc=%d): %s" % (path, rc, out[-1500:]))
                continue
            m = re.search(r"M\s*=\s*(\[.*?\])\s*:\s*list", out, re.S)
            if not m:
                ok = False
                logs.append("%s: no result: %s" % (path, out[-500:]))
                continue
            body = m.group(1)
            ids = [int(x) for x in re.findall(r"-?\d+", body)]
            mism.extend(ids)
    return ok, sorted(set(mism)), "\n".join(logs)


# ---------------------------------------------------------------- Go side

def build_driver(name, race=False, timeout=1500):
    """Build /verif/harness/cmd/<name> against /repo's working tree with -tags verif."""
    os.makedirs(BUILD, exist_ok=True)
    with Lock("go-" + name + ("-race" if race else "")):
        gosum = os.path.join(REPO, "go.sum")
        if os.path.exists(gosum):
            shutil.copyfile(gosum, os.path.join(HARNESS, "go.sum"))
        out_bin = os.path.join(BUILD, name + ("-race" if race else ""))
        modflags = []
        if ALT:
            mod = os.path.join(BUILD, "go.mod")
            txt = open(os.path.join(HARNESS, "go.mod")).read().replace("=> /repo", "=> " + os.path.realpath(REPO))
            open(mod, "w").write(txt)
            if os.path.exists(gosum):
                shutil.copyfile(gosum, os.path.join(BUILD, "go.sum"))
            modflags = ["-modfile=" + mod]
        cmd = ["go", "build", "-tags", "verif"] + modflags + (["-race"] if race else []) + ["-o", out_bin, "./cmd/" + name]
        rc, out, dt = run(cmd, cwd=HARNESS, env=GOENV, timeout=timeout)
        return rc == 0, out, out_bin


def run_driver(binary, outdir, seed, tier, extra=None, timeout=3000):
    if os.path.isdir(outdir):
        shutil.rmtree(outdir)
    os.makedirs(outdir)
    cmd = [binary, "-seed", str(seed), "-tier", tier, "-out", outdir] + (extra or [])
    env = dict(GOENV)
    rc, out, dt = run(cmd, cwd=HARNESS, env=env, timeout=timeout)
    return rc, out


def read_jsonl(path):
    rows = []
    if os.path.exists(path):
        with open(path) as f:
            for line in f:
                line = line.strip()
                if line:
                    rows.append(json.loads(line))
    return rows


# ---------------------------------------------------------------- findings / replays / evidence

def known_findings(prop_id):
    path = os.path.join(VERIF, "known_findings.json")
    if not os.path.exists(path):
        return {}, {}
    rows = json.load(open(path))
    known = {r["signature"]: r for r in rows if r["property"] == prop_id and r.get("status") == "known"}
    fixed = {r["signature"]: r for r in rows if r["property"] == prop_id and r.get("status") == "fixed"}
    return known, fixed


def write_replay(prop_id, payload):
    global REPLAYS
    if ALT:
        REPLAYS = os.path.join(BUILD, "replays")
    os.makedirs(REPLAYS, exist_ok=True)
    payload = dict(payload, repo=os.path.realpath(REPO))
    blob = json.dumps(payload, sort_keys=True, indent=1)
    h = hashlib.sha1(blob.encode()).hexdigest()[:8]
    path = os.path.join(REPLAYS, "%s-%s.json" % (prop_id, h))
    with open(path, "w") as f:
        f.write(blob + "\n")
    return path


def write_evidence(prop_id, tier, seed, coverage, assumptions, wall_s, violations, level="proof"):
    global EVID
    if ALT:
        EVID = os.path.join(BUILD, "evidence")
    os.makedirs(EVID, exist_ok=True)
    ev = dict(property_id=prop_id, tier=tier, seed=int(seed), level=level, coverage=coverage,
              assumptions=assumptions, wall_s=round(wall_s, 2), violations=int(violations))
    tmp = os.path.join(EVID, prop_id + ".json.tmp")
    with open(tmp, "w") as f:
        json.dump(ev, f, indent=1, sort_keys=True)
        f.write("\n")
    os.replace(tmp, os.path.join(EVID, prop_id + ".json"))


TRUSTED_COMMON = [
    "Coq 8.16.1 kernel and coqc; vm_compute (reflective checks and evaluation of cases); no native_compute",
    "no axioms declared by this development (grep + Print Assumptions enforced on every run)",
    "hand-written Gallina model of the Go code, tied to /repo by the differential correspondence run of this check",
    "Go drivers under /verif/harness (generators, canonicalisation of observations) and /verif/lib/vcheck.py",
]
