// Command translator re-extracts the synchronisation skeleton of the
// concurrency-safe types of github.com/tychoish/fun from the Go SOURCE and
// writes it as Coq terms (coq/Gen/Skel_<type>.v, language of coq/Skel/Syntax.v).
//
// It is deliberately syntactic (go/parser, go/ast, go/token only; no type
// checker) and handles exactly the fixed file list below.  Whatever it does not
// recognise becomes `Unknown "<source text>"`, which the verified checker
// rejects: the translator never guesses.  See DESIGN.md 4.2 and the comment
// block "TRUSTED NORMALISATIONS" in interp.go for what is trusted.
package main

import (
	"bytes"
	"encoding/json"
	"flag"
	"fmt"
	"go/ast"
	"go/parser"
	"go/printer"
	"go/token"
	"os"
	"path/filepath"
	"regexp"
	"sort"
	"strings"
)

// ---------------------------------------------------------------- the fixed file list

var pkgFiles = map[string][]string{
	"fun":    {"sync.go", "process.go", "worker.go", "operation.go", "producer.go", "handler.go", "future.go"},
	"pubsub": {"pubsub/queue.go", "pubsub/deque.go", "pubsub/tracker.go", "pubsub/buffer.go", "pubsub/broker.go"},
	"erc":    {"erc/errors.go"},
	"adt":    {"adt/locked.go", "adt/atomics.go", "adt/map.go", "adt/pool.go"},
	"dt":     {"dt/set.go"},
}

type CtorRef struct{ Recv, Func string } // Recv == "" for a plain function

// Spec describes one "type" whose skeleton is extracted.
type Spec struct {
	Name  string   // Coq name: prog_<Name>
	Pkg   string
	Recv  string   // struct type whose exported methods are the public entries ("" for constructor kinds)
	Aux   []string // node types that belong to the same object (fields named <Name>.<aux>.<field>)
	Ctors []CtorRef // constructor kind: functions whose returned closures are the public entries and whose captured locals are the shared state
	Peer  bool     // methods take another instance of the same type: emit the program for two instances
	Extra []string // unexported methods that run concurrently with the public ones (started by the constructor)
	OptLock string // field holding an optional mutex (dt.Set.mtx); the skeleton is that of the synchronised configuration
	Files []string // for the header comment
}

var specs = []Spec{
	{Name: "WaitGroup", Pkg: "fun", Recv: "WaitGroup", Files: []string{"sync.go"}},
	{Name: "Collector", Pkg: "erc", Recv: "Collector", Files: []string{"erc/errors.go"}},
	{Name: "Synchronized", Pkg: "adt", Recv: "Synchronized", Files: []string{"adt/locked.go"}},
	{Name: "Atomic", Pkg: "adt", Recv: "Atomic", Files: []string{"adt/atomics.go"}},
	{Name: "Once", Pkg: "adt", Recv: "Once", Files: []string{"adt/atomics.go"}},
	{Name: "Map", Pkg: "adt", Recv: "Map", Files: []string{"adt/map.go"}},
	{Name: "Pool", Pkg: "adt", Recv: "Pool", Files: []string{"adt/pool.go"}},
	{Name: "Queue", Pkg: "pubsub", Recv: "Queue", Aux: []string{"entry"}, Files: []string{"pubsub/queue.go", "pubsub/tracker.go"}},
	{Name: "Deque", Pkg: "pubsub", Recv: "Deque", Aux: []string{"element"}, Files: []string{"pubsub/deque.go", "pubsub/tracker.go"}},
	{Name: "Set", Pkg: "dt", Recv: "Set", Peer: true, OptLock: "mtx", Files: []string{"dt/set.go"}},
	{Name: "limitExec", Pkg: "fun", Files: []string{"process.go", "worker.go", "producer.go", "future.go"},
		Ctors: []CtorRef{{"", "limitExec"}, {"Worker", "Limit"}, {"Producer", "Limit"}, {"Processor", "Limit"}, {"Future", "Limit"}}},
	{Name: "ttlExec", Pkg: "fun", Ctors: []CtorRef{{"", "ttlExec"}}, Files: []string{"process.go"}},
	{Name: "Wrappers", Pkg: "fun", Files: []string{"worker.go", "operation.go", "producer.go", "process.go", "handler.go", "future.go"},
		Ctors: []CtorRef{
			{"Worker", "Once"}, {"Worker", "Lock"}, {"Worker", "WithLock"}, {"Worker", "TTL"},
			{"Operation", "Once"}, {"Operation", "Lock"}, {"Operation", "WithLock"}, {"Operation", "Limit"}, {"Operation", "TTL"},
			{"Producer", "Once"}, {"Producer", "Lock"}, {"Producer", "WithLock"}, {"Producer", "TTL"},
			{"Processor", "Once"}, {"Processor", "Lock"}, {"Processor", "WithLock"}, {"Processor", "TTL"},
			{"Handler", "Once"}, {"Handler", "Lock"}, {"Handler", "WithLock"},
			{"Future", "Lock"}, {"Future", "WithLock"}, {"Future", "TTL"},
		}},
	{Name: "Broker", Pkg: "pubsub", Recv: "Broker", Extra: []string{"startQueueWorkers"}, Files: []string{"pubsub/broker.go"}},
}

// ---------------------------------------------------------------- parsed packages

type Pkg struct {
	name    string
	fset    *token.FileSet
	files   []*ast.File
	funcs   map[string]*ast.FuncDecl            // plain functions
	methods map[string]map[string]*ast.FuncDecl // receiver type -> method name -> decl
	structs map[string]*ast.StructType
	imports map[string]bool // imported package names (as used in selectors)
}

var fset = token.NewFileSet()
var pkgs = map[string]*Pkg{}

func recvTypeName(fd *ast.FuncDecl) string {
	if fd.Recv == nil || len(fd.Recv.List) == 0 {
		return ""
	}
	t := fd.Recv.List[0].Type
	for {
		switch x := t.(type) {
		case *ast.StarExpr:
			t = x.X
		case *ast.IndexExpr:
			t = x.X
		case *ast.IndexListExpr:
			t = x.X
		case *ast.ParenExpr:
			t = x.X
		case *ast.Ident:
			return x.Name
		default:
			return ""
		}
	}
}

func loadPkg(repo, name string, files []string) (*Pkg, error) {
	p := &Pkg{name: name, fset: fset, funcs: map[string]*ast.FuncDecl{}, methods: map[string]map[string]*ast.FuncDecl{},
		structs: map[string]*ast.StructType{}, imports: map[string]bool{}}
	for _, f := range files {
		af, err := parser.ParseFile(fset, filepath.Join(repo, f), nil, parser.ParseComments)
		if err != nil {
			return nil, err
		}
		p.files = append(p.files, af)
		for _, im := range af.Imports {
			path := strings.Trim(im.Path.Value, "\"")
			n := path[strings.LastIndex(path, "/")+1:]
			if im.Name != nil {
				n = im.Name.Name
			}
			p.imports[n] = true
		}
		for _, d := range af.Decls {
			switch x := d.(type) {
			case *ast.FuncDecl:
				if x.Body == nil {
					continue
				}
				if r := recvTypeName(x); r != "" {
					if p.methods[r] == nil {
						p.methods[r] = map[string]*ast.FuncDecl{}
					}
					p.methods[r][x.Name.Name] = x
				} else if x.Recv == nil {
					p.funcs[x.Name.Name] = x
				}
			case *ast.GenDecl:
				for _, s := range x.Specs {
					if ts, ok := s.(*ast.TypeSpec); ok {
						if st, ok := ts.Type.(*ast.StructType); ok {
							p.structs[ts.Name.Name] = st
						}
					}
				}
			}
		}
	}
	return p, nil
}

func src(n ast.Node) string {
	var buf bytes.Buffer
	_ = printer.Fprint(&buf, fset, n)
	s := buf.String()
	s = strings.Join(strings.Fields(s), " ")
	if len(s) > 90 {
		s = s[:87] + "..."
	}
	return s
}

func typeStr(e ast.Expr) string {
	if e == nil {
		return ""
	}
	var buf bytes.Buffer
	_ = printer.Fprint(&buf, fset, e)
	return strings.Join(strings.Fields(buf.String()), " ")
}

// ---------------------------------------------------------------- field classification (by declared type, syntactic)

var (
	reLock = regexp.MustCompile(`^\*?sync\.(RW)?Mutex$|^sync\.Locker$`)
	reCond = regexp.MustCompile(`^\*sync\.Cond$`)
	reOnce = regexp.MustCompile(`^\*?sync\.Once$`)
	// objects that are safe for concurrent use by construction (trusted primitives, or types covered by their own skeleton)
	reSafe = regexp.MustCompile(`^\*?(sync\.(Map|Pool)|(std)?atomic\.\w+(\[.*\])?|Atomic\[.*\]|adt\.Atomic\[.*\]|Pool\[.*\]|adt\.Pool\[.*\]|adt\.Map\[.*\]|fun\.WaitGroup|WaitGroup|(<-)?chan(<-)? .*)$`)
	reOptLock = regexp.MustCompile(`^atomic\[\*sync\.Mutex\]$`)
	reFunc    = regexp.MustCompile(`^(func\(|context\.CancelFunc$|fun\.(Processor|Producer|Worker|Operation|Handler|Future)\b)`)
)

type FieldInfo struct {
	name, typ string
	kind      string // lock cond once safe optlock own func data
	ptr       bool   // pointer-typed (reading the pointer is itself an access to the field)
	own       string // for kind own: the struct type pointed to
}

func classifyType(ts string, ownTypes map[string]bool) (kind string, ptr bool, own string) {
	ptr = strings.HasPrefix(ts, "*")
	base := strings.TrimPrefix(ts, "*")
	if i := strings.Index(base, "["); i > 0 && ownTypes[base[:i]] {
		return "own", ptr, base[:i]
	}
	if ownTypes[base] {
		return "own", ptr, base
	}
	switch {
	case reLock.MatchString(ts):
		return "lock", ptr, ""
	case reCond.MatchString(ts):
		return "cond", ptr, ""
	case reOnce.MatchString(ts):
		return "once", ptr, ""
	case reOptLock.MatchString(ts):
		return "optlock", false, ""
	case reSafe.MatchString(ts):
		return "safe", ptr, ""
	case reFunc.MatchString(ts):
		return "func", ptr, ""
	}
	return "data", ptr, ""
}

// ---------------------------------------------------------------- output

func coqStr(s string) string {
	var sb strings.Builder
	for _, r := range s {
		switch {
		case r == '"':
			sb.WriteString("\"\"")
		case r < 32 || r > 126:
			sb.WriteByte('?')
		default:
			sb.WriteRune(r)
		}
	}
	return "\"" + sb.String() + "\""
}

func coqComment(s string) string {
	s = strings.ReplaceAll(s, "(*", "( *")
	s = strings.ReplaceAll(s, "*)", "* )")
	var sb strings.Builder
	for _, r := range s {
		if r < 32 || r > 126 {
			sb.WriteByte('?')
		} else {
			sb.WriteRune(r)
		}
	}
	return sb.String()
}

func renderInstrs(sb *strings.Builder, l []Instr, ind string) {
	sb.WriteString("[")
	if len(l) == 0 {
		sb.WriteString("]")
		return
	}
	for n, i := range l {
		if n > 0 {
			sb.WriteString(";")
		}
		sb.WriteString("\n" + ind + "  ")
		if i.Comment != "" {
			sb.WriteString("(* " + coqComment(i.Comment) + " *) ")
		}
		switch i.Op {
		case "Lock", "Unlock", "RLock", "RUnlock", "Atomic", "Signal", "Broadcast", "CtxWaker", "Unknown":
			sb.WriteString(i.Op + " " + coqStr(i.A))
		case "Acc":
			sb.WriteString("Acc " + coqStr(i.A) + " " + i.B)
		case "Wait":
			sb.WriteString("Wait " + coqStr(i.A) + " " + coqStr(i.B))
		case "Ret":
			sb.WriteString("Ret")
		case "Choice":
			sb.WriteString("Choice ")
			renderInstrs(sb, i.P, ind+"  ")
			sb.WriteString(" ")
			renderInstrs(sb, i.Q, ind+"  ")
		case "Loop", "Spawn":
			sb.WriteString(i.Op + " ")
			renderInstrs(sb, i.P, ind+"  ")
		default:
			sb.WriteString("Unknown " + coqStr("internal:"+i.Op))
		}
	}
	sb.WriteString("\n" + ind + "]")
}

type Entry struct {
	Escaped bool
	Name string
	Body []Instr
	Note string
}

type TypeReport struct {
	Name     string   `json:"name"`
	Files    []string `json:"files"`
	Entries  []string `json:"entries"`
	Unknowns []string `json:"unknowns"`
	Fields   []string `json:"fields"`
	Locks    []string `json:"locks"`
	Instrs   int      `json:"instrs"`
}

func collect(l []Instr, fields, locks map[string]bool, unknowns *[]string) int {
	n := 0
	for _, i := range l {
		n++
		switch i.Op {
		case "Acc":
			fields[i.A] = true
		case "Lock", "Unlock", "RLock", "RUnlock":
			locks[i.A] = true
		case "Wait":
			locks[i.B] = true
		case "Unknown":
			*unknowns = append(*unknowns, i.A)
		}
		n += collect(i.P, fields, locks, unknowns) + collect(i.Q, fields, locks, unknowns)
	}
	return n
}

func writeSpec(outDir string, sp Spec, entries []Entry) (TypeReport, error) {
	var sb strings.Builder
	fmt.Fprintf(&sb, "(* GENERATED by /verif/translator from %s -- do not edit.\n", strings.Join(sp.Files, ", "))
	sb.WriteString("   Synchronisation skeleton (language of Skel/Syntax.v): every exported method and every\n")
	sb.WriteString("   closure / method value that escapes to the caller is a public entry. *)\n")
	sb.WriteString("From Coq Require Import List String.\nFrom FunV Require Import Skel.Syntax.\nImport ListNotations.\nOpen Scope string_scope.\n\n")
	fmt.Fprintf(&sb, "Definition prog_%s : prog := [", sp.Name)
	rep := TypeReport{Name: sp.Name, Files: sp.Files}
	fields, locks := map[string]bool{}, map[string]bool{}
	for n, e := range entries {
		if n > 0 {
			sb.WriteString(";")
		}
		sb.WriteString("\n")
		if e.Note != "" {
			sb.WriteString("  (* " + coqComment(e.Note) + " *)\n")
		}
		fmt.Fprintf(&sb, "  {| name := %s; public := true; body := ", coqStr(e.Name))
		renderInstrs(&sb, e.Body, "    ")
		sb.WriteString(" |}")
		rep.Entries = append(rep.Entries, e.Name)
		rep.Instrs += collect(e.Body, fields, locks, &rep.Unknowns)
	}
	sb.WriteString("\n].\n")
	for f := range fields {
		rep.Fields = append(rep.Fields, f)
	}
	for l := range locks {
		rep.Locks = append(rep.Locks, l)
	}
	sort.Strings(rep.Fields)
	sort.Strings(rep.Locks)
	path := filepath.Join(outDir, "Skel_"+sp.Name+".v")
	old, err := os.ReadFile(path)
	if err == nil && string(old) == sb.String() {
		return rep, nil // unchanged: keep the mtime so make does not rebuild
	}
	return rep, os.WriteFile(path, []byte(sb.String()), 0o644)
}

func main() {
	repo := flag.String("repo", "/repo", "root of the Go repository")
	out := flag.String("out", "", "output directory for Skel_<type>.v")
	only := flag.String("only", "", "comma separated type names (default all)")
	flag.Parse()
	if *out == "" {
		fmt.Fprintln(os.Stderr, "-out required")
		os.Exit(2)
	}
	if err := os.MkdirAll(*out, 0o755); err != nil {
		fmt.Fprintln(os.Stderr, err)
		os.Exit(2)
	}
	for name, files := range pkgFiles {
		p, err := loadPkg(*repo, name, files)
		if err != nil {
			fmt.Fprintln(os.Stderr, "parse:", err)
			os.Exit(2)
		}
		pkgs[name] = p
	}
	want := map[string]bool{}
	for _, n := range strings.Split(*only, ",") {
		if n != "" {
			want[n] = true
		}
	}
	var reports []TypeReport
	for _, sp := range specs {
		if len(want) > 0 && !want[sp.Name] {
			continue
		}
		t := newTranslator(sp)
		entries := t.run()
		rep, err := writeSpec(*out, sp, entries)
		if err != nil {
			fmt.Fprintln(os.Stderr, err)
			os.Exit(2)
		}
		reports = append(reports, rep)
		fmt.Printf("%-13s entries=%-3d instrs=%-5d unknown=%d\n", sp.Name, len(rep.Entries), rep.Instrs, len(rep.Unknowns))
		for _, u := range rep.Unknowns {
			fmt.Printf("    Unknown: %s\n", u)
		}
	}
	b, _ := json.MarshalIndent(map[string]any{"types": reports}, "", " ")
	_ = os.WriteFile(filepath.Join(*out, "manifest.json"), append(b, '\n'), 0o644)
}
