package main

// The abstract interpreter that turns method bodies into skeleton code.
//
// TRUSTED NORMALISATIONS (everything else is re-derived from the source on every run)
//
//  1. A Go condition is forgotten (both arms are kept); a loop runs any number of
//     times; a `return`/`break` inside a loop is translated by splitting the loop
//     into complete iterations followed by one partial iteration that takes the exit.
//  2. `defer` is run at every return of its function, newest first; arguments of a
//     deferred call are evaluated at the defer statement (so `defer adt.With(adt.Lock(m))`,
//     `defer with(lock(&ec.mu))`, `defer s.with(s.lock())` become Lock m ... Unlock m
//     simply because Lock/lock/With/with are inlined from their source).  Panic paths
//     are not modelled (they run the same deferred calls).
//  3. Calls to methods of the same type, to functions of the same package, and to the
//     allow-listed cross-package helpers (crossInline) are inlined from their source
//     with parameters bound to the abstract values of the arguments.
//  4. A read/write of a receiver field (or of a field of the type's node types) is
//     `Acc <Type>.<field> r|w`.  A call through a data field (`q.tracker.add()`,
//     `s.list.Back().Append(e)`, `delete(s.hash,k)`) is an access to that field's
//     region; its mutability comes from the source when the callee is in the file
//     list (tracker.go) and otherwise from the table regionMethods.  Reading a field
//     whose type is sync.Mutex/sync.Cond/sync.Once only to call its methods is not a
//     data access (writes to such fields are).
//  5. Fields whose declared type is a trusted concurrent primitive or a type with its own
//     skeleton (sync.Map, sync.Pool, sync/atomic.*, channels, adt.Atomic, adt.Pool,
//     fun.WaitGroup) yield `Atomic`.
//  6. `once.Do(f)` is `Choice [Lock once; f; Unlock once] []; RLock once` with the RUnlock
//     at the end of the entry: f runs exclusively, and code after Do holds the once
//     "shared", i.e. runs after f has completed.  A closure created inside f runs only
//     after the once completed (it is reachable only through state published by f).
//  7. A function literal / method value that is returned, stored in a returned struct,
//     stored in a field, or passed to code outside the file list ESCAPES and becomes a
//     public entry of its own, starting with no lock held; `.WithLock(m)` / `.Lock()` on a
//     function value wraps it in Lock m ... Unlock m (the wrappers themselves are checked
//     as the type "Wrappers").  Calls of user supplied functions (parameters of function
//     type) are not modelled: callbacks must not re-enter the object.
//  8. Local variables captured by an escaping closure of a METHOD (iterator cursors such as
//     `next` in Queue.Producer) are private to that closure instance: one iterator/producer
//     value is used by one goroutine at a time.  For CONSTRUCTOR kinds (limitExec, ttlExec,
//     the wrappers) the captured locals that are assigned inside a closure ARE the shared
//     state and become fields `<ctor>.<var>`.
//  9. For dt.Set the optional mutex is assumed present (`m != nil` is true): the skeleton is
//     that of a synchronised set.  Methods taking another *Set are generated for two
//     instances (fields of the other instance carry a prime).
//
// 10. Captured locals shared between goroutines: see shared.go.
// 11. `if a.CompareAndSwap(v, v) { ... }` on a trusted atomic `a` is the publication test of
//     limitExec's fast path: READS of captured cells inside the branch become
//     `Atomic <cell>` (commented TRUSTED): they are ordered after the writes by the atomic
//     store that made the test succeed, PROVIDED the cell is no longer written once the atomic
//     holds v - a value-dependent fact the lockset argument cannot check.  Everything outside
//     that branch (the whole slow path, including the read of the cached value for the return
//     value) is checked normally.
//
// Anything else is `Unknown`.

import (
	"fmt"
	"os"
	"go/ast"
	"go/token"
	"sort"
	"strings"
)

// calls outside the current package that are inlined from their (parsed) source
var crossInline = map[string]bool{
	"adt.Lock": true, "adt.With": true,
	"fun.MakeProcessor": true, "fun.MakeHandlerProcessor": true, "fun.CheckProducer": true,
}

// methods reached through a data field: r = reads the region, w = may write it,
// c = returns a closure/iterator that captures the region (reads it when called later)
var regionMethods = map[string]byte{
	// pubsub tracker (overridden by what tracker.go says)
	"len": 'r', "cap": 'r', "add": 'w', "remove": 'w',
	// dt.List / dt.Element / dt.Map / ers.Stack
	"Unwind": 'r', "Len": 'r', "Check": 'r', "Load": 'r', "Back": 'r', "Front": 'r', "Get": 'r', "Value": 'r', "Next": 'r', "Previous": 'r', "Ok": 'r', "In": 'r',
	"Push": 'w', "PushBack": 'w', "PushFront": 'w', "Append": 'w', "Add": 'w', "SetDefault": 'w', "Store": 'w', "Delete": 'w',
	"SortQuick": 'w', "SortMerge": 'w', "Remove": 'w', "Drop": 'w', "PopFront": 'w', "PopBack": 'w', "Set": 'w', "Extend": 'w',
	"Producer": 'c', "ProducerKeys": 'c', "ProducerValues": 'c', "Iterator": 'c', "Keys": 'c', "Values": 'c', "CheckProducer": 'c',
	"ProducerPop": 'C', "IteratorPop": 'C',
}

// members of data fields that are plain values (not method values)
var regionPlainMembers = map[string]bool{"BufferSize": true, "ParallelDispatch": true, "WorkerPoolSize": true}

// escapes that are deliberately NOT followed (known findings, see /verif/known_findings.json)
var excludedEscapes = map[string]string{
	"Collector.Resolve:&Collector.stack": "known finding C13:Collector.Resolve:live-stack -- Resolve returns &ec.stack, the live stack; a caller reading it races with Add. This escape is excluded from the skeleton.",
}

type pending struct {
	escaped bool
	name string
	note string
	gen  func(st *State, k K) Code
	inst string
	peer string
}

type T struct {
	sp       Spec
	pkg      *Pkg
	own      map[string]bool                 // struct types of this object (Recv + Aux)
	fields   map[string]map[string]FieldInfo // struct type -> field -> info
	condLock map[string]string               // cond field (qualified, no instance suffix) -> lock field
	regionRW map[string]byte
	nextID   int
	queue    []pending
	depth    int
	ctorName string
	curEntry string
	enq      map[string]bool
	enqN     map[string]int
}

func newTranslator(sp Spec) *T {
	t := &T{sp: sp, pkg: pkgs[sp.Pkg], own: map[string]bool{}, fields: map[string]map[string]FieldInfo{}, condLock: map[string]string{}, regionRW: map[string]byte{}}
	if sp.Recv != "" {
		t.own[sp.Recv] = true
	}
	for _, a := range sp.Aux {
		t.own[a] = true
	}
	for ty := range t.own {
		st := t.pkg.structs[ty]
		if st == nil {
			continue
		}
		t.fields[ty] = map[string]FieldInfo{}
		for _, f := range st.Fields.List {
			ts := typeStr(f.Type)
			kind, ptr, own := classifyType(ts, t.own)
			for _, n := range f.Names {
				t.fields[ty][n.Name] = FieldInfo{name: n.Name, typ: ts, kind: kind, ptr: ptr, own: own}
			}
		}
	}
	for k, v := range regionMethods {
		t.regionRW[k] = v
	}
	t.scanTrackers()
	t.scanConds()
	return t
}

func (t *T) qual(typ, field string) string {
	if typ == t.sp.Recv || typ == "" {
		return t.sp.Name + "." + field
	}
	return t.sp.Name + "." + typ + "." + field
}

// mutability of the tracker methods is read off pubsub/tracker.go: a method that assigns
// to (or increments) a receiver field in ANY implementation is a writer.
func (t *T) scanTrackers() {
	if t.sp.Pkg != "pubsub" {
		return
	}
	for recv, ms := range t.pkg.methods {
		if !strings.Contains(recv, "Tracker") {
			continue
		}
		for name, fd := range ms {
			w := false
			ast.Inspect(fd.Body, func(n ast.Node) bool {
				switch x := n.(type) {
				case *ast.AssignStmt:
					for _, l := range x.Lhs {
						if _, ok := l.(*ast.SelectorExpr); ok {
							w = true
						}
					}
				case *ast.IncDecStmt:
					w = true
				case *ast.UnaryExpr:
					if x.Op == token.AND {
						w = true
					}
				}
				return true
			})
			if w {
				t.regionRW[name] = 'w'
			} else if t.regionRW[name] != 'w' {
				t.regionRW[name] = 'r'
			}
		}
	}
}

// which mutex a condition variable was built on: X.c = sync.NewCond(&X.m) / sync.NewCond(X.m)
func (t *T) scanConds() {
	for _, f := range t.pkg.files {
		ast.Inspect(f, func(n ast.Node) bool {
			as, ok := n.(*ast.AssignStmt)
			if !ok || len(as.Lhs) != 1 || len(as.Rhs) != 1 {
				return true
			}
			ls, ok := as.Lhs[0].(*ast.SelectorExpr)
			if !ok {
				return true
			}
			call, ok := as.Rhs[0].(*ast.CallExpr)
			if !ok || len(call.Args) != 1 || typeStr(call.Fun) != "sync.NewCond" {
				return true
			}
			arg := call.Args[0]
			if u, ok := arg.(*ast.UnaryExpr); ok && u.Op == token.AND {
				arg = u.X
			}
			if as2, ok := arg.(*ast.SelectorExpr); ok {
				for ty, fs := range t.fields {
					if fi, ok := fs[ls.Sel.Name]; ok && fi.kind == "cond" {
						if lf, ok := fs[as2.Sel.Name]; ok && lf.kind == "lock" {
							t.condLock[t.qual(ty, ls.Sel.Name)] = t.qual(ty, as2.Sel.Name)
						}
					}
				}
			}
			return true
		})
	}
}

func (t *T) newID() int { t.nextID++; return t.nextID }

func unknown(what string, n ast.Node) Instr {
	s := what
	if n != nil {
		s += ": " + src(n)
	}
	return Instr{Op: "Unknown", A: s}
}

// ---------------------------------------------------------------- running a spec

func (t *T) newState(inst, peer string) *State {
	return &State{onceR: map[string]bool{}, inst: inst, peer: peer}
}

// end of an entry: release the "once completed" holds, then Ret
func (t *T) finish(st *State) Code {
	var ins []Instr
	keys := make([]string, 0, len(st.onceR))
	for k := range st.onceR {
		keys = append(keys, k)
	}
	sort.Strings(keys)
	for _, k := range keys {
		ins = append(ins, Instr{Op: "RUnlock", A: k})
	}
	ins = append(ins, Instr{Op: "Ret"})
	return Code{ins: ins}
}

func (t *T) run() []Entry {
	var entries []Entry
	emit := func(p pending) {
		st := t.newState(p.inst, p.peer)
		t.curEntry = p.name
		root := &Frame{id: t.newID(), name: "<root>", vars: map[string]Val{}, lex: -1, pkg: t.pkg}
		st.frames = []*Frame{root}
		code := p.gen(st, func(st *State) Code { return t.finish(st) })
		if code.dead {
			code = Code{ins: []Instr{{Op: "Unknown", A: "translator: no path through " + p.name}}}
		}
		entries = append(entries, Entry{Name: p.name, Body: code.ins, Note: p.note, Escaped: p.escaped})
	}
	insts := [][2]string{{"", "'"}}
	if t.sp.Peer {
		insts = append(insts, [2]string{"'", ""})
	}
	if t.sp.Recv != "" {
		var names []string
		extra := map[string]bool{}
		for _, e := range t.sp.Extra {
			extra[e] = true
		}
		for n := range t.pkg.methods[t.sp.Recv] {
			if ast.IsExported(n) || extra[n] {
				names = append(names, n)
			}
		}
		sort.Slice(names, func(i, j int) bool {
			return t.pkg.methods[t.sp.Recv][names[i]].Pos() < t.pkg.methods[t.sp.Recv][names[j]].Pos()
		})
		for _, ip := range insts {
			for _, n := range names {
				fd := t.pkg.methods[t.sp.Recv][n]
				inst, peer := ip[0], ip[1]
				emit(pending{name: t.sp.Name + inst + "." + n, inst: inst, peer: peer, gen: func(st *State, k K) Code {
					recv := VObj{typ: t.sp.Recv, inst: inst}
					return t.callDecl(st, fd, recv, nil, true, func(st *State, v Val) Code {
						pre := t.escape(st, v, t.sp.Name+inst+"."+fd.Name.Name)
						return seq(pre, k(st))
					})
				}})
			}
		}
	}
	for _, c := range t.sp.Ctors {
		var fd *ast.FuncDecl
		name := c.Func
		if c.Recv == "" {
			fd = t.pkg.funcs[c.Func]
		} else {
			fd = t.pkg.methods[c.Recv][c.Func]
			name = c.Recv + "." + c.Func
		}
		if fd == nil {
			entries = append(entries, Entry{Name: name, Body: []Instr{{Op: "Unknown", A: "constructor not found: " + name}}})
			continue
		}
		// the constructor body runs before the closures are shared: only what escapes from it matters
		t.ctorName = name
		st := t.newState("", "'")
		t.curEntry = name
		root := &Frame{id: t.newID(), name: "<root>", vars: map[string]Val{}, lex: -1, pkg: t.pkg}
		st.frames = []*Frame{root}
		var recv Val
		if c.Recv != "" {
			recv = VUserFn{typ: c.Recv}
		}
		code := t.callDecl(st, fd, recv, nil, true, func(st *State, v Val) Code {
			pre := t.escape(st, v, name)
			return seq(pre, Code{})
		})
		for _, u := range code.ins {
			if n := countOp([]Instr{u}, "Unknown"); n > 0 {
				entries = append(entries, Entry{Name: name + ".<constructor>", Body: code.ins, Note: "the constructor itself contains something the translator does not recognise"})
				break
			}
		}
		t.drain(emit)
		t.ctorName = ""
	}
	t.drain(emit)
	// identical bodies under different names are kept once
	var out []Entry
	seen := map[string]int{}
	for _, e := range entries {
		k := renderFlat(e.Body)
		if e.Escaped {
			if i, ok := seen[k]; ok {
				out[i].Note = strings.TrimSpace(out[i].Note + " also: " + e.Name)
				continue
			}
			seen[k] = len(out)
		}
		out = append(out, e)
	}
	return out
}

func (t *T) drain(emit func(pending)) {
	done := 0
	for len(t.queue) > 0 {
		p := t.queue[0]
		t.queue = t.queue[1:]
		emit(p)
		done++
		if done > 400 {
			break
		}
	}
}

// identifiers assigned (or address-taken, or inc/dec) inside function literals of fd
func assignedInClosures(fd *ast.FuncDecl) map[string]bool {
	out := map[string]bool{}
	var inLit func(n ast.Node) bool
	inLit = func(n ast.Node) bool {
		switch x := n.(type) {
		case *ast.AssignStmt:
			if x.Tok != token.DEFINE {
				for _, l := range x.Lhs {
					if id, ok := l.(*ast.Ident); ok {
						out[id.Name] = true
					}
				}
			}
		case *ast.IncDecStmt:
			if id, ok := x.X.(*ast.Ident); ok {
				out[id.Name] = true
			}
		case *ast.UnaryExpr:
			if id, ok := x.X.(*ast.Ident); ok && x.Op == token.AND {
				out[id.Name] = true
			}
		}
		return true
	}
	ast.Inspect(fd.Body, func(n ast.Node) bool {
		if fl, ok := n.(*ast.FuncLit); ok {
			ast.Inspect(fl.Body, inLit)
			return false
		}
		return true
	})
	return out
}

// ---------------------------------------------------------------- escapes

func (t *T) enqueue(name, note string, st *State, gen func(st *State, k K) Code) {
	name = name + st.inst
	if t.enq == nil {
		t.enq = map[string]bool{}
	}
	if t.enqN == nil {
		t.enqN = map[string]int{}
	}
	t.enqN[name]++
	if n := t.enqN[name]; n > 1 {
		if n > 64 {
			return
		}
		name = fmt.Sprintf("%s#%d", name, n)
	}
	t.queue = append(t.queue, pending{escaped: true, name: name, note: note, gen: gen, inst: st.inst, peer: st.peer})
}

// escape registers everything callable inside v as a public entry; returns instructions to
// emit at the escape point (Unknown for things that must not escape).
func (t *T) escape(st *State, v Val, label string) []Instr {
	switch x := v.(type) {
	case VFunc:
		t.shareCaptured(st, x)
		fz := t.freeze(st, x)
		name := fmt.Sprintf("%s.func@L%d", label, fset.Position(x.lit.Pos()).Line)
		t.enqueue(name, "escaping closure "+src(x.lit.Type), st, func(s2 *State, k K) Code {
			return t.callVal(s2, fz, nil, func(s3 *State, r Val) Code { return seq(t.escape(s3, r, name+".ret"), k(s3)) })
		})
	case VMethod:
		if ro, ok := x.recv.(VObj); ok && x.typ == t.sp.Recv && ast.IsExported(x.decl.Name.Name) && ro.typ == t.sp.Recv {
			return nil // an exported method of the object: already a public entry
		}
		if _, ok := x.recv.(VUserFn); ok {
			return nil
		}
		name := fmt.Sprintf("%s.%s", label, x.decl.Name.Name)
		t.enqueue(name, "escaping method value", st, func(s2 *State, k K) Code {
			return t.callVal(s2, x, nil, func(s3 *State, r Val) Code { return seq(t.escape(s3, r, name+".ret"), k(s3)) })
		})
	case VWrapped:
		name := fmt.Sprintf("%s.WithLock(%s)", label, x.lock.name)
		inner := x
		if f, ok := x.inner.(VFunc); ok {
			t.shareCaptured(st, f)
			inner.inner = t.freeze(st, f)
		}
		t.enqueue(name, "escaping function wrapped by WithLock/Lock", st, func(s2 *State, k K) Code {
			return t.callVal(s2, inner, nil, func(s3 *State, r Val) Code { return seq(t.escape(s3, r, name+".ret"), k(s3)) })
		})
	case VRegionFn:
		name := fmt.Sprintf("%s.%s", label, x.desc)
		t.enqueue(name, "escaping closure that captures the region of "+x.field, st, func(s2 *State, k K) Code {
			return t.callVal(s2, x, nil, func(s3 *State, r Val) Code { return k(s3) })
		})
	case VRegionSel:
		if regionPlainMembers[x.name] {
			return nil
		}
		if c, ok := t.regionRW[x.name]; ok && (c == 'r' || c == 'w') {
			return t.escape(st, VRegionFn{field: x.field, write: c == 'w', desc: x.name}, label)
		}
		return []Instr{{Op: "Unknown", A: "member of a guarded field escapes: " + x.field + "." + x.name}}
	case VRegion:
		if x.ref {
			return []Instr{{Op: "Unknown", A: "reference stored in guarded field escapes: " + x.field}}
		}
	case VRegionPtr:
		key := t.curEntry + ":&" + x.field
		if why, ok := excludedEscapes[key]; ok {
			return []Instr{{Op: "Atomic", A: x.field, Comment: "EXCLUDED ESCAPE -- " + why}}
		}
		return []Instr{{Op: "Unknown", A: "pointer to guarded field escapes: &" + x.field}}
	case VStruct:
		var out []Instr
		for i, e := range x.vals {
			n := fmt.Sprint(i)
			if i < len(x.names) && x.names[i] != "" {
				n = x.names[i]
			}
			out = append(out, t.escape(st, e, label+"."+n)...)
		}
		return out
	case VTuple:
		var out []Instr
		for _, e := range x {
			out = append(out, t.escape(st, e, label)...)
		}
		return out
	case VLock:
		if strings.HasPrefix(label, t.sp.Name) && t.sp.Recv != "" && !x.optional {
			return []Instr{{Op: "Unknown", A: "mutex escapes: " + x.name}}
		}
	case VCond:
		return []Instr{{Op: "Unknown", A: "condition variable escapes: " + x.name}}
	case VObj:
		if x.typ != t.sp.Recv {
			return []Instr{{Op: "Unknown", A: "internal node escapes: " + x.typ}}
		}
	case VFnSel:
		return t.escape(st, x.base, label)
	}
	return nil
}

func (t *T) freeze(st *State, f VFunc) VFunc {
	if f.snap == nil {
		if fr := st.frameByID(f.lexID); fr != nil {
			f.snap = st.snapshot(fr)
		}
	}
	return f
}

func (t *T) freezeVal(st *State, v Val, fr *Frame) Val {
	switch x := v.(type) {
	case VFunc:
		if x.snap == nil && st.frameByID(x.lexID) != nil {
			x.snap = st.snapshot(st.frameByID(x.lexID))
		}
		return x
	case VWrapped:
		x.inner = t.freezeVal(st, x.inner, fr)
		return x
	case VStruct:
		n := VStruct{names: x.names, vals: make([]Val, len(x.vals))}
		for i, e := range x.vals {
			n.vals[i] = t.freezeVal(st, e, fr)
		}
		return n
	case VTuple:
		n := make(VTuple, len(x))
		for i, e := range x {
			n[i] = t.freezeVal(st, e, fr)
		}
		return n
	case VFnSel:
		x.base = t.freezeVal(st, x.base, fr)
		return x
	}
	return v
}

// ---------------------------------------------------------------- accesses

// refLike: a value of this declared type aliases the data it refers to
func refLike(ts string) bool {
	return strings.HasPrefix(ts, "*") || strings.HasPrefix(ts, "[]") || strings.HasPrefix(ts, "map[") || strings.HasPrefix(ts, "Map[") || strings.HasPrefix(ts, "dt.Map[")
}

func acc(field string, w bool) Instr {
	if w {
		return Instr{Op: "Acc", A: field, B: "W"}
	}
	return Instr{Op: "Acc", A: field, B: "R"}
}

func (t *T) lockOfCond(c VCond) string {
	base := strings.TrimSuffix(c.name, "'")
	suffix := c.name[len(base):]
	if l, ok := t.condLock[base]; ok {
		return l + suffix
	}
	return "?lock-of-" + c.name
}

// ---------------------------------------------------------------- calls of declared functions

func (t *T) bindParams(st *State, fr *Frame, ft *ast.FuncType, args []Val, entry bool) {
	i := 0
	if ft.Params != nil {
		for _, p := range ft.Params.List {
			ts := typeStr(p.Type)
			names := p.Names
			if len(names) == 0 {
				i++
				continue
			}
			for _, n := range names {
				var v Val = VOpaque{}
				if i < len(args) && args[i] != nil {
					v = args[i]
				}
				if ell, isEll := p.Type.(*ast.Ellipsis); isEll {
					v = t.zeroOf(st, typeStr(ell.Elt), n.Name, false)
				}
				if isOpaque(v) {
					v = t.zeroOf(st, ts, n.Name, true)
				}
				if f, ok := v.(VFresh); ok {
					v = t.nameFresh(f, n.Name)
				}
				if n.Name != "_" {
					fr.vars[n.Name] = v
				}
				i++
			}
		}
	}
	if ft.Results != nil {
		for _, r := range ft.Results.List {
			for _, n := range r.Names {
				if n.Name != "_" {
					fr.results = append(fr.results, n.Name)
					if _, ok := fr.vars[n.Name]; !ok {
						fr.vars[n.Name] = VOpaque{}
					}
				} else {
					fr.results = append(fr.results, "")
				}
			}
		}
	}
}

// value of a variable declared with a type and no initialiser / of a parameter supplied by the client
func (t *T) zeroOf(st *State, ts, name string, param bool) Val {
	kind, _, own := classifyType(ts, t.own)
	switch kind {
	case "own":
		if param && own == t.sp.Recv {
			return VObj{typ: own, inst: st.peer} // another instance handed in by the caller
		}
		return VObj{typ: own, inst: st.inst}
	case "lock":
		if param && t.ctorName != "" {
			return VLock{name: t.ctorName + "." + name}
		}
	}
	return VOpaque{}
}

func (t *T) nameFresh(f VFresh, name string) Val {
	prefix := t.sp.Name
	if t.ctorName != "" {
		prefix = t.ctorName
	}
	q := prefix + "." + name
	switch f.kind {
	case "lock":
		return VLock{name: q}
	case "once":
		return VOnce{name: q}
	case "safe":
		return VSafe{field: q}
	}
	return VOpaque{}
}

func (t *T) callDecl(st *State, fd *ast.FuncDecl, recv Val, args []Val, entry bool, k KV) Code {
	return t.callDeclIn(st, t.pkg, fd, recv, args, k)
}

func (t *T) callDeclIn(st *State, pkg *Pkg, fd *ast.FuncDecl, recv Val, args []Val, k KV) Code {
	if len(st.frames) > 40 {
		return one(Instr{Op: "Unknown", A: "call depth exceeded (recursion?) at " + fd.Name.Name}, k(st, VOpaque{}))
	}
	return t.joinKV(st, func(s *State, kk KV) Code {
		fr := &Frame{id: t.newID(), name: fd.Name.Name, vars: map[string]Val{}, lex: -1, pkg: pkg, body: fd.Body}
		if t.ctorName != "" {
			fr.shared = assignedInClosures(fd)
		}
		if fd.Recv != nil && len(fd.Recv.List) > 0 && len(fd.Recv.List[0].Names) > 0 && recv != nil {
			fr.vars[fd.Recv.List[0].Names[0].Name] = recv
		}
		t.bindParams(s, fr, fd.Type, args, true)
		return t.runBody(s, fr, fd.Body, kk)
	}, k)
}

func (t *T) callLit(st *State, f VFunc, args []Val, k KV) Code {
	if len(st.frames) > 40 {
		return one(Instr{Op: "Unknown", A: "call depth exceeded (recursion?)"}, k(st, VOpaque{}))
	}
	pkg := f.pkg
	if pkg == nil {
		pkg = t.pkg
	}
	var pre []Instr
	if f.once != "" && st.insideOnce != f.once && !st.onceR[f.once] {
		// a closure created inside a once body runs only after that once completed
		st.onceR[f.once] = true
		pre = []Instr{{Op: "RLock", A: f.once, Comment: "closure created inside the once body: runs after it completed"}}
	}
	return seq(pre, t.joinKV(st, func(s *State, kk KV) Code {
		fr := &Frame{id: t.newID(), name: "func", vars: map[string]Val{}, lex: f.lexID, lexSnap: f.snap, pkg: pkg, body: f.lit.Body}
		t.bindParams(s, fr, f.lit.Type, args, false)
		return t.runBody(s, fr, f.lit.Body, kk)
	}, k))
}

func (t *T) runBody(st *State, fr *Frame, body *ast.BlockStmt, k KV) Code {
	depthCtl := len(st.ctl)
	fr.kret = func(s2 *State, vals []Val) Code {
		s2.ctl = s2.ctl[:min(depthCtl, len(s2.ctl))]
		switch len(vals) {
		case 0:
			return k(s2, VOpaque{})
		case 1:
			return k(s2, vals[0])
		}
		return k(s2, VTuple(vals))
	}
	st.frames = append(st.frames, fr)
	// break/continue do not cross function boundaries
	saved := st.ctl
	st.ctl = append(append([]Ctl(nil), saved...), Ctl{})
	_ = saved
	return t.stmts(st, body.List, func(s2 *State) Code { return t.doReturn(s2, nil, nil) })
}

func min(a, b int) int {
	if a < b {
		return a
	}
	return b
}

// doReturn: bind named results, run the deferred calls (newest first), pop the frame, continue in the caller.
func (t *T) doReturn(st *State, vals []Val, at ast.Node) Code {
	fr := st.top()
	if len(vals) == 1 {
		if tu, ok := vals[0].(VTuple); ok && len(fr.results) > 1 {
			vals = tu
		}
	}
	if len(fr.results) > 0 && len(vals) > 0 {
		for i, n := range fr.results {
			if n != "" && i < len(vals) {
				fr.vars[n] = vals[i]
			}
		}
	}
	var runDefers func(s2 *State) Code
	runDefers = func(s2 *State) Code {
		f := s2.top()
		if len(f.defers) == 0 {
			out := vals
			if len(f.results) > 0 {
				named := false
				for _, n := range f.results {
					if n != "" {
						named = true
					}
				}
				if named {
					out = make([]Val, len(f.results))
					for i, n := range f.results {
						if n != "" {
							out[i] = f.vars[n]
						} else if i < len(vals) {
							out[i] = vals[i]
						} else {
							out[i] = VOpaque{}
						}
					}
				}
			}
			for i := range out {
				out[i] = t.freezeVal(s2, out[i], f)
			}
			s2.frames = s2.frames[:len(s2.frames)-1]
			return f.kret(s2, out)
		}
		d := f.defers[len(f.defers)-1]
		f.defers = f.defers[:len(f.defers)-1]
		return d.run(s2, runDefers)
	}
	return runDefers(st)
}

// ---------------------------------------------------------------- statements

func (t *T) stmts(st *State, list []ast.Stmt, k K) Code {
	if len(list) == 0 {
		return k(st)
	}
	c := t.stmt(st, list[0], func(s2 *State) Code { return t.stmts(s2, list[1:], k) })
	if os.Getenv("TRDEBUG") == "2" && strings.HasPrefix(t.curEntry, "Deque.WaitFront") {
		fmt.Fprintf(os.Stderr, "stmt[%d frames] %s => dead=%v n=%d\n", len(st.frames), src(list[0]), c.dead, len(c.ins))
	}
	return c
}

type Arm func(st *State, k K) Code

// joinKV runs body with a probing continuation.  If every way out of body that reaches the
// continuation does so in tail position and with the same abstract state and value, the
// real continuation is emitted ONCE after the body; otherwise body is re-run with the real
// continuation, which is then duplicated into every path (always correct, only larger).
func (t *T) joinKV(st *State, body func(*State, KV) Code, k KV) Code {
	id := fmt.Sprintf("J%d", t.newID())
	var fps []string
	var sts []*State
	var vals []Val
	c := body(st.copy(), func(s2 *State, v Val) Code {
		fps = append(fps, s2.fingerprint()+"|"+showVal(v))
		sts = append(sts, s2)
		vals = append(vals, v)
		return Code{ins: []Instr{{Op: "JOIN", A: id}}}
	})
	if c.dead {
		return deadCode
	}
	if len(fps) == 0 {
		return c // nothing falls through
	}
	same := true
	for _, f := range fps {
		if f != fps[0] {
			same = false
		}
	}
	if same {
		if stripped, n, ok := stripTail(c.ins, id); ok && n == countJoin(c.ins, id) {
			rest := k(sts[0], vals[0])
			if !rest.dead {
				return seq(stripped, rest)
			}
			// the continuation is pruned: only the paths through it die, not the exits
		}
	}
	return body(st, k)
}

func countJoin(l []Instr, id string) int {
	n := 0
	for _, i := range l {
		if i.Op == "JOIN" && i.A == id {
			n++
		}
		n += countJoin(i.P, id) + countJoin(i.Q, id)
	}
	return n
}

// stripTail removes the JOIN markers that sit in tail position; ok is false if some path
// falls off the end without one (and without a Ret).
func stripTail(l []Instr, id string) ([]Instr, int, bool) {
	if len(l) == 0 {
		return l, 0, false
	}
	last := l[len(l)-1]
	switch last.Op {
	case "JOIN":
		if last.A == id {
			return l[:len(l)-1], 1, true
		}
		return l, 0, false
	case "Ret":
		return l, 0, true
	case "Choice":
		p, np, okp := stripTail(last.P, id)
		q, nq, okq := stripTail(last.Q, id)
		if !okp || !okq {
			return l, 0, false
		}
		out := append([]Instr(nil), l[:len(l)-1]...)
		nl := last
		nl.P, nl.Q = p, q
		return append(out, nl), np + nq, true
	}
	return l, 0, false
}

func (t *T) branch(st *State, arms []Arm, k K) Code {
	return t.joinKV(st, func(s *State, kk KV) Code {
		var alts []Code
		for _, a := range arms {
			alts = append(alts, a(s.copy(), func(s2 *State) Code { return kk(s2, nil) }))
		}
		return choiceOf(alts)
	}, func(s *State, _ Val) Code { return k(s) })
}

func (t *T) stmt(st *State, s ast.Stmt, k K) Code {
	switch x := s.(type) {
	case nil:
		return k(st)
	case *ast.EmptyStmt:
		return k(st)
	case *ast.BlockStmt:
		return t.stmts(st, x.List, k)
	case *ast.ExprStmt:
		return t.expr(st, x.X, func(s2 *State, _ Val) Code { return k(s2) })
	case *ast.SendStmt:
		return t.expr(st, x.Chan, func(s2 *State, ch Val) Code {
			return t.expr(s2, x.Value, func(s3 *State, v Val) Code {
				pre := t.escape(s3, v, t.curEntry+".sent")
				if sf, ok := ch.(VSafe); ok {
					pre = append(pre, Instr{Op: "Atomic", A: sf.field, Comment: "channel send"})
				}
				return seq(pre, k(s3))
			})
		})
	case *ast.IncDecStmt:
		return t.assignTo(st, x.X, VOpaque{}, false, true, k)
	case *ast.AssignStmt:
		return t.assign(st, x, k)
	case *ast.DeclStmt:
		gd, ok := x.Decl.(*ast.GenDecl)
		if !ok || gd.Tok != token.VAR {
			return k(st)
		}
		var specsL []*ast.ValueSpec
		for _, sp := range gd.Specs {
			if vs, ok := sp.(*ast.ValueSpec); ok {
				specsL = append(specsL, vs)
			}
		}
		var doSpec func(s2 *State, i int) Code
		doSpec = func(s2 *State, i int) Code {
			if i == len(specsL) {
				return k(s2)
			}
			vs := specsL[i]
			if len(vs.Values) > 0 {
				return t.exprs(s2, vs.Values, func(s3 *State, vals []Val) Code {
					vals = spread(vals, len(vs.Names))
					for j, n := range vs.Names {
						t.defineVar(s3, n.Name, vals[j])
					}
					return doSpec(s3, i+1)
				})
			}
			for _, n := range vs.Names {
				t.defineVar(s2, n.Name, t.zeroOf(s2, typeStr(vs.Type), n.Name, false))
			}
			return doSpec(s2, i+1)
		}
		return doSpec(st, 0)
	case *ast.ReturnStmt:
		return t.exprs(st, x.Results, func(s2 *State, vals []Val) Code { return t.doReturn(s2, vals, x) })
	case *ast.IfStmt:
		return t.stmt(st, x.Init, func(s2 *State) Code {
			return t.expr(s2, x.Cond, func(s3 *State, c Val) Code {
				thenArm := func(s4 *State, k2 K) Code { return t.stmts(s4, x.Body.List, k2) }
				elseArm := func(s4 *State, k2 K) Code { return t.stmt(s4, x.Else, k2) }
				if pub := t.publicationTest(s3, x.Cond); pub != "" && x.Else == nil {
					// `if a.CompareAndSwap(v, v) { return cached }`: the fast path of limitExec (rule 11)
					thenArm = func(s4 *State, k2 K) Code {
						saved := s4.published
						s4.published = pub
						return t.stmts(s4, x.Body.List, func(s5 *State) Code { s5.published = saved; return k2(s5) })
					}
				}
				if ei, ok := x.Else.(*ast.IfStmt); ok && ei.Init == nil && complementary(x.Cond, ei.Cond) {
					// `if a != b {..} else if a == b {..}`: the second test is exhaustive (it is evaluated
					// right after the first one, with no statement in between)
					elseArm = func(s4 *State, k2 K) Code {
						return t.expr(s4, ei.Cond, func(s5 *State, _ Val) Code { return t.stmts(s5, ei.Body.List, k2) })
					}
				}
				switch c.(type) {
				case VTrue:
					return thenArm(s3, k)
				case VFalse:
					return elseArm(s3, k)
				}
				return t.branch(s3, []Arm{thenArm, elseArm}, k)
			})
		})
	case *ast.ForStmt:
		return t.stmt(st, x.Init, func(s2 *State) Code {
			cond := func(s3 *State, k2 K) Code {
				if x.Cond == nil {
					return k2(s3)
				}
				return t.expr(s3, x.Cond, func(s4 *State, _ Val) Code { return k2(s4) })
			}
			post := func(s3 *State, k2 K) Code { return t.stmt(s3, x.Post, k2) }
			return t.loop(s2, cond, x.Cond != nil, x.Body.List, post, k)
		})
	case *ast.RangeStmt:
		return t.expr(st, x.X, func(s2 *State, _ Val) Code {
			if id, ok := x.Key.(*ast.Ident); ok && x.Tok == token.DEFINE && id.Name != "_" {
				s2.define(id.Name, VOpaque{})
			}
			if id, ok := x.Value.(*ast.Ident); ok && x.Tok == token.DEFINE && id.Name != "_" {
				s2.define(id.Name, VOpaque{})
			}
			nop := func(s3 *State, k2 K) Code { return k2(s3) }
			return t.loop(s2, nop, true, x.Body.List, nop, k)
		})
	case *ast.SwitchStmt:
		return t.stmt(st, x.Init, func(s2 *State) Code {
			return t.expr(s2, x.Tag, func(s3 *State, _ Val) Code {
				return t.switchClauses(s3, x.Body.List, k)
			})
		})
	case *ast.TypeSwitchStmt:
		return t.stmt(st, x.Init, func(s2 *State) Code {
			return t.stmt(s2, x.Assign, func(s3 *State) Code { return t.switchClauses(s3, x.Body.List, k) })
		})
	case *ast.SelectStmt:
		var arms []Arm
		for _, c := range x.Body.List {
			cc := c.(*ast.CommClause)
			arms = append(arms, func(s2 *State, k2 K) Code {
				s2.ctl = append(s2.ctl, Ctl{kBreak: func(s3 *State) Code { s3.ctl = s3.ctl[:len(s3.ctl)-1]; return k2(s3) }})
				return t.stmt(s2, cc.Comm, func(s3 *State) Code {
					return t.stmts(s3, cc.Body, func(s4 *State) Code { s4.ctl = s4.ctl[:len(s4.ctl)-1]; return k2(s4) })
				})
			})
		}
		if len(arms) == 0 {
			return one(unknown("empty select", x), k(st))
		}
		return t.branch(st, arms, k)
	case *ast.BranchStmt:
		if x.Label != nil {
			return one(unknown("labelled branch", x), k(st))
		}
		switch x.Tok {
		case token.BREAK:
			for i := len(st.ctl) - 1; i >= 0; i-- {
				if st.ctl[i].kBreak != nil {
					kb := st.ctl[i].kBreak
					st.ctl = st.ctl[:i+1]
					return kb(st)
				}
				if st.ctl[i].kBreak == nil && st.ctl[i].kContinue == nil && !st.ctl[i].isLoop {
					break
				}
			}
		case token.CONTINUE:
			for i := len(st.ctl) - 1; i >= 0; i-- {
				if st.ctl[i].isLoop {
					kc := st.ctl[i].kContinue
					st.ctl = st.ctl[:i+1]
					return kc(st)
				}
				if st.ctl[i].kBreak == nil && st.ctl[i].kContinue == nil {
					break
				}
			}
		}
		return one(unknown("branch statement", x), k(st))
	case *ast.DeferStmt:
		return t.deferCall(st, x.Call, k)
	case *ast.GoStmt:
		return t.goStmt(st, x, k)
	case *ast.LabeledStmt:
		return one(unknown("labelled statement", x), k(st))
	}
	return one(unknown("statement", s), k(st))
}

// publicationTest: cond is `<atomic>.CompareAndSwap(v, v)` (same text twice) on a trusted atomic:
// a pure test "the atomic holds v".  Returns the name of the atomic.
func (t *T) publicationTest(st *State, cond ast.Expr) string {
	c, ok := cond.(*ast.CallExpr)
	if !ok || len(c.Args) != 2 || typeStr(c.Args[0]) != typeStr(c.Args[1]) {
		return ""
	}
	sel, ok := c.Fun.(*ast.SelectorExpr)
	if !ok || sel.Sel.Name != "CompareAndSwap" {
		return ""
	}
	id, ok := sel.X.(*ast.Ident)
	if !ok {
		return ""
	}
	if v, ok := st.lookup(id.Name); ok {
		if sf, ok := v.(VSafe); ok {
			return sf.field
		}
	}
	return ""
}

// complementary: a and b are textually the same comparison with == and != exchanged, or b is !a.
func complementary(a, b ast.Expr) bool {
	ba, ok1 := a.(*ast.BinaryExpr)
	bb, ok2 := b.(*ast.BinaryExpr)
	if ok1 && ok2 {
		if (ba.Op == token.EQL && bb.Op == token.NEQ) || (ba.Op == token.NEQ && bb.Op == token.EQL) {
			return typeStr(ba.X) == typeStr(bb.X) && typeStr(ba.Y) == typeStr(bb.Y)
		}
		return false
	}
	if ub, ok := b.(*ast.UnaryExpr); ok && ub.Op == token.NOT {
		return typeStr(ub.X) == typeStr(a)
	}
	if ua, ok := a.(*ast.UnaryExpr); ok && ua.Op == token.NOT {
		return typeStr(ua.X) == typeStr(b)
	}
	return false
}

func spread(vals []Val, n int) []Val {
	if len(vals) == 1 && n > 1 {
		if tu, ok := vals[0].(VTuple); ok {
			vals = tu
		}
	}
	out := make([]Val, n)
	for i := range out {
		if i < len(vals) && vals[i] != nil {
			out[i] = vals[i]
		} else {
			out[i] = VOpaque{}
		}
	}
	return out
}

func (t *T) defineVar(st *State, name string, v Val) {
	if name == "_" {
		return
	}
	if f, ok := v.(VFresh); ok {
		v = t.nameFresh(f, name)
	}
	if st.top().shared[name] {
		switch v.(type) {
		case VLock, VOnce, VSafe, VCond:
		default:
			v = VCell{name: t.ctorName + "." + name}
		}
	}
	st.define(name, v)
}

func (t *T) switchClauses(st *State, clauses []ast.Stmt, k K) Code {
	var def *ast.CaseClause
	var cs []*ast.CaseClause
	for _, c := range clauses {
		cc := c.(*ast.CaseClause)
		if cc.List == nil {
			def = cc
		} else {
			cs = append(cs, cc)
		}
	}
	withBreak := func(s *State, body []ast.Stmt, k2 K) Code {
		s.ctl = append(s.ctl, Ctl{kBreak: func(s3 *State) Code { s3.ctl = s3.ctl[:len(s3.ctl)-1]; return k2(s3) }})
		return t.stmts(s, body, func(s4 *State) Code { s4.ctl = s4.ctl[:len(s4.ctl)-1]; return k2(s4) })
	}
	var chain func(s *State, i int, k2 K) Code
	chain = func(s *State, i int, k2 K) Code {
		if i == len(cs) {
			if def != nil {
				return withBreak(s, def.Body, k2)
			}
			return k2(s)
		}
		cc := cs[i]
		// case expressions are evaluated (type expressions in a type switch have no effect)
		return t.exprs(s, cc.List, func(s2 *State, _ []Val) Code {
			return t.branch(s2, []Arm{
				func(s3 *State, k3 K) Code { return withBreak(s3, cc.Body, k3) },
				func(s3 *State, k3 K) Code { return chain(s3, i+1, k3) },
			}, k2)
		})
	}
	return chain(st, 0, k)
}

// loop: complete iterations (exits pruned) followed by either the normal exit or one
// final partial iteration that takes one of the exits (return / break).
func (t *T) loop(st *State, cond func(*State, K) Code, hasCond bool, body []ast.Stmt, post func(*State, K) Code, k K) Code {
	return t.joinKV(st, func(s *State, kk KV) Code {
		return t.loopRaw(s, cond, hasCond, body, post, func(s2 *State) Code { return kk(s2, nil) })
	}, func(s *State, _ Val) Code { return k(s) })
}

func (t *T) loopRaw(st *State, cond func(*State, K) Code, hasCond bool, body []ast.Stmt, post func(*State, K) Code, k K) Code {
	dead := func(*State) Code { return deadCode }
	// complete iterations
	sFull := st.copy()
	for _, f := range sFull.frames {
		f.kret = func(*State, []Val) Code { return deadCode }
	}
	onceBefore := map[string]bool{}
	for o := range st.onceR {
		onceBefore[o] = true
	}
	endIter := func(s2 *State) Code {
		return post(s2, func(s3 *State) Code {
			var ins []Instr
			var ks []string
			for o := range s3.onceR {
				if !onceBefore[o] {
					ks = append(ks, o)
				}
			}
			sort.Strings(ks)
			for _, o := range ks {
				ins = append(ins, Instr{Op: "RUnlock", A: o})
			}
			return Code{ins: ins}
		})
	}
	sFull.ctl = append(sFull.ctl, Ctl{isLoop: true, kBreak: dead, kContinue: endIter})
	full := cond(sFull, func(s2 *State) Code { return t.stmts(s2, body, endIter) })
	// final partial iteration
	sFin := st.copy()
	depth := len(sFin.ctl)
	sFin.ctl = append(sFin.ctl, Ctl{isLoop: true, kContinue: dead, kBreak: func(s2 *State) Code { s2.ctl = s2.ctl[:depth]; return k(s2) }})
	fin := cond(sFin, func(s2 *State) Code { return t.stmts(s2, body, dead) })
	// normal exit: the condition is evaluated once more and fails
	var alts []Code
	if hasCond {
		alts = append(alts, cond(st.copy(), k))
	}
	alts = append(alts, fin)
	after := choiceOf(alts)
	if os.Getenv("TRDEBUG") != "" {
		fmt.Fprintf(os.Stderr, "loop in %s: full.dead=%v fin.dead=%v hasCond=%v after.dead=%v frames=%d\n", t.curEntry, full.dead, fin.dead, hasCond, after.dead, len(st.frames))
	}
	var pre []Instr
	if !full.dead && len(full.ins) > 0 {
		pre = []Instr{{Op: "Loop", P: full.ins}}
	}
	if after.dead {
		if full.dead {
			return deadCode
		}
		// a loop that is never left
		return Code{ins: append(pre, Instr{Op: "Ret", Comment: "loop without exit"})}
	}
	return seq(pre, after)
}

// ---------------------------------------------------------------- assignment

func (t *T) assign(st *State, x *ast.AssignStmt, k K) Code {
	define := x.Tok == token.DEFINE
	opAssign := x.Tok != token.ASSIGN && x.Tok != token.DEFINE
	return t.exprs(st, x.Rhs, func(s2 *State, vals []Val) Code {
		vals = spread(vals, len(x.Lhs))
		var do func(s3 *State, i int) Code
		do = func(s3 *State, i int) Code {
			if i == len(x.Lhs) {
				return k(s3)
			}
			return t.assignTo(s3, x.Lhs[i], vals[i], define, opAssign, func(s4 *State) Code { return do(s4, i+1) })
		}
		return do(s2, 0)
	})
}

// assignTo: write v to the location denoted by lhs (readFirst for x += v, x++).
func (t *T) assignTo(st *State, lhs ast.Expr, v Val, define, readFirst bool, k K) Code {
	switch x := lhs.(type) {
	case *ast.Ident:
		if x.Name == "_" {
			return k(st)
		}
		old, found := st.lookup(x.Name)
		if define && !found {
			t.defineVar(st, x.Name, v)
			return k(st)
		}
		if define {
			// := redeclares in the current scope unless the name is already in this frame
			if _, here := st.top().vars[x.Name]; !here {
				t.defineVar(st, x.Name, v)
				return k(st)
			}
		}
		if c, ok := old.(VCell); ok {
			var ins []Instr
			if readFirst {
				ins = append(ins, acc(c.name, false))
			}
			ins = append(ins, acc(c.name, true))
			return seq(ins, k(st))
		}
		if f, ok := v.(VFresh); ok {
			v = t.nameFresh(f, x.Name)
		}
		if !found || !st.assign(x.Name, v) {
			st.define(x.Name, v)
		}
		return k(st)
	case *ast.ParenExpr:
		return t.assignTo(st, x.X, v, define, readFirst, k)
	case *ast.SelectorExpr:
		return t.expr(st, x.X, func(s2 *State, base Val) Code {
			var ins []Instr
			switch b := base.(type) {
			case VObj:
				fi, ok := t.fields[b.typ][x.Sel.Name]
				if !ok {
					return one(unknown("assignment to unknown field", x), k(s2))
				}
				q := t.qual(b.typ, fi.name) + b.inst
				if readFirst {
					ins = append(ins, acc(q, false))
				}
				ins = append(ins, acc(q, true))
				switch v.(type) {
				case VObj, VLock, VCond, VOnce, VRegion, VRegionSel:
					// a pointer stored inside the object does not leave it
				default:
					ins = append(ins, t.escape(s2, v, q+"=")...)
				}
			case VRegion:
				ins = append(ins, acc(b.field, true))
			case VRegionSel:
				ins = append(ins, acc(b.field, true))
			case VCell:
				ins = append(ins, acc(b.name, true))
			case VSafe, VSafeSel:
				ins = append(ins, unknown("plain assignment into a concurrent primitive", x))
			default:
				// a field of a local value
			}
			return seq(ins, k(s2))
		})
	case *ast.IndexExpr:
		return t.expr(st, x.X, func(s2 *State, base Val) Code {
			return t.expr(s2, x.Index, func(s3 *State, _ Val) Code {
				var ins []Instr
				switch b := base.(type) {
				case VRegion:
					ins = append(ins, acc(b.field, true))
				case VRegionSel:
					ins = append(ins, acc(b.field, true))
				case VCell:
					ins = append(ins, acc(b.name, true))
				}
				return seq(ins, k(s3))
			})
		})
	case *ast.StarExpr:
		return t.expr(st, x.X, func(s2 *State, base Val) Code {
			var ins []Instr
			switch b := base.(type) {
			case VRegion:
				ins = append(ins, acc(b.field, true))
			case VRegionPtr:
				ins = append(ins, acc(b.field, true))
			case VObj:
				ins = append(ins, unknown("assignment through pointer to the object", x))
			}
			return seq(ins, k(s2))
		})
	}
	return one(unknown("assignment target", lhs), k(st))
}

// ---------------------------------------------------------------- defer / go

func (t *T) deferCall(st *State, call *ast.CallExpr, k K) Code {
	// the function value and the arguments are evaluated now, the call happens at return
	return t.evalCallee(st, call, func(s2 *State, callee Val, args []Val, builtin string) Code {
		d := &Deferred{id: t.newID()}
		d.run = func(s3 *State, k2 K) Code {
			if builtin != "" {
				return t.callBuiltin(s3, builtin, call, args, func(s4 *State, _ Val) Code { return k2(s4) })
			}
			return t.callVal(s3, callee, args, func(s4 *State, _ Val) Code { return k2(s4) })
		}
		s2.top().defers = append(s2.top().defers, d)
		return k(s2)
	})
}

func isDoneRecv(s ast.Stmt) bool {
	es, ok := s.(*ast.ExprStmt)
	if !ok {
		return false
	}
	u, ok := es.X.(*ast.UnaryExpr)
	if !ok || u.Op != token.ARROW {
		return false
	}
	c, ok := u.X.(*ast.CallExpr)
	if !ok {
		return false
	}
	sel, ok := c.Fun.(*ast.SelectorExpr)
	return ok && sel.Sel.Name == "Done"
}

func (t *T) goStmt(st *State, g *ast.GoStmt, k K) Code {
	// idiom: go func() { <-ctx.Done(); c.Broadcast() }()
	if fl, ok := g.Call.Fun.(*ast.FuncLit); ok && len(g.Call.Args) == 0 && len(fl.Body.List) == 2 && isDoneRecv(fl.Body.List[0]) {
		if es, ok := fl.Body.List[1].(*ast.ExprStmt); ok {
			if c, ok := es.X.(*ast.CallExpr); ok {
				if sel, ok := c.Fun.(*ast.SelectorExpr); ok && sel.Sel.Name == "Broadcast" && len(c.Args) == 0 {
					probe := st.copy()
					var cv Val
					pc := t.expr(probe, sel.X, func(_ *State, v Val) Code { cv = v; return Code{} })
					if cond, ok := cv.(VCond); ok && len(pc.ins) == 0 && !pc.dead {
						return one(Instr{Op: "CtxWaker", A: cond.name, Comment: src(g)}, k(st))
					}
				}
			}
		}
	}
	return t.evalCallee(st, g.Call, func(s2 *State, callee Val, args []Val, builtin string) Code {
		if builtin != "" {
			return one(unknown("go builtin", g), k(s2))
		}
		// the goroutine: same lexical environment, nothing to return to, no lock held
		if f, ok := callee.(VFunc); ok {
			t.shareCaptured(s2, f)
		}
		sp := s2.copy()
		sp.onceR = map[string]bool{}
		sp.ctl = nil
		for _, f := range sp.frames {
			f.defers = nil
			f.kret = func(*State, []Val) Code { return deadCode }
		}
		body := t.callVal(sp, callee, args, func(s3 *State, _ Val) Code { return t.finish(s3) })
		if body.dead {
			body = Code{ins: []Instr{{Op: "Unknown", A: "goroutine without a path: " + src(g)}}}
		}
		return one(Instr{Op: "Spawn", P: body.ins, Comment: "go " + src(g.Call.Fun)}, k(s2))
	})
}

// ---------------------------------------------------------------- expressions

func (t *T) exprs(st *State, es []ast.Expr, k func(*State, []Val) Code) Code {
	vals := make([]Val, 0, len(es))
	var do func(s *State, i int, acc []Val) Code
	do = func(s *State, i int, acc []Val) Code {
		if i == len(es) {
			return k(s, acc)
		}
		return t.expr(s, es[i], func(s2 *State, v Val) Code {
			return do(s2, i+1, append(append([]Val(nil), acc...), v))
		})
	}
	return do(st, 0, vals)
}

var builtins = map[string]bool{"len": true, "cap": true, "delete": true, "append": true, "copy": true, "make": true, "new": true,
	"panic": true, "close": true, "min": true, "max": true, "any": true, "int": true, "int64": true, "float64": true, "uint64": true,
	"string": true, "error": true, "recover": true, "print": true, "println": true, "int32": true, "uint": true, "bool": true, "clear": true}

func (t *T) expr(st *State, e ast.Expr, k KV) Code {
	switch x := e.(type) {
	case nil:
		return k(st, VOpaque{})
	case *ast.BasicLit:
		return k(st, VOpaque{})
	case *ast.Ident:
		if v, ok := st.lookup(x.Name); ok {
			if c, ok := v.(VCell); ok {
				if st.published != "" {
					return one(Instr{Op: "Atomic", A: c.name, Comment: "TRUSTED publication: read of " + c.name + " after " + st.published + ".CompareAndSwap(x, x) observed the final value of the atomic (not checked by the lockset argument)"}, k(st, VOpaque{}))
				}
				return one(acc(c.name, false), k(st, VOpaque{}))
			}
			return k(st, v)
		}
		if _, ok := st.top().pkg.funcs[x.Name]; ok {
			return k(st, VPkgFunc{pkg: st.top().pkg.name, name: x.Name})
		}
		return k(st, VOpaque{})
	case *ast.ParenExpr:
		return t.expr(st, x.X, k)
	case *ast.FuncLit:
		return k(st, VFunc{lit: x, lexID: st.top().id, once: st.insideOnce, pkg: st.top().pkg})
	case *ast.CompositeLit:
		return t.compositeLit(st, x, k)
	case *ast.UnaryExpr:
		return t.expr(st, x.X, func(s2 *State, v Val) Code {
			switch x.Op {
			case token.AND:
				switch r := v.(type) {
				case VRegion:
					return k(s2, VRegionPtr{field: r.field})
				case VLock, VFresh, VStruct, VObj, VSafe, VCond, VOnce:
					return k(s2, v)
				}
				return k(s2, VOpaque{})
			case token.ARROW:
				if sf, ok := v.(VSafe); ok {
					return one(Instr{Op: "Atomic", A: sf.field, Comment: "channel receive"}, k(s2, VOpaque{}))
				}
				return k(s2, VOpaque{})
			case token.NOT:
				switch v.(type) {
				case VTrue:
					return k(s2, VFalse{})
				case VFalse:
					return k(s2, VTrue{})
				}
			}
			return k(s2, VOpaque{})
		})
	case *ast.StarExpr:
		return t.expr(st, x.X, func(s2 *State, v Val) Code {
			if p, ok := v.(VRegionPtr); ok {
				return one(acc(p.field, false), k(s2, VRegion{field: p.field}))
			}
			return k(s2, v)
		})
	case *ast.BinaryExpr:
		return t.expr(st, x.X, func(s2 *State, a Val) Code {
			isNil := func(e ast.Expr) bool { id, ok := e.(*ast.Ident); return ok && id.Name == "nil" }
			if l, ok := a.(VLock); ok && l.optional && isNil(x.Y) {
				if x.Op == token.NEQ {
					return k(s2, VTrue{})
				}
				if x.Op == token.EQL {
					return k(s2, VFalse{})
				}
			}
			if x.Op == token.LAND || x.Op == token.LOR {
				// the right operand is evaluated only sometimes
				return t.branch(s2, []Arm{
					func(s3 *State, k2 K) Code { return t.expr(s3, x.Y, func(s4 *State, _ Val) Code { return k2(s4) }) },
					func(s3 *State, k2 K) Code { return k2(s3) },
				}, func(s3 *State) Code { return k(s3, VOpaque{}) })
			}
			return t.expr(s2, x.Y, func(s3 *State, _ Val) Code { return k(s3, VOpaque{}) })
		})
	case *ast.CallExpr:
		return t.evalCallee(st, x, func(s2 *State, callee Val, args []Val, builtin string) Code {
			if builtin != "" {
				return t.callBuiltin(s2, builtin, x, args, k)
			}
			return t.callVal(s2, callee, args, k)
		})
	case *ast.SelectorExpr:
		return t.selector(st, x, k)
	case *ast.IndexExpr:
		return t.expr(st, x.X, func(s2 *State, v Val) Code {
			switch v.(type) {
			case VPkgFunc, VFunc, VMethod, VFnSel:
				return k(s2, v) // generic instantiation
			}
			return t.expr(s2, x.Index, func(s3 *State, _ Val) Code {
				switch r := v.(type) {
				case VRegion:
					return k(s3, r)
				case VObj:
					return k(s3, r) // element of a slice of nodes
				}
				return k(s3, VOpaque{})
			})
		})
	case *ast.IndexListExpr:
		return t.expr(st, x.X, k)
	case *ast.TypeAssertExpr:
		return t.expr(st, x.X, k)
	case *ast.SliceExpr:
		return t.expr(st, x.X, func(s2 *State, v Val) Code {
			return t.exprs(s2, []ast.Expr{x.Low, x.High, x.Max}, func(s3 *State, _ []Val) Code { return k(s3, v) })
		})
	case *ast.KeyValueExpr:
		return t.expr(st, x.Value, k)
	case *ast.ArrayType, *ast.MapType, *ast.ChanType, *ast.FuncType, *ast.InterfaceType, *ast.StructType, *ast.Ellipsis:
		return k(st, VOpaque{})
	}
	return one(unknown("expression", e), k(st, VOpaque{}))
}

func (t *T) compositeLit(st *State, x *ast.CompositeLit, k KV) Code {
	ts := typeStr(x.Type)
	kind, _, own := classifyType(ts, t.own)
	var names []string
	var es []ast.Expr
	for _, el := range x.Elts {
		if kv, ok := el.(*ast.KeyValueExpr); ok {
			n := ""
			if id, ok := kv.Key.(*ast.Ident); ok {
				n = id.Name
			}
			names = append(names, n)
			es = append(es, kv.Value)
		} else {
			names = append(names, "")
			es = append(es, el)
		}
	}
	return t.exprs(st, es, func(s2 *State, vals []Val) Code {
		switch kind {
		case "own":
			// a fresh node/object: its initialisation is not an access to shared state,
			// but closures stored in it escape
			var pre []Instr
			for i, v := range vals {
				pre = append(pre, t.escape(s2, v, t.curEntry+"."+own+"."+names[i])...)
			}
			return seq(pre, k(s2, VObj{typ: own, inst: s2.inst}))
		case "lock", "once", "safe":
			var pre []Instr
			for i, v := range vals {
				pre = append(pre, t.escape(s2, v, t.curEntry+"."+ts+"."+names[i])...)
			}
			return seq(pre, k(s2, VFresh{kind: kind, typ: ts}))
		}
		return k(s2, VStruct{names: names, vals: vals})
	})
}

func (t *T) selector(st *State, x *ast.SelectorExpr, k KV) Code {
	if id, ok := x.X.(*ast.Ident); ok {
		if _, shadow := st.lookup(id.Name); !shadow && st.top().pkg.imports[id.Name] {
			return k(st, VPkgFunc{pkg: id.Name, name: x.Sel.Name})
		}
	}
	name := x.Sel.Name
	return t.expr(st, x.X, func(s2 *State, base Val) Code {
		if isOpaque(base) {
			// a value the translator lost track of: if the member is named like a field of the
			// object's node types, treat it as such (never drop an access silently)
			var cands []string
			for ty, fs := range t.fields {
				if fi, ok := fs[name]; ok && (ty != t.sp.Recv || fi.kind == "data" || fi.kind == "own") {
					cands = append(cands, ty)
				}
			}
			sort.Strings(cands)
			if len(cands) > 0 && !t.isLocalStruct(x.X) {
				base = VObj{typ: cands[0], inst: s2.inst}
			}
		}
		switch b := base.(type) {
		case VObj:
			if fi, ok := t.fields[b.typ][name]; ok {
				q := t.qual(b.typ, name) + b.inst
				switch fi.kind {
				case "lock":
					return k(s2, VLock{name: q})
				case "cond":
					return k(s2, VCond{name: q})
				case "once":
					return k(s2, VOnce{name: q})
				case "optlock":
					return k(s2, VOptLockHolder{field: q, lock: q})
				case "safe":
					if fi.ptr {
						return one(acc(q, false), k(s2, VSafe{field: q}))
					}
					return k(s2, VSafe{field: q})
				case "own":
					return one(acc(q, false), k(s2, VObj{typ: fi.own, inst: b.inst}))
				case "func":
					return one(acc(q, false), k(s2, VOpaque{}))
				}
				return one(acc(q, false), k(s2, VRegion{field: q, ref: refLike(fi.typ)}))
			}
			if fd, ok := t.pkg.methods[b.typ][name]; ok {
				return k(s2, VMethod{recv: b, typ: b.typ, decl: fd})
			}
			return one(unknown("unknown member of "+b.typ, x), k(s2, VOpaque{}))
		case VRegion:
			return k(s2, VRegionSel{field: b.field, name: name})
		case VRegionSel:
			return k(s2, VRegionSel{field: b.field, name: name})
		case VRegionPtr:
			return one(acc(b.field, false), k(s2, VRegionSel{field: b.field, name: name}))
		case VSafe:
			return k(s2, VSafeSel{field: b.field, name: name})
		case VOptLockHolder:
			return k(s2, VOptSel{holder: b, name: name})
		case VLock:
			return k(s2, VLockSel{lock: b, name: name})
		case VCond:
			return k(s2, VCondSel{cond: b, name: name})
		case VOnce:
			return k(s2, VOnceSel{once: b, name: name})
		case VFunc, VMethod, VWrapped, VRegionFn, VUserFn, VFnSel:
			return k(s2, VFnSel{base: base, name: name})
		case VStruct:
			for i, n := range b.names {
				if n == name {
					return k(s2, b.vals[i])
				}
			}
			return k(s2, VOpaque{})
		}
		return k(s2, VOpaque{})
	})
}

// isLocalStruct: the expression is a plain identifier bound to a value of a foreign struct type
// (e.g. `opts`, `stats`): its members are not fields of the object.
func (t *T) isLocalStruct(e ast.Expr) bool {
	id, ok := e.(*ast.Ident)
	if !ok {
		return false
	}
	switch id.Name {
	case "opts", "stats", "out", "val", "ctx":
		return true
	}
	return false
}

// evalCallee evaluates the function value and the arguments of a call (without calling).
func (t *T) evalCallee(st *State, c *ast.CallExpr, k func(*State, Val, []Val, string) Code) Code {
	if id, ok := c.Fun.(*ast.Ident); ok && builtins[id.Name] {
		if _, shadow := st.lookup(id.Name); !shadow {
			return t.exprs(st, c.Args, func(s2 *State, args []Val) Code { return k(s2, nil, args, id.Name) })
		}
	}
	return t.expr(st, c.Fun, func(s2 *State, callee Val) Code {
		return t.exprs(s2, c.Args, func(s3 *State, args []Val) Code { return k(s3, callee, args, "") })
	})
}

func (t *T) callBuiltin(st *State, name string, c *ast.CallExpr, args []Val, k KV) Code {
	var ins []Instr
	switch name {
	case "delete", "clear":
		if len(args) > 0 {
			switch r := args[0].(type) {
			case VRegion:
				ins = append(ins, acc(r.field, true))
			case VRegionSel:
				ins = append(ins, acc(r.field, true))
			}
		}
	case "close":
		if len(args) > 0 {
			if sf, ok := args[0].(VSafe); ok {
				ins = append(ins, Instr{Op: "Atomic", A: sf.field, Comment: "close(channel)"})
			}
		}
	case "append", "copy":
		if len(args) > 0 {
			switch r := args[0].(type) {
			case VRegion:
				ins = append(ins, acc(r.field, true))
			}
		}
	case "any", "int", "int64", "float64", "uint64", "string", "error", "int32", "uint", "bool":
		if len(args) == 1 {
			return k(st, args[0])
		}
	}
	return seq(ins, k(st, VOpaque{}))
}

// callVal: call an abstract function value.
func (t *T) callVal(st *State, callee Val, args []Val, k KV) Code {
	escArgs := func(s *State, what string) []Instr {
		var ins []Instr
		for _, a := range args {
			ins = append(ins, t.escape(s, a, t.curEntry+"."+what)...)
		}
		return ins
	}
	switch f := callee.(type) {
	case VLockSel:
		switch f.name {
		case "Lock", "Unlock", "RLock", "RUnlock":
			return one(Instr{Op: f.name, A: f.lock.name}, k(st, VOpaque{}))
		}
		return one(Instr{Op: "Unknown", A: "mutex method " + f.lock.name + "." + f.name}, k(st, VOpaque{}))
	case VCondSel:
		switch f.name {
		case "Wait":
			return one(Instr{Op: "Wait", A: f.cond.name, B: t.lockOfCond(f.cond)}, k(st, VOpaque{}))
		case "Signal", "Broadcast":
			return one(Instr{Op: f.name, A: f.cond.name}, k(st, VOpaque{}))
		}
		return one(Instr{Op: "Unknown", A: "cond method " + f.cond.name + "." + f.name}, k(st, VOpaque{}))
	case VOnceSel:
		if f.name == "Do" && len(args) == 1 {
			return t.onceDo(st, f.once.name, args[0], k)
		}
		return one(Instr{Op: "Unknown", A: "once method " + f.once.name + "." + f.name}, k(st, VOpaque{}))
	case VOptSel:
		switch f.name {
		case "Get":
			return one(Instr{Op: "Atomic", A: f.holder.field}, k(st, VLock{name: f.holder.lock, optional: true}))
		case "Set":
			return one(Instr{Op: "Atomic", A: f.holder.field}, k(st, VOpaque{}))
		}
		return one(Instr{Op: "Unknown", A: "optional-lock holder method " + f.name}, k(st, VOpaque{}))
	case VSafeSel:
		pre := []Instr{{Op: "Atomic", A: f.field, Comment: f.name}}
		if f.name == "Range" && len(args) == 1 {
			// sync.Map.Range / adt.Map.Range: the callback runs synchronously, any number of times
			body := t.callVal(st.copy(), args[0], nil, func(s2 *State, _ Val) Code { return Code{} })
			if !body.dead && len(body.ins) > 0 {
				pre = append(pre, Instr{Op: "Loop", P: body.ins})
			}
			return seq(pre, k(st, VOpaque{}))
		}
		pre = append(pre, escArgs(st, f.field+"."+f.name)...)
		return seq(pre, k(st, VOpaque{}))
	case VRegionSel:
		c, ok := t.regionRW[f.name]
		if !ok {
			return one(Instr{Op: "Unknown", A: "call through guarded field: " + f.field + "." + f.name}, k(st, VOpaque{}))
		}
		pre := escArgs(st, f.field+"."+f.name)
		switch c {
		case 'r':
			return seq(append(pre, acc(f.field, false)), k(st, VRegion{field: f.field}))
		case 'w':
			return seq(append(pre, acc(f.field, true)), k(st, VRegion{field: f.field}))
		case 'c':
			return seq(append(pre, acc(f.field, false)), k(st, VRegionFn{field: f.field, desc: f.name}))
		default:
			return seq(append(pre, acc(f.field, false)), k(st, VRegionFn{field: f.field, write: true, desc: f.name}))
		}
	case VRegionFn:
		return one(Instr{Op: "Acc", A: f.field, B: map[bool]string{false: "R", true: "W"}[f.write], Comment: "call of " + f.desc + " (captures the region)"}, k(st, VRegion{field: f.field}))
	case VMethod:
		return t.callDecl(st, f.decl, f.recv, args, false, k)
	case VFunc:
		return t.callLit(st, f, args, k)
	case VWrapped:
		return one(Instr{Op: "Lock", A: f.lock.name, Comment: "WithLock wrapper"},
			t.callVal(st, f.inner, args, func(s2 *State, v Val) Code {
				return one(Instr{Op: "Unlock", A: f.lock.name}, k(s2, v))
			}))
	case VPkgFunc:
		return t.callPkgFunc(st, f, args, k)
	case VFnSel:
		switch f.name {
		case "WithLock":
			if len(args) == 1 {
				if l, ok := args[0].(VLock); ok {
					if _, user := f.base.(VUserFn); !user {
						return k(st, VWrapped{inner: f.base, lock: l})
					}
				}
			}
		case "Lock":
			if _, user := f.base.(VUserFn); !user && len(args) == 0 {
				return k(st, VWrapped{inner: f.base, lock: VLock{name: t.curEntry + ".Lock()"}})
			}
		}
		if rf, ok := f.base.(VRegionFn); ok {
			// a method of an iterator/producer over the region, used in place (Next, Value, Close, ...)
			return one(Instr{Op: "Acc", A: rf.field, B: map[bool]string{false: "R", true: "W"}[rf.write], Comment: f.name + " on " + rf.desc + " (captures the region)"}, k(st, VRegion{field: rf.field}))
		}
		if u, ok := f.base.(VUserFn); ok {
			if fd, ok := t.pkg.methods[u.typ][f.name]; ok && t.ctorName != "" {
				for i, a := range args {
					if fr, ok := a.(VFresh); ok {
						args[i] = fr
					}
				}
				return t.callDecl(st, fd, u, args, false, k)
			}
			return seq(escArgs(st, u.typ+"."+f.name), k(st, VOpaque{}))
		}
		// some other method of a function type (Iterator, Filter, PreHook, ...): the function escapes
		pre := t.escape(st, f.base, t.curEntry+"."+f.name)
		pre = append(pre, escArgs(st, f.name)...)
		return seq(pre, k(st, VOpaque{}))
	case VUserFn:
		return seq(escArgs(st, "arg"), k(st, VOpaque{}))
	case VRegion:
		return one(Instr{Op: "Unknown", A: "call of a value stored in guarded field " + f.field}, k(st, VOpaque{}))
	}
	// a user supplied function or a function outside the file list
	return seq(escArgs(st, "arg"), k(st, VOpaque{}))
}

func (t *T) onceDo(st *State, once string, f Val, k KV) Code {
	pre := []Instr{{Op: "Atomic", A: once, Comment: "sync.Once.Do"}}
	inner := st.copy()
	inner.insideOnce = once
	body := t.callVal(inner, f, nil, func(s2 *State, _ Val) Code { return Code{ins: []Instr{{Op: "Unlock", A: once}}} })
	if body.dead {
		body = Code{ins: []Instr{{Op: "Unknown", A: "once body without a path"}}}
	}
	pre = append(pre, Instr{Op: "Choice", P: append([]Instr{{Op: "Lock", A: once, Comment: "the one execution of the once body"}}, body.ins...), Q: nil})
	if st.insideOnce != once && !st.onceR[once] {
		st.onceR[once] = true
		pre = append(pre, Instr{Op: "RLock", A: once, Comment: "Do returned: the once body has completed"})
	}
	return seq(pre, k(st, VOpaque{}))
}

func (t *T) callPkgFunc(st *State, f VPkgFunc, args []Val, k KV) Code {
	full := f.pkg + "." + f.name
	condArm := func(fn Val, fargs []Val) Code {
		if len(args) > 0 {
			switch args[0].(type) {
			case VTrue:
				return t.callVal(st, fn, fargs, k)
			case VFalse:
				return k(st, VOpaque{})
			}
		}
		return t.branch(st, []Arm{
			func(s2 *State, k2 K) Code { return t.callVal(s2, fn, fargs, func(s3 *State, _ Val) Code { return k2(s3) }) },
			func(s2 *State, k2 K) Code { return k2(s2) },
		}, func(s2 *State) Code { return k(s2, VOpaque{}) })
	}
	switch full {
	case "ft.WhenCall", "ft.WhenDo":
		if len(args) == 2 {
			return condArm(args[1], nil)
		}
	case "ft.WhenApply":
		if len(args) == 3 {
			return condArm(args[1], []Val{args[2]})
		}
	case "ft.DoTimes":
		if len(args) == 2 {
			body := t.callVal(st.copy(), args[1], nil, func(s2 *State, _ Val) Code { return Code{} })
			var pre []Instr
			if !body.dead && len(body.ins) > 0 {
				pre = append(pre, Instr{Op: "Loop", P: body.ins})
			}
			return seq(pre, k(st, VOpaque{}))
		}
	case "ft.SafeDo", "ft.SafeCall":
		if len(args) == 1 {
			return t.callVal(st, args[0], nil, k)
		}
	case "sync.NewCond":
		return k(st, VOpaque{})
	}
	if f.pkg == st.top().pkg.name {
		if fd, ok := st.top().pkg.funcs[f.name]; ok {
			return t.callDeclIn(st, st.top().pkg, fd, nil, args, k)
		}
	}
	if crossInline[full] {
		if p, ok := pkgs[f.pkg]; ok {
			if fd, ok := p.funcs[f.name]; ok {
				return t.callDeclIn(st, p, fd, nil, args, k)
			}
		}
		return one(Instr{Op: "Unknown", A: "helper not found in the file list: " + full}, k(st, VOpaque{}))
	}
	var pre []Instr
	for _, a := range args {
		pre = append(pre, t.escape(st, a, t.curEntry+"."+full)...)
	}
	return seq(pre, k(st, VOpaque{}))
}
