package main

import (
	"fmt"
	"go/ast"
	"sort"
	"strings"
)

// ---------------------------------------------------------------- skeleton instructions

// Instr mirrors coq/Skel/Syntax.v.
type Instr struct {
	Op      string // Lock Unlock RLock RUnlock Acc Atomic Wait Signal Broadcast Choice Loop Spawn CtxWaker Ret Unknown | JOIN (internal marker)
	A, B    string
	P, Q    []Instr
	Comment string
}

// Code is a set of paths: a list of instructions, or "dead" (no such path in
// the current translation mode; used to split loops into complete iterations
// and a final partial iteration).
type Code struct {
	ins  []Instr
	dead bool
}

var deadCode = Code{dead: true}

func seq(ins []Instr, c Code) Code {
	if c.dead {
		return c
	}
	out := make([]Instr, 0, len(ins)+len(c.ins))
	out = append(out, ins...)
	out = append(out, c.ins...)
	return Code{ins: out}
}

func one(i Instr, c Code) Code { return seq([]Instr{i}, c) }

// choice of several alternatives (dead ones dropped)
func choiceOf(alts []Code) Code {
	var live [][]Instr
	for _, a := range alts {
		if !a.dead {
			live = append(live, a.ins)
		}
	}
	switch len(live) {
	case 0:
		return deadCode
	case 1:
		return Code{ins: live[0]}
	}
	// drop exact duplicates
	var uniq [][]Instr
	seen := map[string]bool{}
	for _, l := range live {
		k := renderFlat(l)
		if !seen[k] {
			seen[k] = true
			uniq = append(uniq, l)
		}
	}
	if len(uniq) == 1 {
		return Code{ins: uniq[0]}
	}
	cur := uniq[len(uniq)-1]
	for i := len(uniq) - 2; i >= 0; i-- {
		cur = []Instr{{Op: "Choice", P: uniq[i], Q: cur}}
	}
	return Code{ins: cur}
}

func renderFlat(l []Instr) string {
	var sb strings.Builder
	for _, i := range l {
		sb.WriteString(i.Op)
		sb.WriteString("(")
		sb.WriteString(i.A)
		sb.WriteString(",")
		sb.WriteString(i.B)
		if i.P != nil || i.Q != nil {
			sb.WriteString("[" + renderFlat(i.P) + "][" + renderFlat(i.Q) + "]")
		}
		sb.WriteString(");")
	}
	return sb.String()
}

func countOp(l []Instr, op string) int {
	n := 0
	for _, i := range l {
		if i.Op == op {
			n++
		}
		n += countOp(i.P, op) + countOp(i.Q, op)
	}
	return n
}

// ---------------------------------------------------------------- abstract values

type Val interface{}

type (
	VOpaque struct{}              // data the skeleton does not track
	VTrue   struct{}              // a condition assumed true (optional mutex is present)
	VFalse  struct{}              // its negation
	VObj    struct{ typ, inst string } // pointer to the receiver / an auxiliary node type / the peer instance
	VLock   struct {
		name     string
		optional bool
	}
	VCond   struct{ name string }
	VOnce   struct{ name string }
	VOptLockHolder struct{ field, lock string } // dt.Set.mtx : atomic[*sync.Mutex]
	VSafe   struct{ field string }               // thread-safe object (sync.Map, atomic.*, chan, adt.Atomic, Pool, WaitGroup)
	VRegion struct {
		field string
		ref   bool // the value of the field itself and the field is a pointer/slice/map: handing it out aliases guarded data
	}
	VRegionPtr struct{ field string }            // &field
	VRegionSel struct{ field, name string }      // field.name (method value or member)
	VRegionFn  struct {
		field string
		write bool
		desc  string
	} // closure capturing the region (List.Producer, Map.Keys, method values)
	VCell struct{ name string } // captured variable shared by the closures of a constructor
	VFresh struct{ kind, typ string } // &sync.Mutex{} etc. before it is bound to a name
	VFunc struct {
		lit   *ast.FuncLit
		lexID int
		snap  *Snap
		once  string // created inside the body of this sync.Once (runs only after it completed)
		pkg   *Pkg
	}
	VMethod struct {
		recv Val
		typ  string
		decl *ast.FuncDecl
	}
	VWrapped struct {
		inner Val
		lock  VLock
	}
	VPkgFunc struct{ pkg, name string }
	VUserFn  struct{ typ string } // the receiver of a wrapper method on a function type (user function)
	VStruct  struct {
		names []string
		vals  []Val
	}
	VTuple []Val
	// selections waiting to be called
	VLockSel struct {
		lock VLock
		name string
	}
	VCondSel struct {
		cond VCond
		name string
	}
	VOnceSel struct {
		once VOnce
		name string
	}
	VSafeSel   struct{ field, name string }
	VOptSel    struct{ holder VOptLockHolder; name string }
	VFnSel     struct {
		base Val
		name string
	}
)

func showVal(v Val) string {
	switch x := v.(type) {
	case nil:
		return "nil"
	case VFunc:
		return fmt.Sprintf("func@%d/%d/%s{%s}", x.lit.Pos(), x.lexID, x.once, showSnap(x.snap, 0))
	case VMethod:
		return fmt.Sprintf("method(%s.%s on %s)", x.typ, x.decl.Name.Name, showVal(x.recv))
	case VWrapped:
		return fmt.Sprintf("wrapped(%s,%s)", showVal(x.inner), x.lock.name)
	case VStruct:
		var p []string
		for i := range x.vals {
			n := ""
			if i < len(x.names) {
				n = x.names[i]
			}
			p = append(p, n+":"+showVal(x.vals[i]))
		}
		return "struct{" + strings.Join(p, ",") + "}"
	case VTuple:
		var p []string
		for _, e := range x {
			p = append(p, showVal(e))
		}
		return "(" + strings.Join(p, ",") + ")"
	case VFnSel:
		return "fnsel(" + showVal(x.base) + "." + x.name + ")"
	default:
		return fmt.Sprintf("%T%v", v, v)
	}
}

func showSnap(sn *Snap, depth int) string {
	if sn == nil || depth > 3 {
		return ""
	}
	keys := make([]string, 0, len(sn.vars))
	for k := range sn.vars {
		keys = append(keys, k)
	}
	sort.Strings(keys)
	var sb strings.Builder
	for _, k := range keys {
		v := sn.vars[k]
		if isOpaque(v) {
			continue
		}
		if f, ok := v.(VFunc); ok {
			fmt.Fprintf(&sb, "%s=func@%d{%s};", k, f.lit.Pos(), showSnap(f.snap, depth+1))
			continue
		}
		sb.WriteString(k + "=" + showVal(v) + ";")
	}
	if sn.parent != nil {
		sb.WriteString("^" + showSnap(sn.parent, depth+1))
	}
	return sb.String()
}

func isOpaque(v Val) bool {
	switch v.(type) {
	case nil, VOpaque:
		return true
	}
	return false
}

// ---------------------------------------------------------------- state (path sensitive; copied at branches)

type Snap struct {
	vars   map[string]Val
	parent *Snap
}

type Deferred struct {
	id  int
	run func(st *State, k K) Code
}

type Frame struct {
	id      int
	name    string
	vars    map[string]Val
	lex     int // id of the lexically enclosing frame, -1 for a top-level function
	lexSnap *Snap
	defers  []*Deferred
	kret    func(st *State, vals []Val) Code
	results []string
	shared  map[string]bool // constructor kinds: locals of this function that a closure assigns (shared cells)
	pkg     *Pkg
	body    *ast.BlockStmt // the function body this frame runs (nil for the root)
}

type Ctl struct {
	kBreak    K
	kContinue K
	isLoop    bool
}

type State struct {
	frames     []*Frame
	ctl        []Ctl
	onceR      map[string]bool // sync.Once objects known to have completed on this path (modelled as a shared hold)
	insideOnce string
	published  string // inside `if <atomic>.CompareAndSwap(x, x) { ... }`: reads of captured cells are published by that atomic
	inst       string // suffix of the receiver instance ("" or "'")
	peer       string
}

type K func(st *State) Code
type KV func(st *State, v Val) Code

func (st *State) copy() *State {
	n := &State{insideOnce: st.insideOnce, published: st.published, inst: st.inst, peer: st.peer}
	n.frames = make([]*Frame, len(st.frames))
	for i, f := range st.frames {
		g := *f
		g.vars = make(map[string]Val, len(f.vars))
		for k, v := range f.vars {
			g.vars[k] = v
		}
		g.defers = append([]*Deferred(nil), f.defers...)
		n.frames[i] = &g
	}
	n.ctl = append([]Ctl(nil), st.ctl...)
	n.onceR = map[string]bool{}
	for k, v := range st.onceR {
		n.onceR[k] = v
	}
	return n
}

func (st *State) top() *Frame { return st.frames[len(st.frames)-1] }

func (st *State) frameByID(id int) *Frame {
	for i := len(st.frames) - 1; i >= 0; i-- {
		if st.frames[i].id == id {
			return st.frames[i]
		}
	}
	return nil
}

// lookup follows lexical scoping: the current frame, then the frames (or
// snapshots) of the enclosing function literals.
func (st *State) lookup(name string) (Val, bool) {
	f := st.top()
	for f != nil {
		if v, ok := f.vars[name]; ok {
			return v, true
		}
		if f.lex < 0 {
			return nil, false
		}
		if g := st.frameByID(f.lex); g != nil {
			f = g
			continue
		}
		for s := f.lexSnap; s != nil; s = s.parent {
			if v, ok := s.vars[name]; ok {
				return v, true
			}
		}
		return nil, false
	}
	return nil, false
}

// assign updates the binding where it lives (live frames only); returns false if not found.
func (st *State) assign(name string, v Val) bool {
	f := st.top()
	for f != nil {
		if _, ok := f.vars[name]; ok {
			f.vars[name] = v
			return true
		}
		if f.lex < 0 {
			return false
		}
		f = st.frameByID(f.lex)
	}
	return false
}

func (st *State) define(name string, v Val) { st.top().vars[name] = v }

// snapshot of everything visible from frame f
func (st *State) snapshot(f *Frame) *Snap {
	if f == nil {
		return nil
	}
	s := &Snap{vars: map[string]Val{}}
	for k, v := range f.vars {
		s.vars[k] = v
	}
	if f.lex >= 0 {
		if g := st.frameByID(f.lex); g != nil {
			s.parent = st.snapshot(g)
		} else {
			s.parent = f.lexSnap
		}
	}
	return s
}

// fingerprint of the part of the state that can influence the translation of later code
func (st *State) fingerprint() string {
	var sb strings.Builder
	for _, f := range st.frames {
		fmt.Fprintf(&sb, "F%d[", f.id)
		keys := make([]string, 0, len(f.vars))
		for k := range f.vars {
			keys = append(keys, k)
		}
		sort.Strings(keys)
		for _, k := range keys {
			if !isOpaque(f.vars[k]) {
				sb.WriteString(k + "=" + showVal(f.vars[k]) + ";")
			}
		}
		sb.WriteString("|d")
		for _, d := range f.defers {
			fmt.Fprintf(&sb, "%d,", d.id)
		}
		sb.WriteString("]")
	}
	keys := make([]string, 0, len(st.onceR))
	for k := range st.onceR {
		keys = append(keys, k)
	}
	sort.Strings(keys)
	sb.WriteString("once:" + strings.Join(keys, ",") + ":" + st.insideOnce + ":" + st.published)
	fmt.Fprintf(&sb, "ctl%d", len(st.ctl))
	return sb.String()
}
