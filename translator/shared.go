package main

// Captured locals shared between goroutines (translator rule 10).
//
// When a function literal ESCAPES while the function that created it is still running
// (it is sent on a channel, handed to `go`, stored, or passed to code outside the file
// list), the literal may run on another goroutine concurrently with the rest of the
// enclosing function.  A local variable of the enclosing function that
//   - the literal assigns, or
//   - the literal uses and the enclosing function assigns AFTER the escape point,
// is then shared mutable state: it becomes the pseudo-field `local:<entry>.<var>`, and
// every later access from either side is an `Acc`.  No guard is declared for such
// fields, so the checker rejects them (ordering by a channel receive is not modelled:
// a correct hand-off by channel is reported as `no-failing-input-found`, never accepted
// silently).  Closures that are only called in place (defer, immediate call, callback
// of an inlined helper) do not escape and keep plain locals.

import (
	"go/ast"
	"go/token"
)

// names declared inside the literal (parameters, results, :=, var, range)
func declaredIn(lit *ast.FuncLit) map[string]bool {
	d := map[string]bool{}
	addFields := func(fl *ast.FieldList) {
		if fl == nil {
			return
		}
		for _, f := range fl.List {
			for _, n := range f.Names {
				d[n.Name] = true
			}
		}
	}
	addFields(lit.Type.Params)
	addFields(lit.Type.Results)
	ast.Inspect(lit.Body, func(n ast.Node) bool {
		switch x := n.(type) {
		case *ast.AssignStmt:
			if x.Tok == token.DEFINE {
				for _, l := range x.Lhs {
					if id, ok := l.(*ast.Ident); ok {
						d[id.Name] = true
					}
				}
			}
		case *ast.ValueSpec:
			for _, n := range x.Names {
				d[n.Name] = true
			}
		case *ast.RangeStmt:
			if x.Tok == token.DEFINE {
				if id, ok := x.Key.(*ast.Ident); ok {
					d[id.Name] = true
				}
				if id, ok := x.Value.(*ast.Ident); ok {
					d[id.Name] = true
				}
			}
		case *ast.FuncLit:
			if x != lit {
				addFields(x.Type.Params)
				addFields(x.Type.Results)
			}
		}
		return true
	})
	return d
}

// free variables the literal assigns (=, op=, ++/--, &x) and free variables it mentions at all
func freeVars(lit *ast.FuncLit) (assigned, used map[string]bool) {
	decl := declaredIn(lit)
	assigned, used = map[string]bool{}, map[string]bool{}
	ast.Inspect(lit.Body, func(n ast.Node) bool {
		switch x := n.(type) {
		case *ast.AssignStmt:
			if x.Tok != token.DEFINE {
				for _, l := range x.Lhs {
					if id, ok := l.(*ast.Ident); ok && !decl[id.Name] && id.Name != "_" {
						assigned[id.Name] = true
					}
				}
			}
		case *ast.IncDecStmt:
			if id, ok := x.X.(*ast.Ident); ok && !decl[id.Name] {
				assigned[id.Name] = true
			}
		case *ast.UnaryExpr:
			if id, ok := x.X.(*ast.Ident); ok && x.Op == token.AND && !decl[id.Name] {
				assigned[id.Name] = true
			}
		case *ast.Ident:
			if !decl[x.Name] {
				used[x.Name] = true
			}
		}
		return true
	})
	return
}

// names the enclosing function body assigns after position pos, outside function literals
func assignedAfter(body *ast.BlockStmt, pos token.Pos) map[string]bool {
	out := map[string]bool{}
	if body == nil {
		return out
	}
	ast.Inspect(body, func(n ast.Node) bool {
		switch x := n.(type) {
		case *ast.FuncLit:
			return false
		case *ast.AssignStmt:
			if x.Pos() > pos && x.Tok != token.DEFINE {
				for _, l := range x.Lhs {
					if id, ok := l.(*ast.Ident); ok && id.Name != "_" {
						out[id.Name] = true
					}
				}
			}
		case *ast.IncDecStmt:
			if id, ok := x.X.(*ast.Ident); ok && x.Pos() > pos {
				out[id.Name] = true
			}
		}
		return true
	})
	return out
}

// shareCaptured: f is about to escape while (some of) its lexically enclosing frames are
// still running; turn the locals they share with it into cells.
func (t *T) shareCaptured(st *State, f VFunc) {
	if f.snap != nil {
		return // created by a function that has already returned
	}
	assigned, used := freeVars(f.lit)
	fr := st.frameByID(f.lexID)
	for fr != nil {
		after := assignedAfter(fr.body, f.lit.End())
		for name, v := range fr.vars {
			if !(assigned[name] || (used[name] && after[name])) {
				continue
			}
			switch v.(type) {
			case VCell, VLock, VCond, VOnce, VSafe, VFunc, VMethod, VWrapped, VUserFn, VPkgFunc:
				continue
			}
			fr.vars[name] = VCell{name: "local:" + t.curEntry + "." + name}
		}
		if fr.lex < 0 {
			break
		}
		fr = st.frameByID(fr.lex)
	}
}
