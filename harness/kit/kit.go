// Package kit is the shared part of every property driver: flag parsing, a
// single seeded PRNG (every random choice of a run derives from it, so a
// disagreement replays exactly), writers for the files /verif/bin/check reads
// (cases.jsonl, cases_<k>.v, oracle.jsonl, stats.json) and helpers that print
// values in Coq syntax.
package kit

import (
	"encoding/json"
	"flag"
	"fmt"
	"os"
	"path/filepath"
	"sort"
	"strings"
)

// ---------------------------------------------------------------- PRNG (splitmix64)

type Rand struct{ s uint64 }

func NewRand(seed uint64) *Rand { return &Rand{s: seed*0x9E3779B97F4A7C15 + 0x1234567} }

func (r *Rand) U64() uint64 {
	r.s += 0x9E3779B97F4A7C15
	z := r.s
	z = (z ^ (z >> 30)) * 0xBF58476D1CE4E5B9
	z = (z ^ (z >> 27)) * 0x94D049BB133111EB
	return z ^ (z >> 31)
}

// Intn returns a value in [0,n); n<=0 yields 0.
func (r *Rand) Intn(n int) int {
	if n <= 0 {
		return 0
	}
	return int(r.U64() % uint64(n))
}

// Range returns a value in [lo,hi].
func (r *Rand) Range(lo, hi int) int { return lo + r.Intn(hi-lo+1) }

func (r *Rand) Bool() bool { return r.U64()&1 == 1 }

// Chance is true with probability num/den.
func (r *Rand) Chance(num, den int) bool { return r.Intn(den) < num }

// Fork derives an independent stream (for a case), so cases do not depend on
// how many draws earlier cases made.
func (r *Rand) Fork() *Rand { return NewRand(r.U64()) }

// ---------------------------------------------------------------- run context

type Run struct {
	Seed       uint64
	Tier       string
	Out        string
	Replay     string
	OracleOnly bool
	Rand       *Rand

	ShardSize int
	Header    string // Coq header for each cases file (Require Import ...)
	Footer    string // e.g. "Definition M := Eval vm_compute in mismatches cases.\nPrint M."
	CaseType  string // Coq type of one case

	shard     []string
	shardN    int
	casesF    *os.File
	oracleF   *os.File
	NCases    int
	NOracle   int
	Distinct  map[string]struct{}
	Dist      map[string]int
	Samples   []any
	Extra     map[string]any
	Rule      string
	nontrivN  int
}

func Start() *Run {
	r := &Run{}
	var seed int64
	flag.Int64Var(&seed, "seed", 1, "PRNG seed")
	flag.StringVar(&r.Tier, "tier", "quick", "quick|thorough")
	flag.StringVar(&r.Out, "out", "", "output directory")
	flag.StringVar(&r.Replay, "replay", "", "replay file")
	flag.BoolVar(&r.OracleOnly, "oracle-only", false, "do not write Coq case files")
	flag.Parse()
	r.Seed = uint64(seed)
	r.Rand = NewRand(r.Seed)
	if r.Out == "" {
		fmt.Fprintln(os.Stderr, "-out required")
		os.Exit(2)
	}
	must(os.MkdirAll(r.Out, 0o755))
	var err error
	r.casesF, err = os.Create(filepath.Join(r.Out, "cases.jsonl"))
	must(err)
	r.oracleF, err = os.Create(filepath.Join(r.Out, "oracle.jsonl"))
	must(err)
	r.ShardSize = 250
	r.Distinct = map[string]struct{}{}
	r.Dist = map[string]int{}
	r.Extra = map[string]any{}
	return r
}

func must(err error) {
	if err != nil {
		fmt.Fprintln(os.Stderr, "fatal:", err)
		os.Exit(2)
	}
}

func (r *Run) Thorough() bool { return r.Tier == "thorough" }

// Pick returns q for quick and t for thorough.
func (r *Run) Pick(q, t int) int {
	if r.Thorough() {
		return t
	}
	return q
}

// Case records one case: its JSON form (for replay and evidence), its Coq term
// (for the model side; "" if the case has none), a key for distinctness and
// whether it is non-trivial by the driver's rule.
func (r *Run) Case(id int, js any, coqTerm string, key string, nontrivial bool) {
	b, err := json.Marshal(js)
	must(err)
	fmt.Fprintf(r.casesF, "%s\n", b)
	r.NCases++
	if nontrivial {
		if _, ok := r.Distinct[key]; !ok {
			r.Distinct[key] = struct{}{}
		}
	}
	if len(r.Samples) < 3 || (nontrivial && len(r.Samples) < 5) {
		r.Samples = append(r.Samples, js)
	}
	if coqTerm != "" && !r.OracleOnly {
		r.shard = append(r.shard, coqTerm)
		if len(r.shard) >= r.ShardSize {
			r.flushShard()
		}
	}
}

func (r *Run) flushShard() {
	if len(r.shard) == 0 {
		return
	}
	name := filepath.Join(r.Out, fmt.Sprintf("cases_%03d.v", r.shardN))
	r.shardN++
	var sb strings.Builder
	sb.WriteString(r.Header)
	sb.WriteString("\nDefinition cases : list (" + r.CaseType + ") := [\n")
	sb.WriteString(strings.Join(r.shard, ";\n"))
	sb.WriteString("\n].\n")
	sb.WriteString(r.Footer)
	sb.WriteString("\n")
	must(os.WriteFile(name, []byte(sb.String()), 0o644))
	r.shard = r.shard[:0]
}

// OracleFail records a violation of the property's direct oracle observed on
// the implementation.
func (r *Run) OracleFail(caseID int, signature, detail string, cs any, impl any) {
	b, err := json.Marshal(map[string]any{"case_id": caseID, "signature": signature, "detail": detail, "case": cs, "impl": impl})
	must(err)
	fmt.Fprintf(r.oracleF, "%s\n", b)
	r.NOracle++
}

func (r *Run) Count(key string) { r.Dist[key]++ }

func (r *Run) Finish() {
	r.flushShard()
	r.casesF.Close()
	r.oracleF.Close()
	st := map[string]any{
		"evaluations":         r.NCases,
		"distinct_nontrivial": len(r.Distinct),
		"rule":                r.Rule,
		"samples":             r.Samples,
		"distribution":        r.Dist,
		"oracle_failures":     r.NOracle,
	}
	for k, v := range r.Extra {
		st[k] = v
	}
	b, err := json.MarshalIndent(st, "", " ")
	must(err)
	must(os.WriteFile(filepath.Join(r.Out, "stats.json"), b, 0o644))
}

// ReadReplayCase loads the "case" member of a replay file (or a bare case).
func ReadReplayCase(path string, into any) error {
	b, err := os.ReadFile(path)
	if err != nil {
		return err
	}
	var wrap struct {
		Case json.RawMessage `json:"case"`
	}
	if err := json.Unmarshal(b, &wrap); err == nil && len(wrap.Case) > 0 && string(wrap.Case) != "null" {
		return json.Unmarshal(wrap.Case, into)
	}
	return json.Unmarshal(b, into)
}

// ---------------------------------------------------------------- Coq syntax

func Z(v int64) string {
	if v < 0 {
		return fmt.Sprintf("(%d)%%Z", v)
	}
	return fmt.Sprintf("%d%%Z", v)
}

func ZI(v int) string { return Z(int64(v)) }

func N(v uint64) string { return fmt.Sprintf("%d%%N", v) }

func Nat(v int) string { return fmt.Sprintf("%d", v) }

func Bool(b bool) string {
	if b {
		return "true"
	}
	return "false"
}

func List(items []string) string { return "[" + strings.Join(items, "; ") + "]" }

func ZList(vs []int64) string {
	s := make([]string, len(vs))
	for i, v := range vs {
		s[i] = Z(v)
	}
	return List(s)
}

func ZListI(vs []int) string {
	s := make([]string, len(vs))
	for i, v := range vs {
		s[i] = ZI(v)
	}
	return List(s)
}

func BoolList(vs []bool) string {
	s := make([]string, len(vs))
	for i, v := range vs {
		s[i] = Bool(v)
	}
	return List(s)
}

func OptZ(v int64, ok bool) string {
	if !ok {
		return "None"
	}
	return "(Some " + Z(v) + ")"
}

func Pair(a, b string) string { return "(" + a + ", " + b + ")" }

func Tuple(xs ...string) string { return "(" + strings.Join(xs, ", ") + ")" }

func Str(s string) string { return "\"" + strings.ReplaceAll(s, "\"", "\"\"") + "\"%string" }

func SortedInts(vs []int) []int {
	out := append([]int(nil), vs...)
	sort.Ints(out)
	return out
}
