module verif/harness

go 1.20

require github.com/tychoish/fun v0.0.0

replace github.com/tychoish/fun => /repo
