// Driver for C09 (broker makes progress while subscribers read, and shuts down
// cleanly). Runs the REAL pubsub.Broker:
//   - progress: bursts of every size against reading and temporarily non-reading
//     subscribers, for every back-end and option combination; each Publish must
//     return and the broker must become idle (every worker waiting in Receive,
//     buffer empty) within 10 s, observed in stop-the-world goroutine snapshots;
//   - shutdown: Stop / parent cancellation when idle, with a backlog, in the
//     middle of a dispatch or of a publish; Wait must return, no goroutine of the
//     library may be left (runtime stacks polled up to 10 s), and Publish /
//     Subscribe / Unsubscribe / Stats must return once their own context ends;
//   - Stop while another goroutine is in Wait; Stats with a context that is over.
// Each scripted run is also printed as a Coq case (schedule of model events +
// delivery logs) that coq/Corr/Broker_corr.v replays through the model.
package main

import (
	"encoding/json"
	"fmt"
	"os"
	"runtime"

	"verif/harness/cmd/c08/bk"
	"verif/harness/kit"
)

// unexpected counts oracle failures other than the known in-flight finding; once
// a few have been recorded the verdict is settled and the run stops early (a
// broken broker makes every remaining scenario wait for its 10 s bounds).
var unexpected int

const knownInflight = "C08:broker:unsubscribe-before-dispatch"

func record(run *kit.Run, sc bk.Scenario, res *bk.Result) {
	bk.Synthesize(sc, res)
	nontrivial := res.NMsgs > 0 || res.Stopped
	key := fmt.Sprintf("%s|%s|%d|%v", sc.Kind, sc.Cfg.Key(), len(sc.Steps), res.Obs.Logs)
	run.Case(sc.ID, sc, res.Coq, key, nontrivial)
	run.Count("kind/" + sc.Kind)
	run.Count("backend/" + sc.Cfg.Backend)
	run.Count(fmt.Sprintf("workers/%d", sc.Cfg.NW()))
	if res.NMsgs >= 50 {
		run.Count("burst>=50")
	}
	if res.Coq == "" {
		run.Count("oracle-only(no schedule synthesised)")
	}
	if res.Stuck != "" {
		run.Count("schedule-synthesis-stuck")
	}
	seen := map[string]bool{}
	for _, f := range res.Fails {
		if seen[f.Sig] {
			continue
		}
		seen[f.Sig] = true
		if f.Sig != knownInflight {
			unexpected++
		}
		run.OracleFail(sc.ID, f.Sig, f.Detail, sc, res.Obs)
	}
}

func execute(sc bk.Scenario) bk.Result {
	switch sc.Kind {
	case "stop-during-wait":
		return bk.RunStopDuringWait(sc)
	case "stats-wedge":
		return bk.RunStatsWedge(sc, 40)
	case "api-ctx-busy":
		return bk.RunAPICtx(sc, false)
	case "api-ctx-stopped":
		return bk.RunAPICtx(sc, true)
	}
	return bk.Run(sc, true)
}

func main() {
	run := kit.Start()
	run.Header = "From FunV Require Import Corr.C09_corr."
	run.CaseType = "case"
	run.Footer = "Definition M := Eval vm_compute in mismatches cases.\nPrint M."
	run.ShardSize = 40
	run.Rule = "a run is non-trivial if it published at least one message or stopped the broker; distinct = distinct (kind, configuration, script length, delivery logs)"

	if run.Replay != "" {
		var sc bk.Scenario
		if err := kit.ReadReplayCase(run.Replay, &sc); err != nil {
			fmt.Fprintln(os.Stderr, "replay:", err)
			os.Exit(2)
		}
		res := execute(sc)
		record(run, sc, &res)
		b, _ := json.Marshal(map[string]any{"observed": res.Obs, "control": res.Ctl, "fails": res.Fails, "stuck": res.Stuck})
		fmt.Println(string(b))
		run.Finish()
		return
	}

	id := 0
	next := func() int { id++; return id }

	// corpus: distributors with filters (MakeDistributorBroker over WithInputFilter / WithOutputFilter)
	for i, be := range []string{"queue", "deque", "queue", "deque", "chan"} {
		inF, outF := []int{0, 3, 2, 0, 0}[i], []int{2, 0, 3, 2, 2}[i]
		sc := bk.GenFiltered(next(), be, inF, outF, []int{1, 2, 4, 1, 2}[i], i%2 == 1)
		res := execute(sc)
		record(run, sc, &res)
	}

	// API calls with dead / expiring contexts between ordinary traffic: no stall afterwards
	for i, n := 0, run.Pick(30, 400); i < n && unexpected < 3; i++ {
		r := run.Rand.Fork()
		c := bk.GenCfg(r, bk.Backends)
		sc := bk.GenDeadCalls(r, next(), c)
		res := execute(sc)
		record(run, sc, &res)
	}

	rounds := run.Pick(1500, 20000)
	procs := []int{runtime.NumCPU(), 1, 2, 4}
	for i := 0; i < rounds && unexpected < 3; i++ {
		if i%25 == 0 {
			// scheduling perturbation only
			runtime.GOMAXPROCS(procs[(i/25)%len(procs)])
		}
		r := run.Rand.Fork()
		c := bk.GenCfg(r, bk.Backends)
		var sc bk.Scenario
		switch i % 5 {
		case 0:
			sc = bk.GenPhased(r, next(), c, true) // large bursts
		case 1:
			sc = bk.GenStop(r, next(), c, "idle")
		case 2, 3:
			sc = bk.GenStop(r, next(), c, "blocked")
		default:
			sc = bk.GenPhased(r, next(), c, false)
		}
		res := execute(sc)
		record(run, sc, &res)
	}
	runtime.GOMAXPROCS(runtime.NumCPU())
	// every API call is bounded by its own context, loop busy / loop gone
	if unexpected >= 3 {
		run.Finish()
		return
	}
	for _, be := range []string{"chan", "dequeblock"} {
		for _, kind := range []string{"api-ctx-busy", "api-ctx-stopped"} {
			sc := bk.Scenario{ID: next(), Kind: kind, Cfg: bk.Cfg{Backend: be, W: 1, Cap: 1}}
			res := execute(sc)
			record(run, sc, &res)
		}
	}
	// Stop while a goroutine is in Wait (one per back-end)
	for _, be := range bk.Backends[:2] {
		sc := bk.Scenario{ID: next(), Kind: "stop-during-wait", Cfg: bk.Cfg{Backend: be, W: 2, Cap: 2}}
		res := execute(sc)
		record(run, sc, &res)
	}
	// last, because a wedged event loop cannot be removed from the process
	for _, be := range []string{"chan", "queue"} {
		sc := bk.Scenario{ID: next(), Kind: "stats-wedge", Cfg: bk.Cfg{Backend: be, W: 1}}
		res := execute(sc)
		record(run, sc, &res)
		if len(res.Fails) > 0 {
			break
		}
	}
	run.Finish()
}
