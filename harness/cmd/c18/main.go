// Driver for C18: runs the real dt.Set on generated operation sequences over a table of three
// sets (value domain {0..4}), prints every case with the implementation's observations (and the
// oracle choices: the map-iteration orders the implementation actually used) as Coq terms for
// coq/Corr/C18_corr.v, and runs the property's direct oracles on the implementation:
//
//   - sequential: a reference set (map[int]bool + insertion-order slice) must agree with every
//     return value, Len and the drained iterator after every step;
//   - synchronized set under K goroutines: the recorded history must be linearizable against the
//     reference set (backtracking search); the witness order is also handed to the Coq model;
//   - the producer of a synchronized set must run under the set's mutex (lock probe).
package main

import (
	"context"
	"encoding/json"
	"fmt"
	"os"
	"os/exec"
	"runtime"
	"sort"
	"strings"
	"sync"
	"sync/atomic"
	"time"

	"github.com/tychoish/fun"
	"github.com/tychoish/fun/dt"

	"verif/harness/kit"
)

const nSets = 3

type Op struct {
	Op      string `json:"op"`
	T       int    `json:"t"`
	U       int    `json:"u,omitempty"`
	V       int    `json:"v,omitempty"`
	Vs      []int  `json:"vs,omitempty"`
	Items   []*int `json:"items,omitempty"` // unmarshal: nil = an element that does not decode
	Lt      int    `json:"lt,omitempty"`
	Ordered bool   `json:"ordered,omitempty"`
	Sync    bool   `json:"sync,omitempty"`
	L       int    `json:"l,omitempty"` // lock identity: withlock: 0 = nil, 10*t+j = j-th driver mutex of set t; sync/reset: negative id of the mutex Synchronize allocates
}

type Case struct {
	ID   int    `json:"id"`
	Kind string `json:"kind"` // seq | conc | lockprobe | racechild
	Ops  []Op   `json:"ops,omitempty"`
	// conc
	Ordered  bool   `json:"ordered,omitempty"`
	WithLock bool   `json:"withlock,omitempty"`
	Pre      []int  `json:"pre,omitempty"`
	Threads  [][]Op `json:"threads,omitempty"`
	SyncLoop bool   `json:"syncloop,omitempty"` // conc: one more goroutine calls Synchronize() in a loop
	// lockid
	Disturb []string `json:"disturb,omitempty"` // sync | withlock-other | withlock-same | withlock-nil, applied after WithLock(m)
}

// ---------------------------------------------------------------- comparison family (ids as in coq/Model/SetModel.v lt_of)

func mod(a, m int) int {
	r := a % m
	if r < 0 {
		r += m
	}
	return r
}
func abs(a int) int {
	if a < 0 {
		return -a
	}
	return a
}

func ltOf(k int) func(a, b int) bool {
	switch k {
	case 0:
		return func(a, b int) bool { return a < b }
	case 1:
		return func(a, b int) bool { return b < a }
	case 2:
		return func(a, b int) bool { return mod(a, 3) < mod(b, 3) }
	case 3:
		return func(a, b int) bool { return false }
	default:
		return func(a, b int) bool { return abs(a) < abs(b) }
	}
}

// ---------------------------------------------------------------- observations

type Res struct {
	Kind string `json:"k"` // unit bool len seq panic
	B    bool   `json:"b,omitempty"`
	N    int    `json:"n,omitempty"`
	Seq  []int  `json:"seq,omitempty"`
}

type StepObs struct {
	Res    Res   `json:"res"`
	Choice []int `json:"choice,omitempty"`
	Len    int   `json:"len"`
	Iter   []int `json:"iter"`
}

func drainRaw(s *dt.Set[int]) []int {
	out := []int{}
	it := s.Iterator()
	ctx := context.Background()
	for it.Next(ctx) {
		out = append(out, it.Value())
		if len(out) > 100000 {
			break
		}
	}
	_ = it.Close()
	return out
}

func sorted(l []int) []int {
	o := append([]int{}, l...)
	sort.Ints(o)
	return o
}

func contains(l []int, v int) bool {
	for _, x := range l {
		if x == v {
			return true
		}
	}
	return false
}

func isPerm(a, b []int) bool { return fmt.Sprint(sorted(a)) == fmt.Sprint(sorted(b)) }

func eqInts(a, b []int) bool {
	if len(a) != len(b) {
		return false
	}
	for i := range a {
		if a[i] != b[i] {
			return false
		}
	}
	return true
}

// ---------------------------------------------------------------- the reference set (direct oracle)

type ref struct {
	present map[int]bool
	order   []int // insertion order (meaningful when ordered)
	ordered bool
	forced  bool // became ordered through Sort on a populated unordered set
	sync    bool
	lock    int    // identity of the first mutex installed (0 = none): the slot is write-once
	lockOp  string // the last Synchronize/WithLock call made on the set
}

func newRef() *ref { return &ref{present: map[int]bool{}} }

func (r *ref) mode() string {
	switch {
	case r.forced:
		return "forced-ordered"
	case r.ordered:
		return "ordered"
	default:
		return "unordered"
	}
}
func (r *ref) add(v int) bool {
	if r.present[v] {
		return true
	}
	r.present[v] = true
	r.order = append(r.order, v)
	return false
}
func (r *ref) del(v int) bool {
	if !r.present[v] {
		return false
	}
	delete(r.present, v)
	for i, x := range r.order {
		if x == v {
			r.order = append(append([]int{}, r.order[:i]...), r.order[i+1:]...)
			break
		}
	}
	return true
}
func (r *ref) members() []int { return sorted(r.order) }
func (r *ref) canon() []int {
	if r.ordered {
		return append([]int{}, r.order...)
	}
	return r.members()
}

// ---------------------------------------------------------------- executing one sequential case

type world struct {
	sets [nSets]*dt.Set[int]
	refs [nSets]*ref
	last [nSets][]int // raw-canonical iteration observed last for each set
	mus  map[int]*sync.Mutex // driver-owned mutexes by lock id
}

func (w *world) mutex(id int) *sync.Mutex {
	if id <= 0 {
		return nil
	}
	if w.mus == nil {
		w.mus = map[int]*sync.Mutex{}
	}
	if w.mus[id] == nil {
		w.mus[id] = &sync.Mutex{}
	}
	return w.mus[id]
}

// lockIdentity answers which driver mutex the methods of set t lock (0 = none of them): for every
// driver mutex handed to this set so far, the driver holds it and calls Len(); the call blocks
// exactly when that mutex is the set's lock.
func (w *world) lockIdentity(t int) int {
	found := 0
	for j := 1; j <= 2; j++ {
		id := 10*t + j
		mu := w.mus[id]
		if mu == nil {
			continue
		}
		s := w.sets[t]
		blocked, _ := heldCall(mu, func() { _ = s.Len() })
		if blocked && found == 0 {
			found = id
		}
	}
	return found
}

func newWorld() *world {
	w := &world{}
	for i := range w.sets {
		w.sets[i] = &dt.Set[int]{}
		w.refs[i] = newRef()
		w.last[i] = []int{}
	}
	return w
}

func (w *world) canonIter(t int) []int {
	raw := drainRaw(w.sets[t])
	if w.refs[t].ordered { // orderedness is structural (set by Order/Sort/Reset), mirrored by the reference
		return raw
	}
	return sorted(raw)
}

var curOp atomic.Value // string: op being executed (for the hang watchdog)

func jsonBytes(items []*int) []byte {
	parts := make([]string, len(items))
	for i, p := range items {
		if p == nil {
			parts[i] = `"x"`
		} else {
			parts[i] = fmt.Sprint(*p)
		}
	}
	return []byte("[" + strings.Join(parts, ",") + "]")
}

// apply runs op on the implementation. It returns the result and the oracle choice.
func (w *world) apply(o Op) (res Res, choice []int, panicked any) {
	defer func() {
		if r := recover(); r != nil {
			res = Res{Kind: "panic"}
			panicked = r
		}
	}()
	s := w.sets[o.T]
	rt := w.refs[o.T]
	res = Res{Kind: "unit"}
	switch o.Op {
	case "add":
		s.Add(o.V)
	case "addcheck":
		res = Res{Kind: "bool", B: s.AddCheck(o.V)}
	case "delete":
		s.Delete(o.V)
	case "deletecheck":
		res = Res{Kind: "bool", B: s.DeleteCheck(o.V)}
	case "check":
		res = Res{Kind: "bool", B: s.Check(o.V)}
	case "len":
		res = Res{Kind: "len", N: s.Len()}
	case "populate":
		s.Populate(fun.SliceIterator(append([]int{}, o.Vs...)))
	case "extend":
		u := w.sets[o.U]
		um := sorted(drainRaw(u)) // members of the source (observation only)
		before := w.last[o.T]
		s.Extend(u)
		if !w.refs[o.U].ordered {
			// delivery order of the unordered source: only the order of the NEW members is
			// observable (as the new tail of an ordered target); the others go first.
			choice = []int{}
			var tail []int
			if rt.ordered {
				after := drainRaw(s)
				if len(after) >= len(before) {
					tail = after[len(before):]
				}
			}
			for _, x := range um {
				if !contains(tail, x) {
					choice = append(choice, x)
				}
			}
			choice = append(choice, tail...)
		}
	case "order":
		s.Order()
	case "sync":
		s.Synchronize()
	case "withlock":
		s.WithLock(w.mutex(o.L))
	case "lockprobe":
		res = Res{Kind: "len", N: w.lockIdentity(o.T)}
	case "sortquick", "sortmerge":
		wasOrdered := rt.ordered
		if o.Op == "sortquick" {
			s.SortQuick(ltOf(o.Lt))
		} else {
			s.SortMerge(ltOf(o.Lt))
		}
		if !wasOrdered {
			choice = drainRaw(s) // a stable sort leaves an already sorted order unchanged
		}
	case "iter":
		raw := drainRaw(s)
		if !rt.ordered {
			raw = sorted(raw)
		}
		res = Res{Kind: "seq", Seq: raw}
	case "equal":
		res = Res{Kind: "bool", B: s.Equal(w.sets[o.U])}
	case "json":
		b, err := w.sets[o.U].MarshalJSON()
		if err != nil {
			panic(fmt.Sprint("MarshalJSON error: ", err))
		}
		var seq []int
		if err := json.Unmarshal(b, &seq); err != nil {
			panic(fmt.Sprint("MarshalJSON produced invalid JSON: ", string(b)))
		}
		if seq == nil {
			seq = []int{}
		}
		if !w.refs[o.U].ordered {
			choice = seq
		}
		if err := s.UnmarshalJSON(b); err != nil {
			panic(fmt.Sprint("UnmarshalJSON error: ", err))
		}
		res = Res{Kind: "seq", Seq: seq}
	case "unmarshal":
		if err := s.UnmarshalJSON(jsonBytes(o.Items)); err != nil {
			panic(fmt.Sprint("UnmarshalJSON error: ", err))
		}
	case "reset":
		n := &dt.Set[int]{}
		if o.Ordered {
			n.Order()
		}
		if o.Sync {
			n.Synchronize()
		}
		w.sets[o.T] = n
	default:
		panic("unknown op " + o.Op)
	}
	return
}

// expect advances the reference and returns a description of the first disagreement ("" = none).
func (w *world) expect(o Op, got StepObs) string {
	rt := w.refs[o.T]
	bad := ""
	fail := func(f string, a ...any) {
		if bad == "" {
			bad = fmt.Sprintf(f, a...)
		}
	}
	wantKind := "unit"
	switch o.Op {
	case "add":
		rt.add(o.V)
	case "addcheck":
		wantKind = "bool"
		if want := rt.add(o.V); got.Res.Kind == "bool" && got.Res.B != want {
			fail("AddCheck(%d) returned %v, reference %v", o.V, got.Res.B, want)
		}
	case "delete":
		rt.del(o.V)
	case "deletecheck":
		wantKind = "bool"
		if want := rt.del(o.V); got.Res.Kind == "bool" && got.Res.B != want {
			fail("DeleteCheck(%d) returned %v, reference %v", o.V, got.Res.B, want)
		}
	case "check":
		wantKind = "bool"
		if want := rt.present[o.V]; got.Res.Kind == "bool" && got.Res.B != want {
			fail("Check(%d) returned %v, reference %v", o.V, got.Res.B, want)
		}
	case "len":
		wantKind = "len"
		if got.Res.Kind == "len" && got.Res.N != len(rt.present) {
			fail("Len() returned %d, reference %d", got.Res.N, len(rt.present))
		}
	case "populate":
		for _, v := range o.Vs {
			rt.add(v)
		}
	case "extend":
		ru := w.refs[o.U]
		if ru.ordered || !rt.ordered {
			for _, v := range ru.canon() {
				rt.add(v)
			}
		} else {
			// unordered source into an ordered target: the old order is kept and the new members
			// follow in some order
			old := append([]int{}, rt.order...)
			var fresh []int
			for _, v := range ru.members() {
				if !rt.present[v] {
					fresh = append(fresh, v)
				}
			}
			if len(got.Iter) == len(old)+len(fresh) && eqInts(got.Iter[:len(old)], old) && isPerm(got.Iter[len(old):], fresh) {
				for _, v := range got.Iter[len(old):] {
					rt.add(v)
				}
			} else {
				fail("Extend from an unordered set: iterator %v is not %v followed by a permutation of %v", got.Iter, old, fresh)
				for _, v := range fresh {
					rt.add(v)
				}
			}
		}
	case "order":
		if rt.ordered {
			// no-op
		} else if len(rt.present) == 0 {
			rt.ordered = true
		} else {
			wantKind = "panic" // documented: panics on a populated unordered set
		}
	case "sync":
		rt.sync = true
		rt.lockOp = "Synchronize"
		if rt.lock == 0 {
			rt.lock = o.L
		}
	case "withlock":
		rt.lockOp = "WithLock"
		switch {
		case o.L == 0: // nil mutex
			wantKind = "panic"
		case rt.lock == 0:
			rt.lock, rt.sync = o.L, true
		case rt.lock != o.L: // "cannot override an existing mutex" -- and it must not
			wantKind = "panic"
		}
	case "lockprobe":
		wantKind = "len"
		want := 0
		if rt.lock > 0 {
			want = rt.lock
		}
		if got.Res.Kind == "len" && got.Res.N != want {
			fail("the set's methods lock driver mutex %d, but the first mutex installed is %d (0 = not a driver mutex): an installed mutex was replaced", got.Res.N, want)
		}
	case "sortquick", "sortmerge":
		lt := ltOf(o.Lt)
		if rt.ordered {
			sort.SliceStable(rt.order, func(i, j int) bool { return lt(rt.order[i], rt.order[j]) })
		} else {
			rt.ordered, rt.forced = true, true
			okSorted := true
			for i := 0; i+1 < len(got.Iter); i++ {
				if lt(got.Iter[i+1], got.Iter[i]) {
					okSorted = false
				}
			}
			if isPerm(got.Iter, rt.order) && okSorted {
				rt.order = append([]int{}, got.Iter...)
			} else {
				fail("Sort of an unordered set: iterator %v is not a sorted permutation of the members %v", got.Iter, rt.members())
				sort.SliceStable(rt.order, func(i, j int) bool { return lt(rt.order[i], rt.order[j]) })
			}
		}
	case "iter":
		wantKind = "seq"
		if got.Res.Kind == "seq" && !eqInts(got.Res.Seq, rt.canon()) {
			fail("Iterator yielded %v, reference %v", got.Res.Seq, rt.canon())
		}
	case "equal":
		wantKind = "bool"
		ru := w.refs[o.U]
		want := rt.ordered == ru.ordered && eqInts(rt.canon(), ru.canon())
		if got.Res.Kind == "bool" && got.Res.B != want {
			fail("Equal returned %v; receiver %s %v, argument %s %v", got.Res.B, rt.mode(), rt.canon(), ru.mode(), ru.canon())
		}
	case "json":
		wantKind = "seq"
		ru := w.refs[o.U]
		if got.Res.Kind == "seq" {
			if ru.ordered && !eqInts(got.Res.Seq, ru.order) {
				fail("MarshalJSON of an ordered set encoded %v, reference order %v", got.Res.Seq, ru.order)
			} else if !ru.ordered && !isPerm(got.Res.Seq, ru.members()) {
				fail("MarshalJSON encoded %v, reference members %v", got.Res.Seq, ru.members())
			}
			src := got.Res.Seq
			if !isPerm(src, ru.members()) {
				src = ru.canon()
			}
			for _, v := range src {
				rt.add(v)
			}
		}
	case "unmarshal":
		for _, p := range o.Items {
			if p == nil {
				wantKind = "panic" // Populate's Invariant.Must on a decode error
				break
			}
			rt.add(*p)
		}
	case "reset":
		n := newRef()
		n.ordered, n.sync = o.Ordered, o.Sync
		if o.Sync {
			n.lock, n.lockOp = o.L, "Synchronize"
		}
		w.refs[o.T] = n
		rt = n
	}
	if got.Res.Kind != wantKind {
		fail("%s: result kind %q, expected %q", o.Op, got.Res.Kind, wantKind)
	}
	if got.Len != len(rt.present) {
		fail("after %s: Len() = %d, reference %d", o.Op, got.Len, len(rt.present))
	}
	if !eqInts(got.Iter, rt.canon()) {
		fail("after %s: iterator yields %v, reference %v (%s)", o.Op, got.Iter, rt.canon(), rt.mode())
	}
	return bad
}

var opNames = map[string]string{
	"add": "Add", "addcheck": "AddCheck", "delete": "Delete", "deletecheck": "DeleteCheck", "check": "Check",
	"len": "Len", "populate": "Populate", "extend": "Extend", "order": "Order", "sync": "Synchronize", "withlock": "WithLock", "lockprobe": "LockProbe",
	"sortquick": "SortQuick", "sortmerge": "SortMerge", "iter": "Iterator", "equal": "Equal", "json": "JSON",
	"unmarshal": "UnmarshalJSON", "reset": "New",
}

type seqResult struct {
	obs   []StepObs
	fails []string // per step, "" = ok
	sig   string
	first string
}

func runSeq(c Case) seqResult {
	w := newWorld()
	var out seqResult
	for _, o := range c.Ops {
		curOp.Store(opNames[o.Op])
		modeBefore := w.refs[o.T].mode()
		res, choice, _ := w.apply(o)
		curOp.Store("Len/Iterator after " + opNames[o.Op])
		st := StepObs{Res: res, Choice: choice}
		func() {
			defer func() {
				if r := recover(); r != nil {
					st.Len, st.Iter = -1, []int{}
				}
			}()
			st.Len = w.sets[o.T].Len()
		}()
		// orderedness after the op decides whether the iteration is compared sorted
		orderedAfter := w.refs[o.T].ordered
		switch o.Op {
		case "order":
			orderedAfter = orderedAfter || res.Kind != "panic"
		case "sortquick", "sortmerge":
			orderedAfter = true
		case "reset":
			orderedAfter = o.Ordered
		}
		func() {
			defer func() {
				if r := recover(); r != nil {
					st.Iter = []int{}
				}
			}()
			raw := drainRaw(w.sets[o.T])
			if !orderedAfter {
				raw = sorted(raw)
			}
			st.Iter = raw
		}()
		w.last[o.T] = st.Iter
		bad := w.expect(o, st)
		out.obs = append(out.obs, st)
		out.fails = append(out.fails, bad)
		if bad != "" && out.sig == "" {
			mode := modeBefore
			if o.Op == "sortquick" || o.Op == "sortmerge" {
				mode = w.refs[o.T].mode()
			}
			out.sig = "C18:Set." + opNames[o.Op] + ":" + mode
			if o.Op == "lockprobe" {
				lop := w.refs[o.T].lockOp
				if lop == "" {
					lop = "Synchronize"
				}
				out.sig = "C18:Set." + lop + ":mutex-replaced"
			}
			out.first = bad
		}
	}
	return out
}

// ---------------------------------------------------------------- Coq terms

func optZList(items []*int) string {
	s := make([]string, len(items))
	for i, p := range items {
		if p == nil {
			s[i] = "None"
		} else {
			s[i] = "Some " + kit.ZI(*p)
		}
	}
	return kit.List(s)
}

func coqOp(o Op, choice []int) string {
	t, u := kit.Nat(o.T), kit.Nat(o.U)
	if choice == nil {
		choice = []int{}
	}
	switch o.Op {
	case "add":
		return fmt.Sprintf("OAdd %s %s", t, kit.ZI(o.V))
	case "addcheck":
		return fmt.Sprintf("OAddCheck %s %s", t, kit.ZI(o.V))
	case "delete":
		return fmt.Sprintf("ODelete %s %s", t, kit.ZI(o.V))
	case "deletecheck":
		return fmt.Sprintf("ODeleteCheck %s %s", t, kit.ZI(o.V))
	case "check":
		return fmt.Sprintf("OCheck %s %s", t, kit.ZI(o.V))
	case "len":
		return "OLen " + t
	case "populate":
		return fmt.Sprintf("OPopulate %s %s", t, kit.ZListI(o.Vs))
	case "extend":
		return fmt.Sprintf("OExtend %s %s %s", t, u, kit.ZListI(choice))
	case "order":
		return "OOrder " + t
	case "sync":
		return fmt.Sprintf("OSync %s %s", t, kit.ZI(o.L))
	case "withlock":
		return fmt.Sprintf("OWithLock %s %s", t, kit.ZI(o.L))
	case "lockprobe":
		return "OLockProbe " + t
	case "sortquick":
		return fmt.Sprintf("OSortQuick %s %s %s", t, kit.ZI(o.Lt), kit.ZListI(choice))
	case "sortmerge":
		return fmt.Sprintf("OSortMerge %s %s %s", t, kit.ZI(o.Lt), kit.ZListI(choice))
	case "iter":
		return "OIter " + t
	case "equal":
		return fmt.Sprintf("OEqual %s %s", t, u)
	case "json":
		return fmt.Sprintf("OJSON %s %s %s", t, u, kit.ZListI(choice))
	case "unmarshal":
		return fmt.Sprintf("OUnmarshal %s %s", t, optZList(o.Items))
	case "reset":
		l := 0
		if o.Sync {
			l = o.L
		}
		return fmt.Sprintf("OReset %s %s %s", t, kit.Bool(o.Ordered), kit.ZI(l))
	}
	return "OLen 0"
}

func coqRes(r Res) string {
	switch r.Kind {
	case "unit":
		return "RUnit"
	case "bool":
		return "RBool " + kit.Bool(r.B)
	case "len":
		return "RLen " + kit.ZI(r.N)
	case "seq":
		return "RSeq " + kit.ZListI(r.Seq)
	default:
		return "RPanic"
	}
}

func coqSeqCase(c Case, obs []StepObs) string {
	steps := make([]string, len(c.Ops))
	for i, o := range c.Ops {
		steps[i] = fmt.Sprintf("(%s, (%s, %s, %s))", coqOp(o, obs[i].Choice), coqRes(obs[i].Res), kit.ZI(obs[i].Len), kit.ZListI(obs[i].Iter))
	}
	return fmt.Sprintf("CSeq %s %s", kit.ZI(c.ID), kit.List(steps))
}

// ---------------------------------------------------------------- generation of sequential cases

func genVal(r *kit.Rand, neg bool) int {
	if neg {
		return r.Intn(5) - 2
	}
	return r.Intn(5)
}

func genVals(r *kit.Rand, neg bool, maxn int) []int {
	n := r.Intn(maxn + 1)
	vs := make([]int, n)
	for i := range vs {
		vs[i] = genVal(r, neg)
	}
	return vs
}

var sortMergeEnabled = true

func genSeq(r *kit.Rand, id int) Case {
	c := Case{ID: id, Kind: "seq"}
	neg := r.Chance(1, 8)
	// initial shapes of the three sets
	for t := 0; t < nSets; t++ {
		switch r.Intn(4) {
		case 0: // zero value: unordered, unsynchronized
		case 1:
			c.Ops = append(c.Ops, Op{Op: "reset", T: t, Ordered: true, Sync: r.Chance(1, 4)})
		case 2:
			c.Ops = append(c.Ops, Op{Op: "order", T: t})
		case 3:
			c.Ops = append(c.Ops, Op{Op: "reset", T: t, Ordered: r.Bool(), Sync: true})
		}
	}
	if r.Chance(1, 4) { // a set that gets its mutex from the driver first
		t := r.Intn(nSets)
		c.Ops = append(c.Ops, Op{Op: "withlock", T: t, L: 10*t + 1}, Op{Op: "lockprobe", T: t})
	}
	n := r.Range(0, 22)
	if r.Chance(1, 10) {
		n = r.Range(22, 40)
	}
	pickT := func() int {
		x := r.Intn(10)
		switch {
		case x < 5:
			return 0
		case x < 8:
			return 1
		default:
			return 2
		}
	}
	other := func(t int) int { return (t + 1 + r.Intn(nSets-1)) % nSets }
	sortOp := func() string {
		if sortMergeEnabled && r.Bool() {
			return "sortmerge"
		}
		return "sortquick"
	}
	// approximate membership, only to bias deletes towards present values
	var approx [nSets][]int
	pickPresent := func(t int) int {
		if len(approx[t]) > 0 && r.Chance(2, 3) {
			return approx[t][r.Intn(len(approx[t]))]
		}
		return genVal(r, neg)
	}
	note := func(t, v int) {
		if !contains(approx[t], v) {
			approx[t] = append(approx[t], v)
		}
	}
	forget := func(t, v int) {
		for i, x := range approx[t] {
			if x == v {
				approx[t] = append(append([]int{}, approx[t][:i]...), approx[t][i+1:]...)
				return
			}
		}
	}
	for i := 0; i < n; i++ {
		t := pickT()
		x := r.Intn(100)
		switch {
		case x < 18:
			v := genVal(r, neg)
			note(t, v)
			c.Ops = append(c.Ops, Op{Op: "add", T: t, V: v})
		case x < 30:
			v := genVal(r, neg)
			note(t, v)
			c.Ops = append(c.Ops, Op{Op: "addcheck", T: t, V: v})
		case x < 38:
			v := pickPresent(t)
			forget(t, v)
			c.Ops = append(c.Ops, Op{Op: "delete", T: t, V: v})
		case x < 49:
			v := pickPresent(t)
			forget(t, v)
			c.Ops = append(c.Ops, Op{Op: "deletecheck", T: t, V: v})
		case x < 55:
			c.Ops = append(c.Ops, Op{Op: "check", T: t, V: genVal(r, neg)})
		case x < 57:
			c.Ops = append(c.Ops, Op{Op: "len", T: t})
		case x < 62:
			vs := genVals(r, neg, 5)
			for _, v := range vs {
				note(t, v)
			}
			c.Ops = append(c.Ops, Op{Op: "populate", T: t, Vs: vs})
		case x < 68:
			u := other(t)
			for _, v := range approx[u] {
				note(t, v)
			}
			c.Ops = append(c.Ops, Op{Op: "extend", T: t, U: u})
		case x < 70:
			c.Ops = append(c.Ops, Op{Op: "order", T: t})
		case x < 71:
			// the mutex slot: Synchronize() / WithLock(m) at arbitrary points (again on a set that
			// already has a mutex, with the same, another or a nil mutex), then ask which mutex
			// the set's methods really lock
			for k, m := 0, r.Range(1, 3); k < m; k++ {
				switch r.Intn(5) {
				case 0, 1:
					c.Ops = append(c.Ops, Op{Op: "sync", T: t})
				case 2, 3:
					c.Ops = append(c.Ops, Op{Op: "withlock", T: t, L: 10*t + r.Range(1, 2)})
				default:
					c.Ops = append(c.Ops, Op{Op: "withlock", T: t, L: 0})
				}
			}
			c.Ops = append(c.Ops, Op{Op: "lockprobe", T: t})
		case x < 80:
			c.Ops = append(c.Ops, Op{Op: sortOp(), T: t, Lt: r.Intn(5)})
		case x < 83:
			c.Ops = append(c.Ops, Op{Op: "iter", T: t})
		case x < 91:
			c.Ops = append(c.Ops, Op{Op: "equal", T: t, U: other(t)})
		case x < 96:
			u := other(t)
			if r.Chance(1, 8) {
				u = t // a set's own encoding read back into itself
			}
			for _, v := range approx[u] {
				note(t, v)
			}
			c.Ops = append(c.Ops, Op{Op: "json", T: t, U: u})
		case x < 97:
			items := []*int{}
			for j, m := 0, r.Range(0, 4); j < m; j++ {
				if r.Chance(1, 4) {
					items = append(items, nil)
				} else {
					v := genVal(r, neg)
					items = append(items, &v)
				}
			}
			c.Ops = append(c.Ops, Op{Op: "unmarshal", T: t, Items: items})
		default:
			approx[t] = nil
			c.Ops = append(c.Ops, Op{Op: "reset", T: t, Ordered: r.Bool(), Sync: r.Chance(1, 3)})
		}
	}
	if r.Chance(1, 3) {
		c.Ops = append(c.Ops, Op{Op: "lockprobe", T: pickT()})
	}
	assignLockIDs(&c)
	return c
}

// assignLockIDs gives every mutex that Synchronize() allocates in the case its own (negative) identity.
func assignLockIDs(c *Case) {
	for i := range c.Ops {
		o := &c.Ops[i]
		if (o.Op == "sync" || (o.Op == "reset" && o.Sync)) && o.L == 0 {
			o.L = -(i + 1)
		}
	}
}

func shuffle(r *kit.Rand, l []int) []int {
	o := append([]int{}, l...)
	for i := len(o) - 1; i > 0; i-- {
		j := r.Intn(i + 1)
		o[i], o[j] = o[j], o[i]
	}
	return o
}

// genEqual builds two sets by their own sequences and compares them: same members in the same
// order, in reversed / permuted order, one member different, different size, mixed orderedness;
// optionally sorts both first, deletes-and-re-adds, or round-trips one through JSON.
func genEqual(r *kit.Rand, id int) Case {
	c := Case{ID: id, Kind: "seq"}
	neg := r.Chance(1, 8)
	o0, o1 := r.Chance(3, 4), r.Chance(3, 4)
	if r.Chance(2, 3) {
		o1 = o0
	}
	c.Ops = append(c.Ops, Op{Op: "reset", T: 0, Ordered: o0, Sync: r.Chance(1, 4)}, Op{Op: "reset", T: 1, Ordered: o1, Sync: r.Chance(1, 4)})
	base := []int{}
	for _, v := range shuffle(r, []int{0, 1, 2, 3, 4}) {
		if r.Chance(2, 3) {
			if neg {
				v -= 2
			}
			base = append(base, v)
		}
	}
	second := append([]int{}, base...)
	switch r.Intn(6) {
	case 0: // same order
	case 1: // reversed
		for i, j := 0, len(second)-1; i < j; i, j = i+1, j-1 {
			second[i], second[j] = second[j], second[i]
		}
	case 2, 3:
		second = shuffle(r, second)
	case 4: // one member replaced (same size)
		if len(second) > 0 {
			second[r.Intn(len(second))] = genVal(r, neg) + 7
		}
	case 5: // one more / one fewer
		if r.Bool() && len(second) > 0 {
			second = second[1:]
		} else {
			second = append(second, 9)
		}
	}
	for _, v := range base {
		c.Ops = append(c.Ops, Op{Op: "add", T: 0, V: v})
	}
	if r.Bool() {
		c.Ops = append(c.Ops, Op{Op: "populate", T: 1, Vs: second})
	} else {
		for _, v := range second {
			c.Ops = append(c.Ops, Op{Op: "addcheck", T: 1, V: v})
		}
	}
	c.Ops = append(c.Ops, Op{Op: "equal", T: 0, U: 1}, Op{Op: "equal", T: 1, U: 0})
	switch r.Intn(5) {
	case 0: // delete-then-re-add moves a member to the back of an ordered set
		if len(base) > 0 {
			v := base[r.Intn(len(base))]
			c.Ops = append(c.Ops, Op{Op: "delete", T: 0, V: v}, Op{Op: "equal", T: 0, U: 1}, Op{Op: "add", T: 0, V: v}, Op{Op: "equal", T: 0, U: 1})
		}
	case 1: // sort both the same way
		k := r.Intn(5)
		s := "sortquick"
		if sortMergeEnabled && r.Bool() {
			s = "sortmerge"
		}
		c.Ops = append(c.Ops, Op{Op: s, T: 0, Lt: k}, Op{Op: "sortquick", T: 1, Lt: k}, Op{Op: "equal", T: 0, U: 1}, Op{Op: "equal", T: 1, U: 0})
	case 2: // JSON round trip into a fresh set of the same kind must compare equal
		c.Ops = append(c.Ops, Op{Op: "reset", T: 2, Ordered: o0}, Op{Op: "json", T: 2, U: 0}, Op{Op: "equal", T: 0, U: 2}, Op{Op: "equal", T: 2, U: 0})
	case 3: // re-adding present values must not move them
		for _, v := range shuffle(r, base) {
			c.Ops = append(c.Ops, Op{Op: "addcheck", T: 0, V: v})
		}
		c.Ops = append(c.Ops, Op{Op: "equal", T: 0, U: 1})
	}
	assignLockIDs(&c)
	return c
}

// ---------------------------------------------------------------- concurrent histories (synchronized set)

type hEvent struct {
	Tid int    `json:"tid"`
	Inv int64  `json:"inv"`
	Ret int64  `json:"ret"`
	Op  string `json:"op"`
	V   int    `json:"v"`
	B   bool   `json:"b"`
	N   int    `json:"n"`
	Seq []int  `json:"seq,omitempty"`
}

func genConc(r *kit.Rand, id int) Case {
	c := Case{ID: id, Kind: "conc", Ordered: r.Bool(), WithLock: r.Chance(1, 3), SyncLoop: r.Bool()}
	c.Pre = genValsDom(r, 3, 2)
	k := r.Range(2, 3)
	total := 0
	for t := 0; t < k; t++ {
		n := r.Range(2, 4)
		if total+n > 10 {
			n = 10 - total
		}
		total += n
		ops := make([]Op, n)
		for i := range ops {
			v := r.Intn(3)
			switch x := r.Intn(10); {
			case x < 4:
				ops[i] = Op{Op: "addcheck", V: v}
			case x < 7:
				ops[i] = Op{Op: "deletecheck", V: v}
			case x < 9:
				ops[i] = Op{Op: "check", V: v}
			default:
				ops[i] = Op{Op: "len"}
			}
		}
		c.Threads = append(c.Threads, ops)
	}
	return c
}

func genValsDom(r *kit.Rand, dom, maxn int) []int {
	n := r.Intn(maxn + 1)
	vs := make([]int, n)
	for i := range vs {
		vs[i] = r.Intn(dom)
	}
	return vs
}

func runConc(c Case) []hEvent {
	s := &dt.Set[int]{}
	if c.Ordered {
		s.Order()
	}
	if c.WithLock {
		s.WithLock(&sync.Mutex{})
	} else {
		s.Synchronize()
	}
	for _, v := range c.Pre {
		s.Add(v)
	}
	var clock atomic.Int64
	var mu sync.Mutex
	var hist []hEvent
	var wg sync.WaitGroup
	var ready atomic.Int64
	k := int64(len(c.Threads))
	var stopLoop atomic.Bool
	loopDone := make(chan struct{})
	if c.SyncLoop {
		go func() {
			defer close(loopDone)
			for !stopLoop.Load() {
				s.Synchronize() // "safe to call more than once": must not change the set's mutex
				runtime.Gosched()
			}
		}()
	} else {
		close(loopDone)
	}
	for tid, ops := range c.Threads {
		wg.Add(1)
		go func(tid int, ops []Op) {
			defer wg.Done()
			ready.Add(1)
			for ready.Load() < k { // spin barrier: all threads issue their first call together
			}
			local := make([]hEvent, 0, len(ops))
			for _, o := range ops {
				e := hEvent{Tid: tid, Op: o.Op, V: o.V}
				e.Inv = clock.Add(1)
				switch o.Op {
				case "addcheck":
					e.B = s.AddCheck(o.V)
				case "deletecheck":
					e.B = s.DeleteCheck(o.V)
				case "check":
					e.B = s.Check(o.V)
				case "len":
					e.N = s.Len()
				}
				e.Ret = clock.Add(1)
				local = append(local, e)
			}
			mu.Lock()
			hist = append(hist, local...)
			mu.Unlock()
		}(tid, ops)
	}
	wg.Wait()
	stopLoop.Store(true)
	<-loopDone
	// final state, observed by the driver after every thread returned
	e := hEvent{Tid: -1, Op: "len"}
	e.Inv = clock.Add(1)
	e.N = s.Len()
	e.Ret = clock.Add(1)
	hist = append(hist, e)
	e = hEvent{Tid: -1, Op: "iter"}
	e.Inv = clock.Add(1)
	e.Seq = drainRaw(s)
	if !c.Ordered {
		e.Seq = sorted(e.Seq)
	}
	e.Ret = clock.Add(1)
	hist = append(hist, e)
	sort.Slice(hist, func(i, j int) bool { return hist[i].Inv < hist[j].Inv })
	return hist
}

// linearize searches for a sequential order of the history that respects real time and
// in which every call returns what the reference set returns. Returns the witness order.
func linearize(c Case, hist []hEvent) ([]int, bool) {
	n := len(hist)
	done := make([]bool, n)
	order := make([]int, 0, n)
	state := newRef()
	state.ordered = c.Ordered
	for _, v := range c.Pre {
		state.add(v)
	}
	snapshot := func(r *ref) *ref {
		o := &ref{present: map[int]bool{}, ordered: r.ordered, order: append([]int{}, r.order...)}
		for k, v := range r.present {
			o.present[k] = v
		}
		return o
	}
	var rec func(st *ref) bool
	rec = func(st *ref) bool {
		if len(order) == n {
			return true
		}
		// minimal return stamp among the calls not yet placed
		minRet := int64(1 << 62)
		for i := 0; i < n; i++ {
			if !done[i] && hist[i].Ret < minRet {
				minRet = hist[i].Ret
			}
		}
		for i := 0; i < n; i++ {
			if done[i] || hist[i].Inv > minRet {
				continue // some unplaced call returned before this one was invoked
			}
			st2 := snapshot(st)
			e := hist[i]
			ok := false
			switch e.Op {
			case "addcheck":
				ok = st2.add(e.V) == e.B
			case "deletecheck":
				ok = st2.del(e.V) == e.B
			case "check":
				ok = st2.present[e.V] == e.B
			case "len":
				ok = len(st2.present) == e.N
			case "iter":
				ok = eqInts(st2.canon(), e.Seq)
			}
			if !ok {
				continue
			}
			done[i] = true
			order = append(order, i)
			if rec(st2) {
				return true
			}
			order = order[:len(order)-1]
			done[i] = false
		}
		return false
	}
	if rec(state) {
		return order, true
	}
	return nil, false
}

func coqLinCase(c Case, hist []hEvent, order []int) string {
	steps := []string{fmt.Sprintf("(OReset 0 %s (-1)%%Z, RUnit)", kit.Bool(c.Ordered))}
	for _, v := range c.Pre {
		steps = append(steps, fmt.Sprintf("(OAdd 0 %s, RUnit)", kit.ZI(v)))
	}
	for _, i := range order {
		e := hist[i]
		switch e.Op {
		case "addcheck":
			steps = append(steps, fmt.Sprintf("(OAddCheck 0 %s, RBool %s)", kit.ZI(e.V), kit.Bool(e.B)))
		case "deletecheck":
			steps = append(steps, fmt.Sprintf("(ODeleteCheck 0 %s, RBool %s)", kit.ZI(e.V), kit.Bool(e.B)))
		case "check":
			steps = append(steps, fmt.Sprintf("(OCheck 0 %s, RBool %s)", kit.ZI(e.V), kit.Bool(e.B)))
		case "len":
			steps = append(steps, fmt.Sprintf("(OLen 0, RLen %s)", kit.ZI(e.N)))
		case "iter":
			steps = append(steps, fmt.Sprintf("(OIter 0, RSeq %s)", kit.ZListI(e.Seq)))
		}
	}
	return fmt.Sprintf("CLin %s %s", kit.ZI(c.ID), kit.List(steps))
}

// ---------------------------------------------------------------- deciding "blocked on a mutex" from a goroutine snapshot

//go:noinline
func probeCallMarker(f func(), done chan struct{}) {
	defer close(done)
	defer func() { _ = recover() }()
	f()
}

// probeParked: is the goroutine running probeCallMarker parked inside sync.(*Mutex).Lock?
func probeParked() bool {
	buf := make([]byte, 1<<19)
	buf = buf[:runtime.Stack(buf, true)]
	for _, g := range strings.Split(string(buf), "\n\n") {
		if strings.Contains(g, "main.probeCallMarker") && strings.Contains(g, "sync.(*Mutex).Lock") {
			hdr := g
			if i := strings.Index(g, "\n"); i >= 0 {
				hdr = g[:i]
			}
			if strings.Contains(hdr, "sync.Mutex.Lock") || strings.Contains(hdr, "semacquire") {
				return true
			}
		}
	}
	return false
}

var heldCallMu sync.Mutex // one probe at a time (the snapshot looks for THE probe goroutine)

// heldCall holds mu, runs f in another goroutine and decides by goroutine snapshots (10 s deadline)
// whether f parked on a mutex (blocked = true) or returned while mu was held (blocked = false).
// Then mu is released and f is awaited. hung: f neither returned nor parked, or did not return
// after the release.
func heldCall(mu *sync.Mutex, f func()) (blocked, hung bool) {
	heldCallMu.Lock()
	defer heldCallMu.Unlock()
	mu.Lock()
	done := make(chan struct{})
	go probeCallMarker(f, done)
	deadline := time.Now().Add(10 * time.Second)
	for !blocked {
		select {
		case <-done:
			mu.Unlock()
			return false, false
		default:
		}
		if probeParked() {
			blocked = true
		} else if time.Now().After(deadline) {
			hung = true
			break
		} else {
			time.Sleep(20 * time.Microsecond)
		}
	}
	mu.Unlock()
	select {
	case <-done:
	case <-time.After(10 * time.Second):
		hung = true
	}
	return
}

// ---------------------------------------------------------------- lock identity: every public method takes the FIRST mutex installed

// lockIDCase: a set gets its mutex m from the driver (WithLock(m)); then Synchronize() / WithLock(other) /
// WithLock(m) / WithLock(nil) are called on it (the invariant panics of the rejected ones are
// recovered); afterwards, while the driver holds m, every public method that takes the set's lock
// must block (decided by goroutine snapshot, 10 s deadline), and while the driver holds the
// rejected mutex a method must NOT block. Returns the descriptions of the methods that misbehaved.
func lockIDCase(c Case) (replaced []string, other []string) {
	m, m2 := &sync.Mutex{}, &sync.Mutex{}
	s := &dt.Set[int]{}
	o := &dt.Set[int]{} // an unsynchronized second set
	if c.Ordered {
		s.Order()
		o.Order()
	}
	s.WithLock(m)
	s.Populate(fun.SliceIterator([]int{1, 2, 3}))
	o.Populate(fun.SliceIterator([]int{1, 2, 3}))
	tryCall := func(f func()) {
		defer func() { _ = recover() }()
		f()
	}
	usedOther := false
	for _, d := range c.Disturb {
		switch d {
		case "sync":
			tryCall(s.Synchronize)
		case "withlock-other":
			usedOther = true
			tryCall(func() { s.WithLock(m2) })
		case "withlock-same":
			tryCall(func() { s.WithLock(m) })
		case "withlock-nil":
			tryCall(func() { s.WithLock(nil) })
		}
	}
	lt := func(a, b int) bool { return a < b }
	ctx := context.Background()
	methods := []struct {
		name string
		f    func()
	}{
		{"AddCheck", func() { s.AddCheck(7) }},
		{"Add", func() { s.Add(8) }},
		{"DeleteCheck", func() { s.DeleteCheck(7) }},
		{"Delete", func() { s.Delete(8) }},
		{"Check", func() { s.Check(2) }},
		{"Len", func() { _ = s.Len() }},
		{"Order", func() { s.Order() }},
		{"SortQuick", func() { s.SortQuick(lt) }},
		{"SortMerge", func() { s.SortMerge(lt) }},
		{"Producer", func() { _ = s.Producer() }},
		{"Iterator", func() { _ = drainRaw(s) }},
		{"Equal", func() { _ = s.Equal(o) }},
		{"Equal(argument)", func() { _ = o.Equal(s) }},
		{"Populate", func() { s.Populate(fun.SliceIterator([]int{9})) }},
		{"Extend", func() { s.Extend(o) }},
		{"Extend(argument)", func() { o.Extend(s) }},
		{"MarshalJSON", func() { _, _ = s.MarshalJSON() }},
		{"UnmarshalJSON", func() { _ = s.UnmarshalJSON([]byte("[5]")) }},
	}
	_ = ctx
	if !c.Ordered { // Order() on a populated unordered set panics after taking the lock; Sort* would make it ordered
		keep := methods[:0]
		for _, md := range methods {
			if md.name != "SortQuick" && md.name != "SortMerge" {
				keep = append(keep, md)
			}
		}
		methods = keep
	}
	for _, md := range methods {
		curOp.Store("lock identity probe: " + md.name)
		blocked, hung := heldCall(m, md.f)
		if hung {
			other = append(other, md.name+" did not return within 10 s")
		} else if !blocked {
			replaced = append(replaced, md.name)
		}
	}
	if usedOther {
		curOp.Store("lock identity probe: rejected mutex")
		blocked, hung := heldCall(m2, func() { _ = s.Len() })
		if blocked || hung {
			replaced = append(replaced, "Len blocks on the mutex of a REJECTED WithLock")
		}
	}
	return
}

func execLockID(run *kit.Run, c Case, verbose bool) bool {
	var replaced, other []string
	if !withWatchdog(run, c, func() { replaced, other = lockIDCase(c) }) {
		return true
	}
	if verbose {
		fmt.Printf("lock identity (ordered=%v, after WithLock(m): %v): ran without m: %v; other: %v\n", c.Ordered, c.Disturb, replaced, other)
	}
	run.Count(fmt.Sprintf("lockid/disturb=%d", len(c.Disturb)))
	if len(replaced) > 0 {
		sig := "C18:Set.Synchronize:mutex-replaced"
		switch {
		case len(c.Disturb) == 0:
			sig = "C18:Set." + strings.TrimSuffix(replaced[0], "(argument)") + ":unlocked"
		case !strings.Contains(strings.Join(c.Disturb, ","), "sync"):
			sig = "C18:Set.WithLock:mutex-replaced"
		}
		run.OracleFail(c.ID, sig, fmt.Sprintf("set synchronized with WithLock(m), then %v: while the driver held m these calls returned (they do not lock m any more): %v", c.Disturb, replaced), c, replaced)
	} else if len(other) > 0 {
		run.OracleFail(c.ID, "C18:Set.LockProbe:hang", strings.Join(other, "; "), c, other)
	}
	key, _ := json.Marshal([]any{c.Ordered, c.Disturb})
	run.Case(c.ID, c, "", "l|"+string(key), false)
	return len(replaced) > 0
}

// ---------------------------------------------------------------- lock probe: the producer of a synchronized set runs under the set's mutex

// The driver owns the mutex (WithLock), holds it, and lets another goroutine call the producer.
// A producer that takes the set's lock cannot return while the driver holds it; one that does
// return ran without the lock. (The wait only bounds how long the correct case takes.)
func lockProbe(ordered bool) (unlocked bool) {
	mu := &sync.Mutex{}
	s := &dt.Set[int]{}
	if ordered {
		s.Order()
	}
	s.WithLock(mu)
	s.Add(1)
	s.Add(2)
	p := s.Producer()
	mu.Lock()
	done := make(chan struct{})
	go func() {
		defer close(done)
		_, _ = p(context.Background())
	}()
	select {
	case <-done:
		unlocked = true
	case <-time.After(300 * time.Millisecond):
	}
	mu.Unlock()
	<-done
	// drain so that the key-sending goroutine of an unordered set exits
	for {
		if _, err := p(context.Background()); err != nil {
			break
		}
	}
	return
}

// ---------------------------------------------------------------- race stress in a child process (only meaningful in a -race build)

// raceChild: a synchronized set is iterated by one goroutine while others add and delete.
func raceChild(ordered bool) {
	s := &dt.Set[int]{}
	if ordered {
		s.Order()
	}
	s.Synchronize()
	for i := 0; i < 8; i++ {
		s.Add(i)
	}
	// deterministic part: take one item from the producer, give whatever runs behind it time to
	// go on reading the set, then write to the set from this goroutine
	ctx := context.Background()
	p := s.Producer()
	_, _ = p(ctx)
	time.Sleep(50 * time.Millisecond)
	s.Add(1000)
	s.Delete(3)
	for {
		if _, err := p(ctx); err != nil {
			break
		}
	}
	// stress part
	var wg sync.WaitGroup
	var stop atomic.Bool
	loopDone := make(chan struct{})
	go func() {
		defer close(loopDone)
		for !stop.Load() {
			s.Synchronize()
			runtime.Gosched()
		}
	}()
	defer func() { stop.Store(true); <-loopDone }()
	for g := 0; g < 2; g++ {
		wg.Add(1)
		go func(g int) {
			defer wg.Done()
			for i := 0; i < 200; i++ {
				v := 100 + g*1000 + i
				s.AddCheck(v)
				s.Check(v)
				_ = s.Len()
				if ordered {
					s.DeleteCheck(v)
				}
			}
		}(g)
	}
	wg.Add(1)
	go func() {
		defer wg.Done()
		for i := 0; i < 20; i++ {
			_ = drainRaw(s)
		}
	}()
	wg.Wait()
}

func runRaceChild(ordered bool) (raced bool, report string) {
	dir, err := os.MkdirTemp("", "c18race")
	if err != nil {
		return false, ""
	}
	defer os.RemoveAll(dir)
	mode := "unordered"
	if ordered {
		mode = "ordered"
	}
	cmd := exec.Command(os.Args[0], "-out", dir, "-race-child", mode)
	cmd.Env = append(os.Environ(), "GORACE=halt_on_error=0 exitcode=0")
	done := make(chan struct{})
	var out []byte
	go func() { out, _ = cmd.CombinedOutput(); close(done) }()
	select {
	case <-done:
	case <-time.After(120 * time.Second):
		_ = cmd.Process.Kill()
		<-done
		return true, "race child did not finish within 120 s"
	}
	txt := string(out)
	if i := strings.Index(txt, "WARNING: DATA RACE"); i >= 0 {
		end := i + 1800
		if end > len(txt) {
			end = len(txt)
		}
		return true, txt[i:end]
	}
	if strings.Contains(txt, "fatal error: concurrent map") {
		return true, "fatal error: concurrent map iteration and map write"
	}
	return false, ""
}

// ---------------------------------------------------------------- main

func firstLines(s string, n int) string {
	l := strings.Split(s, "\n")
	if len(l) > n {
		l = l[:n]
	}
	return strings.Join(l, " | ")
}

func bucket(n int) string {
	switch {
	case n <= 3:
		return "0-3"
	case n <= 8:
		return "4-8"
	case n <= 16:
		return "9-16"
	case n <= 25:
		return "17-25"
	default:
		return ">25"
	}
}

func withWatchdog(run *kit.Run, c Case, f func()) bool {
	done := make(chan struct{})
	go func() { defer close(done); f() }()
	select {
	case <-done:
		return true
	case <-time.After(30 * time.Second):
		op, _ := curOp.Load().(string)
		run.OracleFail(c.ID, "C18:Set."+strings.TrimPrefix(op, "Len/Iterator after ")+":hang", "operation did not return within 30 s: "+op, c, nil)
		return false
	}
}

// abandonedIterators waits for the goroutine count to return to what it was before the case; if it
// does not, it reports the goroutines of dt's map key/value iterators that are still alive.
func abandonedIterators(base int) string {
	deadline := time.Now().Add(3 * time.Second)
	for runtime.NumGoroutine() > base {
		if time.Now().After(deadline) {
			buf := make([]byte, 1<<20)
			buf = buf[:runtime.Stack(buf, true)]
			for _, g := range strings.Split(string(buf), "\n\n") {
				if strings.Contains(g, "fun/dt.Map") {
					return g
				}
			}
			return ""
		}
		time.Sleep(200 * time.Microsecond)
	}
	return ""
}

func execSeq(run *kit.Run, c Case, verbose bool) {
	var r seqResult
	base := runtime.NumGoroutine()
	if !withWatchdog(run, c, func() { r = runSeq(c) }) {
		run.Count("seq/hang")
		return
	}
	if g := abandonedIterators(base); g != "" {
		// every iterator the driver obtains is drained, so a surviving map-iterator goroutine was
		// abandoned by a Set method; it keeps reading the set's map
		if r.sig == "" {
			r.sig = "C18:Set.Equal:abandoned-iterator"
			r.first = "a Set method returned while the goroutine that ranges over the set's map was still alive (it races with the next mutation of the set): " + firstLines(g, 12)
		}
		run.Count("seq/abandoned-iterator")
	}
	if verbose {
		for i, o := range c.Ops {
			b, _ := json.Marshal(o)
			ob, _ := json.Marshal(r.obs[i])
			fmt.Printf("step %d %s -> %s", i, b, ob)
			if r.fails[i] != "" {
				fmt.Printf("   ORACLE: %s", r.fails[i])
			}
			fmt.Println()
		}
	}
	if r.sig != "" {
		run.OracleFail(c.ID, r.sig, r.first, c, r.obs)
	}
	nontriv := false
	present := [nSets]map[int]bool{{}, {}, {}}
	for i, o := range c.Ops {
		run.Count("op/" + o.Op)
		switch o.Op {
		case "add", "addcheck":
			if present[o.T][o.V] {
				nontriv = true
				run.Count("collision/re-add-present")
			}
			present[o.T][o.V] = true
		case "delete", "deletecheck":
			nontriv = true
			if present[o.T][o.V] {
				run.Count("collision/delete-present")
			} else {
				run.Count("collision/delete-absent")
			}
			delete(present[o.T], o.V)
		case "reset":
			present[o.T] = map[int]bool{}
		case "sortquick", "sortmerge":
			if r.obs[i].Choice != nil {
				run.Count("sort/forced-ordered")
			} else {
				run.Count("sort/ordered")
			}
		case "equal":
			run.Count(fmt.Sprintf("equal/%v", r.obs[i].Res.B))
		case "order", "unmarshal", "withlock":
			if r.obs[i].Res.Kind == "panic" {
				run.Count(o.Op + "/panic")
			}
		case "lockprobe":
			run.Count(fmt.Sprintf("lockprobe/driver-mutex=%v", r.obs[i].Res.N > 0))
		}
	}
	run.Count("seq/ops" + bucket(len(c.Ops)))
	key, _ := json.Marshal(c.Ops)
	run.Case(c.ID, c, coqSeqCase(c, r.obs), "s|"+string(key), nontriv)
}

func execConc(run *kit.Run, c Case, verbose bool) {
	var hist []hEvent
	if !withWatchdog(run, c, func() { curOp.Store("concurrent"); hist = runConc(c) }) {
		return
	}
	order, ok := linearize(c, hist)
	if verbose {
		for _, e := range hist {
			b, _ := json.Marshal(e)
			fmt.Println(string(b))
		}
		fmt.Println("linearizable:", ok, "witness:", order)
	}
	overlap := false
	for i := range hist {
		for j := range hist {
			if i != j && hist[i].Tid != hist[j].Tid && hist[i].Inv < hist[j].Ret && hist[j].Inv < hist[i].Ret {
				overlap = true
			}
		}
	}
	run.Count(fmt.Sprintf("conc/overlapping=%v", overlap))
	run.Count(fmt.Sprintf("conc/threads=%d", len(c.Threads)))
	term := ""
	if !ok {
		run.OracleFail(c.ID, "C18:Set:non-linearizable", "no sequential order of the recorded calls explains the results", c, hist)
	} else {
		term = coqLinCase(c, hist, order)
	}
	run.Count(fmt.Sprintf("conc/syncloop=%v", c.SyncLoop))
	key, _ := json.Marshal([]any{c.Ordered, c.WithLock, c.SyncLoop, c.Pre, c.Threads})
	run.Case(c.ID, c, term, "c|"+string(key), len(hist) > 4)
}

func main() {
	// child mode must be recognised before kit parses the flags
	for i, a := range os.Args {
		if a == "-race-child" && i+1 < len(os.Args) {
			raceChild(os.Args[i+1] == "ordered")
			return
		}
	}
	run := kit.Start()
	// dt.List.SortMerge (dt/cmp.go, properties C16/C17) used to leave the elements owned by a
	// temporary list, after which Element.Remove corrupts the receiver's length and the next sort of
	// the Set's list does not terminate. SortMerge is exercised on Sets only once that is repaired.
	{
		l := &dt.List[int]{}
		l.PushBack(2)
		l.PushBack(1)
		l.PushBack(3)
		l.SortMerge(func(a, b int) bool { return a < b })
		sortMergeEnabled = l.Front().In(l) && l.Len() == 3
	}
	if os.Getenv("C18_NO_SORTMERGE") != "" {
		sortMergeEnabled = false
	}
	run.Extra["sortmerge_exercised"] = sortMergeEnabled
	run.Header = "From FunV Require Import Base.Tac Model.SetModel Corr.C18_corr."
	run.Footer = "Definition M := Eval vm_compute in mismatches cases.\nPrint M."
	run.CaseType = "case"
	run.Rule = "sequential: random op sequences over a table of 3 sets (zero-value / Order()ed / Synchronize()d / reset), values {0..4} (1 in 8 cases {-2..2}), " +
		"ops Add AddCheck Delete DeleteCheck Check Len Populate Extend Order Synchronize SortQuick SortMerge (5 comparison functions) Iterator Equal JSON-round-trip UnmarshalJSON(malformed) New; " +
		"plus Equal scenarios (two sets built by their own sequences: same/reversed/permuted order, one member different, different size, mixed orderedness); " +
		"concurrent: 2-3 goroutines x 2-4 calls on a synchronized set, history checked linearizable, witness order re-run by the model. " +
		"distinct = distinct op lists; non-trivial = the sequence re-adds a present value or deletes (sequential), more than 4 calls (concurrent)"

	if run.Replay != "" {
		var c Case
		if err := kit.ReadReplayCase(run.Replay, &c); err != nil {
			panic(err)
		}
		execAny(run, c, true)
		run.Finish()
		return
	}

	id := 0
	v := func(x int) *int { return &x }
	_ = v
	// corpus: minimised earlier failures and boundary cases, always run first
	corpus := []Case{
		// #6: Sort of a populated unordered set must index the new elements
		{Kind: "seq", Ops: []Op{{Op: "add", T: 0, V: 3}, {Op: "add", T: 0, V: 1}, {Op: "add", T: 0, V: 2}, {Op: "sortquick", T: 0, Lt: 0}, {Op: "delete", T: 0, V: 2}, {Op: "iter", T: 0}, {Op: "check", T: 0, V: 2}, {Op: "len", T: 0}}},
		{Kind: "seq", Ops: []Op{{Op: "populate", T: 0, Vs: []int{4, 0, 2}}, {Op: "sortquick", T: 0, Lt: 3}, {Op: "deletecheck", T: 0, V: 0}, {Op: "addcheck", T: 0, V: 0}, {Op: "iter", T: 0}}},
		// ordered: delete then re-add moves to the back; re-add of a present value does not move
		{Kind: "seq", Ops: []Op{{Op: "order", T: 0}, {Op: "add", T: 0, V: 1}, {Op: "add", T: 0, V: 2}, {Op: "add", T: 0, V: 3}, {Op: "addcheck", T: 0, V: 1}, {Op: "iter", T: 0}, {Op: "deletecheck", T: 0, V: 1}, {Op: "addcheck", T: 0, V: 1}, {Op: "iter", T: 0}, {Op: "deletecheck", T: 0, V: 7}}},
		// Equal: same members, different order
		{Kind: "seq", Ops: []Op{{Op: "order", T: 0}, {Op: "order", T: 1}, {Op: "populate", T: 0, Vs: []int{1, 2, 3}}, {Op: "populate", T: 1, Vs: []int{3, 2, 1}}, {Op: "equal", T: 0, U: 1}, {Op: "sortquick", T: 1, Lt: 0}, {Op: "equal", T: 0, U: 1}, {Op: "equal", T: 1, U: 0}}},
		// Order() on a populated unordered set panics and changes nothing
		{Kind: "seq", Ops: []Op{{Op: "add", T: 0, V: 1}, {Op: "order", T: 0}, {Op: "add", T: 0, V: 0}, {Op: "iter", T: 0}}},
		// Equal of two unordered sets that differs at the first key examined must not leave the key iterator behind
		{Kind: "seq", Ops: []Op{{Op: "populate", T: 0, Vs: []int{1, 2}}, {Op: "populate", T: 1, Vs: []int{3, 4}}, {Op: "equal", T: 0, U: 1}, {Op: "add", T: 0, V: 0}, {Op: "equal", T: 1, U: 0}}},
		// empty sets
		{Kind: "seq", Ops: []Op{{Op: "len", T: 0}, {Op: "iter", T: 0}, {Op: "deletecheck", T: 0, V: 0}, {Op: "equal", T: 0, U: 1}, {Op: "json", T: 1, U: 0}, {Op: "sortquick", T: 2, Lt: 0}, {Op: "equal", T: 2, U: 0}}},
		// JSON: ordered round trip keeps the order; malformed element panics after the prefix
		{Kind: "seq", Ops: []Op{{Op: "order", T: 0}, {Op: "populate", T: 0, Vs: []int{2, 0, 1}}, {Op: "reset", T: 2, Ordered: true}, {Op: "json", T: 2, U: 0}, {Op: "equal", T: 0, U: 2}, {Op: "unmarshal", T: 2, Items: []*int{v(4), nil, v(3)}}}},
	}
	if sortMergeEnabled {
		corpus = append(corpus,
			Case{Kind: "seq", Ops: []Op{{Op: "add", T: 0, V: 3}, {Op: "add", T: 0, V: 1}, {Op: "add", T: 0, V: 2}, {Op: "sortmerge", T: 0, Lt: 0}, {Op: "delete", T: 0, V: 2}, {Op: "add", T: 0, V: 0}, {Op: "sortquick", T: 0, Lt: 1}, {Op: "delete", T: 0, V: 3}, {Op: "sortmerge", T: 0, Lt: 0}, {Op: "iter", T: 0}}})
	}
	for _, c := range corpus {
		c.ID = id
		id++
		assignLockIDs(&c)
		execAny(run, c, false)
	}

	// the producer of a synchronized set must hold the set's lock
	probeFailed := false
	for _, ordered := range []bool{true, false} {
		c := Case{ID: id, Kind: "lockprobe", Ordered: ordered}
		id++
		if execLockProbe(run, c, false) {
			probeFailed = true
		}
	}

	// every public method takes the first mutex installed, whatever Synchronize()/WithLock() calls follow
	disturbs := [][]string{{}, {"sync"}, {"withlock-other"}, {"withlock-same"}, {"withlock-nil"}, {"sync", "sync"}, {"withlock-other", "sync"}, {"withlock-same", "withlock-other"}}
	for k, nl := 0, run.Pick(24, 400); k < nl; k++ {
		c := Case{ID: id, Kind: "lockid", Ordered: k%2 == 0}
		id++
		if k/2 < len(disturbs) {
			c.Disturb = disturbs[k/2]
		} else {
			r := run.Rand.Fork()
			for j, m := 0, r.Range(1, 4); j < m; j++ {
				c.Disturb = append(c.Disturb, []string{"sync", "withlock-other", "withlock-same", "withlock-nil"}[r.Intn(4)])
			}
		}
		if execLockID(run, c, false) {
			probeFailed = true
		}
	}

	n := run.Pick(2200, 60000)
	for i := 0; i < n; i++ {
		r := run.Rand.Fork()
		var c Case
		if i%5 == 4 {
			c = genEqual(r, id)
		} else {
			c = genSeq(r, id)
		}
		id++
		execAny(run, c, false)
	}
	m := run.Pick(300, 12000)
	for i := 0; i < m; i++ {
		c := genConc(run.Rand.Fork(), id)
		if probeFailed {
			c.SyncLoop = false // the mutex is known to be replaceable: do not provoke a runtime crash
		}
		id++
		execAny(run, c, false)
	}

	// iterator vs. writers on a synchronized set, in a child process so that the race detector's
	// reports (if this is a -race build) can be turned into oracle failures
	if !probeFailed {
		for _, ordered := range []bool{true, false} {
			c := Case{ID: id, Kind: "racechild", Ordered: ordered}
			id++
			execAny(run, c, false)
		}
	}
	run.Extra["race_build"] = raceEnabled
	run.Finish()
}

func execLockProbe(run *kit.Run, c Case, verbose bool) bool {
	unlocked := lockProbe(c.Ordered)
	if verbose {
		fmt.Printf("lock probe (ordered=%v): producer ran while the driver held the set's mutex: %v\n", c.Ordered, unlocked)
	}
	run.Count(fmt.Sprintf("lockprobe/unlocked=%v", unlocked))
	if unlocked {
		run.OracleFail(c.ID, "C18:Set.Producer:unlocked", "the producer of a set synchronized with WithLock(mu) returned while the driver held mu: it does not take the set's lock", c, nil)
	}
	run.Case(c.ID, c, "", fmt.Sprintf("p|%v", c.Ordered), false)
	return unlocked
}

func execAny(run *kit.Run, c Case, verbose bool) {
	switch c.Kind {
	case "seq":
		execSeq(run, c, verbose)
	case "conc":
		execConc(run, c, verbose)
	case "lockprobe":
		execLockProbe(run, c, verbose)
	case "lockid":
		execLockID(run, c, verbose)
	case "racechild":
		raced, rep := runRaceChild(c.Ordered)
		if verbose {
			fmt.Printf("race child (ordered=%v, race build=%v): raced=%v\n%s\n", c.Ordered, raceEnabled, raced, rep)
		}
		run.Count(fmt.Sprintf("racechild/raced=%v", raced))
		if raced {
			mode := "unordered"
			if c.Ordered {
				mode = "ordered"
			}
			run.OracleFail(c.ID, "C18:Set.Iterator:race-"+mode, "synchronized set, Iterator drained while other goroutines AddCheck/DeleteCheck/Check/Len: "+rep, c, nil)
		}
		run.Case(c.ID, c, "", fmt.Sprintf("r|%v", c.Ordered), false)
	}
}
