// Driver for the dt.Stack half of C16.
//
// It runs the real dt.Stack / dt.Item on operation sequences over two stacks (both start as zero
// values) with a handle table (every item ever returned, in order of first appearance; -1 = nil),
// records after EVERY step what the implementation shows (Head/Next walk, iterator output, Len,
// Ok/In/Value of every handle, identity of a returned item = its first index in the handle table)
// and prints ops + observations as a Coq term that coq/Corr/C16s_corr.v re-runs through the model.
//
// Independently of the model it keeps a plain-slice LIFO reference next to the real stacks (the
// property's direct oracle): walk = iterator = reference (top first), Len = its length, In(s) exactly
// for the items currently in s, rejected operations report rejection and change nothing, JSON round
// trip preserves the sequence.  The first oracle failure ends the case (the state no longer is a
// stack; the real code can loop for ever on what follows).
package main

import (
	"context"
	"encoding/json"
	"fmt"
	"os"
	"strings"
	"sync"
	"sync/atomic"
	"time"

	"github.com/tychoish/fun/dt"

	"verif/harness/kit"
)

type Item = dt.Item[int64]
type Stack = dt.Stack[int64]

type Op struct {
	Op   string  `json:"op"`
	S    int     `json:"s"`            // stack table index (Attach: -1 = nil stack)
	H    int     `json:"h"`            // handle (-1 nil)
	N    int     `json:"n"`            // second handle
	V    int64   `json:"v"`
	Vs   []int64 `json:"vs,omitempty"`
	Kind int     `json:"kind,omitempty"` // UnmarshalBad: 0 syntax, 1 element type
}

type Case struct {
	ID     int    `json:"id"`
	Stream string `json:"stream"`
	Eager  bool   `json:"eager"`
	Ops    []Op   `json:"ops"`
}

type Ret struct {
	K string  `json:"k"` // unit bool z item list stack panic hang
	B bool    `json:"b,omitempty"`
	Z int64   `json:"z,omitempty"`
	L []int64 `json:"l,omitempty"`
}

type SObs struct {
	Walk []int64 `json:"walk"`
	Iter []int64 `json:"iter"`
	Len  int64   `json:"len"`
}

type StepObs struct {
	R   Ret        `json:"r"`
	Sts []SObs     `json:"sts"`
	Hs  [][2]int64 `json:"hs"`
}

const hardCap = 200000 // a loop of the driver that runs this long is reported as a hang

var ctx = context.Background()

// ---------------------------------------------------------------- watchdog
// A library call that never returns (e.g. a mutated UnmarshalJSON popping a stack whose length is never
// decremented) cannot be recovered like a panic: a watchdog reports it as an oracle failure of the running
// case and ends the driver.

var watch struct {
	mu    sync.Mutex
	seq   atomic.Int64 // odd while an operation of the implementation is running
	c     Case
	sig   string
	run   *kit.Run
	limit time.Duration
}

func watchBegin(c Case, ops []Op, sig string) {
	watch.mu.Lock()
	watch.c = c
	watch.c.Ops = append([]Op(nil), ops...)
	watch.sig = sig
	watch.mu.Unlock()
	watch.seq.Add(1)
}

func watchEnd() { watch.seq.Add(1) }

func startWatchdog(run *kit.Run) {
	watch.run = run
	watch.limit = 20 * time.Second
	go func() {
		last, since := int64(-1), time.Now()
		for {
			time.Sleep(250 * time.Millisecond)
			cur := watch.seq.Load()
			if cur != last || cur%2 == 0 {
				last, since = cur, time.Now()
				continue
			}
			if time.Since(since) < watch.limit {
				continue
			}
			watch.mu.Lock()
			c, sig := watch.c, watch.sig
			parts := strings.Split(sig, ":")
			if len(parts) == 3 {
				sig = parts[0] + ":" + parts[1] + ":hang"
			}
			run.OracleFail(c.ID, sig, fmt.Sprintf("step %d (%s) did not return within %v", len(c.Ops)-1, c.Ops[len(c.Ops)-1].Op, watch.limit), c, nil)
			run.Extra["hang"] = sig
			run.Finish()
			os.Exit(0)
		}
	}()
}

// ---------------------------------------------------------------- reference (plain slices)

type ent struct {
	val int64
	ptr *Item // nil until the implementation has shown us the item
}

type ref struct {
	seq       [][]*ent // per stack, top first
	sent      []*Item  // sentinel of each stack once seen
	zeroUnset map[*Item]bool
}

type cls struct {
	kind string // nil attached-head attached sentinel detached
	s    int
	pos  int
}

func (r *ref) classify(p *Item) cls {
	if p == nil {
		return cls{kind: "nil"}
	}
	for s := range r.seq {
		for i, e := range r.seq[s] {
			if e.ptr == p {
				if i == 0 {
					return cls{"attached-head", s, i}
				}
				return cls{"attached", s, i}
			}
		}
		if r.sent[s] == p {
			return cls{"sentinel", s, -1}
		}
	}
	return cls{kind: "detached"}
}

func (c cls) attached() bool { return c.kind == "attached" || c.kind == "attached-head" }

func (r *ref) values(s int) []int64 {
	out := make([]int64, len(r.seq[s]))
	for i, e := range r.seq[s] {
		out[i] = e.val
	}
	return out
}

// ---------------------------------------------------------------- engine

type eng struct {
	c        Case // the case being run (for the watchdog)
	done     []Op
	eager    bool
	stacks   []*Stack
	handles  []*Item
	ref      ref
	oracle   bool   // oracle still meaningful (false after a Detach: outside the property's operations)
	fail     string // first oracle failure (detail); ends the case
	failSig  string
	obs      []StepObs
	ended    bool // panic / hang / cycle / oracle failure
	rejected int
}

func newEng(eager bool) *eng {
	e := &eng{eager: eager, oracle: true}
	e.stacks = []*Stack{{}, {}}
	e.ref.seq = [][]*ent{nil, nil}
	e.ref.sent = []*Item{nil, nil}
	e.ref.zeroUnset = map[*Item]bool{}
	return e
}

func (e *eng) handle(h int) *Item {
	if h < 0 || h >= len(e.handles) {
		return nil
	}
	return e.handles[h]
}

func (e *eng) note(p *Item) int64 {
	if p == nil {
		return -1
	}
	for i, q := range e.handles {
		if q == p {
			return int64(i)
		}
	}
	e.handles = append(e.handles, p)
	return int64(len(e.handles) - 1)
}

func (e *eng) noteStack(s *Stack) int64 {
	for i, q := range e.stacks {
		if q == s {
			return int64(i)
		}
	}
	e.stacks = append(e.stacks, s)
	e.ref.seq = append(e.ref.seq, nil)
	e.ref.sent = append(e.ref.sent, nil)
	return int64(len(e.stacks) - 1)
}

func (e *eng) stack(k int) *Stack {
	if k < 0 || k >= len(e.stacks) {
		k = 0
	}
	return e.stacks[k]
}

func (e *eng) bad(format string, a ...any) {
	if e.oracle && e.fail == "" {
		e.fail = fmt.Sprintf(format, a...)
	}
}

// expectItem: the implementation returned p where the reference expects entry x of stack s
// (x == nil: the sentinel of s).
func (e *eng) expectItem(what string, p *Item, s int, x *ent) {
	if !e.oracle {
		return
	}
	if p == nil {
		e.bad("%s returned nil", what)
		return
	}
	if x == nil {
		if p.Ok() {
			e.bad("%s on an empty stack / past the bottom returned an item that is Ok (value %d)", what, p.Value())
			return
		}
		if e.ref.sent[s] == nil {
			if c := e.ref.classify(p); c.kind != "detached" {
				e.bad("%s returned as sentinel an item the reference has as %s", what, c.kind)
				return
			}
			e.ref.sent[s] = p
			delete(e.ref.zeroUnset, p)
		} else if e.ref.sent[s] != p {
			e.bad("%s returned a second, different sentinel", what)
		}
		return
	}
	if !p.Ok() {
		e.bad("%s returned a not-Ok item where the reference has value %d", what, x.val)
		return
	}
	if p.Value() != x.val {
		e.bad("%s returned value %d, reference has %d", what, p.Value(), x.val)
		return
	}
	if x.ptr == nil {
		if c := e.ref.classify(p); c.kind != "detached" {
			e.bad("%s returned an item the reference already has as %s", what, c.kind)
			return
		}
		x.ptr = p
	} else if x.ptr != p {
		e.bad("%s returned a different item than the one known at that position", what)
	}
}

func eqSeq(a, b []int64) bool {
	if len(a) != len(b) {
		return false
	}
	for i := range a {
		if a[i] != b[i] {
			return false
		}
	}
	return true
}

// walkPtrs: for i := s.Head(); i.Ok(); i = i.Next(), at most max items; returns the item after the last one too.
func walkPtrs(s *Stack, max int) (ptrs []*Item, end *Item, complete bool) {
	i := s.Head()
	for ; i.Ok(); i = i.Next() {
		if len(ptrs) >= max {
			return ptrs, i, false
		}
		ptrs = append(ptrs, i)
	}
	return ptrs, i, true
}

func iterVals(s *Stack, max int) (vals []int64, complete bool) {
	it := s.Iterator()
	defer it.Close()
	vals = []int64{}
	for len(vals) < max {
		if !it.Next(ctx) {
			return vals, true
		}
		vals = append(vals, it.Value())
	}
	return vals, false
}

func bound(s *Stack) int {
	b := 2*s.Len() + 4
	if b < 0 {
		b = 0
	}
	return b
}

func b2i(b bool) int64 {
	if b {
		return 1
	}
	return 0
}

// observe records what the implementation shows after a step and runs the after-step oracle.
func (e *eng) observe(o *StepObs) {
	for k, s := range e.stacks {
		var so SObs
		so.Walk, so.Iter = []int64{}, []int64{}
		if e.eager {
			s.Head()
			ptrs, end, complete := walkPtrs(s, bound(s))
			for _, p := range ptrs {
				so.Walk = append(so.Walk, p.Value())
			}
			if e.oracle {
				if !complete || !eqSeq(so.Walk, e.ref.values(k)) {
					e.bad("Head/Next walk of stack %d is %v, reference %v", k, so.Walk, e.ref.values(k))
				} else {
					for i, p := range ptrs {
						e.expectItem(fmt.Sprintf("walk of stack %d position %d", k, i), p, k, e.ref.seq[k][i])
					}
					e.expectItem(fmt.Sprintf("end of the walk of stack %d", k), end, k, nil)
				}
			}
		}
		var complete bool
		so.Iter, complete = iterVals(s, bound(s))
		so.Len = int64(s.Len())
		if e.oracle {
			if !complete || !eqSeq(so.Iter, e.ref.values(k)) {
				e.bad("Iterator of stack %d yields %v, reference %v", k, so.Iter, e.ref.values(k))
			}
			if int(so.Len) != len(e.ref.seq[k]) {
				e.bad("Len of stack %d is %d, reference has %d items", k, so.Len, len(e.ref.seq[k]))
			}
		}
		o.Sts = append(o.Sts, so)
	}
	o.Hs = [][2]int64{}
	for hi, p := range e.handles {
		in0, in1, ok := p.In(e.stacks[0]), p.In(e.stacks[1]), p.Ok()
		o.Hs = append(o.Hs, [2]int64{4*b2i(ok) + 2*b2i(in1) + b2i(in0), p.Value()})
		if !e.oracle {
			continue
		}
		c := e.ref.classify(p)
		if c.kind == "detached" && !ok && !e.ref.zeroUnset[p] {
			// a sentinel reached through a stale next pointer before Head/Pop/a walk showed it
			for k := range e.stacks {
				if e.ref.sent[k] == nil && p.In(e.stacks[k]) {
					e.ref.sent[k] = p
					c = e.ref.classify(p)
				}
			}
		}
		for k := range e.stacks {
			in := p.In(e.stacks[k])
			switch {
			case c.attached():
				if in != (k == c.s) {
					e.bad("handle %d is item %d of stack %d in the reference but In(stack %d)=%v", hi, c.pos, c.s, k, in)
				}
			case c.kind == "sentinel":
				if in != (k == c.s) {
					e.bad("handle %d is the sentinel of stack %d but In(stack %d)=%v", hi, c.s, k, in)
				}
			default:
				if in {
					e.bad("handle %d is in no stack in the reference (popped/removed/never appended) but In(stack %d)=true", hi, k)
				}
			}
		}
		switch {
		case c.attached():
			if !ok || p.Value() != e.ref.seq[c.s][c.pos].val {
				e.bad("handle %d: Ok=%v Value=%d, reference has value %d at stack %d position %d", hi, ok, p.Value(), e.ref.seq[c.s][c.pos].val, c.s, c.pos)
			}
		case c.kind == "sentinel":
			if ok {
				e.bad("handle %d is the sentinel of stack %d but Ok()=true", hi, c.s)
			}
		default:
			if ok == e.ref.zeroUnset[p] {
				e.bad("handle %d (in no stack) reports Ok=%v", hi, ok)
			}
		}
	}
}

// acyclic: every stack's chain reaches nil or a not-Ok item without repeating an item (eager cases only).
func (e *eng) acyclic() bool {
	for _, s := range e.stacks {
		seen := map[*Item]bool{}
		for i := s.Head(); i.Ok(); i = i.Next() {
			if seen[i] || len(seen) > hardCap {
				return false
			}
			seen[i] = true
		}
	}
	return true
}

func methodOf(op string) string {
	switch op {
	case "Push", "Pop", "Head", "Len", "Iter", "PopIter", "Walk", "Marshal", "Unmarshal", "UnmarshalBad":
		m := map[string]string{"Iter": "Iterator", "PopIter": "PopIterator", "Walk": "Head", "Marshal": "MarshalJSON", "Unmarshal": "UnmarshalJSON", "UnmarshalBad": "UnmarshalJSON"}
		if v, ok := m[op]; ok {
			return "Stack." + v
		}
		return "Stack." + op
	case "AppendV":
		return "Stack.Append"
	case "NewItem":
		return "NewItem"
	case "ZeroItem":
		return "Item.zero"
	}
	return "Item." + strings.TrimPrefix(op, "I")
}

// apply executes one operation on the implementation (recovering a panic), updates the reference,
// checks the operation's own result against it, observes, and runs the after-step oracle.
func (e *eng) apply(op Op) {
	var so StepObs
	h, n := e.handle(op.H), e.handle(op.N)
	hc, nc := e.ref.classify(h), e.ref.classify(n)
	class := ""
	switch op.Op {
	case "Push", "Pop", "Head", "Len", "AppendV", "Iter", "PopIter", "Walk", "Marshal", "Unmarshal", "UnmarshalBad":
		k := op.S
		if k < 0 || k >= len(e.stacks) {
			k = 0
		}
		class = "nonempty"
		if len(e.ref.seq[k]) == 0 {
			class = "empty"
		}
	case "NewItem", "ZeroItem":
		class = "none"
	default:
		class = hc.kind
	}
	sig := "C16:" + methodOf(op.Op) + ":" + class

	expectPanic := false
	e.done = append(e.done, op)
	watchBegin(e.c, e.done, sig)
	func() {
		defer func() {
			if r := recover(); r != nil {
				so.R = Ret{K: "panic"}
			}
		}()
		so.R = e.exec(op, h, n, hc, nc, &expectPanic)
	}()
	obsPanic := false
	if so.R.K != "panic" && so.R.K != "hang" {
		// the observations call the implementation too
		func() {
			defer func() {
				if r := recover(); r != nil {
					obsPanic = true
				}
			}()
			e.observe(&so)
		}()
	}
	watchEnd()
	if obsPanic {
		if e.fail == "" {
			e.fail = fmt.Sprintf("observing the stacks after %s panicked (Head/Next walk, Iterator, Len, In/Ok/Value of the handles)", op.Op)
			sig = "C16:" + methodOf(op.Op) + ":panic"
		}
		so.Sts, so.Hs = nil, nil
		e.ended = true
	}

	if so.R.K == "panic" {
		if !expectPanic {
			e.bad("%s panicked", op.Op)
			sig = "C16:" + methodOf(op.Op) + ":panic"
		}
		e.ended = true
	} else if so.R.K == "hang" {
		e.bad("%s did not finish within %d iterations", op.Op, hardCap)
		e.ended = true
	} else {
		if expectPanic && e.oracle {
			// a nil receiver that does not panic is not a violation of the property; nothing to check
			_ = expectPanic
		}
		if !e.oracle && e.eager && !e.acyclic() {
			e.ended = true
		}
	}
	if so.Sts == nil {
		so.Sts = []SObs{}
	}
	if so.Hs == nil {
		so.Hs = [][2]int64{}
	}
	e.obs = append(e.obs, so)
	if e.fail != "" && e.failSig == "" {
		e.failSig = sig
		e.ended = true
	}
}

func (e *eng) exec(op Op, h, n *Item, hc, nc cls, expectPanic *bool) Ret {
	r := &e.ref
	k := op.S
	if k < 0 || k >= len(e.stacks) {
		k = 0
	}
	s := e.stacks[k]
	top := func() *ent {
		if len(r.seq[k]) == 0 {
			return nil
		}
		return r.seq[k][0]
	}
	switch op.Op {
	case "Push":
		s.Push(op.V)
		r.seq[k] = append([]*ent{{val: op.V}}, r.seq[k]...)
		return Ret{K: "unit"}
	case "AppendV":
		s.Append(op.Vs...)
		for _, v := range op.Vs {
			r.seq[k] = append([]*ent{{val: v}}, r.seq[k]...)
		}
		return Ret{K: "unit"}
	case "Pop":
		p := s.Pop()
		x := top()
		e.expectItem("Pop", p, k, x)
		if x != nil {
			r.seq[k] = r.seq[k][1:]
			if e.fail == "" && p != nil {
				// the popped item still points at what is now the top (or the sentinel): learn that item's identity
				e.expectItem("Next() of the popped item", p.Next(), k, top())
			}
		}
		return Ret{K: "item", Z: e.note(p)}
	case "Head":
		p := s.Head()
		e.expectItem("Head", p, k, top())
		return Ret{K: "item", Z: e.note(p)}
	case "Len":
		l := s.Len()
		if l != len(r.seq[k]) {
			e.bad("Len()=%d, reference has %d items", l, len(r.seq[k]))
		}
		return Ret{K: "z", Z: int64(l)}
	case "Iter":
		vals, complete := iterVals(s, hardCap)
		if !complete {
			return Ret{K: "hang"}
		}
		if !eqSeq(vals, r.values(k)) {
			e.bad("Iterator yields %v, reference %v", vals, r.values(k))
		}
		return Ret{K: "list", L: vals}
	case "PopIter":
		it := s.PopIterator()
		vals := []int64{}
		for it.Next(ctx) {
			vals = append(vals, it.Value())
			if len(vals) > hardCap {
				return Ret{K: "hang"}
			}
		}
		_ = it.Close()
		if !eqSeq(vals, r.values(k)) {
			e.bad("PopIterator yields %v, reference %v", vals, r.values(k))
		}
		r.seq[k] = nil
		return Ret{K: "list", L: vals}
	case "Walk":
		ptrs, _, complete := walkPtrs(s, hardCap)
		if !complete {
			return Ret{K: "hang"}
		}
		vals := []int64{}
		for _, p := range ptrs {
			vals = append(vals, p.Value())
		}
		if !eqSeq(vals, r.values(k)) {
			e.bad("Head/Next walk yields %v, reference %v", vals, r.values(k))
		}
		return Ret{K: "list", L: vals}
	case "Marshal":
		b, err := json.Marshal(s)
		if err != nil {
			e.bad("MarshalJSON failed: %v", err)
			return Ret{K: "list", L: []int64{}}
		}
		vals := []int64{}
		if err := json.Unmarshal(b, &vals); err != nil {
			e.bad("MarshalJSON produced %q which is not a JSON array of numbers: %v", b, err)
		}
		if !eqSeq(vals, r.values(k)) {
			e.bad("MarshalJSON encodes %v, reference %v", vals, r.values(k))
		}
		// round trip into a fresh stack preserves the sequence
		fresh := &Stack{}
		if err := json.Unmarshal(b, fresh); err != nil {
			e.bad("UnmarshalJSON of MarshalJSON output failed: %v", err)
		} else if rt, _ := iterVals(fresh, hardCap); !eqSeq(rt, vals) || fresh.Len() != len(vals) {
			e.bad("JSON round trip: %v became %v (Len %d)", vals, rt, fresh.Len())
		}
		return Ret{K: "list", L: vals}
	case "Unmarshal":
		b, _ := json.Marshal(op.Vs)
		if op.Vs == nil {
			b = []byte("[]")
		}
		err := json.Unmarshal(b, s)
		if err != nil {
			e.bad("UnmarshalJSON(%s) failed: %v", b, err)
		}
		nw := make([]*ent, 0, len(op.Vs)+len(r.seq[k]))
		for _, v := range op.Vs {
			nw = append(nw, &ent{val: v})
		}
		r.seq[k] = append(nw, r.seq[k]...)
		return Ret{K: "bool", B: err == nil}
	case "UnmarshalBad":
		in := []byte(`[1,2`)
		if op.Kind == 1 {
			in = []byte(`[1,"x",3]`)
		}
		err := s.UnmarshalJSON(in)
		if err == nil {
			e.bad("UnmarshalJSON(%s) reported no error", in)
		}
		return Ret{K: "bool", B: err == nil}
	case "NewItem":
		p := dt.NewItem(op.V)
		return Ret{K: "item", Z: e.note(p)}
	case "ZeroItem":
		p := &Item{}
		r.zeroUnset[p] = true
		return Ret{K: "item", Z: e.note(p)}
	case "INext":
		*expectPanic = h == nil
		p := h.Next()
		switch {
		case hc.attached():
			var x *ent
			if hc.pos+1 < len(r.seq[hc.s]) {
				x = r.seq[hc.s][hc.pos+1]
			}
			e.expectItem("Next", p, hc.s, x)
		case hc.kind == "sentinel":
			if p != nil {
				e.bad("Next() of the sentinel is not nil")
			}
		}
		return Ret{K: "item", Z: e.note(p)}
	case "IOk":
		ok := h.Ok()
		want := hc.attached() || (hc.kind == "detached" && !r.zeroUnset[h])
		if ok != want {
			e.bad("Ok()=%v for a handle the reference has as %s", ok, hc.kind)
		}
		return Ret{K: "bool", B: ok}
	case "IIn":
		*expectPanic = h == nil
		in := h.In(s)
		want := (hc.attached() || hc.kind == "sentinel") && hc.s == k
		if in != want {
			e.bad("In(stack %d)=%v for a handle the reference has as %s of stack %d", k, in, hc.kind, hc.s)
		}
		return Ret{K: "bool", B: in}
	case "IValue":
		*expectPanic = h == nil
		v := h.Value()
		if hc.attached() && v != r.seq[hc.s][hc.pos].val {
			e.bad("Value()=%d, reference %d", v, r.seq[hc.s][hc.pos].val)
		}
		return Ret{K: "z", Z: v}
	case "ISet":
		*expectPanic = h == nil
		ok := h.Set(op.V)
		switch {
		case hc.attached():
			if !ok {
				e.bad("Set on an item of a stack reported failure")
			}
			r.seq[hc.s][hc.pos].val = op.V
		case hc.kind == "sentinel":
			if ok {
				e.bad("Set on the sentinel reported success")
			}
		default:
			if !ok {
				e.bad("Set on an item outside any stack reported failure")
			}
			delete(r.zeroUnset, h)
		}
		return Ret{K: "bool", B: ok}
	case "IAppend":
		*expectPanic = h == nil && n != nil
		nval := int64(0)
		if n != nil {
			nval = n.Value()
		}
		p := h.Append(n)
		accept := (hc.attached() || hc.kind == "sentinel") && nc.kind == "detached" && !r.zeroUnset[n]
		if accept {
			if p != n {
				e.bad("Append of a free, valid item did not return it")
			}
			r.seq[hc.s] = append([]*ent{{val: nval, ptr: n}}, r.seq[hc.s]...)
		} else {
			e.rejected++
			if p != h {
				e.bad("rejected Append (receiver %s, argument %s) did not return the receiver", hc.kind, nc.kind)
			}
		}
		return Ret{K: "item", Z: e.note(p)}
	case "IRemove":
		ok := h.Remove()
		if hc.attached() {
			if !ok {
				e.bad("Remove of item %d of stack %d reported failure", hc.pos, hc.s)
			}
			r.seq[hc.s] = append(append([]*ent{}, r.seq[hc.s][:hc.pos]...), r.seq[hc.s][hc.pos+1:]...)
			if e.fail == "" && hc.pos > 0 {
				var x *ent
				if hc.pos < len(r.seq[hc.s]) {
					x = r.seq[hc.s][hc.pos]
				}
				e.expectItem("Next() of the removed item", h.Next(), hc.s, x)
			}
		} else {
			e.rejected++
			if ok {
				e.bad("Remove of a %s handle reported success", hc.kind)
			}
		}
		return Ret{K: "bool", B: ok}
	case "IAttach":
		var t *Stack
		tk := op.S
		if tk >= 0 && tk < len(e.stacks) {
			t = e.stacks[tk]
		} else {
			tk = -1
		}
		moves := t != nil && len(r.seq[tk]) > 0
		*expectPanic = moves && h == nil
		ok := h.Attach(t)
		if moves && (hc.attached() || hc.kind == "sentinel") && hc.s == tk {
			moves = false
		}
		if ok != moves {
			e.bad("Attach reported %v, reference expects %v", ok, moves)
		}
		if moves {
			if hc.attached() || hc.kind == "sentinel" {
				for _, x := range r.seq[tk] {
					r.seq[hc.s] = append([]*ent{x}, r.seq[hc.s]...)
				}
			}
			r.seq[tk] = nil
		} else {
			e.rejected++
		}
		return Ret{K: "bool", B: ok}
	case "IDetach":
		e.oracle = false // Detach is outside the property's operations and not a sequence operation (see report)
		ns := h.Detach()
		return Ret{K: "stack", Z: e.noteStack(ns)}
	}
	panic("driver: unknown op " + op.Op)
}

// ---------------------------------------------------------------- Coq syntax

func zs(v int64) string {
	if v < 0 {
		return fmt.Sprintf("(%d)", v)
	}
	return fmt.Sprintf("%d", v)
}

func zl(vs []int64) string {
	s := make([]string, len(vs))
	for i, v := range vs {
		s[i] = zs(v)
	}
	return "[" + strings.Join(s, ";") + "]"
}

func coqOp(o Op) string {
	switch o.Op {
	case "Push":
		return fmt.Sprintf("OPush %d %s", o.S, zs(o.V))
	case "Pop":
		return fmt.Sprintf("OPop %d", o.S)
	case "Head":
		return fmt.Sprintf("OHead %d", o.S)
	case "Len":
		return fmt.Sprintf("OLen %d", o.S)
	case "AppendV":
		return fmt.Sprintf("OAppendV %d %s", o.S, zl(o.Vs))
	case "Iter":
		return fmt.Sprintf("OIter %d", o.S)
	case "PopIter":
		return fmt.Sprintf("OPopIter %d", o.S)
	case "Walk":
		return fmt.Sprintf("OWalk %d", o.S)
	case "Marshal":
		return fmt.Sprintf("OMarshal %d", o.S)
	case "Unmarshal":
		return fmt.Sprintf("OUnmarshal %d %s", o.S, zl(o.Vs))
	case "UnmarshalBad":
		return fmt.Sprintf("OUnmarshalBad %d", o.S)
	case "NewItem":
		return "ONewItem " + zs(o.V)
	case "ZeroItem":
		return "OZeroItem"
	case "INext":
		return "INext " + zs(int64(o.H))
	case "IOk":
		return "IOk " + zs(int64(o.H))
	case "IIn":
		return fmt.Sprintf("IIn %s %d", zs(int64(o.H)), o.S)
	case "IValue":
		return "IValue " + zs(int64(o.H))
	case "ISet":
		return fmt.Sprintf("ISet %s %s", zs(int64(o.H)), zs(o.V))
	case "IAppend":
		return fmt.Sprintf("IAppend %s %s", zs(int64(o.H)), zs(int64(o.N)))
	case "IRemove":
		return "IRemove " + zs(int64(o.H))
	case "IAttach":
		if o.S < 0 {
			return fmt.Sprintf("IAttach %s None", zs(int64(o.H)))
		}
		return fmt.Sprintf("IAttach %s (Some %d%%nat)", zs(int64(o.H)), o.S)
	case "IDetach":
		return "IDetach " + zs(int64(o.H))
	}
	panic("coqOp: " + o.Op)
}

func coqRet(r Ret) string {
	switch r.K {
	case "unit":
		return "RUnit"
	case "bool":
		return "(RBool " + kit.Bool(r.B) + ")"
	case "z":
		return "(RZ " + zs(r.Z) + ")"
	case "item":
		return "(RItem " + zs(r.Z) + ")"
	case "list":
		return "(RList " + zl(r.L) + ")"
	case "stack":
		return "(RStack " + zs(r.Z) + ")"
	case "panic":
		return "RPanic"
	case "hang":
		return "RHang"
	}
	panic("coqRet: " + r.K)
}

func coqCase(c Case, obs []StepObs) string {
	var sb strings.Builder
	fmt.Fprintf(&sb, "Case %s %s [", zs(int64(c.ID)), kit.Bool(c.Eager))
	for i, o := range c.Ops {
		if i > 0 {
			sb.WriteString("; ")
		}
		sb.WriteString(coqOp(o))
	}
	sb.WriteString("]\n [")
	for i, so := range obs {
		if i > 0 {
			sb.WriteString(";\n  ")
		}
		sb.WriteString("SObs " + coqRet(so.R) + " [")
		for j, st := range so.Sts {
			if j > 0 {
				sb.WriteString(";")
			}
			fmt.Fprintf(&sb, "S3 %s %s %s", zl(st.Walk), zl(st.Iter), zs(st.Len))
		}
		sb.WriteString("] [")
		for j, hh := range so.Hs {
			if j > 0 {
				sb.WriteString(";")
			}
			fmt.Fprintf(&sb, "(%s,%s)", zs(hh[0]), zs(hh[1]))
		}
		sb.WriteString("]")
	}
	sb.WriteString("]")
	return sb.String()
}

// ---------------------------------------------------------------- generation

type genCfg struct {
	stream     string
	eager      bool
	maxOps     int
	vspan      int  // values in [0,vspan)
	removeHead bool // allow Remove of the current head item (known finding; ends the case)
	detach     bool // allow Detach (outside the property; oracle off afterwards)
}

func pickHandle(r *kit.Rand, e *eng, avoidHead bool) int {
	if len(e.handles) == 0 || r.Chance(1, 40) {
		return -1
	}
	byClass := map[string][]int{}
	for i, p := range e.handles {
		c := e.ref.classify(p)
		kind := c.kind
		if kind == "attached" && c.pos == len(e.ref.seq[c.s])-1 {
			kind = "bottom"
		}
		if kind == "attached-head" && avoidHead {
			continue
		}
		byClass[kind] = append(byClass[kind], i)
	}
	order := []string{"attached-head", "attached", "bottom", "sentinel", "detached"}
	start := r.Intn(len(order))
	for j := 0; j < len(order); j++ {
		l := byClass[order[(start+j)%len(order)]]
		if len(l) > 0 {
			return l[r.Intn(len(l))]
		}
	}
	if avoidHead {
		return -1
	}
	return r.Intn(len(e.handles))
}

func genOp(r *kit.Rand, e *eng, g genCfg) Op {
	s := r.Intn(2)
	if r.Chance(2, 3) {
		s = 0
	}
	if g.detach && len(e.stacks) > 2 && r.Chance(1, 3) {
		s = r.Intn(len(e.stacks))
	}
	v := int64(r.Intn(g.vspan))
	w := r.Intn(100)
	if len(e.handles) == 0 && r.Chance(9, 10) {
		// no item has been returned yet: operations on handles would all be on nil
		w = []int{0, 0, 0, 22, 32, 70, 79, 85}[r.Intn(8)]
	}
	switch {
	case w < 22:
		return Op{Op: "Push", S: s, V: v, H: -1, N: -1}
	case w < 32:
		return Op{Op: "Pop", S: s, H: -1, N: -1}
	case w < 40:
		return Op{Op: "Head", S: s, H: -1, N: -1}
	case w < 50:
		return Op{Op: "INext", H: pickHandle(r, e, false), N: -1}
	case w < 60:
		return Op{Op: "IRemove", H: pickHandle(r, e, !g.removeHead), N: -1}
	case w < 70:
		return Op{Op: "IAppend", H: pickHandle(r, e, false), N: pickHandle(r, e, false)}
	case w < 74:
		return Op{Op: "NewItem", V: v, H: -1, N: -1}
	case w < 75:
		return Op{Op: "ZeroItem", H: -1, N: -1}
	case w < 79:
		return Op{Op: "ISet", H: pickHandle(r, e, false), V: v, N: -1}
	case w < 81:
		n := r.Intn(4)
		vs := make([]int64, n)
		for i := range vs {
			vs[i] = int64(r.Intn(g.vspan))
		}
		return Op{Op: "AppendV", S: s, Vs: vs, H: -1, N: -1}
	case w < 83:
		return Op{Op: "PopIter", S: s, H: -1, N: -1}
	case w < 85:
		return Op{Op: "Marshal", S: s, H: -1, N: -1}
	case w < 87:
		n := r.Intn(4)
		vs := make([]int64, n)
		for i := range vs {
			vs[i] = int64(r.Intn(g.vspan))
		}
		return Op{Op: "Unmarshal", S: s, Vs: vs, H: -1, N: -1}
	case w < 88:
		return Op{Op: "UnmarshalBad", S: s, Kind: r.Intn(2), H: -1, N: -1}
	case w < 90:
		return Op{Op: "Walk", S: s, H: -1, N: -1}
	case w < 91:
		return Op{Op: "Iter", S: s, H: -1, N: -1}
	case w < 92:
		return Op{Op: "Len", S: s, H: -1, N: -1}
	case w < 93:
		return Op{Op: "IOk", H: pickHandle(r, e, false), N: -1}
	case w < 94:
		return Op{Op: "IIn", H: pickHandle(r, e, false), S: s, N: -1}
	case w < 95:
		return Op{Op: "IValue", H: pickHandle(r, e, false), N: -1}
	default:
		if g.detach && r.Chance(1, 2) {
			return Op{Op: "IDetach", H: pickHandle(r, e, false), N: -1}
		}
		if !e.oracle {
			// after a Detach the stacks are no longer sequences; Attach can loop for ever on them
			return Op{Op: "Push", S: s, V: v, H: -1, N: -1}
		}
		t := r.Intn(2)
		if r.Chance(1, 10) {
			t = -1
		}
		return Op{Op: "IAttach", H: pickHandle(r, e, false), S: t, N: -1}
	}
}

func genCase(r *kit.Rand, id int, g genCfg) (Case, *eng) {
	c := Case{ID: id, Stream: g.stream, Eager: g.eager}
	e := newEng(g.eager)
	e.c = c
	n := r.Range(1, g.maxOps)
	for i := 0; i < n && !e.ended; i++ {
		op := genOp(r, e, g)
		c.Ops = append(c.Ops, op)
		e.apply(op)
	}
	return c, e
}

func runCase(c Case) *eng {
	e := newEng(c.Eager)
	e.c = c
	for i, op := range c.Ops {
		if e.ended {
			c.Ops = c.Ops[:i]
			break
		}
		e.apply(op)
	}
	return e
}

// ---------------------------------------------------------------- main

var sigCount = map[string]int{}

func record(run *kit.Run, c Case, e *eng, withCoq bool) {
	c.Ops = c.Ops[:len(e.obs)]
	if e.fail != "" {
		sigCount[e.failSig]++
		if sigCount[e.failSig] <= 40 {
			run.OracleFail(c.ID, e.failSig, fmt.Sprintf("step %d (%s): %s", len(e.obs)-1, c.Ops[len(e.obs)-1].Op, e.fail), c, e.obs[len(e.obs)-1])
		}
	}
	pushes, takes := 0, 0
	for _, o := range c.Ops {
		run.Count("op/" + o.Op)
		switch o.Op {
		case "Push", "AppendV", "Unmarshal":
			pushes++
		case "Pop", "IRemove", "IAppend", "PopIter", "IAttach":
			takes++
		}
	}
	run.Count("stream/" + c.Stream)
	run.Count("len/" + bucket(len(c.Ops)))
	last := e.obs[len(e.obs)-1].R.K
	if last == "panic" {
		run.Count("ended/panic")
	}
	if e.fail != "" {
		run.Count("ended/oracle:" + e.failSig)
	}
	run.Dist["rejected_ops"] += e.rejected
	term := ""
	if withCoq {
		term = coqCase(c, e.obs)
	}
	run.Case(c.ID, c, term, fmt.Sprintf("%v|%v", c.Eager, c.Ops), pushes > 0 && takes > 0 && len(c.Ops) >= 3)
}

func bucket(n int) string {
	switch {
	case n <= 2:
		return "1-2"
	case n <= 5:
		return "3-5"
	case n <= 10:
		return "6-10"
	case n <= 20:
		return "11-20"
	default:
		return "21-40"
	}
}

func nh(op string, s int) Op { return Op{Op: op, S: s, H: -1, N: -1} }

func corpus() []Case {
	push := func(s int, v int64) Op { return Op{Op: "Push", S: s, V: v, H: -1, N: -1} }
	hop := func(op string, h int) Op { return Op{Op: op, H: h, N: -1} }
	return []Case{
		// #26: zero-value stack, Pop before any Push, then Push (lazy observation: nothing calls Head first)
		{Stream: "corpus", Eager: false, Ops: []Op{nh("Pop", 0), push(0, 7), nh("Len", 0), nh("Head", 0), nh("Pop", 0)}},
		{Stream: "corpus", Eager: false, Ops: []Op{nh("PopIter", 1), push(1, 1), push(1, 2), nh("Iter", 1)}},
		// #5: Remove of a middle item
		{Stream: "corpus", Eager: true, Ops: []Op{push(0, 1), push(0, 2), push(0, 3), nh("Head", 0), hop("INext", 0), hop("IRemove", 1), nh("Walk", 0), nh("Pop", 0), nh("Pop", 0), nh("Pop", 0)}},
		// bottom item
		{Stream: "corpus", Eager: true, Ops: []Op{push(0, 1), push(0, 2), nh("Head", 0), hop("INext", 0), hop("IRemove", 1), hop("INext", 0), nh("Pop", 0)}},
		// known finding C16:Item.Remove:attached-head — must always run
		{Stream: "corpus", Eager: true, Ops: []Op{push(0, 1), push(0, 2), nh("Head", 0), hop("IRemove", 0), nh("Walk", 0)}},
		{Stream: "corpus", Eager: false, Ops: []Op{push(0, 100), nh("Head", 0), hop("IRemove", 0)}},
		// rejection: append an item that belongs to a stack / nil / not ok
		{Stream: "corpus", Eager: true, Ops: []Op{push(0, 1), push(1, 2), nh("Head", 0), nh("Head", 1), {Op: "IAppend", H: 0, N: 1}, {Op: "IAppend", H: 0, N: -1}, nh("ZeroItem", 0), {Op: "IAppend", H: 0, N: 2}, {Op: "IAppend", H: 0, N: 0}}},
		// accepted append through a middle item lands on top
		{Stream: "corpus", Eager: true, Ops: []Op{push(0, 1), push(0, 2), nh("Head", 0), hop("INext", 0), {Op: "NewItem", V: 9, H: -1, N: -1}, {Op: "IAppend", H: 1, N: 2}, nh("Walk", 0)}},
		// JSON
		{Stream: "corpus", Eager: false, Ops: []Op{{Op: "Unmarshal", S: 0, Vs: []int64{1, 2, 3}, H: -1, N: -1}, nh("Marshal", 0), push(0, 0), {Op: "Unmarshal", S: 0, Vs: []int64{4, 5}, H: -1, N: -1}, nh("Marshal", 0), {Op: "UnmarshalBad", S: 0, Kind: 1, H: -1, N: -1}}},
		// attach
		{Stream: "corpus", Eager: true, Ops: []Op{push(0, 1), push(0, 2), push(1, 3), push(1, 4), nh("Head", 0), {Op: "IAttach", H: 0, S: 1, N: -1}, {Op: "IAttach", H: 0, S: 0, N: -1}, {Op: "IAttach", H: 0, S: -1, N: -1}}},
		// nil receivers
		{Stream: "corpus", Eager: true, Ops: []Op{hop("IOk", -1), hop("IRemove", -1), {Op: "IAppend", H: -1, N: -1}, hop("INext", -1)}},
		// detach (correspondence only)
		{Stream: "corpus", Eager: true, Ops: []Op{push(0, 1), push(0, 2), push(0, 3), push(0, 4), nh("Head", 0), hop("INext", 0), hop("INext", 1), hop("IDetach", 2), nh("Len", 2), nh("Walk", 2), nh("Push", 2)}},
		{Stream: "corpus", Eager: true, Ops: []Op{nh("ZeroItem", 0), hop("IDetach", 0), {Op: "NewItem", V: 3, H: -1, N: -1}, hop("IDetach", 1), nh("Pop", 3), push(3, 5)}},
	}
}

// exhaustive enumeration of every sequence of at most maxLen operations over a small alphabet
func enumerate(run *kit.Run, id *int, maxLen int) {
	alpha := []Op{
		{Op: "Push", S: 0, V: 1, H: -1, N: -1}, {Op: "Push", S: 1, V: 2, H: -1, N: -1},
		nh("Pop", 0), nh("Head", 0), nh("Head", 1),
		{Op: "INext", H: 0, N: -1}, {Op: "INext", H: 1, N: -1},
		{Op: "IRemove", H: 0, N: -1}, {Op: "IRemove", H: 1, N: -1},
		{Op: "IAppend", H: 0, N: 1}, {Op: "IAppend", H: 1, N: 0}, {Op: "IAppend", H: 1, N: 2},
		{Op: "NewItem", V: 3, H: -1, N: -1},
		{Op: "ISet", H: 0, V: 5, N: -1},
		{Op: "IAttach", H: 0, S: 1, N: -1},
		nh("PopIter", 0),
	}
	n, oracleOnly := 0, 0
	var rec func(prefix []Op, live [2]bool)
	rec = func(prefix []Op, live [2]bool) {
		if len(prefix) > 0 {
			n++
			for mi, eager := range []bool{true, false} {
				if !live[mi] {
					continue // this mode's run already ended at an earlier step: extensions add nothing
				}
				c := Case{ID: *id, Stream: "enum", Eager: eager, Ops: append([]Op(nil), prefix...)}
				e := runCase(c)
				if e.ended {
					live[mi] = false
				}
				// Coq terms for every sequence up to length 3 and a 1/64 sample of the longer ones
				withCoq := len(prefix) <= 3 || n%64 == 0
				if !withCoq && e.fail == "" {
					oracleOnly++
					continue
				}
				*id++
				record(run, c, e, withCoq)
			}
		}
		if len(prefix) >= maxLen || !(live[0] || live[1]) {
			return
		}
		for _, o := range alpha {
			rec(append(append([]Op(nil), prefix...), o), live)
		}
	}
	rec(nil, [2]bool{true, true})
	run.Extra["enumerated_sequences"] = n
	run.Extra["enumerated_runs_oracle_only"] = oracleOnly
}

func main() {
	run := kit.Start()
	run.Header = "From FunV Require Import Base.Tac Model.StackHeap Corr.C16s_corr.\nLocal Open Scope Z_scope."
	run.Footer = "Definition M := Eval vm_compute in mismatches cases.\nPrint M."
	run.CaseType = "case"
	run.ShardSize = 200
	run.Rule = "random operation sequences (1..40 ops) over two zero-value dt.Stack[int64] and a handle table of every item ever returned; " +
		"22 operations (Push Pop Head Len Append(variadic) Iterator PopIterator Head/Next-walk MarshalJSON UnmarshalJSON(valid/malformed) NewItem &Item{} " +
		"Item.Next/Ok/In/Value/Set/Append/Remove/Attach/Detach); handles biased to head/middle/bottom/sentinel/detached/nil; values from a domain of 2..6; " +
		"streams: default-eager (Head() walk observed after every step), default-lazy (zero-value stacks stay uninitialised until an operation initialises them), " +
		"wild (Remove of the head item allowed: known finding, ends the case), detach (Item.Detach allowed, correspondence only), enum (thorough: every sequence <= 5 ops over 16 operations). " +
		"distinct = distinct (mode, op list); non-trivial = at least 3 ops with at least one insertion (Push/Append/UnmarshalJSON) and one of Pop/Remove/Item.Append/PopIterator/Attach"

	startWatchdog(run)
	if run.Replay != "" {
		var c Case
		if err := kit.ReadReplayCase(run.Replay, &c); err != nil {
			panic(err)
		}
		e := runCase(c)
		for i, so := range e.obs {
			b, _ := json.Marshal(so)
			fmt.Printf("step %d %s -> %s\n", i, coqOp(c.Ops[i]), b)
		}
		if e.fail != "" {
			fmt.Printf("ORACLE FAILED %s: %s\n", e.failSig, e.fail)
		} else {
			fmt.Println("oracle: ok")
		}
		record(run, c, e, true)
		run.Finish()
		return
	}

	id := 0
	for _, c := range corpus() {
		c.ID = id
		id++
		e := runCase(c)
		record(run, c, e, true)
	}
	n := run.Pick(3000, 40000)
	for i := 0; i < n; i++ {
		r := run.Rand.Fork()
		g := genCfg{stream: "default-eager", eager: true, maxOps: 40, vspan: r.Range(2, 6)}
		switch k := r.Intn(20); {
		case k < 6:
			g.stream, g.eager = "default-lazy", false
		case k < 7:
			g.stream, g.removeHead, g.eager = "wild", true, r.Bool()
		case k < 9:
			g.stream, g.detach = "detach", true
		}
		if r.Chance(1, 4) {
			g.maxOps = 12
		}
		c, e := genCase(r, id, g)
		id++
		record(run, c, e, true)
	}
	if run.Thorough() {
		enumerate(run, &id, 5)
	}
	sup := map[string]int{}
	for s, k := range sigCount {
		if k > 40 {
			sup[s] = k - 40
		}
	}
	run.Extra["oracle_failures_not_written_in_full"] = sup
	run.Finish()
}
