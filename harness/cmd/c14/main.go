// Driver for C14 (fun.WaitGroup).  Runs the REAL WaitGroup from /repo:
//
//	seq     random sequences of Add(n) (n in -3..3; a negative total must panic and leave the counter alone),
//	        Inc, Done, Num, IsDone, Wait in try-form (live context: does it return by itself?) and Wait with an
//	        already-cancelled context.  Differential against wg_step, plus direct oracles.
//	rounds  one group reused over several rounds: W waiters (10 s deadline) against workers whose Add/Done
//	        sequences bring the counter back to zero; every waiter must return with a live context, never while the
//	        counter has provably been positive for the whole duration of its call (stamps from one atomic clock).
//	cancel  counter held positive; waiters whose context is cancelled must return, waiters with a live context
//	        must stay until the counter reaches zero.
//	launch  Launch / DoTimes / Operation.Add / Operation.StartGroup with gated goroutines: Wait returns only after
//	        all of them have ended.
//	launchx launches with an ended launch context and bodies that end by Goexit / recovered panic: every Inc is matched
//	        by a Done (Wait with a live context returns, counter 0).
//	edge    one Wait entering exactly when the last Done runs, many rounds: never a missed wake-up.
//	dotimes the counted helpers with ANY count (-3..3), on an idle group and beside running workers: a non-positive
//	        count is a no-op, the group counts exactly the goroutines that were started.
//
// Verdicts about blocking are only ever taken with long (10 s) bounds; short grace periods are used only to give
// a wrong early return the chance to show itself (a late goroutine can hide a defect, never invent one).
package main

import (
	"context"
	"fmt"
	"runtime"
	"strings"
	"sync"
	"sync/atomic"
	"time"

	"github.com/tychoish/fun"

	"verif/harness/kit"
)

const longBound = 10 * time.Second

type SOp struct {
	Op string `json:"op"` // add inc done num isdone wait waitc
	N  int    `json:"n,omitempty"`
}

type Round struct {
	K       int     `json:"k"`       // initial Add(k)
	Workers [][]int `json:"workers"` // each worker's Add arguments, in its program order
	NWait   int     `json:"nwait"`
	DelayUS int     `json:"delay_us"` // pause between starting the waiters and starting the workers
}

type Case struct {
	ID     int     `json:"id"`
	Kind   string  `json:"kind"` // seq | rounds | cancel | launch | dotimes | stress
	Ops    []SOp   `json:"ops,omitempty"`
	Rounds []Round `json:"rounds,omitempty"`
	K      int     `json:"k,omitempty"`
	NCanc  int     `json:"ncancel,omitempty"`
	NLong  int     `json:"nlong,omitempty"`
	Delay  int     `json:"delay_us,omitempty"`
	N      int     `json:"n,omitempty"`
	Via    string  `json:"via,omitempty"` // launch | dotimes | opadd | startgroup
	Ctx    string  `json:"ctx,omitempty"`  // launchx: live | cancelled | soon
	Exit   string  `json:"exit,omitempty"` // launchx: return | panicrec | goexit
}

var grace = 2 * time.Millisecond

// A Wait that stays blocked after its context was cancelled is either systematic (the helper goroutine is gone or
// does not broadcast: every parked waiter is affected) or the rare cancellation race of sync.go:134-143 (a helper
// that broadcasts without the mutex; model: wait_ctx_wake_unlocked_helper_refuted — repaired in /repo, the stress
// scenario of the thorough tier guards against its return).  The two are told apart by frequency at the end of the
// run: three or more in one run are reported as C14:Wait:ctx-ignored, fewer as C14:Wait:ctx-cancel-race.
type ctxIgnored struct {
	id     int
	detail string
	c      Case
}

var ctxIgnoredSeen []ctxIgnored

func noteCtxIgnored(c Case, detail string) {
	ctxIgnoredSeen = append(ctxIgnoredSeen, ctxIgnored{c.ID, detail, c})
}

func flushCtxIgnored(run *kit.Run) {
	sig := "C14:Wait:ctx-cancel-race"
	if len(ctxIgnoredSeen) >= 3 {
		sig = "C14:Wait:ctx-ignored"
	}
	for _, x := range ctxIgnoredSeen {
		run.OracleFail(x.id, sig, x.detail, x.c, nil)
	}
	run.Extra["ctx_ignored_observations"] = len(ctxIgnoredSeen)
}

// ---------------------------------------------------------------- helpers on the real type

// safeAdd calls wg.Add(n) and reports whether it panicked.
func safeAdd(wg *fun.WaitGroup, n int) (panicked bool) {
	defer func() {
		if r := recover(); r != nil {
			panicked = true
		}
	}()
	wg.Add(n)
	return false
}

func safeDo(f func()) (panicked bool) {
	defer func() {
		if r := recover(); r != nil {
			panicked = true
		}
	}()
	f()
	return false
}

// stillUsable reports whether the read-only methods of the group return (10 s bound) — they must, also right after
// an Add that panicked: the deferred Unlock runs during the panic.
func stillUsable(wg *fun.WaitGroup) bool {
	done := make(chan struct{})
	go func() {
		wg.Num()
		wg.IsDone()
		ctx, cancel := context.WithCancel(context.Background())
		cancel()
		wg.Wait(ctx)
		close(done)
	}()
	select {
	case <-done:
		return true
	case <-time.After(longBound):
		return false
	}
}

type waitResult struct {
	begin, end int64
	live       bool // context still live when Wait returned
}

// ---------------------------------------------------------------- sequential

type seqObs struct {
	Res   []string `json:"res"`
	Final int      `json:"final"`
}

func runSeq(run *kit.Run, c Case, verbose bool) seqObs {
	wg := &fun.WaitGroup{}
	shadow := 0 // sum of the Adds that did not panic (the oracle's own account)
	var obs seqObs
	fail := func(sig, detail string) { run.OracleFail(c.ID, sig, detail, c, obs) }
	for i, o := range c.Ops {
		var r string
		switch o.Op {
		case "add", "inc", "done":
			n := o.N
			var p bool
			switch o.Op {
			case "inc":
				n = 1
				p = safeDo(wg.Inc)
			case "done":
				n = -1
				p = safeDo(wg.Done)
			default:
				p = safeAdd(wg, n)
			}
			if p && !stillUsable(wg) {
				fail("C14:Add:negative-leaves-locked", fmt.Sprintf("step %d: after the recovered panic of %s(%d) at counter %d, Num / IsDone / Wait(cancelled ctx) did not all return within %v: the group is left locked", i, o.Op, n, shadow, longBound))
				obs.Res = append(obs.Res, "RPanic")
				obs.Final = shadow
				return obs // every further call on this group would hang
			}
			after := wg.Num()
			if shadow+n < 0 {
				if !p {
					fail("C14:Add:negative-no-panic", fmt.Sprintf("step %d: %s(%d) with counter %d did not panic (counter now %d)", i, o.Op, n, shadow, after))
					shadow += n
				} else if after != shadow {
					fail("C14:Add:negative-changed-counter", fmt.Sprintf("step %d: %s(%d) panicked but counter went %d -> %d", i, o.Op, n, shadow, after))
					shadow = after
				}
			} else {
				if p {
					fail("C14:Add:unexpected-panic", fmt.Sprintf("step %d: %s(%d) with counter %d panicked", i, o.Op, n, shadow))
				} else {
					shadow += n
				}
				if after != shadow {
					fail("C14:Num:sum", fmt.Sprintf("step %d: after %s(%d) Num()=%d, sum of completed adds=%d", i, o.Op, n, after, shadow))
					shadow = after
				}
			}
			if p {
				r = "RPanic"
			} else {
				r = "RUnit"
			}
		case "num":
			v := wg.Num()
			if v != shadow {
				fail("C14:Num:sum", fmt.Sprintf("step %d: Num()=%d, sum of completed adds=%d", i, v, shadow))
			}
			r = "RNum " + kit.ZI(v)
		case "isdone":
			v := wg.IsDone()
			if v != (shadow == 0) {
				fail("C14:Num:sum", fmt.Sprintf("step %d: IsDone()=%v with counter %d", i, v, shadow))
			}
			r = "RBool " + kit.Bool(v)
		case "wait":
			ctx, cancel := context.WithCancel(context.Background())
			done := make(chan bool, 1)
			go func() { wg.Wait(ctx); done <- ctx.Err() == nil }()
			first := grace
			if shadow == 0 {
				first = longBound // it must return by itself: give it all the time
			}
			select {
			case live := <-done:
				if live {
					r = "RReturned"
					if shadow != 0 {
						fail("C14:Wait:early-return", fmt.Sprintf("step %d: Wait returned with a live context while the counter is %d and nobody else uses the group", i, shadow))
					}
				} else {
					r = "RBlocked"
				}
			case <-time.After(first):
				r = "RBlocked"
				if shadow == 0 {
					fail("C14:Wait:missed-wakeup", fmt.Sprintf("step %d: Wait with counter 0 did not return within %v", i, longBound))
				}
				cancel()
				select {
				case live := <-done:
					if live && shadow != 0 { // returned on its own just before the cancel took effect
						r = "RReturned"
						fail("C14:Wait:early-return", fmt.Sprintf("step %d: Wait returned with a live context while the counter is %d", i, shadow))
					}
				case <-time.After(longBound):
					noteCtxIgnored(c, fmt.Sprintf("step %d: Wait did not return within %v of its context being cancelled (counter %d)", i, longBound, shadow))
				}
			}
			cancel()
		case "waitc":
			ctx, cancel := context.WithCancel(context.Background())
			cancel()
			done := make(chan struct{})
			go func() { wg.Wait(ctx); close(done) }()
			select {
			case <-done:
				r = "RReturned"
			case <-time.After(longBound):
				r = "RBlocked"
				noteCtxIgnored(c, fmt.Sprintf("step %d: Wait with an already-cancelled context did not return within %v (counter %d)", i, longBound, shadow))
			}
		default:
			panic("unknown op " + o.Op)
		}
		obs.Res = append(obs.Res, r)
		if verbose {
			fmt.Printf("  %2d %-6s %2d -> %s (counter %d)\n", i, o.Op, o.N, r, wg.Num())
		}
	}
	obs.Final = wg.Num()
	return obs
}

func coqSeqOps(ops []SOp) string {
	s := make([]string, len(ops))
	for i, o := range ops {
		switch o.Op {
		case "add":
			s[i] = "WAdd " + kit.ZI(o.N)
		case "inc":
			s[i] = "WInc"
		case "done":
			s[i] = "WDone"
		case "num":
			s[i] = "WNum"
		case "isdone":
			s[i] = "WIsDone"
		case "wait":
			s[i] = "WWait"
		case "waitc":
			s[i] = "WWaitCancelled"
		}
	}
	return kit.List(s)
}

// ---------------------------------------------------------------- concurrent rounds

type opRec struct {
	pre, post int64
	delta     int
	panicked  bool
}

type group struct {
	wg    *fun.WaitGroup
	clock atomic.Int64
	mu    sync.Mutex
	ops   []opRec
}

func (g *group) add(n int) bool {
	pre := g.clock.Add(1)
	p := safeAdd(g.wg, n)
	post := g.clock.Add(1)
	g.mu.Lock()
	g.ops = append(g.ops, opRec{pre, post, n, p})
	g.mu.Unlock()
	return p
}

// lowerBound is a lower bound, over every linearization consistent with the stamps, of the counter at every
// instant between begin and end: positive Adds that had returned before `begin` are certainly in, negative Adds
// that had been called before `end` may be in, everything else can only add.
func (g *group) lowerBound(begin, end int64) int {
	g.mu.Lock()
	defer g.mu.Unlock()
	lb := 0
	for _, o := range g.ops {
		if o.panicked {
			continue
		}
		if o.delta > 0 && o.post < begin {
			lb += o.delta
		}
		if o.delta < 0 && o.pre < end {
			lb += o.delta
		}
	}
	return lb
}

func (g *group) sum() int {
	g.mu.Lock()
	defer g.mu.Unlock()
	s := 0
	for _, o := range g.ops {
		if !o.panicked {
			s += o.delta
		}
	}
	return s
}

// startWaiter runs wg.Wait under ctx in a goroutine and reports begin/end stamps and whether ctx was live at return.
func (g *group) startWaiter(ctx context.Context, out chan<- waitResult) {
	go func() {
		b := g.clock.Add(1)
		g.wg.Wait(ctx)
		live := ctx.Err() == nil
		e := g.clock.Add(1)
		out <- waitResult{b, e, live}
	}()
}

type roundObs struct {
	Final    int `json:"final"`
	Released int `json:"released"` // waiters that returned with a live context
	Timeout  int `json:"timeout"`  // waiters that came back only through their deadline, or not at all
}

func runRounds(run *kit.Run, c Case, verbose bool) []roundObs {
	g := &group{wg: &fun.WaitGroup{}}
	var all []roundObs
	for ri, rd := range c.Rounds {
		var ro roundObs
		fail := func(sig, detail string) { run.OracleFail(c.ID, sig, detail, c, all) }
		if g.add(rd.K) {
			fail("C14:Add:unexpected-panic", fmt.Sprintf("round %d: Add(%d) panicked", ri, rd.K))
		}
		res := make(chan waitResult, rd.NWait)
		var cancels []context.CancelFunc
		for i := 0; i < rd.NWait; i++ {
			ctx, cancel := context.WithTimeout(context.Background(), longBound)
			cancels = append(cancels, cancel)
			g.startWaiter(ctx, res)
		}
		if rd.DelayUS > 0 {
			time.Sleep(time.Duration(rd.DelayUS) * time.Microsecond)
		}
		var wk sync.WaitGroup
		var workerPanics atomic.Int64
		for _, seq := range rd.Workers {
			wk.Add(1)
			go func(seq []int) {
				defer wk.Done()
				for _, d := range seq {
					if g.add(d) {
						workerPanics.Add(1)
					}
				}
			}(seq)
		}
		wk.Wait()
		if n := workerPanics.Load(); n > 0 {
			fail("C14:Add:unexpected-panic", fmt.Sprintf("round %d: %d worker Add call(s) panicked although the counter cannot go negative in any interleaving", ri, n))
		}
		ro.Final = g.wg.Num()
		if want := g.sum(); ro.Final != want {
			fail("C14:Num:sum", fmt.Sprintf("round %d: Num()=%d after all workers returned, sum of completed adds=%d", ri, ro.Final, want))
		}
		// nobody touches the group from here until every waiter is back
		deadline := time.After(longBound + 3*time.Second)
		for i := 0; i < rd.NWait; i++ {
			select {
			case w := <-res:
				if w.live {
					ro.Released++
					if lb := g.lowerBound(w.begin, w.end); lb > 0 {
						fail("C14:Wait:early-return", fmt.Sprintf("round %d: a Wait [stamps %d..%d] returned with a live context although the counter was at least %d throughout", ri, w.begin, w.end, lb))
					}
				} else {
					ro.Timeout++
					if ro.Final == 0 {
						fail("C14:Wait:missed-wakeup", fmt.Sprintf("round %d: a waiter came back only through its %v deadline although the counter reached 0 and stayed there", ri, longBound))
					}
				}
			case <-deadline:
				ro.Timeout += rd.NWait - i
				msg := fmt.Sprintf("round %d: %d waiter(s) still inside Wait %v after their deadline (counter %d)", ri, rd.NWait-i, 3*time.Second, ro.Final)
				if ro.Final != 0 {
					noteCtxIgnored(c, msg)
				} else {
					fail("C14:Wait:missed-wakeup", msg)
				}
				i = rd.NWait
			}
		}
		for _, cf := range cancels {
			cf()
		}
		if verbose {
			fmt.Printf("  round %d: k=%d workers=%v waiters=%d delay=%dus -> final=%d released=%d timeout=%d\n", ri, rd.K, rd.Workers, rd.NWait, rd.DelayUS, ro.Final, ro.Released, ro.Timeout)
		}
		all = append(all, ro)
		if ro.Final != 0 {
			break // the next round assumes a fresh zero
		}
	}
	return all
}

func roundDeltas(rd Round) []int {
	d := []int{rd.K}
	for _, w := range rd.Workers {
		d = append(d, w...)
	}
	return d
}

// ---------------------------------------------------------------- cancellation

type cancelObs struct {
	CancelReturned int `json:"cancel_returned"`
	LongEarly      int `json:"long_early"`
	LongReleased   int `json:"long_released"`
}

func runCancel(run *kit.Run, c Case, verbose bool) cancelObs {
	g := &group{wg: &fun.WaitGroup{}}
	var ob cancelObs
	fail := func(sig, detail string) { run.OracleFail(c.ID, sig, detail, c, ob) }
	g.add(c.K)
	longRes := make(chan waitResult, c.NLong)
	var longCancels []context.CancelFunc
	for i := 0; i < c.NLong; i++ {
		ctx, cancel := context.WithTimeout(context.Background(), longBound)
		longCancels = append(longCancels, cancel)
		g.startWaiter(ctx, longRes)
	}
	cRes := make(chan waitResult, c.NCanc)
	var cCancels []context.CancelFunc
	for i := 0; i < c.NCanc; i++ {
		ctx, cancel := context.WithCancel(context.Background())
		cCancels = append(cCancels, cancel)
		g.startWaiter(ctx, cRes)
	}
	if c.Delay > 0 {
		time.Sleep(time.Duration(c.Delay) * time.Microsecond)
	}
	for _, cf := range cCancels {
		cf()
	}
	cancelStuck := false
	deadline := time.After(longBound)
	for i := 0; i < c.NCanc; i++ {
		select {
		case w := <-cRes:
			ob.CancelReturned++
			if w.live { // cannot happen for a correct Wait: the counter is positive
				if lb := g.lowerBound(w.begin, w.end); lb > 0 {
					fail("C14:Wait:early-return", fmt.Sprintf("a Wait returned with a live context although the counter was at least %d throughout", lb))
				}
			}
		case <-deadline:
			noteCtxIgnored(c, fmt.Sprintf("%d of %d waiters did not return within %v of their context being cancelled (counter %d)", c.NCanc-i, c.NCanc, longBound, c.K))
			cancelStuck = true // the live waiters' own 10 s deadlines have passed while we waited: do not judge them
			i = c.NCanc
		}
	}
	// give a wrongly woken long waiter the chance to show itself
	time.Sleep(grace)
	var pending []waitResult
	for more := true; more; {
		select {
		case w := <-longRes:
			pending = append(pending, w)
		default:
			more = false
		}
	}
	// release: bring the counter to zero
	for i := 0; i < c.K; i++ {
		g.add(-1)
	}
	deadline = time.After(longBound + 3*time.Second)
	for len(pending) < c.NLong {
		select {
		case w := <-longRes:
			pending = append(pending, w)
		case <-deadline:
			fail("C14:Wait:missed-wakeup", fmt.Sprintf("%d waiter(s) did not return although the counter reached 0", c.NLong-len(pending)))
			goto out
		}
	}
out:
	for _, w := range pending {
		if w.live {
			if lb := g.lowerBound(w.begin, w.end); lb > 0 {
				ob.LongEarly++
				fail("C14:Wait:early-return", fmt.Sprintf("a Wait [stamps %d..%d] with a live context returned although the counter was at least %d throughout (another waiter's cancellation woke it)", w.begin, w.end, lb))
			} else {
				ob.LongReleased++
			}
		} else if !cancelStuck {
			fail("C14:Wait:missed-wakeup", fmt.Sprintf("a waiter came back only through its %v deadline although the counter reached 0", longBound))
		}
	}
	for _, cf := range longCancels {
		cf()
	}
	if verbose {
		fmt.Printf("  cancel: k=%d ncancel=%d nlong=%d delay=%dus -> %+v\n", c.K, c.NCanc, c.NLong, c.Delay, ob)
	}
	return ob
}

// ---------------------------------------------------------------- Launch and friends

type launchObs struct {
	AfterLaunch int  `json:"after_launch"`
	WaitEarly   bool `json:"wait_early"`
	EndedAtRet  int  `json:"ended_at_return"`
	Final       int  `json:"final"`
}

func runLaunch(run *kit.Run, c Case, verbose bool) launchObs {
	wg := &fun.WaitGroup{}
	var ob launchObs
	fail := func(sig, detail string) { run.OracleFail(c.ID, sig, detail, c, ob) }
	gate := make(chan struct{})
	var ended atomic.Int64
	var op fun.Operation = func(context.Context) { <-gate; ended.Add(1) }
	ctx := context.Background()
	switch c.Via {
	case "launch":
		for i := 0; i < c.N; i++ {
			wg.Launch(ctx, op)
		}
	case "dotimes":
		wg.DoTimes(ctx, c.N, op)
	case "opadd":
		for i := 0; i < c.N; i++ {
			op.Add(ctx, wg)
		}
	case "startgroup":
		op.StartGroup(ctx, wg, c.N)
	default:
		panic("unknown via " + c.Via)
	}
	ob.AfterLaunch = wg.Num()
	if ob.AfterLaunch != c.N {
		fail("C14:Launch:not-covered", fmt.Sprintf("%s: %d goroutines launched and none allowed to finish, yet Num()=%d", c.Via, c.N, ob.AfterLaunch))
	}
	type wres struct {
		live  bool
		ended int64
	}
	res := make(chan wres, 1)
	wctx, wcancel := context.WithTimeout(ctx, longBound)
	defer wcancel()
	go func() { wg.Wait(wctx); res <- wres{wctx.Err() == nil, ended.Load()} }()
	first := grace
	if c.N == 0 {
		first = longBound // nothing was launched: Wait must return by itself
	}
	var got *wres
	select {
	case w := <-res:
		got = &w
		ob.WaitEarly = w.live
	case <-time.After(first):
	}
	close(gate)
	if got == nil {
		select {
		case w := <-res:
			got = &w
		case <-time.After(longBound + 3*time.Second):
			fail("C14:Wait:missed-wakeup", fmt.Sprintf("%s: Wait did not return although all %d goroutines were released", c.Via, c.N))
		}
	}
	if got != nil {
		ob.EndedAtRet = int(got.ended)
		if got.live && int(got.ended) != c.N {
			fail("C14:Launch:not-covered", fmt.Sprintf("%s: Wait returned with a live context when only %d of %d launched goroutines had ended", c.Via, got.ended, c.N))
		}
		if !got.live {
			fail("C14:Wait:missed-wakeup", fmt.Sprintf("%s: Wait came back only through its deadline", c.Via))
		}
	}
	// all goroutines end, then Done: wait for the counter (bounded) before reading it
	t0 := time.Now()
	for wg.Num() != 0 && time.Since(t0) < longBound {
		time.Sleep(50 * time.Microsecond)
	}
	ob.Final = wg.Num()
	if ob.Final != 0 {
		fail("C14:Num:sum", fmt.Sprintf("%s: counter is %d after all %d goroutines ended", c.Via, ob.Final, c.N))
	}
	if verbose {
		fmt.Printf("  launch via=%s n=%d -> %+v\n", c.Via, c.N, ob)
	}
	return ob
}

// ---------------------------------------------------------------- DoTimes / StartGroup with any count

type doTimesObs struct {
	Panicked   bool `json:"panicked"`
	After      int  `json:"after"`
	WaitEarly  bool `json:"wait_early"`
	EndedAtRet int  `json:"ended_at_return"`
	Final      int  `json:"final"`
}

// runDoTimes: K workers launched through the group are running (blocked on a gate the driver controls); then one of
// the counted-launch helpers is called with count N in -3..3.  The group must now count exactly K+max(0,N) running
// goroutines (a non-positive N is a no-op: no panic, counter unchanged), a Wait with a live context must stay
// blocked while any of them runs, and return once the gate is opened.
func runDoTimes(run *kit.Run, c Case, verbose bool) doTimesObs {
	wg := &fun.WaitGroup{}
	var ob doTimesObs
	fail := func(sig, detail string) { run.OracleFail(c.ID, sig, detail, c, ob) }
	gate := make(chan struct{})
	var ended atomic.Int64
	var op fun.Operation = func(context.Context) { <-gate; ended.Add(1) }
	ctx := context.Background()
	for i := 0; i < c.K; i++ {
		wg.Launch(ctx, op)
	}
	before := wg.Num()
	ob.Panicked = safeDo(func() {
		switch c.Via {
		case "dotimes":
			wg.DoTimes(ctx, c.N, op)
		case "startgroup":
			op.StartGroup(ctx, wg, c.N)
		case "launch":
			for i := 0; i < c.N; i++ {
				wg.Launch(ctx, op)
			}
		case "opadd":
			for i := 0; i < c.N; i++ {
				op.Add(ctx, wg)
			}
		default:
			panic("unknown via " + c.Via)
		}
	})
	started := 0
	if c.N > 0 {
		started = c.N
	}
	want := c.K + started
	ob.After = wg.Num()
	if ob.Panicked {
		sig := "C14:DoTimes:miscounted"
		if c.N <= 0 {
			sig = "C14:DoTimes:negative-panic"
		}
		fail(sig, fmt.Sprintf("%s with count %d on a group with %d running workers panicked (counter %d -> %d); a non-positive count must be a no-op", c.Via, c.N, c.K, before, ob.After))
	}
	if ob.After != want {
		fail("C14:DoTimes:miscounted", fmt.Sprintf("%s with count %d on a group with %d running workers: %d goroutines are running and none has finished, but Num()=%d", c.Via, c.N, c.K, want, ob.After))
	}
	type wres struct {
		live  bool
		ended int64
	}
	res := make(chan wres, 1)
	wctx, wcancel := context.WithTimeout(ctx, longBound)
	defer wcancel()
	go func() { wg.Wait(wctx); res <- wres{wctx.Err() == nil, ended.Load()} }()
	first := grace
	if want == 0 {
		first = longBound // nothing is running: Wait must return by itself
	}
	var got *wres
	select {
	case w := <-res:
		got = &w
		ob.WaitEarly = w.live
		if w.live && want > 0 {
			fail("C14:DoTimes:miscounted", fmt.Sprintf("%s with count %d: Wait returned with a live context while %d goroutines started through the group were still running", c.Via, c.N, want))
		}
	case <-time.After(first):
		if want == 0 {
			fail("C14:Wait:missed-wakeup", fmt.Sprintf("%s with count %d on an idle group: Wait did not return within %v (counter %d)", c.Via, c.N, longBound, ob.After))
		}
	}
	// driver hygiene after a recorded miscount: put the counter back to the number of running goroutines, so that
	// their deferred Done calls cannot panic inside their own goroutines (which would kill this process)
	if cur := wg.Num(); cur != want {
		safeAdd(wg, want-cur)
	}
	close(gate)
	if got == nil {
		select {
		case w := <-res:
			got = &w
		case <-time.After(longBound + 3*time.Second):
			fail("C14:Wait:missed-wakeup", fmt.Sprintf("%s: Wait did not return although all %d goroutines were released", c.Via, want))
		}
		if got != nil {
			if !got.live {
				fail("C14:Wait:missed-wakeup", fmt.Sprintf("%s: Wait came back only through its deadline", c.Via))
			} else if int(got.ended) != want {
				fail("C14:Launch:not-covered", fmt.Sprintf("%s: Wait returned with a live context when only %d of %d goroutines had ended", c.Via, got.ended, want))
			}
		}
	}
	if got != nil {
		ob.EndedAtRet = int(got.ended)
	}
	t0 := time.Now()
	for (wg.Num() != 0 || int(ended.Load()) != want) && time.Since(t0) < longBound {
		time.Sleep(50 * time.Microsecond)
	}
	ob.Final = wg.Num()
	if ob.Final != 0 {
		fail("C14:Num:sum", fmt.Sprintf("%s: counter is %d after all %d goroutines ended", c.Via, ob.Final, want))
	}
	if verbose {
		fmt.Printf("  dotimes via=%s k=%d n=%d -> %+v\n", c.Via, c.K, c.N, ob)
	}
	return ob
}

// ---------------------------------------------------------------- Launch with an ended context / every exit path

type launchXObs struct {
	Ran          int  `json:"ran"`
	WaitReturned bool `json:"wait_returned"`
	Final        int  `json:"final"`
}

// runLaunchX: N goroutines started through the group with a launch context that is live, already cancelled, or
// cancelled concurrently with the launches; each body ends by normal return, by a panic that the library's
// WithRecover wrapper turns into an error, or by runtime.Goexit.  Whatever the combination, every Inc must be matched
// by a Done: a Wait with a (different) live 10 s context returns and the counter is 0 afterwards.
func runLaunchX(run *kit.Run, c Case, verbose bool) launchXObs {
	wg := &fun.WaitGroup{}
	var ob launchXObs
	fail := func(sig, detail string) { run.OracleFail(c.ID, sig, detail, c, ob) }
	var ran atomic.Int64
	var op fun.Operation
	switch c.Exit {
	case "return":
		op = func(context.Context) { ran.Add(1) }
	case "panicrec":
		op = fun.Operation(func(context.Context) { ran.Add(1); panic("c14: worker panic") }).WithRecover().Ignore()
	case "goexit":
		op = func(context.Context) { ran.Add(1); runtime.Goexit() }
	default:
		panic("unknown exit " + c.Exit)
	}
	lctx, lcancel := context.WithCancel(context.Background())
	defer lcancel()
	switch c.Ctx {
	case "cancelled":
		lcancel()
	case "soon":
		go func() { runtime.Gosched(); lcancel() }()
	}
	switch c.Via {
	case "launch":
		for i := 0; i < c.N; i++ {
			wg.Launch(lctx, op)
		}
	case "dotimes":
		wg.DoTimes(lctx, c.N, op)
	case "opadd":
		for i := 0; i < c.N; i++ {
			op.Add(lctx, wg)
		}
	case "startgroup":
		op.StartGroup(lctx, wg, c.N)
	default:
		panic("unknown via " + c.Via)
	}
	sig := "C14:Wait:missed-wakeup"
	why := ""
	if c.Exit != "return" {
		sig, why = "C14:Launch:not-released", fmt.Sprintf(" (workers end by %s)", c.Exit)
	} else if c.Ctx != "live" {
		sig, why = "C14:Launch:leaked-count", fmt.Sprintf(" (launch context %s)", c.Ctx)
	}
	wctx, wcancel := context.WithTimeout(context.Background(), longBound)
	defer wcancel()
	done := make(chan bool, 1)
	go func() { wg.Wait(wctx); done <- wctx.Err() == nil }()
	select {
	case live := <-done:
		ob.WaitReturned = live
	case <-time.After(longBound + 3*time.Second):
	}
	ob.Ran = int(ran.Load())
	ob.Final = wg.Num()
	if c.Ctx != "live" && ob.Ran < c.N { // bodies were skipped because of the launch context: that is the cause
		sig, why = "C14:Launch:leaked-count", fmt.Sprintf(" (launch context %s)", c.Ctx)
	}
	if !ob.WaitReturned {
		fail(sig, fmt.Sprintf("%s x%d%s: Wait with a live context did not return within %v; %d bodies ran, counter %d with no goroutine left to decrement it", c.Via, c.N, why, longBound, ob.Ran, ob.Final))
	} else if ob.Final != 0 {
		fail(sig, fmt.Sprintf("%s x%d%s: counter is %d after Wait returned", c.Via, c.N, why, ob.Final))
	}
	if verbose {
		fmt.Printf("  launchx via=%s n=%d ctx=%s exit=%s -> %+v\n", c.Via, c.N, c.Ctx, c.Exit, ob)
	}
	return ob
}

// ---------------------------------------------------------------- Wait entering exactly when the last Done runs

type edgeObs struct {
	Rounds   int `json:"rounds"`
	Released int `json:"released"`
	Final    int `json:"final"`
}

// runEdge: many rounds of Add(1), then — released together by a spin barrier — one goroutine calls Wait (live 10 s
// context) while another calls Done.  Whichever comes first, Wait must return with its context live: either it sees
// zero at its check, or it is parked before the Done's Broadcast (check and park are one critical section).
func runEdge(run *kit.Run, c Case, verbose bool) edgeObs {
	wg := &fun.WaitGroup{}
	ob := edgeObs{}
	fail := func(sig, detail string) { run.OracleFail(c.ID, sig, detail, c, ob) }
	for r := 0; r < c.N; r++ {
		ob.Rounds++
		wg.Add(1)
		var ready atomic.Int32
		var goFlag atomic.Bool
		res := make(chan bool, 1)
		doneRet := make(chan struct{})
		ctx, cancel := context.WithTimeout(context.Background(), longBound)
		spinW, spinD := (r*7)%23, (r*13)%29
		go func() {
			ready.Add(1)
			for !goFlag.Load() {
			}
			for i := 0; i < spinW; i++ {
				_ = ready.Load()
			}
			wg.Wait(ctx)
			res <- ctx.Err() == nil
		}()
		go func() {
			ready.Add(1)
			for !goFlag.Load() {
			}
			for i := 0; i < spinD; i++ {
				_ = ready.Load()
			}
			wg.Done()
			close(doneRet)
		}()
		for ready.Load() < 2 {
			runtime.Gosched()
		}
		goFlag.Store(true)
		<-doneRet
		live := false
		select {
		case live = <-res:
		case <-time.After(longBound + 3*time.Second):
		}
		cancel()
		if live {
			ob.Released++
		} else {
			ob.Final = wg.Num()
			fail("C14:Wait:missed-wakeup", fmt.Sprintf("round %d: Done returned (counter %d) but the Wait that started at the same moment came back only through its %v deadline", r, ob.Final, longBound))
			break
		}
	}
	ob.Final = wg.Num()
	if verbose {
		fmt.Printf("  edge: %+v\n", ob)
	}
	return ob
}

// ---------------------------------------------------------------- cancellation race stress (thorough tier)

// runStress hunts the cancellation race: many waiters whose contexts are cancelled right around the moment they
// enter Wait, with more Ps than cores so that a waiter can be descheduled between its ctx check and cond.Wait.
func runStress(run *kit.Run, c Case, verbose bool) (trials, stuck int) {
	old := runtime.GOMAXPROCS(64)
	defer runtime.GOMAXPROCS(old)
	t0 := time.Now()
	for time.Since(t0) < time.Duration(c.N)*time.Second && stuck == 0 {
		wg := &fun.WaitGroup{}
		wg.Add(1)
		const W = 8
		done := make(chan int, W)
		cancels := make([]context.CancelFunc, W)
		for i := 0; i < W; i++ {
			ctx, cancel := context.WithCancel(context.Background())
			cancels[i] = cancel
			go func(i int) { wg.Wait(ctx); done <- i }(i)
		}
		for i := 0; i < W; i++ {
			for j := 0; j < (trials*7+i*13)%200; j++ {
				runtime.Gosched()
			}
			cancels[i]()
		}
		timeout := time.After(longBound)
		for got := 0; got < W; {
			select {
			case <-done:
				got++
			case <-timeout:
				stuck += W - got
				noteCtxIgnored(c, fmt.Sprintf("stress trial %d: %d of %d waiters still inside Wait %v after their context was cancelled (counter 1)", trials, W-got, W, longBound))
				got = W
			}
		}
		wg.Done()
		trials++
	}
	if verbose {
		fmt.Printf("  stress: %d trials x 8 waiters, %d stuck\n", trials, stuck)
	}
	return
}

// ---------------------------------------------------------------- generation

func genSeq(r *kit.Rand) []SOp {
	n := r.Range(0, 14)
	if r.Chance(1, 5) {
		n = r.Range(15, 30)
	}
	ops := make([]SOp, 0, n)
	for i := 0; i < n; i++ {
		x := r.Intn(100)
		switch {
		case x < 32:
			ops = append(ops, SOp{Op: "add", N: r.Range(-3, 3)})
		case x < 47:
			ops = append(ops, SOp{Op: "inc"})
		case x < 69:
			ops = append(ops, SOp{Op: "done"})
		case x < 77:
			ops = append(ops, SOp{Op: "num"})
		case x < 84:
			ops = append(ops, SOp{Op: "isdone"})
		case x < 95:
			ops = append(ops, SOp{Op: "wait"})
		default:
			ops = append(ops, SOp{Op: "waitc"})
		}
	}
	return ops
}

var delays = []int{0, 0, 20, 200, 2000}

func genRound(r *kit.Rand) Round {
	k := 1
	if r.Chance(1, 2) {
		k = r.Range(1, 5)
	}
	nw := r.Range(1, 4)
	if r.Chance(1, 3) && nw > k {
		nw = k
	}
	workers := make([][]int, nw)
	// distribute the k Dones; sprinkle balanced Add(+j), j x Done pairs (never below zero in any interleaving)
	for i := 0; i < k; i++ {
		w := r.Intn(nw)
		workers[w] = append(workers[w], -1)
	}
	for w := range workers {
		if r.Chance(1, 3) {
			j := r.Range(1, 2)
			pre := []int{j}
			for i := 0; i < j; i++ {
				pre = append(pre, -1)
			}
			if r.Bool() {
				workers[w] = append(pre, workers[w]...)
			} else {
				// the worker's own Add first, then everything it takes away
				workers[w] = append([]int{j}, append(workers[w], pre[1:]...)...)
			}
		}
	}
	return Round{K: k, Workers: workers, NWait: r.Range(1, 4), DelayUS: delays[r.Intn(len(delays))]}
}

// ---------------------------------------------------------------- main

func main() {
	run := kit.Start()
	run.Header = "From FunV Require Import Base.Tac Conc.Monitor Model.WaitGroupModel Corr.C14_corr.\nOpen Scope Z_scope."
	run.Footer = "Definition M := Eval vm_compute in mismatches cases.\nPrint M."
	run.CaseType = "case"
	run.Rule = "seq: random sequences (0..30 ops) of Add(-3..3)/Inc/Done/Num/IsDone/Wait(try-form)/Wait(cancelled ctx) on the real WaitGroup; " +
		"rounds: a group reused over 1..3 rounds, 1..4 waiters x 1..4 workers whose Add/Done sequences return to zero, 5 start delays; " +
		"cancel: 1..3 cancelled + 0..3 live waiters at a positive counter; launch: 0..6 gated goroutines through Launch/DoTimes/Operation.Add/StartGroup; " +
		"dotimes: DoTimes/StartGroup/Launch-loop/Operation.Add-loop with count -3..3 on a group with 0..3 gated running workers; " +
		"launchx: 1..4 launches with a live/cancelled/concurrently-cancelled launch context whose bodies end by return/recovered panic/runtime.Goexit; " +
		"edge: batches of 250 rounds of one Wait racing the last Done (spin barrier). " +
		"distinct = distinct case specification; non-trivial = seq with at least one Add-like op and one Wait/Num, every concurrent case"
	if run.Thorough() {
		grace = 10 * time.Millisecond
	}

	if run.Replay != "" {
		var c Case
		if err := kit.ReadReplayCase(run.Replay, &c); err != nil {
			panic(err)
		}
		execCase(run, c, true)
		flushCtxIgnored(run)
		run.Finish()
		return
	}

	id := 0
	corpus := []Case{
		{Kind: "seq", Ops: []SOp{{Op: "add", N: 2}, {Op: "done"}, {Op: "wait"}, {Op: "add", N: -2}, {Op: "num"}, {Op: "done"}, {Op: "wait"}, {Op: "isdone"}}},
		{Kind: "seq", Ops: []SOp{{Op: "done"}, {Op: "num"}, {Op: "add", N: -1}, {Op: "wait"}, {Op: "waitc"}}},
		{Kind: "seq", Ops: []SOp{{Op: "inc"}, {Op: "wait"}, {Op: "waitc"}, {Op: "add", N: -3}, {Op: "num"}, {Op: "done"}, {Op: "wait"}}},
		{Kind: "seq", Ops: []SOp{{Op: "wait"}, {Op: "isdone"}, {Op: "add", N: 0}, {Op: "wait"}}},
		// three waiters parked, one Done reaches zero: all three must return
		{Kind: "rounds", Rounds: []Round{{K: 1, Workers: [][]int{{-1}}, NWait: 3, DelayUS: 2000}}},
		{Kind: "rounds", Rounds: []Round{{K: 1, Workers: [][]int{{-1}}, NWait: 3, DelayUS: 0}, {K: 2, Workers: [][]int{{-1}, {-1}}, NWait: 4, DelayUS: 200}, {K: 1, Workers: [][]int{{1, -1, -1}}, NWait: 2, DelayUS: 2000}}},
		{Kind: "cancel", K: 1, NCanc: 1, NLong: 2, Delay: 2000},
		{Kind: "cancel", K: 2, NCanc: 3, NLong: 0, Delay: 500},
		{Kind: "launch", N: 3, Via: "launch"},
		{Kind: "launch", N: 4, Via: "dotimes"},
		{Kind: "launch", N: 2, Via: "opadd"},
		{Kind: "launch", N: 3, Via: "startgroup"},
		{Kind: "launch", N: 0, Via: "dotimes"},
		// counted-launch helpers with non-positive counts: a no-op on an idle group and beside running workers
		{Kind: "dotimes", K: 0, N: -1, Via: "dotimes"},
		{Kind: "dotimes", K: 2, N: -1, Via: "dotimes"},
		{Kind: "dotimes", K: 1, N: -1, Via: "startgroup"},
		{Kind: "dotimes", K: 3, N: -3, Via: "dotimes"},
		{Kind: "dotimes", K: 1, N: 0, Via: "startgroup"},
		{Kind: "dotimes", K: 2, N: 2, Via: "dotimes"},
		{Kind: "dotimes", K: 0, N: -2, Via: "opadd"},
		// launch context already ended / workers ending by Goexit or a recovered panic: still balanced
		{Kind: "launchx", N: 2, Via: "launch", Ctx: "cancelled", Exit: "return"},
		{Kind: "launchx", N: 3, Via: "dotimes", Ctx: "cancelled", Exit: "return"},
		{Kind: "launchx", N: 1, Via: "opadd", Ctx: "soon", Exit: "return"},
		{Kind: "launchx", N: 2, Via: "startgroup", Ctx: "live", Exit: "goexit"},
		{Kind: "launchx", N: 2, Via: "launch", Ctx: "live", Exit: "panicrec"},
		{Kind: "launchx", N: 1, Via: "launch", Ctx: "cancelled", Exit: "goexit"},
		// Wait entering exactly when the last Done runs
		{Kind: "edge", N: 300},
	}
	// a defect that makes Wait hang costs 10 s per failing case: a handful of failures is enough evidence
	enough := func() bool { return run.NOracle+len(ctxIgnoredSeen) >= 5 }
	for _, c := range corpus {
		c.ID = id
		id++
		execCase(run, c, false)
	}
	nseq := run.Pick(4000, 40000)
	nrounds := run.Pick(1500, 15000)
	ncancel := run.Pick(500, 5000)
	nlaunch := run.Pick(700, 7000)
	for i := 0; i < nseq && !enough(); i++ {
		r := run.Rand.Fork()
		execCase(run, Case{ID: id, Kind: "seq", Ops: genSeq(r)}, false)
		id++
	}
	for i := 0; i < nrounds && !enough(); i++ {
		r := run.Rand.Fork()
		c := Case{ID: id, Kind: "rounds"}
		for j, n := 0, r.Range(1, 3); j < n; j++ {
			c.Rounds = append(c.Rounds, genRound(r))
		}
		execCase(run, c, false)
		id++
	}
	for i := 0; i < ncancel && !enough(); i++ {
		r := run.Rand.Fork()
		// quick tier: cancel once the waiters have had time to park; the thorough tier also cancels around Wait's
		// entry (where the cancellation race of the pre-repair helper lived)
		d := []int{200, 500, 2000}[r.Intn(3)]
		if run.Thorough() {
			d = delays[r.Intn(len(delays))]
		}
		execCase(run, Case{ID: id, Kind: "cancel", K: r.Range(1, 3), NCanc: r.Range(1, 3), NLong: r.Range(0, 3), Delay: d}, false)
		id++
	}
	vias := []string{"launch", "dotimes", "opadd", "startgroup"}
	for i := 0; i < nlaunch && !enough(); i++ {
		r := run.Rand.Fork()
		execCase(run, Case{ID: id, Kind: "launch", N: r.Range(0, 6), Via: vias[r.Intn(len(vias))]}, false)
		id++
	}
	ndotimes := run.Pick(500, 6000)
	dvias := []string{"dotimes", "startgroup", "dotimes", "startgroup", "launch", "opadd"}
	for i := 0; i < ndotimes && !enough(); i++ {
		r := run.Rand.Fork()
		execCase(run, Case{ID: id, Kind: "dotimes", K: r.Range(0, 3), N: r.Range(-3, 3), Via: dvias[r.Intn(len(dvias))]}, false)
		id++
	}
	nlx := run.Pick(400, 5000)
	ctxs := []string{"live", "cancelled", "cancelled", "soon"}
	exits := []string{"return", "return", "goexit", "panicrec"}
	for i := 0; i < nlx && !enough(); i++ {
		r := run.Rand.Fork()
		execCase(run, Case{ID: id, Kind: "launchx", N: r.Range(1, 4), Via: vias[r.Intn(len(vias))], Ctx: ctxs[r.Intn(len(ctxs))], Exit: exits[r.Intn(len(exits))]}, false)
		id++
	}
	nedge := run.Pick(40, 600)
	for i := 0; i < nedge && !enough(); i++ {
		execCase(run, Case{ID: id, Kind: "edge", N: 250}, false)
		id++
	}
	if run.Thorough() && !enough() {
		execCase(run, Case{ID: id, Kind: "stress", N: 20}, false)
		id++
	}
	flushCtxIgnored(run)
	run.Finish()
}

func execCase(run *kit.Run, c Case, verbose bool) {
	if verbose {
		fmt.Printf("case %d kind=%s\n", c.ID, c.Kind)
	}
	switch c.Kind {
	case "seq":
		obs := runSeq(run, c, verbose)
		nadd, nobs := 0, 0
		for _, o := range c.Ops {
			switch o.Op {
			case "add", "inc", "done":
				nadd++
			default:
				nobs++
			}
			run.Count("seq/op=" + o.Op)
		}
		for _, r := range obs.Res {
			if r == "RPanic" || r == "RBlocked" || r == "RReturned" {
				run.Count("seq/res=" + r)
			}
		}
		term := fmt.Sprintf("CSeq %s %s %s %s", kit.ZI(c.ID), coqSeqOps(c.Ops), kit.List(obs.Res), kit.ZI(obs.Final))
		run.Case(c.ID, c, term, fmt.Sprintf("s|%v", c.Ops), nadd > 0 && nobs > 0)
	case "rounds":
		obs := runRounds(run, c, verbose)
		items := make([]string, 0, len(obs))
		for i, ro := range obs {
			rd := c.Rounds[i]
			items = append(items, kit.Tuple(kit.ZListI(roundDeltas(rd)), kit.ZI(rd.NWait), kit.ZI(ro.Final), kit.ZI(ro.Released)))
			run.Count(fmt.Sprintf("rounds/waiters=%d", rd.NWait))
			run.Count(fmt.Sprintf("rounds/delay_us=%d", rd.DelayUS))
		}
		run.Count(fmt.Sprintf("rounds/n=%d", len(c.Rounds)))
		term := fmt.Sprintf("CRounds %s %s", kit.ZI(c.ID), kit.List(items))
		run.Case(c.ID, c, term, fmt.Sprintf("r|%v", c.Rounds), true)
	case "cancel":
		ob := runCancel(run, c, verbose)
		run.Count(fmt.Sprintf("cancel/ncancel=%d,nlong=%d", c.NCanc, c.NLong))
		term := fmt.Sprintf("CCancel %s %s %s %s %s %s", kit.ZI(c.ID), kit.ZI(c.K), kit.ZI(c.NCanc), kit.ZI(c.NLong), kit.ZI(ob.CancelReturned), kit.ZI(ob.LongEarly))
		run.Case(c.ID, c, term, fmt.Sprintf("c|%d|%d|%d|%d", c.K, c.NCanc, c.NLong, c.Delay), true)
	case "launch":
		ob := runLaunch(run, c, verbose)
		run.Count("launch/via=" + c.Via)
		term := fmt.Sprintf("CLaunch %s %s %s %s %s", kit.ZI(c.ID), kit.ZI(c.N), kit.ZI(ob.AfterLaunch), kit.Bool(ob.WaitEarly), kit.ZI(ob.Final))
		run.Case(c.ID, c, term, fmt.Sprintf("l|%s|%d", c.Via, c.N), true)
	case "dotimes":
		ob := runDoTimes(run, c, verbose)
		sign := "neg"
		if c.N == 0 {
			sign = "zero"
		} else if c.N > 0 {
			sign = "pos"
		}
		run.Count(fmt.Sprintf("dotimes/via=%s,n=%s", c.Via, sign))
		run.Count(fmt.Sprintf("dotimes/running=%d", c.K))
		term := fmt.Sprintf("CDoTimes %s %s %s %s %s %s %s", kit.ZI(c.ID), kit.ZI(c.K), kit.ZI(c.N), kit.Bool(ob.Panicked), kit.ZI(ob.After), kit.Bool(ob.WaitEarly), kit.ZI(ob.Final))
		run.Case(c.ID, c, term, fmt.Sprintf("d|%s|%d|%d", c.Via, c.K, c.N), true)
	case "launchx":
		ob := runLaunchX(run, c, verbose)
		run.Count(fmt.Sprintf("launchx/ctx=%s,exit=%s", c.Ctx, c.Exit))
		ex := map[string]string{"return": "ExReturn", "panicrec": "ExReturn", "goexit": "ExGoexit"}[c.Exit] // a recovered panic is a normal return for PostHook
		term := fmt.Sprintf("CLaunchX %s %s %s %s %s %s %s", kit.ZI(c.ID), kit.ZI(c.N), kit.Bool(c.Ctx == "live"), ex, kit.ZI(ob.Ran), kit.Bool(ob.WaitReturned), kit.ZI(ob.Final))
		if c.Ctx == "soon" {
			term = "" // whether a launch saw the context live is not determined; the oracle above still judges the outcome
		}
		run.Case(c.ID, c, term, fmt.Sprintf("x|%s|%d|%s|%s", c.Via, c.N, c.Ctx, c.Exit), true)
	case "edge":
		ob := runEdge(run, c, verbose)
		run.Count("edge/batches")
		run.Extra["edge_rounds"] = ob.Rounds + func() int { v, _ := run.Extra["edge_rounds"].(int); return v }()
		term := fmt.Sprintf("CEdge %s %s %s %s", kit.ZI(c.ID), kit.ZI(ob.Rounds), kit.ZI(ob.Released), kit.ZI(ob.Final))
		run.Case(c.ID, c, term, fmt.Sprintf("e|%d|%d", c.ID, c.N), true)
	case "stress":
		trials, stuck := runStress(run, c, verbose)
		run.Extra["stress_trials"] = trials
		run.Extra["stress_stuck"] = stuck
		run.Count("stress/runs")
		run.Case(c.ID, c, "", "stress", true)
	default:
		panic("unknown kind " + strings.TrimSpace(c.Kind))
	}
}
