// Sequence family over defaults-only options {HardLimit: h} (SoftQuota and BurstCredit left
// to QueueOptions.Validate): partial fill, drain below half of the soft quota while items
// remain (the quota shrinks and the credit refund is fractional), refill up to the shrunken
// soft quota, then adds above it — so admission on burst credit depends on the INITIAL credit
// that Validate defaulted.  The implementation's decisions are compared with the model's
// (model Validate + model tracker) by the CSeq correspondence; the mirror below only steers
// the generation.
package main

import "verif/harness/kit"

func genDefaultsCase(r *kit.Rand, id int) Case {
	h := r.Range(2, 12)
	cfg := Cfg{Kind: "quota", HL: h}
	if r.Chance(1, 5) {
		cfg.SQ = -r.Range(1, 2) // negative soft quota is defaulted too
	}
	m := mInit(cfg)
	var ops []Op
	next := int64(0)
	do := func(o Op) {
		ops = append(ops, o)
		if n, _, blocked := m.step(o); !blocked {
			m = n
		}
	}
	add := func() {
		next++
		switch r.Intn(8) {
		case 0:
			do(Op{Op: "Send", V: next})
		case 1:
			do(Op{Op: "BlockingAdd", V: next})
		default:
			do(Op{Op: "Add", V: next})
		}
	}
	take := func() {
		do(Op{Op: []string{"Remove", "Remove", "Remove", "Wait", "Receive"}[r.Intn(5)]})
	}
	rounds := r.Range(1, 4)
	for k := 0; k < rounds && len(ops) < 70; k++ {
		// partial fill
		for n := r.Range(1, h); n > 0 && m.length < h; n-- {
			add()
		}
		// drain below half of the soft quota, keeping at least one item most of the time
		keep := 0
		if r.Chance(4, 5) {
			keep = r.Range(1, 2)
		}
		for m.length > keep && (m.length >= m.sq/2 || r.Chance(1, 3)) {
			take()
		}
		// refill to the (shrunken) soft quota
		for m.length < m.sq && m.length < h {
			do(Op{Op: "Add", V: next + 1})
			next++
		}
		// adds above the quota: admitted exactly while credit >= 1 and below the hard limit
		for n := r.Range(1, 3); n > 0; n-- {
			add()
		}
		if r.Chance(1, 3) {
			do(Op{Op: "Len"})
		}
	}
	for i := 0; i <= m.length && i < 40; {
		ops = append(ops, Op{Op: "Remove"})
		i++
	}
	return Case{ID: id, Kind: "seq", Cfg: cfg, Ops: ops}
}
