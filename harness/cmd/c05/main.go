// Driver for C05 (pubsub.Queue is a linearizable bounded FIFO).
//
// Streams (all on the REAL queue from /repo, built with -tags verif):
//
//	new   constructor decisions on well- and malformed QueueOptions (CNew cases);
//	seq   sequential differential: random operation sequences over every kind of
//	      valid configuration, blocking operations in try-form (cancelled context);
//	      per step the result, Len() and tracker.cap() are recorded; the Coq side
//	      re-runs the pointer-level model and the abstract spec (CSeq cases);
//	      direct oracles (FIFO, Len exact and bounded, admission rules evaluated on
//	      the implementation's own tracker fields, quota dynamics, close semantics,
//	      an error result has no effect) run on every step, independent of the model;
//	hist  concurrent histories: 2..6 goroutines, <= 12 concurrent operations,
//	      invocation/response stamped from one atomic counter, followed by a
//	      sequential drain.  Each history is searched for a linearization (WGL-style
//	      backtracking against a Go mirror of the sequential spec); the order found is
//	      emitted with the history so that Coq re-validates it against the Coq spec
//	      (CHist cases).  No order found = oracle failure C05:Queue:non-linearizable.
//
// Verdicts never depend on timing: any outcome of a timed-out blocking operation
// must itself be linearizable (a context error is accepted only at a point where
// the operation's wait predicate is false, and then must have no effect).
package main

import (
	"context"
	"errors"
	"fmt"
	"math"
	"runtime"
	"strconv"
	"strings"
	"sync"
	"sync/atomic"
	"time"

	"github.com/tychoish/fun/pubsub"

	"verif/harness/kit"
)

// ---------------------------------------------------------------- case types

type Cfg struct {
	Kind string `json:"kind"` // unlimited | quota | hard
	HL   int    `json:"hl,omitempty"`
	SQ   int    `json:"sq,omitempty"`
	BC   string `json:"bc,omitempty"` // float64 in strconv 'x' format (or +Inf, -Inf, NaN)
	Cap  int    `json:"cap,omitempty"`
}

type Op struct {
	Op string `json:"op"` // Add BlockingAdd Remove Wait Len Close Send Receive DLen
	V  int64  `json:"v,omitempty"`
	TO int    `json:"to,omitempty"` // timeout in ms of a blocking op in a concurrent history
	S1 int    `json:"s1,omitempty"` // busy-wait iterations between the invocation stamp and the call
	S2 int    `json:"s2,omitempty"` // ... and between the return and the response stamp
}

var spinSink atomic.Int64

func spin(n int) {
	for i := 0; i < n; i++ {
		spinSink.Add(1)
		if i%64 == 63 {
			runtime.Gosched()
		}
	}
}

type Res struct {
	K string `json:"k"` // err | item | notok | len | panic
	E string `json:"e,omitempty"`
	V int64  `json:"v,omitempty"`
}

type HEntry struct {
	T   int `json:"t"`
	Op  Op  `json:"op"`
	Res Res `json:"res"`
	Inv int `json:"inv"`
	Ret int `json:"ret"`
}

type Case struct {
	ID      int      `json:"id"`
	Kind    string   `json:"kind"` // new | seq | hist
	Cfg     Cfg      `json:"cfg"`
	Ops     []Op     `json:"ops,omitempty"`
	Prefix  []Op     `json:"prefix,omitempty"`
	Threads [][]Op   `json:"threads,omitempty"`
	Hist    []HEntry `json:"hist,omitempty"`
	Order   []int    `json:"order,omitempty"`
	// contention scenarios (kind "stress"): P producers x N BlockingAdd, C consumers
	P int `json:"p,omitempty"`
	N int `json:"n,omitempty"`
	C int `json:"c,omitempty"`
}

func parseF(s string) float64 {
	switch s {
	case "", "0":
		return 0
	case "+Inf", "Inf":
		return math.Inf(1)
	case "-Inf":
		return math.Inf(-1)
	case "NaN":
		return math.NaN()
	}
	f, err := strconv.ParseFloat(s, 64)
	if err != nil {
		panic(err)
	}
	return f
}

func fmtF(f float64) string {
	switch {
	case math.IsNaN(f):
		return "NaN"
	case math.IsInf(f, 1):
		return "+Inf"
	case math.IsInf(f, -1):
		return "-Inf"
	}
	return strconv.FormatFloat(f, 'x', -1, 64)
}

func coqF(s string) string {
	switch s {
	case "", "0":
		return "0%float"
	case "+Inf", "Inf":
		return "infinity"
	case "-Inf":
		return "neg_infinity"
	case "NaN":
		return "nan"
	}
	return "(" + s + ")%float"
}

func (c Cfg) coq() string {
	switch c.Kind {
	case "unlimited":
		return "CfgUnlimited"
	case "hard":
		return "(CfgHard " + kit.ZI(c.Cap) + ")"
	default:
		return "(CfgQuota " + kit.ZI(c.HL) + " " + kit.ZI(c.SQ) + " " + coqF(c.BC) + ")"
	}
}

func (o Op) coq() string {
	switch o.Op {
	case "Add":
		return "OAdd " + kit.Z(o.V)
	case "BlockingAdd":
		return "OBlockingAdd " + kit.Z(o.V)
	case "Send":
		return "OSend " + kit.Z(o.V)
	case "Remove":
		return "ORemove"
	case "Wait":
		return "OWait"
	case "Receive":
		return "OReceive"
	case "Len":
		return "OLen"
	case "DLen":
		return "ODLen"
	case "Close":
		return "OClose"
	}
	panic("bad op " + o.Op)
}

func (r Res) coq() string {
	switch r.K {
	case "err":
		switch r.E {
		case "nil":
			return "RErr ENil"
		case "full":
			return "RErr EFull"
		case "nocredit":
			return "RErr ENoCredit"
		case "closed":
			return "RErr EClosed"
		case "ctx":
			return "RErr ECtx"
		}
		return "RPanic" // an error outside the enum can never agree with the model
	case "item":
		return "RItem " + kit.Z(r.V)
	case "notok":
		return "RNotOk"
	case "len":
		return "RLen " + kit.Z(r.V)
	}
	return "RPanic"
}

func (r Res) String() string {
	switch r.K {
	case "err":
		return r.E
	case "item":
		return fmt.Sprintf("item(%d)", r.V)
	case "len":
		return fmt.Sprintf("len(%d)", r.V)
	}
	return r.K
}

// ---------------------------------------------------------------- running the real queue

func newQueue(c Cfg) (*pubsub.Queue[int64], error) {
	switch c.Kind {
	case "unlimited":
		return pubsub.NewUnlimitedQueue[int64](), nil
	case "hard":
		return pubsub.NewVerifHardLimitQueue[int64](c.Cap), nil
	default:
		return pubsub.NewQueue[int64](pubsub.QueueOptions{HardLimit: c.HL, SoftQuota: c.SQ, BurstCredit: parseF(c.BC)})
	}
}

func errKind(err error) string {
	switch {
	case err == nil:
		return "nil"
	case errors.Is(err, pubsub.ErrQueueFull):
		return "full"
	case errors.Is(err, pubsub.ErrQueueNoCredit):
		return "nocredit"
	case errors.Is(err, pubsub.ErrQueueClosed):
		return "closed"
	case errors.Is(err, context.Canceled), errors.Is(err, context.DeadlineExceeded):
		return "ctx"
	}
	return "other:" + err.Error()
}

// apply executes one operation on the real queue (never panics: a panic is a result).
func apply(q *pubsub.Queue[int64], d pubsub.Distributor[int64], ctx context.Context, o Op) (res Res) {
	defer func() {
		if p := recover(); p != nil {
			res = Res{K: "panic", E: fmt.Sprint(p)}
		}
	}()
	switch o.Op {
	case "Add":
		return Res{K: "err", E: errKind(q.Add(o.V))}
	case "BlockingAdd":
		return Res{K: "err", E: errKind(q.BlockingAdd(ctx, o.V))}
	case "Send":
		return Res{K: "err", E: errKind(d.Send(ctx, o.V))}
	case "Remove":
		v, ok := q.Remove()
		if !ok {
			return Res{K: "notok"}
		}
		return Res{K: "item", V: v}
	case "Wait":
		v, err := q.Wait(ctx)
		if err != nil {
			return Res{K: "err", E: errKind(err)}
		}
		return Res{K: "item", V: v}
	case "Receive":
		v, err := d.Receive(ctx)
		if err != nil {
			return Res{K: "err", E: errKind(err)}
		}
		return Res{K: "item", V: v}
	case "Len":
		return Res{K: "len", V: int64(q.Len())}
	case "DLen":
		return Res{K: "len", V: int64(d.Len())}
	case "Close":
		return Res{K: "err", E: errKind(q.Close())}
	}
	panic("bad op " + o.Op)
}

func isAdd(o Op) bool  { return o.Op == "Add" || o.Op == "BlockingAdd" || o.Op == "Send" }
func isTake(o Op) bool { return o.Op == "Remove" || o.Op == "Wait" || o.Op == "Receive" }

// ---------------------------------------------------------------- Go mirror of the sequential spec
// (used only by the linearizability search; every order it finds is re-validated by Coq)

type mState struct {
	items  []int64
	kind   int // 0 nolimit 1 hard 2 quota
	sq, hl int
	length int
	capv   int
	credit float64
	closed bool
}

func mInit(c Cfg) mState {
	switch c.Kind {
	case "unlimited":
		return mState{kind: 0}
	case "hard":
		return mState{kind: 1, capv: c.Cap}
	}
	sq, bc := c.SQ, parseF(c.BC)
	if sq <= 0 {
		sq = c.HL
	}
	if bc == 0 {
		bc = float64(sq)
	}
	return mState{kind: 2, sq: sq, hl: c.HL, credit: bc}
}

func (s mState) cap() int {
	switch s.kind {
	case 0:
		return math.MaxInt
	case 1:
		return s.capv
	}
	return s.sq
}

func (s *mState) add() string {
	switch s.kind {
	case 0:
		s.length++
	case 1:
		if s.length >= s.capv {
			return "full"
		}
		s.length++
	default:
		if s.length >= s.sq {
			if s.length == s.hl {
				return "full"
			} else if s.credit < 1 {
				return "nocredit"
			}
			s.credit--
			s.sq = s.length + 1
		}
		s.length++
	}
	return "nil"
}

func (s *mState) remove() {
	switch s.kind {
	case 0, 1:
		if s.length != 0 {
			s.length--
		}
	default:
		s.length--
		if s.length < s.sq {
			if s.sq > 1 && s.length < s.sq/2 {
				s.sq--
			}
			s.credit += float64(s.sq-s.length) / float64(s.sq)
			if lc := float64(s.hl - s.sq); s.credit > lc {
				s.credit = lc
			}
		}
	}
}

// step returns the successor state, the result, and whether the operation blocks.
func (s mState) step(o Op) (mState, Res, bool) {
	doAdd := func() (mState, Res, bool) {
		if s.closed {
			return s, Res{K: "err", E: "closed"}, false
		}
		n := s
		if e := n.add(); e != "nil" {
			return s, Res{K: "err", E: e}, false
		}
		n.items = append(append([]int64(nil), s.items...), o.V)
		return n, Res{K: "err", E: "nil"}, false
	}
	pop := func() (mState, Res, bool) {
		n := s
		v := s.items[0]
		n.items = append([]int64(nil), s.items[1:]...)
		n.remove()
		return n, Res{K: "item", V: v}, false
	}
	switch o.Op {
	case "Add", "Send":
		return doAdd()
	case "BlockingAdd":
		if s.closed {
			return s, Res{K: "err", E: "closed"}, false
		}
		if s.cap() > s.length {
			return doAdd()
		}
		return s, Res{}, true
	case "Remove":
		if s.length == 0 {
			return s, Res{K: "notok"}, false
		}
		return pop()
	case "Wait", "Receive":
		if s.length == 0 {
			if s.closed {
				return s, Res{K: "err", E: "closed"}, false
			}
			return s, Res{}, true
		}
		return pop()
	case "Len", "DLen":
		return s, Res{K: "len", V: int64(s.length)}, false
	case "Close":
		n := s
		n.closed = true
		return n, Res{K: "err", E: "nil"}, false
	}
	panic("bad op")
}

func (s mState) key() string {
	return fmt.Sprint(s.items, s.sq, s.length, math.Float64bits(s.credit), s.closed)
}

// linearize searches for an order of h that respects real time and is a legal
// execution of the mirror with the recorded results.
func linearize(c Cfg, h []HEntry) ([]int, bool) {
	n := len(h)
	if n > 62 {
		panic("history too long")
	}
	seen := map[string]bool{}
	order := make([]int, 0, n)
	var rec func(done uint64, s mState) bool
	rec = func(done uint64, s mState) bool {
		if len(order) == n {
			return true
		}
		k := fmt.Sprint(done, "|", s.key())
		if seen[k] {
			return false
		}
		seen[k] = true
		// the earliest response among the remaining operations bounds what may come next
		minRet := math.MaxInt
		for i := 0; i < n; i++ {
			if done&(1<<uint(i)) == 0 && h[i].Ret < minRet {
				minRet = h[i].Ret
			}
		}
		for i := 0; i < n; i++ {
			if done&(1<<uint(i)) != 0 || h[i].Inv > minRet {
				continue
			}
			ns, r, blocked := s.step(h[i].Op)
			if h[i].Res.K == "err" && h[i].Res.E == "ctx" {
				if !blocked {
					continue
				}
				ns = s
			} else if blocked || r != h[i].Res {
				continue
			}
			order = append(order, i)
			if rec(done|1<<uint(i), ns) {
				return true
			}
			order = order[:len(order)-1]
		}
		return false
	}
	if rec(0, mInit(c)) {
		return order, true
	}
	return nil, false
}

// ---------------------------------------------------------------- sequential stream with direct oracles

type stepObs struct {
	Res Res `json:"res"`
	Len int `json:"len"`
	Cap int `json:"cap"`
}

func methodOf(o Op) string {
	switch o.Op {
	case "Send":
		return "Distributor.Send"
	case "Receive":
		return "Distributor.Receive"
	case "DLen":
		return "Distributor.Len"
	}
	return "Queue." + o.Op
}

func sameSnap(a, b pubsub.VerifQueueSnapshot) bool {
	return a.Tracker == b.Tracker && a.Length == b.Length && a.Cap == b.Cap && a.SoftQuota == b.SoftQuota &&
		a.HardLimit == b.HardLimit && math.Float64bits(a.Credit) == math.Float64bits(b.Credit) && a.Closed == b.Closed &&
		a.Items == b.Items && a.BackIsLast == b.BackIsLast
}

func eqItems(a, b []int64) bool {
	if len(a) != len(b) {
		return false
	}
	for i := range a {
		if a[i] != b[i] {
			return false
		}
	}
	return true
}

// runSeq executes the case on the real queue in try-form and applies the direct oracles.
func runSeq(run *kit.Run, c Case, verbose bool) (obs []stepObs, final []int64, ok bool) {
	q, err := newQueue(c.Cfg)
	if err != nil {
		return nil, nil, false
	}
	d := q.Distributor()
	ctx, cancel := context.WithCancel(context.Background())
	cancel()

	var ref []int64 // reference FIFO: what has been accepted and not yet handed out
	refClosed := false
	failed := map[string]bool{}
	fail := func(step int, o Op, class, detail string) {
		sig := "C05:" + methodOf(o) + ":" + class
		if failed[sig] {
			return
		}
		failed[sig] = true
		run.OracleFail(c.ID, sig, fmt.Sprintf("step %d %s(%d): %s", step, o.Op, o.V, detail), c, obs)
	}

	panicked := false
	ref2 := mInit(c.Cfg) // the documented rules from the documented defaults, in try-form
	for i, o := range c.Ops {
		b := snapshot(q)
		r := apply(q, d, ctx, o)
		{
			n, wr, blocked := ref2.step(o)
			if blocked {
				wr = Res{K: "err", E: "ctx"}
			} else {
				ref2 = n
			}
			if r.K != "panic" && r != wr {
				fail(i, o, "sequential-rules", fmt.Sprintf("returned %s; the documented limit/credit rules, started from the documented option defaults, give %s (reference: len=%d softQuota=%d credit=%v closed=%v)", r, wr, ref2.length, ref2.sq, ref2.credit, ref2.closed))
			}
		}
		if r.K == "panic" { // the queue may be unusable now (e.g. a nil sentinel): stop here
			obs = append(obs, stepObs{Res: r})
			fail(i, o, "panic", "panicked: "+r.E)
			panicked = true
			break
		}
		a := snapshot(q)
		l := q.Len()
		obs = append(obs, stepObs{Res: r, Len: l, Cap: a.Cap})
		if verbose {
			fmt.Printf("%3d %-12s %-4d -> %-10s | len=%d cap=%d sq=%d credit=%v closed=%v\n", i, o.Op, o.V, r, l, a.Cap, a.SoftQuota, a.Credit, a.Closed)
		}
		if r.K == "err" && strings.HasPrefix(r.E, "other:") {
			fail(i, o, "unexpected-error", r.E)
		}
		switch {
		case isAdd(o):
			want := "nil"
			switch {
			case b.Closed:
				want = "closed" // closed: always and first
			case o.Op == "BlockingAdd" && b.Cap <= b.Length:
				want = "ctx" // wait predicate false, context already cancelled
			case b.Tracker == "hardlimit":
				if b.Length >= b.HardLimit {
					want = "full"
				}
			case b.Tracker == "quota":
				if b.Length >= b.SoftQuota {
					if b.Length == b.HardLimit {
						want = "full"
					} else if b.Credit < 1 {
						want = "nocredit"
					}
				}
			}
			if r.K != "err" || r.E != want {
				fail(i, o, "admission", fmt.Sprintf("returned %s, the sequential rules on (len=%d softQuota=%d hardLimit=%d credit=%v closed=%v) say %s", r, b.Length, b.SoftQuota, b.HardLimit, b.Credit, b.Closed, want))
			}
			if r.K == "err" && r.E == "nil" {
				ref = append(ref, o.V)
				if b.Tracker == "quota" {
					if b.Length >= b.SoftQuota {
						if math.Float64bits(a.Credit) != math.Float64bits(b.Credit-1) || a.SoftQuota != b.Length+1 {
							fail(i, o, "quota-dynamics", fmt.Sprintf("over-quota add: credit %v -> %v, softQuota %d -> %d at len %d", b.Credit, a.Credit, b.SoftQuota, a.SoftQuota, b.Length))
						}
					} else if math.Float64bits(a.Credit) != math.Float64bits(b.Credit) || a.SoftQuota != b.SoftQuota {
						fail(i, o, "quota-dynamics", "an add below the soft quota changed credit or quota")
					}
				}
			} else if !sameSnap(a, b) {
				cls := "error-effect"
				if r.E == "ctx" {
					cls = "ctx-effect"
				}
				fail(i, o, cls, fmt.Sprintf("returned %s but changed the queue: %+v -> %+v", r, b, a))
			}
		case isTake(o):
			if len(ref) == 0 {
				want := Res{K: "notok"}
				if o.Op != "Remove" {
					want = Res{K: "err", E: "ctx"}
					if refClosed {
						want = Res{K: "err", E: "closed"}
					}
				}
				if r != want {
					cls := "empty"
					if refClosed {
						cls = "close"
					}
					fail(i, o, cls, fmt.Sprintf("on an empty queue (closed=%v) returned %s, want %s", refClosed, r, want))
				}
				if r.K != "item" && !sameSnap(a, b) {
					cls := "error-effect"
					if r.E == "ctx" {
						cls = "ctx-effect"
					}
					fail(i, o, cls, fmt.Sprintf("returned %s but changed the queue: %+v -> %+v", r, b, a))
				}
			} else {
				if r.K != "item" || r.V != ref[0] {
					cls := "fifo"
					if refClosed && r.K != "item" {
						cls = "close"
					}
					fail(i, o, cls, fmt.Sprintf("returned %s, the oldest queued item is %d (queued %v, closed=%v)", r, ref[0], ref, refClosed))
				}
				if r.K == "item" {
					ref = ref[1:]
					if b.Tracker == "quota" {
						l1 := b.Length - 1
						sq1, cr := b.SoftQuota, b.Credit
						if l1 < b.SoftQuota {
							if b.SoftQuota > 1 && l1 < b.SoftQuota/2 {
								sq1--
							}
							cr += float64(sq1-l1) / float64(sq1)
							if lc := float64(b.HardLimit - sq1); cr > lc {
								cr = lc
							}
						}
						if a.SoftQuota != sq1 || math.Float64bits(a.Credit) != math.Float64bits(cr) {
							fail(i, o, "quota-dynamics", fmt.Sprintf("remove at len %d: softQuota %d -> %d (want %d), credit %v -> %v (want %v)", b.Length, b.SoftQuota, a.SoftQuota, sq1, b.Credit, a.Credit, cr))
						}
					}
				}
			}
		case o.Op == "Len" || o.Op == "DLen":
			if r.K != "len" || int(r.V) != len(ref) {
				fail(i, o, "exact", fmt.Sprintf("returned %s with %d items queued", r, len(ref)))
			}
			if !sameSnap(a, b) {
				fail(i, o, "error-effect", "Len changed the queue")
			}
		case o.Op == "Close":
			refClosed = true
			if r.K != "err" || r.E != "nil" || !a.Closed {
				fail(i, o, "close", fmt.Sprintf("returned %s, closed flag %v", r, a.Closed))
			}
		}
		// state oracles after every step
		if l != len(ref) || a.Length != len(ref) || a.Items != len(ref) {
			fail(i, o, "len-exact", fmt.Sprintf("Len()=%d tracker.length=%d linked entries=%d, queued %d", l, a.Length, a.Items, len(ref)))
		}
		if a.Tracker != "nolimit" && l > a.HardLimit {
			fail(i, o, "len-bound", fmt.Sprintf("Len()=%d exceeds the hard limit %d", l, a.HardLimit))
		}
		if a.Tracker == "quota" && !(0 <= a.Length && a.Length <= a.SoftQuota && a.SoftQuota <= a.HardLimit && a.SoftQuota >= 1) {
			fail(i, o, "len-bound", fmt.Sprintf("tracker invariant 0 <= length <= softQuota <= hardLimit broken: %+v", a))
		}
		if !a.BackIsLast || a.Cyclic {
			fail(i, o, "structure", fmt.Sprintf("back is not the last linked entry / list cyclic: %+v", a))
		}
		if a.Closed != refClosed {
			fail(i, o, "close", fmt.Sprintf("closed flag %v, want %v", a.Closed, refClosed))
		}
		if got := items(q); !eqItems(got, ref) {
			fail(i, o, "fifo", fmt.Sprintf("linked items %v, reference FIFO %v", got, ref))
		}
	}
	if panicked {
		return obs, nil, true
	}
	return obs, items(q), true
}

// snapshot / items never let a corrupted queue crash the driver
func snapshot(q *pubsub.Queue[int64]) (s pubsub.VerifQueueSnapshot) {
	defer func() {
		if recover() != nil {
			s = pubsub.VerifQueueSnapshot{Tracker: "corrupt", Cyclic: true}
		}
	}()
	return q.VerifSnapshot()
}

func items(q *pubsub.Queue[int64]) (out []int64) {
	defer func() {
		if recover() != nil {
			out = []int64{-999999}
		}
	}()
	return q.VerifItems()
}

func coqObs(obs []stepObs) string {
	s := make([]string, len(obs))
	for i, o := range obs {
		s[i] = kit.Tuple(o.Res.coq(), kit.ZI(o.Len), kit.ZI(o.Cap))
	}
	return kit.List(s)
}

func coqOps(ops []Op) string {
	s := make([]string, len(ops))
	for i, o := range ops {
		s[i] = o.coq()
	}
	return kit.List(s)
}

func execSeq(run *kit.Run, c Case, verbose bool) {
	obs, final, ok := runSeq(run, c, verbose)
	if !ok {
		return
	}
	if verbose {
		fmt.Printf("final items %v\n", final)
	}
	nontriv := false
	added := false
	hist := map[string]int{}
	for i, o := range c.Ops {
		if i >= len(obs) {
			break
		}
		r := obs[i].Res
		if isAdd(o) && r.E == "nil" {
			added = true
		}
		if isTake(o) && r.K == "item" && added {
			nontriv = true
		}
		hist["seq/op/"+o.Op]++
		hist["seq/res/"+strings.SplitN(r.String(), "(", 2)[0]]++
	}
	for k, v := range hist {
		run.Dist[k] += v
	}
	run.Count("seq/cfg/" + c.Cfg.Kind)
	run.Count("seq/len" + bucket(len(c.Ops)))
	term := ""
	if len(obs) == len(c.Ops) { // a panic truncates the run: the oracle already failed
		term = fmt.Sprintf("CSeq %s %s %s %s %s", kit.ZI(c.ID), c.Cfg.coq(), coqOps(c.Ops), coqObs(obs), kit.ZList(final))
	}
	run.Case(c.ID, c, term, fmt.Sprintf("s|%v|%v", c.Cfg, c.Ops), nontriv)
}

func execNew(run *kit.Run, c Case, verbose bool) {
	q, err := newQueue(c.Cfg)
	if verbose {
		fmt.Printf("NewQueue(%+v) error = %v\n", c.Cfg, err)
	}
	// direct oracle: the documented rule
	bc := parseF(c.Cfg.BC)
	want := c.Cfg.HL > 0 && c.Cfg.HL >= c.Cfg.SQ && !(bc < 0)
	if (err == nil) != want {
		run.OracleFail(c.ID, "C05:NewQueue:options", fmt.Sprintf("NewQueue(%+v) error=%v, documented rule accepts=%v", c.Cfg, err, want), c, err == nil)
	}
	run.Count(fmt.Sprintf("new/accepted=%v", err == nil))
	sqObs, hlObs := 0, 0
	var lt []bool
	if err == nil {
		sn := snapshot(q)
		sqObs, hlObs = sn.SoftQuota, sn.HardLimit
		// decisions on the initial credit, never the float itself
		for k := 1; k <= c.Cfg.HL+3; k++ {
			lt = append(lt, sn.Credit < float64(k))
		}
		// direct oracle: the documented defaults (SoftQuota <= 0 => HardLimit; BurstCredit == 0 =>
		// float(SoftQuota after defaulting)), recomputed here and compared inside Go
		wsq := c.Cfg.SQ
		if wsq <= 0 {
			wsq = c.Cfg.HL
		}
		wbc := bc
		if wbc == 0 {
			wbc = float64(wsq)
		}
		same := sn.Credit == wbc || (math.IsNaN(sn.Credit) && math.IsNaN(wbc))
		if sn.Tracker != "quota" || sn.SoftQuota != wsq || sn.HardLimit != c.Cfg.HL || !same || sn.Length != 0 {
			run.OracleFail(c.ID, "C05:Validate:defaults", fmt.Sprintf("NewQueue(%+v) built tracker softQuota=%d hardLimit=%d credit=%v; the documented defaults give softQuota=%d hardLimit=%d credit=%v", c.Cfg, sn.SoftQuota, sn.HardLimit, sn.Credit, wsq, c.Cfg.HL, wbc), c, sn)
		}
		if c.Cfg.SQ <= 0 || bc == 0 {
			run.Count("new/defaulted-fields")
		}
		if verbose {
			fmt.Printf("  tracker: softQuota=%d hardLimit=%d credit=%v\n", sn.SoftQuota, sn.HardLimit, sn.Credit)
		}
	}
	term := fmt.Sprintf("CNew %s %s %s %s %s %s %s %s", kit.ZI(c.ID), kit.ZI(c.Cfg.HL), kit.ZI(c.Cfg.SQ), coqF(c.Cfg.BC), kit.Bool(err == nil), kit.ZI(sqObs), kit.ZI(hlObs), kit.BoolList(lt))
	run.Case(c.ID, c, term, fmt.Sprintf("n|%v", c.Cfg), err == nil && (c.Cfg.SQ <= 0 || bc == 0))
}

// ---------------------------------------------------------------- concurrent histories

func runHist(c *Case) {
	q, err := newQueue(c.Cfg)
	if err != nil {
		panic(err)
	}
	d := q.Distributor()
	var clock atomic.Int64
	var mu sync.Mutex
	var hist []HEntry
	record := func(t int, o Op, r Res, inv, ret int64) {
		mu.Lock()
		hist = append(hist, HEntry{T: t, Op: o, Res: r, Inv: int(inv), Ret: int(ret)})
		mu.Unlock()
	}
	do := func(t int, o Op) Res {
		ctx := context.Background()
		cancel := func() {}
		if o.Op == "BlockingAdd" || o.Op == "Wait" || o.Op == "Receive" || o.Op == "Send" {
			ctx, cancel = context.WithTimeout(ctx, time.Duration(o.TO)*time.Millisecond)
		}
		inv := clock.Add(1)
		spin(o.S1) // widen the recorded interval: the operation still lies inside [inv, ret]
		r := apply(q, d, ctx, o)
		spin(o.S2)
		ret := clock.Add(1)
		cancel()
		record(t, o, r, inv, ret)
		return r
	}
	for _, o := range c.Prefix {
		do(0, o)
	}
	var wg sync.WaitGroup
	start := make(chan struct{})
	for t, ops := range c.Threads {
		wg.Add(1)
		go func(t int, ops []Op) {
			defer wg.Done()
			<-start
			for i, o := range ops {
				do(t+1, o)
				if (i+t)%3 == 0 {
					runtime.Gosched()
				}
			}
		}(t, ops)
	}
	close(start)
	wg.Wait()
	// sequential drain: what is left comes out in order, then the queue is empty
	for i := 0; i < 64; i++ {
		if r := do(0, Op{Op: "Remove"}); r.K != "item" {
			break
		}
	}
	do(0, Op{Op: "Len"})
	c.Hist = hist
}

func overlapping(h []HEntry) int {
	n := 0
	for i := range h {
		for j := i + 1; j < len(h); j++ {
			if h[i].T != h[j].T && h[i].Inv < h[j].Ret && h[j].Inv < h[i].Ret {
				n++
			}
		}
	}
	return n
}

func checkHist(run *kit.Run, c Case, verbose bool) {
	order, ok := linearize(c.Cfg, c.Hist)
	c.Order = order
	if verbose {
		for i, e := range c.Hist {
			fmt.Printf("%2d t%d [%3d,%3d] %-12s %-4d -> %s\n", i, e.T, e.Inv, e.Ret, e.Op.Op, e.Op.V, e.Res)
		}
		fmt.Printf("linearizable=%v order=%v\n", ok, order)
	}
	for _, e := range c.Hist {
		if e.Res.K == "panic" {
			run.OracleFail(c.ID, "C05:"+methodOf(e.Op)+":panic", "panicked in a concurrent history: "+e.Res.E, c, c.Hist)
			ok = true // already reported with the sharper signature
			break
		}
	}
	if !ok {
		run.OracleFail(c.ID, "C05:Queue:non-linearizable", "no sequential order of the recorded operations is a legal FIFO-with-tracker execution consistent with real-time order", c, c.Hist)
	}
	ov := overlapping(c.Hist)
	run.Count("hist/threads=" + strconv.Itoa(len(c.Threads)))
	run.Count("hist/overlapping-pairs" + bucket(ov))
	run.Count("hist/cfg/" + c.Cfg.Kind)
	for _, e := range c.Hist {
		if e.T != 0 {
			run.Count("hist/op/" + e.Op.Op)
			run.Count("hist/res/" + strings.SplitN(e.Res.String(), "(", 2)[0])
		}
	}
	term := ""
	if order != nil {
		hs := make([]string, len(c.Hist))
		for i, e := range c.Hist {
			hs[i] = fmt.Sprintf("mkHop (%s) (%s) %s %s", e.Op.coq(), e.Res.coq(), kit.ZI(e.Inv), kit.ZI(e.Ret))
		}
		os := make([]string, len(order))
		for i, x := range order {
			os[i] = kit.Nat(x) + "%nat"
		}
		term = fmt.Sprintf("CHist %s %s %s %s", kit.ZI(c.ID), c.Cfg.coq(), kit.List(hs), kit.List(os))
	}
	// distinctness of a history: its recorded content
	run.Case(c.ID, c, term, fmt.Sprintf("h|%v|%v", c.Cfg, c.Hist), ov > 0)
}

// ---------------------------------------------------------------- generators

func genCfg(r *kit.Rand, small bool) Cfg {
	k := r.Intn(20)
	switch {
	case k < 3:
		return Cfg{Kind: "unlimited"}
	case k < 5:
		return Cfg{Kind: "hard", Cap: r.Intn(5)}
	}
	hl := r.Range(1, 6)
	if !small && r.Chance(1, 6) {
		hl = r.Range(7, 24)
	}
	sq := 0 // "hard limit only": soft quota defaults to the hard limit
	if r.Chance(3, 4) {
		sq = r.Range(1, hl)
	}
	if r.Chance(1, 30) {
		sq = -r.Intn(3)
	}
	var bc float64
	if r.Chance(1, 3) && hl >= 2 { // room above the soft quota and little credit: the no-credit rule matters
		sq = r.Range(1, hl-1)
		c := Cfg{Kind: "quota", HL: hl, SQ: sq, BC: fmtF([]float64{0.5, 0.25, 1, 1.5, 2, 0.75, 1.25, 1e-9}[r.Intn(8)])}
		return c
	}
	switch r.Intn(12) {
	case 0, 1: // default: the soft quota
		bc = 0
	case 2:
		bc = 0.5
	case 3:
		bc = 1
	case 4:
		bc = float64(r.Range(1, 8)) / 4
	case 5:
		bc = float64(r.Range(1, 30)) / 10
	case 6:
		bc = float64(r.Range(2, 2*hl+2))
	case 7:
		bc = 1e-9
	case 8:
		bc = 0.9999999999999999
	case 9:
		bc = math.Inf(1)
		switch r.Intn(4) {
		case 0, 1:
			bc = 1.0000000000000002
		case 2:
			bc = math.NaN() // accepted by Validate (NaN < 0 is false); every comparison with it is false
		}
	case 10:
		bc = float64(r.Range(0, 1000)) / 333
	default:
		bc = float64(r.Range(0, 3))
	}
	c := Cfg{Kind: "quota", HL: hl, SQ: sq}
	if bc != 0 {
		c.BC = fmtF(bc)
	}
	return c
}

func genSeqOps(r *kit.Rand, cfg Cfg) []Op {
	n := r.Range(0, 40)
	if r.Chance(1, 10) {
		n = r.Range(40, 90)
	}
	span := int64(r.Range(2, 10))
	next := int64(100)
	val := func() int64 {
		if r.Chance(1, 3) {
			next++
			return next
		}
		return int64(r.Intn(int(span)))
	}
	var ops []Op
	mode := r.Intn(3) // 0 fill-biased, 1 drain-biased, 2 balanced
	closedAt := -1
	if r.Chance(1, 4) {
		closedAt = r.Intn(n + 1)
	}
	for i := 0; i < n; i++ {
		if r.Chance(1, 9) {
			mode = r.Intn(3)
		}
		if i == closedAt {
			ops = append(ops, Op{Op: "Close"})
			continue
		}
		addW := []int{60, 25, 42}[mode]
		k := r.Intn(100)
		switch {
		case k < addW:
			switch r.Intn(6) {
			case 0, 1:
				ops = append(ops, Op{Op: "BlockingAdd", V: val()})
			case 2:
				ops = append(ops, Op{Op: "Send", V: val()})
			default:
				ops = append(ops, Op{Op: "Add", V: val()})
			}
		case k < 92:
			switch r.Intn(6) {
			case 0, 1:
				ops = append(ops, Op{Op: "Wait"})
			case 2:
				ops = append(ops, Op{Op: "Receive"})
			default:
				ops = append(ops, Op{Op: "Remove"})
			}
		case k < 96:
			ops = append(ops, Op{Op: "Len"})
		case k < 99 || r.Chance(1, 2):
			ops = append(ops, Op{Op: "DLen"})
		default:
			ops = append(ops, Op{Op: "Close"})
		}
	}
	// drain: everything still queued must come out in order, then not-ok.  The number of queued
	// items is predicted with the mirror (generation only; nothing is judged with it here).
	if r.Chance(4, 5) {
		m := mInit(cfg)
		for _, o := range ops {
			if n, _, blocked := m.step(o); !blocked {
				m = n
			}
		}
		for i := 0; i <= m.length && i < 40; i++ {
			ops = append(ops, Op{Op: "Remove"})
		}
		ops = append(ops, Op{Op: "Wait"}, Op{Op: "Len"})
	}
	return ops
}

func genHist(r *kit.Rand, id int) Case {
	c := Case{ID: id, Kind: "hist", Cfg: genCfg(r, true)}
	if c.Cfg.Kind == "quota" && c.Cfg.HL > 4 {
		c.Cfg.HL = r.Range(1, 4)
		if c.Cfg.SQ > c.Cfg.HL {
			c.Cfg.SQ = r.Range(1, c.Cfg.HL)
		}
	}
	k := r.Range(2, 6)
	budget := 12
	npre := r.Intn(3)
	next := int64(10)
	to := func() int {
		switch r.Intn(10) {
		case 0:
			return 60
		case 1, 2:
			return 15
		case 3, 4, 5:
			return 5
		}
		return 1
	}
	mk := func(prod int) Op {
		x := r.Intn(100)
		switch {
		case x < prod:
			next++
			switch r.Intn(5) {
			case 0, 1:
				return Op{Op: "BlockingAdd", V: next, TO: to()}
			case 2:
				return Op{Op: "Send", V: next, TO: to()}
			}
			return Op{Op: "Add", V: next}
		case x < 90:
			switch r.Intn(5) {
			case 0, 1:
				return Op{Op: "Wait", TO: to()}
			case 2:
				return Op{Op: "Receive", TO: to()}
			}
			return Op{Op: "Remove"}
		case x < 94:
			return Op{Op: "Len"}
		case x < 97:
			return Op{Op: "DLen"}
		}
		return Op{Op: "Close"}
	}
	if r.Chance(1, 5) {
		// producers with a LIVE context competing for one or two slots, one consumer taking
		// everything: the stamped miniature of the contention stream (<= 12 ops)
		if r.Bool() {
			c.Cfg = Cfg{Kind: "quota", HL: r.Range(1, 2)}
		} else {
			c.Cfg = Cfg{Kind: "hard", Cap: 1}
		}
		p := r.Range(2, 5)
		per := 1
		if p <= 3 {
			per = r.Range(1, 2)
		}
		c.Threads = make([][]Op, p+1)
		for t := 0; t < p; t++ {
			for j := 0; j < per; j++ {
				next++
				c.Threads[t] = append(c.Threads[t], Op{Op: "BlockingAdd", V: next, TO: 2000})
			}
		}
		for j := 0; j < p*per; j++ {
			c.Threads[p] = append(c.Threads[p], Op{Op: []string{"Wait", "Receive"}[r.Intn(2)], TO: 500})
		}
		return c
	}
	if r.Chance(1, 4) {
		// contention shape: all goroutines hit the same boundary at once (k takers on 1-2 queued
		// items, or k adders on a nearly full queue), released together, no widening of intervals
		takers := r.Bool()
		n := r.Range(1, 2)
		if !takers && c.Cfg.Kind == "quota" && c.Cfg.HL > 2 {
			c.Cfg.HL, c.Cfg.SQ = 2, r.Range(1, 2)
		}
		if takers {
			for i := 0; i < n; i++ {
				next++
				c.Prefix = append(c.Prefix, Op{Op: "Add", V: next})
			}
		}
		c.Threads = make([][]Op, k)
		for t := 0; t < k; t++ {
			for j := 0; j < 2; j++ {
				switch {
				case takers && r.Chance(3, 4):
					c.Threads[t] = append(c.Threads[t], Op{Op: "Remove"})
				case takers:
					c.Threads[t] = append(c.Threads[t], Op{Op: []string{"Wait", "Receive"}[r.Intn(2)], TO: 1})
				default:
					next++
					c.Threads[t] = append(c.Threads[t], Op{Op: []string{"Add", "Add", "Send", "BlockingAdd"}[r.Intn(4)], V: next, TO: 1})
				}
			}
		}
		return c
	}
	for i := 0; i < npre; i++ {
		c.Prefix = append(c.Prefix, mk(80))
	}
	c.Threads = make([][]Op, k)
	for i := 0; i < budget; i++ {
		t := i % k
		if i >= k && r.Chance(1, 4) {
			continue
		}
		prod := 50
		if r.Chance(1, 2) { // producer-ish and consumer-ish goroutines
			prod = []int{85, 15}[t%2]
		}
		o := mk(prod)
		if r.Chance(2, 3) {
			o.S1 = r.Intn(400)
			o.S2 = r.Intn(400)
		}
		c.Threads[t] = append(c.Threads[t], o)
	}
	return c
}

func bucket(n int) string {
	switch {
	case n == 0:
		return "=0"
	case n <= 4:
		return "1-4"
	case n <= 12:
		return "5-12"
	case n <= 40:
		return "13-40"
	default:
		return ">40"
	}
}

// ---------------------------------------------------------------- main

func execCase(run *kit.Run, c Case, verbose bool) {
	switch c.Kind {
	case "new":
		execNew(run, c, verbose)
	case "seq":
		execSeq(run, c, verbose)
	case "hist":
		if len(c.Hist) == 0 {
			runHist(&c)
		}
		checkHist(run, c, verbose)
	case "stress":
		runContention(run, c, verbose)
	case "wake":
		runWake(run, c, verbose)
	}
}

func main() {
	run := kit.Start()
	run.Header = "From Coq Require Import List ZArith PrimFloat.\nFrom FunV Require Import Model.QueueHeap Corr.C05_corr.\nImport ListNotations."
	run.Footer = "Definition M := Eval vm_compute in mismatches cases.\nPrint M."
	run.CaseType = "case"
	run.Rule = "new: QueueOptions incl. malformed ones; seq: random op sequences (Add/BlockingAdd/Send/Remove/Wait/Receive/Len/DLen/Close, blocking ops with a cancelled context) over unlimited, hard-limit-tracker and quota (hard limit, soft quota, burst credit incl. fractional, sub-1, +Inf) configurations, followed by a drain; hist: 2-6 goroutines, <= 12 concurrent ops + optional prefix + sequential drain, stamped from one atomic counter; stress: contention scenarios (HardLimit 1-2 / capacity 1-2 / soft quota 1 below the hard limit; 2-8 producers looping BlockingAdd with a live context, 1-2 consumers looping Remove/Wait; thousands of calls, direct oracle on every return). distinct = distinct (cfg, ops) resp. distinct recorded history; non-trivial = a successful take after a successful add (seq) / at least one pair of overlapping operations of different goroutines (hist)"

	if run.Replay != "" {
		var c Case
		if err := kit.ReadReplayCase(run.Replay, &c); err != nil {
			panic(err)
		}
		if c.Kind == "stress" {
			for i := 0; i < 20 && run.NOracle == 0; i++ {
				execCase(run, c, true)
			}
		} else if c.Kind == "hist" && len(c.Hist) > 0 {
			fmt.Println("re-checking the recorded history (a concurrent schedule cannot be re-executed deterministically):")
			checkHist(run, c, true)
			// and try to reproduce it live
			for i := 0; i < 200 && run.NOracle == 0; i++ {
				cc := c
				cc.Hist = nil
				runHist(&cc)
				checkHist(run, cc, false)
			}
		} else {
			execCase(run, c, true)
		}
		run.Finish()
		return
	}

	id := 0
	bcHalf := fmtF(0.5)
	corpus := []Case{
		// DESIGN modelling note: BlockingAdd blocks where Add is admitted on burst credit
		{Kind: "seq", Cfg: Cfg{Kind: "quota", HL: 2}, Ops: []Op{{Op: "Add", V: 1}, {Op: "Add", V: 2}, {Op: "Remove"}, {Op: "Remove"}, {Op: "Add", V: 3}, {Op: "BlockingAdd", V: 4}, {Op: "Add", V: 5}, {Op: "Remove"}, {Op: "Remove"}, {Op: "Remove"}}},
		// credit below one: no-credit, then full at the hard limit
		{Kind: "seq", Cfg: Cfg{Kind: "quota", HL: 3, SQ: 1, BC: bcHalf}, Ops: []Op{{Op: "Add", V: 1}, {Op: "Add", V: 2}, {Op: "Remove"}, {Op: "Add", V: 3}, {Op: "Add", V: 4}, {Op: "Add", V: 5}, {Op: "Add", V: 6}, {Op: "Len"}}},
		// emptying resets back; close keeps items removable; Wait on closed+empty
		{Kind: "seq", Cfg: Cfg{Kind: "unlimited"}, Ops: []Op{{Op: "Add", V: 1}, {Op: "Remove"}, {Op: "Add", V: 2}, {Op: "Add", V: 3}, {Op: "Close"}, {Op: "Add", V: 4}, {Op: "BlockingAdd", V: 5}, {Op: "Send", V: 6}, {Op: "Wait"}, {Op: "Receive"}, {Op: "Wait"}, {Op: "Receive"}, {Op: "Remove"}, {Op: "DLen"}}},
		{Kind: "seq", Cfg: Cfg{Kind: "hard", Cap: 2}, Ops: []Op{{Op: "Add", V: 1}, {Op: "Add", V: 2}, {Op: "Add", V: 3}, {Op: "BlockingAdd", V: 4}, {Op: "Remove"}, {Op: "BlockingAdd", V: 5}, {Op: "Wait"}, {Op: "Wait"}, {Op: "Wait"}}},
		{Kind: "seq", Cfg: Cfg{Kind: "hard", Cap: 0}, Ops: []Op{{Op: "Add", V: 1}, {Op: "BlockingAdd", V: 2}, {Op: "Remove"}}},
		// only HardLimit set: Add x3, Remove (quota shrinks to 9, credit refund fractional, capped at 1), refill, one more on credit
		{Kind: "seq", Cfg: Cfg{Kind: "quota", HL: 10}, Ops: []Op{{Op: "Add", V: 1}, {Op: "Add", V: 2}, {Op: "Add", V: 3}, {Op: "Remove"}, {Op: "Add", V: 4}, {Op: "Add", V: 5}, {Op: "Add", V: 6}, {Op: "Add", V: 7}, {Op: "Add", V: 8}, {Op: "Add", V: 9}, {Op: "Add", V: 10}, {Op: "Add", V: 11}, {Op: "Add", V: 12}, {Op: "Len"}}},
		{Kind: "new", Cfg: Cfg{Kind: "quota", HL: 10}},
		{Kind: "new", Cfg: Cfg{Kind: "quota", HL: 4, SQ: -1}},
		{Kind: "new", Cfg: Cfg{Kind: "quota", HL: 0}},
		{Kind: "new", Cfg: Cfg{Kind: "quota", HL: 2, SQ: 3}},
		{Kind: "new", Cfg: Cfg{Kind: "quota", HL: 2, SQ: 2, BC: fmtF(-1)}},
		{Kind: "new", Cfg: Cfg{Kind: "quota", HL: 2, SQ: -1, BC: "NaN"}},
	}
	for _, c := range corpus {
		c.ID = id
		id++
		execCase(run, c, false)
	}

	nNew := run.Pick(150, 3000)
	for i := 0; i < nNew; i++ {
		r := run.Rand.Fork()
		c := Case{ID: id, Kind: "new", Cfg: Cfg{Kind: "quota", HL: r.Range(-2, 6), SQ: r.Range(-2, 8)}}
		id++
		if r.Chance(1, 3) { // defaults-only / partially defaulted shapes of valid options
			c.Cfg.HL = r.Range(1, 12)
			c.Cfg.SQ = []int{0, 0, -1, -3, c.Cfg.HL, r.Range(1, c.Cfg.HL)}[r.Intn(6)]
			if r.Chance(2, 3) {
				execCase(run, c, false) // BurstCredit left at zero
				continue
			}
		}
		switch r.Intn(9) {
		case 0:
			c.Cfg.BC = fmtF(-1)
		case 1:
			c.Cfg.BC = fmtF(math.Copysign(0, -1))
		case 2:
			c.Cfg.BC = "NaN"
		case 3:
			c.Cfg.BC = "+Inf"
		case 4:
			c.Cfg.BC = "-Inf"
		case 5:
			c.Cfg.BC = fmtF(-1e-300)
		case 6:
			c.Cfg.BC = fmtF(float64(r.Range(1, 9)) / 2)
		}
		execCase(run, c, false)
	}

	nSeq := run.Pick(2500, 60000)
	for i := 0; i < nSeq; i++ {
		r := run.Rand.Fork()
		cfg := genCfg(r, false)
		c := Case{ID: id, Kind: "seq", Cfg: cfg, Ops: genSeqOps(r, cfg)}
		id++
		execCase(run, c, false)
	}

	// defaults-only options {HardLimit: h}: burst-credit admission depends on Validate's defaults
	nDef := run.Pick(300, 6000)
	for i := 0; i < nDef; i++ {
		r := run.Rand.Fork()
		c := genDefaultsCase(r, id)
		id++
		execCase(run, c, false)
	}

	nHist := run.Pick(400, 8000)
	for i := 0; i < nHist; i++ {
		r := run.Rand.Fork()
		c := genHist(r, id)
		id++
		execCase(run, c, false)
	}

	// contention scenarios: direct oracle on every return, a few thousand calls each
	nStress := run.Pick(12, 80)
	for i := 0; i < nStress; i++ {
		r := run.Rand.Fork()
		c := genContention(r, id, run.Pick(4000, 16000))
		id++
		execCase(run, c, false)
	}
	// parked consumers must all be served (stops at the first failure: a stuck run costs 10 s)
	nWake := run.Pick(40, 400)
	for i := 0; i < nWake && run.NOracle == 0; i++ {
		r := run.Rand.Fork()
		c := Case{ID: id, Kind: "wake", Cfg: Cfg{Kind: "unlimited"}, C: r.Range(2, 4), N: r.Intn(2)}
		id++
		execCase(run, c, false)
	}
	run.Finish()
}
