// Contention stream of the C05 driver.
//
// Small bounded queues, P producers looping BlockingAdd with a LIVE long-deadline
// context, C consumers looping Remove/Wait, a few thousand operations per scenario
// with real parallelism.  No history search: a direct oracle is evaluated on every
// return.  In the sequential specification BlockingAdd blocks while cap() <= len()
// and adds when cap() > len(), so on an open queue with a live context its only
// legal result is nil; ErrQueueFull / ErrQueueNoCredit means that "saw room" and
// "inserted" were not one atomic step.
package main

import (
	"context"
	"fmt"
	"runtime"
	"sync"
	"sync/atomic"
	"time"

	"github.com/tychoish/fun/pubsub"

	"verif/harness/kit"
)

type prodLog struct {
	added   []int64        // sequence numbers accepted, in call order
	errs    map[string]int // error kind -> count (non-nil results)
	first   string         // first non-nil, non-ctx result
	maxSeen int            // largest Len() observed after an add
}

type consLog struct {
	got     []int64
	maxSeen int
	ctxEnd  bool // left because its context ended (then "lost" cannot be judged)
	other   string
}

func hardLimitOf(c Cfg) int {
	switch c.Kind {
	case "quota":
		return c.HL
	case "hard":
		return c.Cap
	}
	return 0
}

func runContention(run *kit.Run, c Case, verbose bool) {
	if runtime.GOMAXPROCS(0) < 16 {
		runtime.GOMAXPROCS(16)
	}
	q, err := newQueue(c.Cfg)
	if err != nil {
		panic(err)
	}
	d := q.Distributor()
	// the context stays live for the whole scenario (it is cancelled only at the end)
	ctx, cancel := context.WithTimeout(context.Background(), 120*time.Second)
	defer cancel()

	prods := make([]prodLog, c.P)
	cons := make([]consLog, c.C)
	var closed atomic.Bool
	var pwg, cwg sync.WaitGroup
	start := make(chan struct{})

	for p := 0; p < c.P; p++ {
		pwg.Add(1)
		go func(p int) {
			defer pwg.Done()
			lg := &prods[p]
			lg.errs = map[string]int{}
			<-start
			for i := 0; i < c.N; i++ {
				v := int64(p)<<32 | int64(i)
				wasClosed := closed.Load()
				r := apply(q, d, ctx, Op{Op: "BlockingAdd", V: v})
				k := r.E
				if r.K == "panic" {
					k = "panic"
				}
				if k == "nil" {
					lg.added = append(lg.added, int64(i))
					if l := q.Len(); l > lg.maxSeen {
						lg.maxSeen = l
					}
					continue
				}
				lg.errs[k]++
				if k != "ctx" && lg.first == "" {
					lg.first = fmt.Sprintf("producer %d call %d returned %s (queue closed by the driver: %v, ctx error: %v)", p, i, r, wasClosed, ctx.Err())
				}
			}
		}(p)
	}
	for k := 0; k < c.C; k++ {
		cwg.Add(1)
		go func(k int) {
			defer cwg.Done()
			lg := &cons[k]
			<-start
			for i := 0; ; i++ {
				var r Res
				if (i+k)%2 == 0 {
					r = apply(q, d, ctx, Op{Op: "Remove"})
					if r.K == "notok" {
						r = apply(q, d, ctx, Op{Op: "Wait"})
					}
				} else {
					r = apply(q, d, ctx, Op{Op: "Wait"})
				}
				switch {
				case r.K == "item":
					lg.got = append(lg.got, r.V)
					if l := q.Len(); l > lg.maxSeen {
						lg.maxSeen = l
					}
				case r.K == "err" && r.E == "closed":
					return
				case r.K == "err" && r.E == "ctx":
					lg.ctxEnd = true
					return
				default:
					lg.other = r.String() + " " + r.E
					return
				}
			}
		}(k)
	}
	close(start)
	pwg.Wait()
	closed.Store(true)
	q.Close() // only now: every BlockingAdd above ran on an open queue
	cwg.Wait()
	judgeContention(run, c, prods, cons, verbose)
}

func judgeContention(run *kit.Run, c Case, prods []prodLog, cons []consLog, verbose bool) {
	hl := hardLimitOf(c.Cfg)
	calls, ctxRes := 0, 0
	fail := func(sig, detail string) {
		run.OracleFail(c.ID, sig, detail, c, nil)
	}
	// (1) BlockingAdd on an open queue with a live context returns only nil
	added := map[int64]bool{}
	for p := range prods {
		lg := &prods[p]
		calls += c.N
		ctxRes += lg.errs["ctx"]
		n := lg.errs["full"] + lg.errs["nocredit"]
		if n > 0 {
			fail("C05:Queue.BlockingAdd:spurious-full", fmt.Sprintf("%d of %d BlockingAdd calls of producer %d failed with full/nocredit on an open queue with a live context (%v); first: %s", n, c.N, p, lg.errs, lg.first))
		}
		for k, v := range lg.errs {
			if k != "full" && k != "nocredit" && k != "ctx" && v > 0 {
				fail("C05:Queue.BlockingAdd:spurious-"+classOf(k), fmt.Sprintf("%d BlockingAdd calls of producer %d returned %s on an open queue with a live context; first: %s", v, p, k, lg.first))
			}
		}
		for _, i := range lg.added {
			added[int64(p)<<32|i] = true
		}
		if hl > 0 && lg.maxSeen > hl {
			fail("C05:Queue.Len:len-bound", fmt.Sprintf("Len()=%d observed, hard limit %d", lg.maxSeen, hl))
		}
	}
	// (2) every accepted item comes out exactly once, in per-producer order; nothing else does
	seen := map[int64]bool{}
	judgeLost := true
	for k := range cons {
		lg := &cons[k]
		if lg.other != "" {
			fail("C05:Queue.Wait:unexpected-result", fmt.Sprintf("consumer %d got %s", k, lg.other))
		}
		if lg.ctxEnd {
			judgeLost = false
		}
		last := map[int64]int64{}
		for _, v := range lg.got {
			p, i := v>>32, v&0xffffffff
			if !added[v] {
				fail("C05:Queue:contention-invented", fmt.Sprintf("consumer %d received item (producer %d, #%d) whose BlockingAdd did not succeed", k, p, i))
			}
			if seen[v] {
				fail("C05:Queue:contention-duplicate", fmt.Sprintf("item (producer %d, #%d) delivered twice", p, i))
			}
			seen[v] = true
			if prev, ok := last[p]; ok && prev >= i {
				fail("C05:Queue:contention-order", fmt.Sprintf("consumer %d received #%d of producer %d after #%d", k, i, p, prev))
			}
			last[p] = i
		}
		if hl > 0 && lg.maxSeen > hl {
			fail("C05:Queue.Len:len-bound", fmt.Sprintf("Len()=%d observed, hard limit %d", lg.maxSeen, hl))
		}
	}
	if judgeLost && len(seen) < len(added) {
		fail("C05:Queue:contention-lost", fmt.Sprintf("%d items accepted, only %d delivered before Wait reported the closed empty queue", len(added), len(seen)))
	}
	if verbose {
		fmt.Printf("contention %+v P=%d N=%d C=%d: %d calls, %d accepted, %d delivered, %d ctx results\n", c.Cfg, c.P, c.N, c.C, calls, len(added), len(seen), ctxRes)
		for p := range prods {
			fmt.Printf("  producer %d: accepted %d, errors %v\n", p, len(prods[p].added), prods[p].errs)
		}
	}
	run.Count("stress/scenarios")
	run.Dist["stress/blockingadd-calls"] += calls
	run.Dist["stress/delivered"] += len(seen)
	run.Dist["stress/ctx-results"] += ctxRes
	run.Case(c.ID, c, "", fmt.Sprintf("x|%v|%d|%d|%d", c.Cfg, c.P, c.N, c.C), c.P >= 2)
}

func classOf(k string) string {
	switch k {
	case "closed", "panic":
		return k
	}
	return "error"
}

// genContention draws one scenario: a small bounded queue, 2..8 producers, 1..2 consumers.
func genContention(r *kit.Rand, id int, calls int) Case {
	c := Case{ID: id, Kind: "stress"}
	switch r.Intn(6) {
	case 0, 1:
		c.Cfg = Cfg{Kind: "quota", HL: 1}
	case 2:
		c.Cfg = Cfg{Kind: "quota", HL: 2}
	case 3:
		c.Cfg = Cfg{Kind: "hard", Cap: r.Range(1, 2)}
	case 4: // soft quota below the hard limit, no credit to spend: a late Add gets no-credit
		c.Cfg = Cfg{Kind: "quota", HL: r.Range(2, 3), SQ: 1, BC: fmtF(0.5)}
	default: // ... with credit: a late Add is silently admitted above the quota BlockingAdd waited for
		c.Cfg = Cfg{Kind: "quota", HL: 2, SQ: 1, BC: fmtF(1.5)}
	}
	c.P = r.Range(2, 8)
	c.C = r.Range(1, 2)
	c.N = calls / c.P
	return c
}

// ---------------------------------------------------------------- parked consumers must all be served
//
// C consumers park in Wait / Receive on an empty queue (the "before-cond-wait" yield point tells
// the driver that each of them is about to park; the Adds below cannot get the mutex before the
// last one has parked), then ONE goroutine adds C items.  Every consumer must return an item
// within 10 s of the last Add: doAdd signals nempty only on the 0 -> 1 transition, the remaining
// consumers rely on being woken by the returning one.  Deterministic on the unchanged tree;
// a consumer still blocked after that grace period although an item is queued for it is
// C05:Queue.Wait:stuck.
func runWake(run *kit.Run, c Case, verbose bool) {
	q, err := newQueue(c.Cfg)
	if err != nil {
		panic(err)
	}
	d := q.Distributor()
	var parked atomic.Int32
	pubsub.SetVerifYieldHook(func(name string) {
		if name == "pubsub.wait.before-cond-wait" {
			parked.Add(1)
		}
	})
	defer pubsub.SetVerifYieldHook(nil)

	// no deadline on the consumers' context: the driver decides "stuck" after a 10 s grace period
	// and only then cancels (a consumer released by its own deadline would still find the item)
	ctx, cancel := context.WithCancel(context.Background())
	defer cancel()
	res := make([]Res, c.C)
	var returned atomic.Int32
	var wg sync.WaitGroup
	for k := 0; k < c.C; k++ {
		wg.Add(1)
		go func(k int) {
			defer wg.Done()
			op := "Wait"
			if k%2 == 1 && c.N%2 == 1 {
				op = "Receive"
			}
			res[k] = apply(q, d, ctx, Op{Op: op})
			returned.Add(1)
		}(k)
	}
	deadline := time.Now().Add(10 * time.Second)
	for int(parked.Load()) < c.C && time.Now().Before(deadline) {
		time.Sleep(200 * time.Microsecond)
	}
	allParked := int(parked.Load()) >= c.C
	addRes := make([]Res, c.C)
	for i := 0; i < c.C; i++ {
		addRes[i] = apply(q, d, ctx, Op{Op: "Add", V: int64(100 + i)})
	}
	grace := time.Now().Add(10 * time.Second)
	for int(returned.Load()) < c.C && time.Now().Before(grace) {
		time.Sleep(200 * time.Microsecond)
	}
	stuck := c.C - int(returned.Load()) // still blocked 10 s after the last Add returned
	left := q.Len()
	cancel()
	wg.Wait()

	got := map[int64]bool{}
	for k, r := range res {
		switch {
		case r.K == "item":
			if got[r.V] {
				run.OracleFail(c.ID, "C05:Queue:contention-duplicate", fmt.Sprintf("item %d delivered twice to parked consumers", r.V), c, res)
			}
			got[r.V] = true
		case r.K == "err" && r.E == "ctx":
			// released by the driver's cancel after the grace period (counted in stuck)
		default:
			run.OracleFail(c.ID, "C05:Queue.Wait:unexpected-result", fmt.Sprintf("parked consumer %d returned %s", k, r), c, res)
		}
	}
	for i, r := range addRes {
		if r.K != "err" || r.E != "nil" {
			run.OracleFail(c.ID, "C05:Queue.Add:admission", fmt.Sprintf("Add #%d on an unlimited open queue returned %s", i, r), c, addRes)
		}
	}
	if allParked && stuck > 0 {
		run.OracleFail(c.ID, "C05:Queue.Wait:stuck", fmt.Sprintf("%d of %d consumers parked in Wait/Receive were still blocked 10 s after %d items had been added for them (Len() = %d at that moment)", stuck, c.C, c.C, left), c, res)
	}
	if verbose {
		fmt.Printf("wake C=%d: all parked=%v results=%v left=%d\n", c.C, allParked, res, left)
	}
	run.Count("wake/scenarios")
	if !allParked {
		run.Count("wake/not-all-parked")
	}
	run.Case(c.ID, c, "", fmt.Sprintf("w|%d|%d", c.C, c.N), c.C >= 2)
}
