// Driver for C02: builds random operator trees from the REAL fun.Iterator constructors and
// methods (user functions are Go closures driven by finite tables), consumes them with a
// terminal consumer, records what the implementation did, prints every case with these
// observations as a Coq term (the operational model in coq/Model/IterAlgebra.v is re-run on it
// under vm_compute) and checks the property's direct oracle: a plain-slice functional
// implementation (filter, map, concat, identity, fold, dedupe-first, enumerate, flatten) with
// per-iterator truncation, written here independently of the Coq model.
package main

import (
	"context"
	"encoding/json"
	"errors"
	"fmt"
	"io"
	"os"
	"sort"
	"strings"
	"time"

	"github.com/tychoish/fun"
	"github.com/tychoish/fun/dt"
	"github.com/tychoish/fun/ers"
	"github.com/tychoish/fun/itertool"
	"github.com/tychoish/fun/risky"

	"verif/harness/kit"
)

// ---------------------------------------------------------------- case representation

// Out is one outcome of a user function / generator call: val | skip | err | eof | abort | ctx.
type Out struct {
	K string `json:"k"`
	V int64  `json:"v,omitempty"` // value (val) or error id 1..5 (err)
	W int    `json:"w,omitempty"` // how the error is wrapped: 0 bare, 1 fmt.Errorf %w, 2 ers.Wrap, 3 errors.Join
}

type CallOut struct {
	Call int `json:"call"`
	O    Out `json:"o"`
}
type ValOut struct {
	Val int64 `json:"val"`
	O   Out   `json:"o"`
}

// Fun: outcome by call index first, then by input value, otherwise the value A*x+B.
type Fun struct {
	ByCall []CallOut `json:"by_call,omitempty"`
	ByVal  []ValOut  `json:"by_val,omitempty"`
	A      int64     `json:"a"`
	B      int64     `json:"b"`
}

// Pred: membership in Tbl, optionally negated.
type Pred struct {
	Tbl []int64 `json:"tbl"`
	Neg bool    `json:"neg,omitempty"`
}

// Red: reducer; outcome by call index, otherwise comb(Op, item, acc).
type Red struct {
	ByCall []CallOut `json:"by_call,omitempty"`
	Op     int       `json:"op"`
}

type Tree struct {
	Op   string    `json:"op"`
	L    []int64   `json:"l,omitempty"`
	Tbl  []Out     `json:"tbl,omitempty"`
	Pred *Pred     `json:"pred,omitempty"`
	F    *Fun      `json:"f,omitempty"`
	N    int       `json:"n,omitempty"`   // buffer size / channel variant
	G    int       `json:"g,omitempty"`   // expansion function id
	Ls   [][]int64 `json:"ls,omitempty"`  // MergeSlices
	Nulls []bool   `json:"nulls,omitempty"` // jsonarr: element i of L is the JSON null
	Recs  []*JRec  `json:"recs,omitempty"`  // jsonrecs: nil = the JSON null
	Kids []*Tree   `json:"kids,omitempty"`
}

// JRec is one element of a JSON array of objects with optional fields a and b.
type JRec struct {
	A *int64 `json:"a,omitempty"`
	B *int64 `json:"b,omitempty"`
}

// the element type the array of objects is decoded into
type jrecT struct {
	A int64 `json:"a,omitempty"`
	B int64 `json:"b,omitempty"`
}

func jsonArrBytes(t *Tree) []byte {
	parts := make([]string, len(t.L))
	for i, v := range t.L {
		parts[i] = fmt.Sprint(v)
		if i < len(t.Nulls) && t.Nulls[i] {
			parts[i] = "null"
		}
	}
	sep := ","
	if t.N == 1 {
		sep = " ,\n "
	}
	return []byte("[" + strings.Join(parts, sep) + "]")
}

func jsonRecsBytes(t *Tree) []byte {
	parts := make([]string, len(t.Recs))
	for i, r := range t.Recs {
		switch {
		case r == nil:
			parts[i] = "null"
		default:
			f := []string{}
			if r.B != nil && t.N == 1 { // field order must not matter
				f = append(f, fmt.Sprintf(`"b":%d`, *r.B))
			}
			if r.A != nil {
				f = append(f, fmt.Sprintf(`"a":%d`, *r.A))
			}
			if r.B != nil && t.N != 1 {
				f = append(f, fmt.Sprintf(`"b":%d`, *r.B))
			}
			parts[i] = "{" + strings.Join(f, ",") + "}"
		}
	}
	return []byte("[" + strings.Join(parts, ",") + "]")
}

func dflt(p *int64) int64 {
	if p == nil {
		return 0
	}
	return *p
}

type Case struct {
	ID   int    `json:"id"`
	Tree *Tree  `json:"tree"`
	Term string `json:"term"` // readall | next | count | slice | reduce | contains
	Red  *Red   `json:"red,omitempty"`
	X    int64  `json:"x,omitempty"` // Contains: the item looked for
}

// Obs is what the implementation did.
type Obs struct {
	Vals  []int64  `json:"vals"`
	Fin   string   `json:"fin"`             // eof | abort | ctx | other
	After []string `json:"after,omitempty"` // results of the two reads after the end
	Res   int64    `json:"res"`
	Err   []int    `json:"err,omitempty"`   // ids in the error returned by the terminal
	Close []int    `json:"close,omitempty"` // ids in the error returned by Close()
	Note  string   `json:"note,omitempty"`
}

// ---------------------------------------------------------------- errors

var sentinels = []error{nil, errors.New("e1"), errors.New("e2"), errors.New("e3"), errors.New("e4"), errors.New("e5")}

const (
	idAbort    = 100
	idCtx      = 101
	idEOF      = 102
	idDeadline = 103
	idSkip     = 104
	idUnknown  = 999
)

// errOf builds the error for an outcome. Every kind has wrapped variants: the library classifies
// errors with errors.Is at every site, so a wrapped skip is a skip, a wrapped io.EOF is io.EOF, ...
// (the Coq model therefore has no "wrapped" dimension; a site that compared by identity would show
// as a disagreement).
func errOf(o Out) error {
	var e error
	switch o.K {
	case "skip":
		e = fun.ErrIteratorSkip
	case "err":
		e = sentinels[o.V]
	case "eof":
		e = io.EOF
	case "abort":
		e = ers.ErrCurrentOpAbort
	case "ctx":
		e = context.Canceled
	default:
		return nil
	}
	switch o.W {
	case 1:
		return fmt.Errorf("wrapped: %w", e)
	case 2:
		return ers.Wrap(e, "annotated")
	case 3:
		return errors.Join(e, nil)
	}
	return e
}

func errIDs(err error) []int {
	if err == nil {
		return nil
	}
	var out []int
	for i := 1; i < len(sentinels); i++ {
		if errors.Is(err, sentinels[i]) {
			out = append(out, i)
		}
	}
	for _, p := range []struct {
		e  error
		id int
	}{{ers.ErrCurrentOpAbort, idAbort}, {context.Canceled, idCtx}, {io.EOF, idEOF}, {context.DeadlineExceeded, idDeadline}, {fun.ErrIteratorSkip, idSkip}} {
		if errors.Is(err, p.e) {
			out = append(out, p.id)
		}
	}
	if len(out) == 0 {
		out = append(out, idUnknown)
	}
	sort.Ints(out)
	return out
}

func kindOf(err error) string {
	switch {
	case err == nil:
		return "nil"
	case errors.Is(err, io.EOF):
		return "eof"
	case errors.Is(err, ers.ErrCurrentOpAbort):
		return "abort"
	case errors.Is(err, context.Canceled):
		return "ctx"
	}
	return "other"
}

// ---------------------------------------------------------------- user functions from tables

func (f *Fun) lookup(call int, x int64) Out {
	for _, c := range f.ByCall {
		if c.Call == call {
			return c.O
		}
	}
	for _, v := range f.ByVal {
		if v.Val == x {
			return v.O
		}
	}
	return Out{K: "val", V: f.A*x + f.B}
}

func (f *Fun) closure() fun.Transform[int64, int64] {
	calls := 0
	return func(_ context.Context, x int64) (int64, error) {
		o := f.lookup(calls, x)
		calls++
		if o.K == "val" {
			return o.V, nil
		}
		return 0, errOf(o)
	}
}

func (p *Pred) test(x int64) bool {
	in := false
	for _, v := range p.Tbl {
		if v == x {
			in = true
		}
	}
	return in != p.Neg
}

func comb(op int, item, acc int64) int64 {
	switch op {
	case 0:
		return item + acc
	case 1:
		return item
	case 2:
		return 2*acc + item
	}
	if item > acc {
		return item
	}
	return acc
}

func (r *Red) lookup(call int, item, acc int64) Out {
	for _, c := range r.ByCall {
		if c.Call == call {
			return c.O
		}
	}
	return Out{K: "val", V: comb(r.Op, item, acc)}
}

func mod(a, m int64) int64 {
	r := a % m
	if r < 0 {
		r += m
	}
	return r
}

func expand(g int, v int64) []int64 {
	switch g {
	case 0:
		return []int64{v}
	case 1:
		return []int64{v, v}
	case 2:
		return []int64{}
	case 3:
		if mod(v, 2) == 0 {
			return []int64{}
		}
		return []int64{v, 0, -v}
	}
	out := []int64{}
	for i := int64(0); i < mod(v, 3); i++ {
		out = append(out, v)
	}
	return out
}

// ---------------------------------------------------------------- building the REAL pipeline

type env struct {
	ctx   context.Context
	all   []*fun.Iterator[int64] // every iterator created, for the final drain+close
	notes []string
}

func (e *env) reg(it *fun.Iterator[int64]) *fun.Iterator[int64] { e.all = append(e.all, it); return it }

func cp(l []int64) []int64 { return append([]int64{}, l...) }

func render(vs []int64) string {
	s := make([]string, len(vs))
	for i, v := range vs {
		s[i] = fmt.Sprint(v)
	}
	return "[" + strings.Join(s, ",") + "]"
}

func (e *env) build(t *Tree) *fun.Iterator[int64] {
	kids := make([]*fun.Iterator[int64], len(t.Kids))
	for i, k := range t.Kids {
		kids[i] = e.build(k)
	}
	switch t.Op {
	case "slice":
		if t.N == 1 {
			return e.reg(dt.NewSlice(cp(t.L)).Iterator())
		}
		return e.reg(fun.SliceIterator(cp(t.L)))
	case "variadic":
		return e.reg(fun.VariadicIterator(cp(t.L)...))
	case "chan":
		if t.N == 1 { // unbuffered, fed by a goroutine
			ch := make(chan int64)
			l := cp(t.L)
			ctx := e.ctx
			go func() {
				defer close(ch)
				for _, v := range l {
					select {
					case ch <- v:
					case <-ctx.Done():
						return
					}
				}
			}()
			return e.reg(fun.ChannelIterator(ch))
		}
		ch := make(chan int64, len(t.L))
		for _, v := range t.L {
			ch <- v
		}
		close(ch)
		if t.N == 2 {
			return e.reg(fun.Blocking(ch).Iterator())
		}
		return e.reg(fun.ChannelIterator(ch))
	case "gen":
		tbl := t.Tbl
		calls := 0
		return e.reg(fun.Generator(func(context.Context) (int64, error) {
			k := calls
			calls++
			if k >= len(tbl) {
				return 0, io.EOF
			}
			if tbl[k].K == "val" {
				return tbl[k].V, nil
			}
			return 0, errOf(tbl[k])
		}))
	case "filter":
		return e.reg(kids[0].Filter(t.Pred.test))
	case "transform":
		if t.N == 1 {
			return e.reg(fun.ConvertIterator(kids[0], t.F.closure()))
		}
		return e.reg(kids[0].Transform(t.F.closure()))
	case "join":
		return e.reg(kids[0].Join(kids[1:]...))
	case "chain":
		return e.reg(itertool.Chain(kids...))
	case "buffer":
		return e.reg(kids[0].Buffer(t.N))
	case "split1":
		return e.reg(kids[0].Split(1)[0])
	case "channel":
		if t.N == 0 {
			return e.reg(fun.ChannelIterator(kids[0].Channel(e.ctx)))
		}
		return e.reg(fun.ChannelIterator(kids[0].BufferedChannel(e.ctx, t.N)))
	case "uniq":
		return e.reg(itertool.Uniq(kids[0]))
	case "dropzero":
		return e.reg(itertool.DropZeroValues(kids[0]))
	case "indexed":
		return e.reg(fun.ConvertIterator(itertool.Indexed(kids[0]),
			fun.Converter(func(p dt.Pair[int, int64]) int64 { return int64(p.Key)*1000 + p.Value })))
	case "mergeslices":
		ls := make([][]int64, len(t.Ls))
		for i := range t.Ls {
			ls[i] = cp(t.Ls[i])
		}
		return e.reg(itertool.MergeSlices(ls...))
	case "mergesliceiters":
		g := t.G
		return e.reg(itertool.MergeSliceIterators(fun.ConvertIterator(kids[0],
			fun.Converter(func(v int64) []int64 { return expand(g, v) }))))
	case "json":
		b, err := kids[0].MarshalJSON()
		if err != nil {
			e.notes = append(e.notes, "marshal-error:"+err.Error())
		}
		e.notes = append(e.notes, "json:"+string(b))
		base := fun.SliceIterator([]int64{})
		if err := base.UnmarshalJSON(b); err != nil {
			e.notes = append(e.notes, "unmarshal-error:"+err.Error())
		}
		return e.reg(base)
	case "jsonarr":
		base := fun.SliceIterator([]int64{})
		if err := base.UnmarshalJSON(jsonArrBytes(t)); err != nil {
			e.notes = append(e.notes, "unmarshal-error:"+err.Error())
		}
		return e.reg(base)
	case "jsonrecs":
		base := fun.SliceIterator([]jrecT{})
		if err := base.UnmarshalJSON(jsonRecsBytes(t)); err != nil {
			e.notes = append(e.notes, "unmarshal-error:"+err.Error())
		}
		return e.reg(fun.ConvertIterator(base, fun.Converter(func(r jrecT) int64 { return r.A*100 + r.B })))
	case "listof":
		l := &dt.List[int64]{}
		_ = l.Populate(kids[0]).Run(e.ctx)
		return e.reg(l.Iterator())
	case "stackof":
		s := &dt.Stack[int64]{}
		_ = s.Populate(kids[0]).Run(e.ctx)
		return e.reg(s.Iterator())
	case "sliceof":
		return e.reg(fun.SliceIterator(risky.Slice(kids[0])))
	}
	panic("unknown op " + t.Op)
}

const readCap = 200000

// consume runs the terminal consumer on the root and observes.
func consume(ctx context.Context, it *fun.Iterator[int64], c Case) Obs {
	o := Obs{Vals: []int64{}, Fin: "eof"}
	switch c.Term {
	case "readall":
		for n := 0; n < readCap; n++ {
			v, err := it.ReadOne(ctx)
			if err != nil {
				o.Fin = kindOf(err)
				break
			}
			o.Vals = append(o.Vals, v)
		}
		for i := 0; i < 2; i++ {
			v, err := it.ReadOne(ctx)
			if err == nil {
				o.After = append(o.After, fmt.Sprintf("val:%d", v))
			} else {
				o.After = append(o.After, kindOf(err))
			}
		}
		o.Close = errIDs(it.Close())
	case "next":
		for n := 0; n < readCap && it.Next(ctx); n++ {
			o.Vals = append(o.Vals, it.Value())
		}
		for i := 0; i < 2; i++ {
			if it.Next(ctx) {
				o.After = append(o.After, fmt.Sprintf("val:%d", it.Value()))
			} else {
				o.After = append(o.After, "eof")
			}
		}
		o.Close = errIDs(it.Close())
	case "count":
		o.Res = int64(it.Count(ctx))
		o.Close = errIDs(it.Close())
	case "slice":
		vs, err := it.Slice(ctx)
		o.Vals = append(o.Vals, vs...)
		o.Err = errIDs(err)
		o.Close = errIDs(it.Close())
	case "reduce":
		calls := 0
		red := c.Red
		v, err := it.Reduce(func(item, acc int64) (int64, error) {
			r := red.lookup(calls, item, acc)
			calls++
			if r.K == "val" {
				return r.V, nil
			}
			return 0, errOf(r)
		})(ctx)
		o.Res = v
		o.Err = errIDs(err)
		// Close after a reducer's early exit races with the background goroutine of Chain /
		// MergeSliceIterators / Buffer (their collectors are still being filled): called, not observed.
		_ = it.Close()
	case "contains":
		if itertool.Contains(ctx, c.X, it) {
			o.Res = 1
		}
		_ = it.Close() // after an early exit: called, not observed (see reduce)
	default:
		panic("unknown terminal " + c.Term)
	}
	return o
}

// runReal builds the pipeline for (t, terminal) on the real code and consumes it. Everything that was
// created is drained and closed afterwards and the case's context is cancelled.
func runReal(c Case) (obs Obs, hung bool) {
	type res struct {
		o   Obs
		pan any
	}
	done := make(chan res, 1)
	ctx, cancel := context.WithTimeout(context.Background(), 60*time.Second)
	go func() {
		defer func() {
			if p := recover(); p != nil {
				done <- res{pan: p}
			}
		}()
		e := &env{ctx: ctx}
		root := e.build(c.Tree)
		o := consume(ctx, root, c)
		for _, n := range e.notes {
			if strings.HasPrefix(n, "marshal-error") || strings.HasPrefix(n, "unmarshal-error") {
				o.Note += n + ";"
			}
		}
		// drain and close every iterator of the tree (root first): nothing may be left running
		for i := len(e.all) - 1; i >= 0; i-- {
			it := e.all[i]
			for n := 0; n < readCap; n++ {
				if _, err := it.ReadOne(ctx); err != nil {
					break
				}
			}
			_ = it.Close()
		}
		o.Note += jsonNotes(e)
		done <- res{o: o}
	}()
	select {
	case r := <-done:
		cancel()
		if r.pan != nil {
			return Obs{Vals: []int64{}, Fin: "other", Note: fmt.Sprintf("PANIC: %v", r.pan)}, false
		}
		return r.o, false
	case <-time.After(30 * time.Second):
		cancel()
		return Obs{Vals: []int64{}, Fin: "other", Note: "HANG"}, true
	}
}

func jsonNotes(e *env) string {
	s := ""
	for _, n := range e.notes {
		if strings.HasPrefix(n, "json:") {
			s += n + ";"
		}
	}
	return s
}

// ---------------------------------------------------------------- the direct oracle (plain slices)

type spec struct {
	vals    []int64
	fin     string // eof | abort | ctx
	errs    map[int]bool
	skipHit bool     // a skip outcome was consumed somewhere at this node
	jsons   []string // expected MarshalJSON bytes, post-order
}

func newSpec() spec { return spec{vals: []int64{}, fin: "eof", errs: map[int]bool{}} }

// stop applies a non-value, non-skip outcome of a user function of THIS iterator.
func (s *spec) stop(o Out) {
	switch o.K {
	case "err":
		s.fin = "eof"
		s.errs[int(o.V)] = true
	case "eof":
		s.fin = "eof"
	case "abort":
		s.fin = "abort"
	case "ctx":
		s.fin = "ctx"
	}
}

func specOf(t *Tree) spec {
	ks := make([]spec, len(t.Kids))
	out := newSpec()
	for i, k := range t.Kids {
		ks[i] = specOf(k)
		out.jsons = append(out.jsons, ks[i].jsons...)
	}
	switch t.Op {
	case "slice", "variadic", "chan":
		out.vals = cp(t.L)
	case "gen":
		for _, o := range t.Tbl {
			if o.K == "val" {
				out.vals = append(out.vals, o.V)
				continue
			}
			if o.K == "skip" {
				out.skipHit = true
				continue
			}
			out.stop(o)
			break
		}
	case "filter":
		for _, v := range ks[0].vals {
			if t.Pred.test(v) {
				out.vals = append(out.vals, v)
			}
		}
		out.fin = ks[0].fin
	case "transform":
		out.fin = ks[0].fin
		for i, v := range ks[0].vals {
			o := t.F.lookup(i, v)
			if o.K == "val" {
				out.vals = append(out.vals, o.V)
				continue
			}
			if o.K == "skip" {
				out.skipHit = true
				continue
			}
			out.stop(o)
			break
		}
	case "join": // concat; an operand ending with a terminating error other than EOF ends the whole
		for _, k := range ks {
			out.vals = append(out.vals, k.vals...)
			if k.fin != "eof" {
				out.fin = k.fin
				break
			}
		}
	case "chain": // concat; every operand's Close() errors are reported
		for _, k := range ks {
			out.vals = append(out.vals, k.vals...)
			for e := range k.errs {
				out.errs[e] = true
			}
		}
	case "buffer":
		out.vals = ks[0].vals
		for e := range ks[0].errs {
			out.errs[e] = true
		}
		if ks[0].fin == "ctx" {
			out.errs[idCtx] = true
		}
	case "split1", "channel", "listof", "sliceof":
		out.vals = ks[0].vals
	case "json":
		out.vals = ks[0].vals
		out.jsons = append(out.jsons, render(ks[0].vals))
	case "stackof":
		for i := len(ks[0].vals) - 1; i >= 0; i-- {
			out.vals = append(out.vals, ks[0].vals[i])
		}
	case "uniq":
		seen := map[int64]bool{}
		for _, v := range ks[0].vals {
			if !seen[v] {
				seen[v] = true
				out.vals = append(out.vals, v)
			}
		}
		out.errs = ks[0].errs
	case "dropzero":
		for _, v := range ks[0].vals {
			if v != 0 {
				out.vals = append(out.vals, v)
			}
		}
		out.fin = ks[0].fin
		out.errs = ks[0].errs
	case "indexed":
		for i, v := range ks[0].vals {
			out.vals = append(out.vals, int64(i)*1000+v)
		}
		out.fin = ks[0].fin
	case "mergeslices":
		for _, l := range t.Ls {
			out.vals = append(out.vals, l...)
		}
	case "jsonarr": // every element decoded on its own: null is the zero value
		for i, v := range t.L {
			if i < len(t.Nulls) && t.Nulls[i] {
				v = 0
			}
			out.vals = append(out.vals, v)
		}
	case "jsonrecs": // null and absent fields are zero
		for _, r := range t.Recs {
			if r == nil {
				out.vals = append(out.vals, 0)
			} else {
				out.vals = append(out.vals, dflt(r.A)*100+dflt(r.B))
			}
		}
	case "mergesliceiters":
		for _, v := range ks[0].vals {
			out.vals = append(out.vals, expand(t.G, v)...)
		}
		if ks[0].fin == "ctx" {
			out.errs[idCtx] = true
		}
	default:
		panic("unknown op " + t.Op)
	}
	return out
}

func setOf(m map[int]bool) []int {
	out := []int{}
	for k := range m {
		out = append(out, k)
	}
	sort.Ints(out)
	return out
}

func eqI64(a, b []int64) bool {
	if len(a) != len(b) {
		return false
	}
	for i := range a {
		if a[i] != b[i] {
			return false
		}
	}
	return true
}

func eqInts(a, b []int) bool {
	if len(a) != len(b) {
		return false
	}
	for i := range a {
		if a[i] != b[i] {
			return false
		}
	}
	return true
}

var opName = map[string]string{
	"slice": "SliceIterator", "variadic": "VariadicIterator", "chan": "ChannelIterator", "gen": "Generator",
	"filter": "Filter", "transform": "Transform", "join": "Join", "chain": "Chain", "buffer": "Buffer",
	"split1": "Split", "channel": "Channel", "uniq": "Uniq", "dropzero": "DropZeroValues", "indexed": "Indexed",
	"mergeslices": "MergeSlices", "mergesliceiters": "MergeSliceIterators", "json": "JSON", "listof": "List",
	"stackof": "Stack", "sliceof": "Slice", "jsonarr": "UnmarshalJSON", "jsonrecs": "UnmarshalJSON",
}

// readAllFails reports whether a plain ReadOne drain of t on the real code differs from the oracle.
func readAllDiff(t *Tree) string {
	o, hung := runReal(Case{Tree: t, Term: "readall"})
	if hung {
		return "hang"
	}
	s := specOf(t)
	switch {
	case strings.HasPrefix(o.Note, "PANIC"):
		return "panic"
	case !eqI64(o.Vals, s.vals):
		return "sequence"
	case o.Fin != s.fin:
		return "termination"
	}
	return ""
}

// wrappedSkip reports whether one of the node's own tables answers a wrapped ErrIteratorSkip.
func wrappedSkip(t *Tree) bool {
	for _, o := range t.Tbl {
		if o.K == "skip" && o.W != 0 {
			return true
		}
	}
	if t.F != nil {
		for _, c := range t.F.ByCall {
			if c.O.K == "skip" && c.O.W != 0 {
				return true
			}
		}
		for _, c := range t.F.ByVal {
			if c.O.K == "skip" && c.O.W != 0 {
				return true
			}
		}
	}
	return false
}

// culprit finds the deepest subtree whose own ReadOne sequence already violates the oracle.
func culprit(t *Tree) (*Tree, string) {
	for _, k := range t.Kids {
		if c, cls := culprit(k); c != nil {
			return c, cls
		}
	}
	if cls := readAllDiff(t); cls != "" {
		return t, cls
	}
	return nil, ""
}

func foldSpec(r *Red, vals []int64) (int64, []int) {
	var acc int64
	for i, v := range vals {
		o := r.lookup(i, v, acc)
		switch o.K {
		case "val":
			acc = o.V
		case "skip":
		case "eof", "abort":
			return acc, nil
		case "err":
			return acc, []int{int(o.V)}
		case "ctx":
			return acc, []int{idCtx}
		}
	}
	return acc, nil
}

// oracle checks the implementation's observations against the plain-slice specification.
func oracle(run *kit.Run, c Case, o Obs) {
	s := specOf(c.Tree)
	fail := func(sig, detail string) { run.OracleFail(c.ID, sig, detail, c, o) }
	root := opName[c.Tree.Op]
	if o.Note == "HANG" {
		fail("C02:"+root+":hang", "the pipeline did not finish within 30 s")
		return
	}
	if strings.HasPrefix(o.Note, "PANIC") {
		fail("C02:"+root+":panic", o.Note)
		return
	}
	if strings.Contains(o.Note, "marshal-error") {
		fail("C02:MarshalJSON:error", o.Note)
		return
	}
	// JSON bytes (10-line render; encoding/json trusted)
	var gotJSON []string
	for _, n := range strings.Split(o.Note, ";") {
		if strings.HasPrefix(n, "json:") {
			gotJSON = append(gotJSON, strings.TrimPrefix(n, "json:"))
		}
	}
	closeWant := setOf(s.errs)
	seqFail := func(what string) {
		// name the operator: the deepest subtree that already disagrees
		sub, cls := culprit(c.Tree)
		op := root
		if sub != nil {
			op = opName[sub.Op]
			if cls == "sequence" && (sub.Op == "transform" || sub.Op == "gen") && specOf(sub).skipHit {
				cls = "skip"
				if wrappedSkip(sub) {
					cls = "wrapped-skip"
					if sub.Op == "gen" { // a producer's skip is handled by Iterator.ReadOne
						op = "ReadOne"
					}
				}
			}
		} else {
			cls = what
		}
		fail("C02:"+op+":"+cls, fmt.Sprintf("%s: implementation yielded %v (end %s), functional specification %v (end %s)", what, o.Vals, o.Fin, s.vals, s.fin))
	}
	// a terminal's wrong result is blamed on the operator whose own sequence is already wrong, if any
	blame := func(sig, detail string) {
		if sub, _ := culprit(c.Tree); sub != nil {
			seqFail("sequence")
			return
		}
		fail(sig, detail)
	}
	switch c.Term {
	case "readall", "next":
		if !eqI64(o.Vals, s.vals) {
			seqFail("sequence")
			return
		}
		if c.Term == "readall" && o.Fin != s.fin {
			seqFail("termination")
			return
		}
		for _, a := range o.After {
			if a != "eof" {
				fail("C02:ReadOne:after-error", fmt.Sprintf("after the iterator had returned an error, a further read returned %q (want io.EOF and no value)", a))
				return
			}
		}
		if !eqInts(o.Close, closeWant) {
			fail("C02:Close:errors", fmt.Sprintf("Close() reported error ids %v, specification %v", o.Close, closeWant))
			return
		}
	case "count":
		if o.Res != int64(len(s.vals)) {
			blame("C02:Count:length", fmt.Sprintf("Count = %d, specification sequence %v has length %d", o.Res, s.vals, len(s.vals)))
			return
		}
		if !eqInts(o.Close, closeWant) {
			fail("C02:Close:errors", fmt.Sprintf("Close() reported error ids %v, specification %v", o.Close, closeWant))
		}
	case "slice":
		if !eqI64(o.Vals, s.vals) {
			blame("C02:Slice:sequence", fmt.Sprintf("Slice = %v, specification %v", o.Vals, s.vals))
			return
		}
		want := map[int]bool{}
		for e := range s.errs {
			want[e] = true
		}
		if s.fin == "ctx" {
			want[idCtx] = true
		}
		if !eqInts(o.Err, setOf(want)) || !eqInts(o.Close, closeWant) {
			fail("C02:Close:errors", fmt.Sprintf("Slice error ids %v / Close ids %v, specification %v / %v", o.Err, o.Close, setOf(want), closeWant))
		}
	case "contains":
		want := int64(0)
		for _, v := range s.vals {
			if v == c.X {
				want = 1
			}
		}
		if o.Res != want {
			blame("C02:Contains:membership", fmt.Sprintf("Contains(%d) = %d, specification sequence %v", c.X, o.Res, s.vals))
		}
	case "reduce":
		v, e := foldSpec(c.Red, s.vals)
		if e == nil {
			e = []int{}
		}
		got := o.Err
		if got == nil {
			got = []int{}
		}
		if o.Res != v || !eqInts(got, e) {
			blame("C02:Reduce:fold", fmt.Sprintf("Reduce = (%d, ids %v), fold over %v = (%d, ids %v)", o.Res, got, s.vals, v, e))
		}
	}
	if len(gotJSON) == len(s.jsons) {
		for i := range gotJSON {
			if gotJSON[i] != s.jsons[i] {
				fail("C02:MarshalJSON:bytes", fmt.Sprintf("MarshalJSON produced %s, want %s", gotJSON[i], s.jsons[i]))
				return
			}
		}
	} else {
		fail("C02:MarshalJSON:bytes", fmt.Sprintf("MarshalJSON calls: got %v want %v", gotJSON, s.jsons))
	}
}

// ---------------------------------------------------------------- Coq printing

func coqOut(o Out) string {
	switch o.K {
	case "val":
		return "OVal " + kit.Z(o.V)
	case "skip":
		return "OSkip"
	case "err":
		return "OErr " + kit.Z(o.V)
	case "eof":
		return "OEof"
	case "abort":
		return "OAbort"
	case "ctx":
		return "OCtx"
	}
	panic("bad outcome " + o.K)
}

func coqByCall(cs []CallOut) string {
	s := make([]string, len(cs))
	for i, c := range cs {
		s[i] = fmt.Sprintf("(%d%%nat, %s)", c.Call, coqOut(c.O))
	}
	return kit.List(s)
}

func coqTree(t *Tree) string {
	kid := func(i int) string { return "(" + coqTree(t.Kids[i]) + ")" }
	kidList := func(from int) string {
		s := []string{}
		for i := from; i < len(t.Kids); i++ {
			s = append(s, coqTree(t.Kids[i]))
		}
		return kit.List(s)
	}
	switch t.Op {
	case "slice":
		return "Slice " + kit.ZList(t.L)
	case "variadic":
		return "Variadic " + kit.ZList(t.L)
	case "chan":
		return "Chan " + kit.ZList(t.L)
	case "gen":
		s := make([]string, len(t.Tbl))
		for i, o := range t.Tbl {
			s[i] = coqOut(o)
		}
		return "Gen " + kit.List(s)
	case "filter":
		return fmt.Sprintf("Filter (mk_pred %s %s) %s", kit.ZList(t.Pred.Tbl), kit.Bool(t.Pred.Neg), kid(0))
	case "transform":
		bv := make([]string, len(t.F.ByVal))
		for i, v := range t.F.ByVal {
			bv[i] = fmt.Sprintf("(%s, %s)", kit.Z(v.Val), coqOut(v.O))
		}
		return fmt.Sprintf("Transform (mk_fun %s %s %s %s) %s", coqByCall(t.F.ByCall), kit.List(bv), kit.Z(t.F.A), kit.Z(t.F.B), kid(0))
	case "join":
		return fmt.Sprintf("Join %s %s", kid(0), kidList(1))
	case "chain":
		return "Chain " + kidList(0)
	case "buffer":
		return fmt.Sprintf("Buffer %s %s", kit.ZI(t.N), kid(0))
	case "split1":
		return "Split1 " + kid(0)
	case "channel":
		return fmt.Sprintf("Channel %s %s", kit.ZI(t.N), kid(0))
	case "uniq":
		return "Uniq " + kid(0)
	case "dropzero":
		return "DropZero " + kid(0)
	case "indexed":
		return "Indexed " + kid(0)
	case "mergeslices":
		s := make([]string, len(t.Ls))
		for i, l := range t.Ls {
			s[i] = kit.ZList(l)
		}
		return "MergeSlices " + kit.List(s)
	case "mergesliceiters":
		return fmt.Sprintf("MergeSliceIters (mk_expand %s) %s", kit.ZI(t.G), kid(0))
	case "json":
		return "JsonRoundTrip " + kid(0)
	case "listof":
		return "ListOf " + kid(0)
	case "stackof":
		return "StackOf " + kid(0)
	case "sliceof":
		return "SliceOf " + kid(0)
	case "jsonarr":
		s := make([]string, len(t.L))
		for i, v := range t.L {
			s[i] = "Some " + kit.Z(v)
			if i < len(t.Nulls) && t.Nulls[i] {
				s[i] = "None"
			}
		}
		return "JsonArr " + kit.List(s)
	case "jsonrecs":
		opt := func(p *int64) string {
			if p == nil {
				return "None"
			}
			return "Some " + kit.Z(*p)
		}
		s := make([]string, len(t.Recs))
		for i, r := range t.Recs {
			if r == nil {
				s[i] = "None"
			} else {
				s[i] = fmt.Sprintf("Some (%s, %s)", opt(r.A), opt(r.B))
			}
		}
		return "JsonRecs " + kit.List(s)
	}
	panic("unknown op " + t.Op)
}

func coqKind(k string) string {
	switch {
	case k == "eof":
		return "OEof"
	case k == "abort":
		return "OAbort"
	case k == "ctx":
		return "OCtx"
	case strings.HasPrefix(k, "val:"):
		var v int64
		fmt.Sscanf(k, "val:%d", &v)
		return "OVal " + kit.Z(v)
	}
	return "OErr " + kit.ZI(idUnknown)
}

func coqCase(c Case, o Obs) string {
	tm := ""
	switch c.Term {
	case "readall":
		tm = "TReadAll"
	case "next":
		tm = "TNext"
	case "count":
		tm = "TCount"
	case "slice":
		tm = "TSlice"
	case "reduce":
		tm = fmt.Sprintf("(TReduce (mk_red %s %s))", coqByCall(c.Red.ByCall), kit.ZI(c.Red.Op))
	case "contains":
		tm = "(TContains " + kit.Z(c.X) + ")"
	}
	after := make([]string, len(o.After))
	for i, a := range o.After {
		after[i] = coqKind(a)
	}
	return fmt.Sprintf("Case %s (%s) %s (mkObs %s (%s) %s %s %s %s)", kit.ZI(c.ID), coqTree(c.Tree), tm,
		kit.ZList(o.Vals), coqKind(o.Fin), kit.List(after), kit.Z(o.Res), kit.ZListI(o.Err), kit.ZListI(o.Close))
}

// ---------------------------------------------------------------- generators

var faultKinds = []string{"skip", "err", "eof", "abort", "ctx"}

func genOut(r *kit.Rand) Out {
	k := faultKinds[r.Intn(len(faultKinds))]
	if r.Chance(1, 3) {
		k = "skip"
	}
	if r.Chance(1, 4) {
		k = "err"
	}
	o := Out{K: k}
	if k == "err" {
		o.V = int64(r.Range(1, 5))
	}
	if r.Chance(1, 2) {
		o.W = r.Range(1, 3)
	}
	return o
}

func genList(r *kit.Rand) []int64 {
	n := 0
	switch r.Intn(8) {
	case 0:
		n = 0
	case 1:
		n = 1
	case 2, 3:
		n = r.Range(2, 4)
	default:
		n = r.Range(2, 8)
	}
	l := make([]int64, n)
	for i := range l {
		l[i] = int64(r.Range(-2, 5))
		if r.Chance(1, 5) {
			l[i] = 0
		}
		if i > 0 && r.Chance(1, 4) {
			l[i] = l[r.Intn(i)] // duplicates
		}
	}
	return l
}

func genJSONArr(r *kit.Rand) *Tree {
	l := genList(r)
	t := &Tree{Op: "jsonarr", L: l, Nulls: make([]bool, len(l)), N: r.Intn(2)}
	for i := range l {
		t.Nulls[i] = r.Chance(1, 3)
	}
	if len(l) > 0 && r.Chance(1, 4) { // null at a boundary, after a non-zero element
		i := []int{0, len(l) - 1, len(l) / 2}[r.Intn(3)]
		t.Nulls[i] = true
		if i > 0 && l[i-1] == 0 {
			l[i-1] = int64(r.Range(1, 5))
			t.Nulls[i-1] = false
		}
	}
	return t
}

func genJSONRecs(r *kit.Rand) *Tree {
	n := r.Intn(7)
	t := &Tree{Op: "jsonrecs", N: r.Intn(2)}
	for i := 0; i < n; i++ {
		if r.Chance(1, 4) {
			t.Recs = append(t.Recs, nil)
			continue
		}
		rec := &JRec{}
		if r.Chance(1, 2) {
			v := int64(r.Range(0, 5))
			rec.A = &v
		}
		if r.Chance(1, 2) {
			v := int64(r.Range(-2, 5))
			rec.B = &v
		}
		t.Recs = append(t.Recs, rec)
	}
	return t
}

func genSource(r *kit.Rand) *Tree {
	switch r.Intn(9) {
	case 7:
		return genJSONArr(r)
	case 8:
		return genJSONRecs(r)
	case 0, 1:
		return &Tree{Op: "slice", L: genList(r), N: r.Intn(2)}
	case 2:
		return &Tree{Op: "variadic", L: genList(r)}
	case 3:
		return &Tree{Op: "chan", L: genList(r), N: r.Intn(3)}
	case 4:
		n := r.Intn(4)
		ls := make([][]int64, n)
		for i := range ls {
			ls[i] = genList(r)
		}
		return &Tree{Op: "mergeslices", Ls: ls}
	default:
		n := r.Range(0, 7)
		tbl := make([]Out, n)
		for i := range tbl {
			if r.Chance(2, 3) {
				tbl[i] = Out{K: "val", V: int64(r.Range(-2, 5))}
			} else {
				tbl[i] = genOut(r)
			}
		}
		return &Tree{Op: "gen", Tbl: tbl}
	}
}

func genFun(r *kit.Rand, inLen int, inVals []int64) *Fun {
	f := &Fun{A: int64(r.Range(-1, 2)), B: int64(r.Range(-1, 2))}
	if r.Chance(1, 3) {
		f.A, f.B = 1, 0
	}
	nf := r.Intn(3)
	if r.Chance(1, 3) {
		nf = 0
	}
	for i := 0; i < nf; i++ {
		if r.Chance(2, 3) || len(inVals) == 0 {
			// fault by call index: first, last, one past the end, or anywhere
			pos := 0
			switch r.Intn(4) {
			case 0:
				pos = 0
			case 1:
				pos = inLen - 1
			case 2:
				pos = inLen
			default:
				pos = r.Intn(inLen + 1)
			}
			if pos < 0 {
				pos = 0
			}
			f.ByCall = append(f.ByCall, CallOut{Call: pos, O: genOut(r)})
		} else {
			f.ByVal = append(f.ByVal, ValOut{Val: inVals[r.Intn(len(inVals))], O: genOut(r)})
		}
	}
	return f
}

func genPred(r *kit.Rand, inVals []int64) *Pred {
	p := &Pred{Neg: r.Bool(), Tbl: []int64{}}
	n := r.Intn(4)
	for i := 0; i < n; i++ {
		if len(inVals) > 0 && r.Chance(3, 4) {
			p.Tbl = append(p.Tbl, inVals[r.Intn(len(inVals))])
		} else {
			p.Tbl = append(p.Tbl, int64(r.Range(-2, 5)))
		}
	}
	return p
}

var unaryOps = []string{"filter", "filter", "transform", "transform", "transform", "buffer", "split1", "channel", "uniq", "uniq",
	"dropzero", "indexed", "mergesliceiters", "json", "listof", "stackof", "sliceof"}

func genTree(r *kit.Rand, depth int) *Tree {
	if depth <= 0 || r.Chance(1, 7) {
		return genSource(r)
	}
	switch r.Intn(10) {
	case 0, 1: // join
		n := r.Range(1, 4)
		if r.Chance(1, 10) {
			n = 1
		}
		t := &Tree{Op: "join"}
		for i := 0; i < n; i++ {
			t.Kids = append(t.Kids, genTree(r, depth-1-r.Intn(2)))
		}
		return t
	case 2: // chain
		n := r.Range(0, 3)
		t := &Tree{Op: "chain"}
		for i := 0; i < n; i++ {
			t.Kids = append(t.Kids, genTree(r, depth-1-r.Intn(2)))
		}
		return t
	}
	kid := genTree(r, depth-1)
	ks := specOf(kid)
	op := unaryOps[r.Intn(len(unaryOps))]
	if op == "mergesliceiters" && ks.fin == "ctx" {
		// MergeSliceIterators closes its pipe BEFORE it records a terminating error of its input
		// (errHandler's PreHook), so whether Close() reports that context error depends on the
		// schedule; the values do not. Not generated: a flaky check is worse than a missing one.
		op = "dropzero"
	}
	t := &Tree{Op: op, Kids: []*Tree{kid}}
	switch op {
	case "filter":
		t.Pred = genPred(r, ks.vals)
	case "transform":
		t.F = genFun(r, len(ks.vals), ks.vals)
		t.N = r.Intn(2)
	case "buffer":
		t.N = []int{0, 1, 2, 16}[r.Intn(4)]
	case "channel":
		t.N = []int{0, 0, 1, 8}[r.Intn(4)]
	case "mergesliceiters":
		t.G = r.Intn(5)
	}
	return t
}

var terminals = []string{"readall", "readall", "readall", "next", "count", "slice", "reduce", "contains"}

func genCase(r *kit.Rand, id int) Case {
	c := Case{ID: id, Tree: genTree(r, r.Range(1, 4)), Term: terminals[r.Intn(len(terminals))]}
	if c.Term == "contains" {
		s := specOf(c.Tree)
		c.X = int64(r.Range(-2, 5))
		if len(s.vals) > 0 && r.Chance(2, 3) {
			c.X = s.vals[r.Intn(len(s.vals))] // first, middle or last occurrence
		}
	}
	if c.Term == "reduce" {
		s := specOf(c.Tree)
		c.Red = &Red{Op: r.Intn(4)}
		if r.Chance(1, 2) {
			c.Red.ByCall = append(c.Red.ByCall, CallOut{Call: r.Intn(len(s.vals) + 1), O: genOut(r)})
		}
	}
	return c
}

// corpus: boundary cases that always run — a fault of every kind at every position of small pipelines,
// empty operands on either side of Join/Chain, skip adjacent to EOF, and the documented reading
// ([1,(err),3] joined with [7,8] yields [1,7,8]).
func corpus() []Case {
	var cs []Case
	sl := func(l ...int64) *Tree { return &Tree{Op: "slice", L: append([]int64{}, l...)} }
	add := func(t *Tree, term string) { cs = append(cs, Case{Tree: t, Term: term}) }
	for _, k := range faultKinds {
		for pw := 0; pw < 5*4; pw++ {
			pos, w := pw%5, pw/5 // every fault kind, at every position, bare and in each wrapped form
			o := Out{K: k, W: w}
			if k == "err" {
				o.V = int64(1 + pos%5)
			}
			f := &Fun{A: 1, B: 10, ByCall: []CallOut{{Call: pos, O: o}}}
			tr := func() *Tree { return &Tree{Op: "transform", F: f, Kids: []*Tree{sl(1, 2, 3, 4)}} }
			add(tr(), "readall")
			add(&Tree{Op: "join", Kids: []*Tree{tr(), sl(7, 8)}}, "readall")
			add(&Tree{Op: "join", Kids: []*Tree{sl(7, 8), tr(), sl(9)}}, "next")
			add(&Tree{Op: "chain", Kids: []*Tree{tr(), sl(7, 8)}}, "readall")
			add(&Tree{Op: "filter", Pred: &Pred{Tbl: []int64{12}, Neg: true}, Kids: []*Tree{{Op: "buffer", N: 1, Kids: []*Tree{tr()}}}}, "readall")
			add(&Tree{Op: "uniq", Kids: []*Tree{{Op: "dropzero", Kids: []*Tree{tr()}}}}, "slice")
			// generator with the fault at position pos
			tbl := []Out{}
			for i := 0; i < 4; i++ {
				if i == pos {
					tbl = append(tbl, o)
				}
				tbl = append(tbl, Out{K: "val", V: int64(i + 1)})
			}
			if pos == 4 {
				tbl = append(tbl, o)
			}
			add(&Tree{Op: "gen", Tbl: tbl}, "readall")
			add(&Tree{Op: "join", Kids: []*Tree{{Op: "gen", Tbl: tbl}, sl(7)}}, "readall")
			if k != "ctx" { // see genTree: Close() after a context error of the input is schedule dependent
				add(&Tree{Op: "mergesliceiters", G: 1, Kids: []*Tree{{Op: "gen", Tbl: tbl}}}, "readall")
			}
			cs = append(cs, Case{Tree: sl(1, 2, 3, 4), Term: "reduce", Red: &Red{Op: 2, ByCall: []CallOut{{Call: pos, O: o}}}})
		}
	}
	// the documented reading
	add(&Tree{Op: "join", Kids: []*Tree{{Op: "transform", F: &Fun{A: 1, ByVal: []ValOut{{Val: 2, O: Out{K: "err", V: 1}}}}, Kids: []*Tree{sl(1, 2, 3)}}, sl(7, 8)}}, "readall")
	// empty operands on either side
	add(&Tree{Op: "join", Kids: []*Tree{sl(), sl(1)}}, "readall")
	add(&Tree{Op: "join", Kids: []*Tree{sl(1), sl()}}, "readall")
	add(&Tree{Op: "join", Kids: []*Tree{sl(), sl(), sl()}}, "readall")
	add(&Tree{Op: "join", Kids: []*Tree{sl(3)}}, "readall")
	add(&Tree{Op: "chain"}, "readall")
	add(&Tree{Op: "chain", Kids: []*Tree{sl(), sl(2), sl()}}, "count")
	add(&Tree{Op: "mergeslices"}, "readall")
	add(&Tree{Op: "mergeslices", Ls: [][]int64{{}, {1, 2}, {}, {3}}}, "readall")
	add(&Tree{Op: "uniq", Kids: []*Tree{sl(1, 2, 1, 3, 2, 1, 0, 0)}}, "readall")
	add(&Tree{Op: "dropzero", Kids: []*Tree{sl(0, 0, 1, 0, 2, 0)}}, "readall")
	add(&Tree{Op: "indexed", Kids: []*Tree{sl(5, 5, -1, 0)}}, "readall")
	add(&Tree{Op: "stackof", Kids: []*Tree{sl(1, 2, 3)}}, "readall")
	// JSON arrays: null at every position (first, middle, last, consecutive, all), zeros, duplicates
	ja := func(l []int64, nulls ...int) *Tree {
		t := &Tree{Op: "jsonarr", L: l, Nulls: make([]bool, len(l))}
		for _, i := range nulls {
			t.Nulls[i] = true
		}
		return t
	}
	for i := 0; i < 4; i++ {
		add(ja([]int64{1, 2, 3, 4}, i), "readall")
		add(ja([]int64{5, 5, 0, 5}, i), "next")
	}
	add(ja([]int64{1, 2, 3, 4}, 1, 2), "readall")
	add(ja([]int64{1, 2, 3, 4}, 2, 3), "slice")
	add(ja([]int64{1, 2, 3, 4}, 0, 1, 2, 3), "readall")
	add(ja([]int64{0, 0, 7, 0}, 3), "readall")
	add(ja([]int64{}), "readall")
	add(ja([]int64{9}, 0), "count")
	add(&Tree{Op: "uniq", Kids: []*Tree{{Op: "join", Kids: []*Tree{ja([]int64{3, 0, 3}, 1), ja([]int64{4, 4}, 1)}}}}, "readall")
	pi := func(v int64) *int64 { return &v }
	add(&Tree{Op: "jsonrecs", Recs: []*JRec{{A: pi(1)}, {B: pi(2)}, nil, {}, {A: pi(3), B: pi(4)}, {}}}, "readall")
	add(&Tree{Op: "jsonrecs", N: 1, Recs: []*JRec{{A: pi(1), B: pi(1)}, nil, {B: pi(0)}, {A: pi(0)}}}, "readall")
	add(&Tree{Op: "jsonrecs", Recs: []*JRec{nil, nil}}, "slice")
	add(&Tree{Op: "jsonrecs"}, "readall")
	add(&Tree{Op: "json", Kids: []*Tree{{Op: "filter", Pred: &Pred{Tbl: []int64{2}, Neg: true}, Kids: []*Tree{{Op: "buffer", N: 2, Kids: []*Tree{{Op: "join", Kids: []*Tree{sl(1, 2), {Op: "json", Kids: []*Tree{sl(-3, 2, 0)}}}}}}}}}}, "readall")
	for i := range cs {
		cs[i].ID = i
	}
	return cs
}

// ---------------------------------------------------------------- main

func size(t *Tree) (nodes int, depth int) {
	nodes = 1
	for _, k := range t.Kids {
		n, d := size(k)
		nodes += n
		if d > depth {
			depth = d
		}
	}
	return nodes, depth + 1
}

func countOps(run *kit.Run, t *Tree) {
	run.Count("op/" + t.Op)
	for _, k := range t.Kids {
		countOps(run, k)
	}
}

func faults(t *Tree) int {
	n := 0
	if t.F != nil {
		n += len(t.F.ByCall) + len(t.F.ByVal)
	}
	for _, o := range t.Tbl {
		if o.K != "val" {
			n++
		}
	}
	for _, k := range t.Kids {
		n += faults(k)
	}
	return n
}

func execCase(run *kit.Run, c Case, verbose bool) {
	o, _ := runReal(c)
	if verbose {
		b, _ := json.Marshal(o)
		s := specOf(c.Tree)
		fmt.Printf("case %d term=%s\n tree: %s\n implementation: %s\n specification: vals=%v fin=%s close=%v\n", c.ID, c.Term, coqTree(c.Tree), b, s.vals, s.fin, setOf(s.errs))
	}
	oracle(run, c, o)
	nodes, depth := size(c.Tree)
	nf := faults(c.Tree)
	if c.Red != nil {
		nf += len(c.Red.ByCall)
	}
	run.Count("term/" + c.Term)
	run.Count(fmt.Sprintf("depth/%d", depth))
	run.Count("fin/" + o.Fin)
	if nf > 0 {
		run.Count("with-fault")
	}
	if len(o.Close) > 0 {
		run.Count("close-reports-error")
	}
	countOps(run, c.Tree)
	key, _ := json.Marshal(struct {
		T *Tree
		M string
		R *Red
		X int64
	}{c.Tree, c.Term, c.Red, c.X})
	term := ""
	if o.Note != "HANG" && !strings.HasPrefix(o.Note, "PANIC") {
		term = coqCase(c, o)
	}
	run.Case(c.ID, c, term, string(key), nodes >= 2)
}

func main() {
	run := kit.Start()
	run.Header = "From FunV Require Import Base.Tac Model.IterAlgebra Corr.C02_corr.\nOpen Scope Z_scope."
	run.Footer = "Definition M := Eval vm_compute in mismatches cases.\nPrint M."
	run.CaseType = "case"
	run.ShardSize = 400
	run.Rule = "random operator trees of depth <= 4 over the real constructors (20 operators, 5 terminal consumers), inputs with empties/singletons/duplicates/zeros, user functions from finite tables with skip/err/eof/abort/ctx injected by call index (first, last, one past the end, random) or by value; plus a corpus sweeping every fault kind over every position. distinct = distinct (tree, tables, terminal); non-trivial = at least one operator above a source"

	if run.Replay != "" {
		var c Case
		if err := kit.ReadReplayCase(run.Replay, &c); err != nil {
			fmt.Fprintln(os.Stderr, err)
			os.Exit(2)
		}
		execCase(run, c, true)
		run.Finish()
		return
	}
	id := 0
	for _, c := range corpus() {
		c.ID = id
		id++
		execCase(run, c, false)
	}
	n := run.Pick(12000, 300000)
	for i := 0; i < n; i++ {
		r := run.Rand.Fork()
		c := genCase(r, id)
		id++
		execCase(run, c, false)
	}
	run.Finish()
}
