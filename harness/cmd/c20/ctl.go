// Controlled goroutines for the C20 driver.
//
// Every iterator (and every other blocking operation the schedules need) runs in
// its own goroutine under a controller.  The driver is single threaded: it
// issues one action at a time and then *settles* the controlled goroutine,
// i.e. waits until that goroutine has either delivered an event (its call
// returned / it stopped at the `pubsub.Queue.Producer.unlocked` yield point) or
// is parked in sync.Cond.Wait.  "Parked" is read from the runtime's goroutine
// status (`goroutine N [sync.Cond.Wait]`), not from a timer: Signal/Broadcast
// make the woken goroutines runnable before they return, so once a driver
// operation has returned, a goroutine that shows sync.Cond.Wait has re-checked
// its predicate after that operation.  No verdict depends on a short timeout;
// the only timer is the 10 s bound after which a goroutine that is neither
// parked nor finished is reported as hung.
package main

import (
	"bytes"
	"context"
	"errors"
	"fmt"
	"io"
	"runtime"
	"strconv"
	"sync"
	"sync/atomic"
	"time"

	"github.com/tychoish/fun/pubsub"
)

const longWait = 10 * time.Second

// Obs is what the driver saw after settling a controlled goroutine.
type Obs struct {
	Kind string `json:"k"`           // yield eof closed ctx panic other | window parked hung none
	V    int64  `json:"v,omitempty"` // yielded value
	Msg  string `json:"msg,omitempty"`
}

func (o Obs) returned() bool {
	switch o.Kind {
	case "yield", "eof", "closed", "ctx", "panic", "other":
		return true
	}
	return false
}

func (o Obs) String() string {
	if o.Kind == "yield" {
		return fmt.Sprintf("yield(%d)", o.V)
	}
	return o.Kind
}

func classify(v int64, err error) Obs {
	switch {
	case err == nil:
		return Obs{Kind: "yield", V: v}
	case errors.Is(err, pubsub.ErrQueueClosed):
		return Obs{Kind: "closed"}
	case errors.Is(err, pubsub.ErrQueueFull):
		return Obs{Kind: "full"}
	case errors.Is(err, pubsub.ErrQueueNoCredit):
		return Obs{Kind: "nocredit"}
	case errors.Is(err, io.EOF):
		return Obs{Kind: "eof"}
	case errors.Is(err, context.Canceled), errors.Is(err, context.DeadlineExceeded):
		return Obs{Kind: "ctx"}
	}
	return Obs{Kind: "other", Msg: err.Error()}
}

// ---------------------------------------------------------------- goroutine ids and states

func goid() int64 {
	var buf [64]byte
	n := runtime.Stack(buf[:], false)
	// "goroutine 123 [running]:"
	b := buf[:n]
	b = b[len("goroutine "):]
	i := bytes.IndexByte(b, ' ')
	id, _ := strconv.ParseInt(string(b[:i]), 10, 64)
	return id
}

var stackBuf = make([]byte, 1<<20)
var stackMu sync.Mutex

// goStatus returns the runtime's wait reason / status of goroutine id
// ("sync.Cond.Wait", "chan receive", "runnable", "running", ...), "" if gone.
func goStatus(id int64) string {
	stackMu.Lock()
	defer stackMu.Unlock()
	for {
		n := runtime.Stack(stackBuf, true)
		if n < len(stackBuf) {
			key := []byte("goroutine " + strconv.FormatInt(id, 10) + " [")
			b := stackBuf[:n]
			for {
				i := bytes.Index(b, key)
				if i < 0 {
					return ""
				}
				if i == 0 || b[i-1] == '\n' {
					rest := b[i+len(key):]
					j := bytes.IndexAny(rest, ",]")
					return string(rest[:j])
				}
				b = b[i+len(key):]
			}
		}
		stackBuf = make([]byte, 2*len(stackBuf))
	}
}

// ---------------------------------------------------------------- controller

type ctl struct {
	id     int
	fn     func(context.Context) (int64, error)
	ctx    context.Context
	cancel context.CancelFunc

	calls  chan struct{}
	events chan Obs
	resume chan struct{}
	quit   chan struct{}
	done   chan struct{}
	gid    int64
	ready  chan struct{}

	// holdPrepark: stop this goroutine at `pubsub.wait.before-cond-wait` (it then holds the container's
	// mutex, between its ctx.Done() check and cond.Wait) until released.
	holdPrepark atomic.Bool
}

var registry sync.Map // goid -> *ctl

// yieldHook is installed once with pubsub.SetVerifYieldHook.
func yieldHook(name string) {
	switch name {
	case "pubsub.Queue.Producer.unlocked":
		v, ok := registry.Load(goid())
		if !ok {
			return
		}
		c := v.(*ctl)
		c.events <- Obs{Kind: "window"}
		<-c.resume
	case "pubsub.wait.before-cond-wait":
		v, ok := registry.Load(goid())
		if !ok {
			return
		}
		c := v.(*ctl)
		if c.holdPrepark.Load() {
			c.events <- Obs{Kind: "prepark"}
			<-c.resume
		}
	}
}

// helpersSettled waits until no cancellation watcher (`go func(){ <-ctx.Done(); ...Broadcast() }()` spawned by
// waitForNew / element.wait) is still on its way: each of them has exited or is blocked on the container's
// mutex.  Returns how many are blocked on the mutex, or -1 after longWait.
func helpersSettled() int {
	deadline := time.Now().Add(longWait)
	for spin := 0; ; spin++ {
		stackMu.Lock()
		var dump []byte
		for {
			n := runtime.Stack(stackBuf, true)
			if n < len(stackBuf) {
				dump = append([]byte(nil), stackBuf[:n]...)
				break
			}
			stackBuf = make([]byte, 2*len(stackBuf))
		}
		stackMu.Unlock()
		moving, blocked := 0, 0
		for _, g := range bytes.Split(dump, []byte("\n\n")) {
			if !(bytes.Contains(g, []byte(").wait.func1")) || bytes.Contains(g, []byte(").waitForNew.func1"))) {
				continue
			}
			i := bytes.IndexByte(g, '[')
			j := bytes.IndexAny(g, ",]")
			if i < 0 || j < i {
				continue
			}
			// "chan receive" = still waiting for ctx.Done of a context that has not ended (closing the
			// Done channel makes its receivers runnable before cancel() returns); "sync.Mutex.Lock" =
			// parked on the container's mutex; anything else (runnable, running, ...) is on its way
			switch st := string(g[i+1 : j]); st {
			case "sync.Mutex.Lock":
				blocked++
			case "chan receive":
			default:
				moving++
			}
		}
		if moving == 0 {
			return blocked
		}
		if time.Now().After(deadline) {
			return -1
		}
		pause(spin)
	}
}

func newCtl(id int, fn func(context.Context) (int64, error)) *ctl {
	c := &ctl{id: id, fn: fn, calls: make(chan struct{}), events: make(chan Obs, 64), resume: make(chan struct{}),
		quit: make(chan struct{}), done: make(chan struct{}), ready: make(chan struct{})}
	// the deadline is only a safety net (it is longer than every wait of the driver)
	c.ctx, c.cancel = context.WithTimeout(context.Background(), 6*longWait)
	go c.loop()
	<-c.ready
	return c
}

func (c *ctl) loop() {
	defer close(c.done)
	c.gid = goid()
	registry.Store(c.gid, c)
	defer registry.Delete(c.gid)
	close(c.ready)
	for {
		select {
		case <-c.quit:
			return
		case <-c.calls:
			c.events <- c.safeCall()
		}
	}
}

func (c *ctl) safeCall() (o Obs) {
	defer func() {
		if r := recover(); r != nil {
			o = Obs{Kind: "panic", Msg: fmt.Sprint(r)}
		}
	}()
	return classify(c.fn(c.ctx))
}

func (c *ctl) call() { c.calls <- struct{}{} }

func (c *ctl) release() { c.resume <- struct{}{} }

func (c *ctl) stop() {
	c.cancel()
	close(c.quit)
	select {
	case <-c.done:
	case <-time.After(longWait):
	}
}

func pause(spin int) {
	switch {
	case spin < 20:
		runtime.Gosched()
	case spin < 200:
		time.Sleep(20 * time.Microsecond)
	default:
		time.Sleep(time.Millisecond)
	}
}

// settle waits until the goroutine delivers an event or is parked in sync.Cond.Wait.
func (c *ctl) settle() Obs {
	deadline := time.Now().Add(longWait)
	for spin := 0; ; spin++ {
		select {
		case ev := <-c.events:
			return ev
		default:
		}
		if goStatus(c.gid) == "sync.Cond.Wait" {
			select {
			case ev := <-c.events:
				return ev
			default:
			}
			return Obs{Kind: "parked"}
		}
		if time.Now().After(deadline) {
			return Obs{Kind: "hung", Msg: "status=" + goStatus(c.gid)}
		}
		pause(spin)
	}
}

// mustReturn waits for an event only (used after the goroutine's context was
// cancelled: the wake-up comes from an asynchronous helper goroutine, so the
// status says nothing until it has run).  A goroutine that does not return
// within longWait is reported as parked/hung.
func (c *ctl) mustReturn() Obs {
	select {
	case ev := <-c.events:
		return ev
	case <-time.After(longWait):
		if goStatus(c.gid) == "sync.Cond.Wait" {
			return Obs{Kind: "parked", Msg: "no return within 10s"}
		}
		return Obs{Kind: "hung", Msg: "status=" + goStatus(c.gid)}
	}
}
