// Driver for C20: non-destructive Queue/Deque iterators.
//
// Schedule-directed runs of the REAL pubsub.Queue.Producer and
// pubsub.Deque.Producer*/confProducer: the iterator goroutine is stopped at the
// yield point `pubsub.Queue.Producer.unlocked` (between the producer's Unlock
// and its call to waitForNew), Add/Remove/Close/cancel are placed between its
// atomic segments, and after every driver operation the parked iterators are
// settled (see ctl.go).  Every step and what was observed is printed as a Coq
// term (the model re-runs the same schedule, Corr/C20_corr.v) and checked
// against the property's direct oracles, which do not use the model.
package main

import (
	"context"
	"fmt"
	"os"
	"strconv"
	"strings"

	"github.com/tychoish/fun/pubsub"

	"verif/harness/kit"
)

// ---------------------------------------------------------------- cases

type Case struct {
	ID    int      `json:"id"`
	Kind  string   `json:"kind"`            // queue | deque | qshared | stress
	Opt   string   `json:"opt,omitempty"`   // queue: "" unlimited | h1 h2 h3 (hard limit) | quota (hard 3, soft 1, credit 1); deque: "" | c1 c2 c3 (capacity)
	Init  int      `json:"init"`            // items added/pushed (at the back) before the schedule
	Vars  []string `json:"vars"`            // one per iterator; queue: "q"; deque: fwd rev fwdb revb
	Acts  []string `json:"acts"`            // queue: A R C I<i> X<i> W<i>; deque: PB PF OF OB C I<i> X<i> W<i> (W = cancel between ctx check and cond.Wait)
	Fin   string   `json:"fin,omitempty"`   // close | cancel: how still-blocked iterators are released at the end
	Build string   `json:"build,omitempty"` // deque: how the initial contents are made: "" PushBack | pf | fb | ff (Force pushes)
	Sub   int      `json:"sub,omitempty"`   // qshared: 0 = capacity waiter parks first, 1 = iterator parks first
	Seed  uint64   `json:"seed,omitempty"`
}

type Step struct {
	Act string `json:"a"` // add remove close call go cancel pb pf of ob
	I   int    `json:"i"`
	V   int64  `json:"v,omitempty"`
	Ob  Obs    `json:"ob"` // iterator acts: see Obs; add/pb/pf: ok|closed|other; remove/of/ob: some(V)|none
}

func (s Step) String() string {
	switch s.Act {
	case "add", "pb", "pf", "fb", "ff":
		return fmt.Sprintf("%s(%d)->%s%s", s.Act, s.V, s.Ob.Kind, s.Ob.Msg)
	case "remove", "of", "ob":
		if s.Ob.Kind == "some" {
			return fmt.Sprintf("%s->%d", s.Act, s.Ob.V)
		}
		return s.Act + "->none"
	case "close":
		return "close"
	case "len":
		return fmt.Sprintf("len=%d", s.V)
	case "cancel":
		return fmt.Sprintf("cancel(%d)", s.I)
	}
	return fmt.Sprintf("%s(%d)->%s", s.Act, s.I, s.Ob)
}

const (
	phReady = iota
	phWindow
	phParked
	phDead
)

// ---------------------------------------------------------------- queue executor

type exec struct {
	steps []Step
	ctls  []*ctl
	phase []int
}

func (e *exec) emit(act string, i int, v int64, ob Obs) {
	e.steps = append(e.steps, Step{Act: act, I: i, V: v, Ob: ob})
}

func (e *exec) setPhase(i int, ob Obs) {
	switch ob.Kind {
	case "window":
		e.phase[i] = phWindow
	case "parked":
		e.phase[i] = phParked
	case "panic", "hung":
		e.phase[i] = phDead
	default:
		e.phase[i] = phReady
	}
}

// afterOp settles every parked iterator (the operation's Signal/Broadcast has
// already made the woken ones runnable).
func (e *exec) afterOp() {
	for i, c := range e.ctls {
		if e.phase[i] == phParked {
			ob := c.settle()
			e.emit("go", i, 0, ob)
			e.setPhase(i, ob)
		}
	}
}

func (e *exec) advance(i int) {
	c := e.ctls[i]
	switch e.phase[i] {
	case phReady:
		c.call()
		ob := c.settle()
		e.emit("call", i, 0, ob)
		e.setPhase(i, ob)
	case phWindow:
		c.release()
		ob := c.settle()
		e.emit("go", i, 0, ob)
		e.setPhase(i, ob)
	}
}

func (e *exec) cancelIter(i int) {
	c := e.ctls[i]
	c.cancel()
	e.emit("cancel", i, 0, Obs{Kind: "none"})
	if e.phase[i] == phParked {
		ob := c.mustReturn()
		e.emit("go", i, 0, ob)
		e.setPhase(i, ob)
	}
	e.afterOp()
}

// cancelInWindow lets iterator i run until it has decided to park (it is stopped at the yield point
// `pubsub.wait.before-cond-wait`, i.e. after its ctx.Done() check and before cond.Wait, holding the
// container's mutex), cancels its context there, waits until the cancellation watcher has either blocked on
// the mutex or finished, and releases the iterator: it must return the context error.
func (e *exec) cancelInWindow(i int) {
	c := e.ctls[i]
	act := "go"
	switch e.phase[i] {
	case phReady:
		act = "call"
		c.holdPrepark.Store(true)
		c.call()
	case phWindow:
		c.holdPrepark.Store(true)
		c.release()
	default:
		return
	}
	ob := c.settle()
	if ob.Kind == "window" {
		e.emit(act, i, 0, ob)
		act = "go"
		c.release()
		ob = c.settle()
	}
	if ob.Kind != "prepark" {
		c.holdPrepark.Store(false)
		e.emit(act, i, 0, ob)
		e.setPhase(i, ob)
		return
	}
	e.emit(act, i, 0, Obs{Kind: "parked"}) // it has decided to park
	c.cancel()
	e.emit("cancel", i, 0, Obs{Kind: "inwindow"})
	if helpersSettled() < 0 {
		e.emit("note", i, 0, Obs{Kind: "other", Msg: "cancellation watcher neither finished nor blocked within 10s"})
	}
	c.holdPrepark.Store(false)
	c.release()
	ob = c.mustReturn()
	e.emit("go", i, 0, ob)
	e.setPhase(i, ob)
	e.afterOp()
}

// drain calls Next until it stops yielding (bounded).
func (e *exec) drain(i int, bound int) {
	for k := 0; k < bound && e.phase[i] != phDead; k++ {
		switch e.phase[i] {
		case phReady, phWindow:
			e.advance(i)
		case phParked:
			return
		}
		last := e.steps[len(e.steps)-1]
		if last.Ob.Kind != "yield" && last.Ob.Kind != "window" {
			return
		}
	}
}

func (e *exec) stopAll() {
	for i, c := range e.ctls {
		if e.phase[i] == phWindow {
			c.cancel()
			c.release()
		}
		c.stop()
	}
}

func newQueue(c Case) *pubsub.Queue[int64] {
	var opts pubsub.QueueOptions
	switch {
	case c.Kind == "qshared":
		opts = pubsub.QueueOptions{HardLimit: 4, SoftQuota: 1, BurstCredit: 3}
	case c.Opt == "h1":
		opts = pubsub.QueueOptions{HardLimit: 1}
	case c.Opt == "h2":
		opts = pubsub.QueueOptions{HardLimit: 2}
	case c.Opt == "h3":
		opts = pubsub.QueueOptions{HardLimit: 3}
	case c.Opt == "quota":
		opts = pubsub.QueueOptions{HardLimit: 3, SoftQuota: 1, BurstCredit: 1}
	default:
		return pubsub.NewUnlimitedQueue[int64]()
	}
	q, err := pubsub.NewQueue[int64](opts)
	if err != nil {
		panic(err)
	}
	return q
}

func idx(code string) int { n, _ := strconv.Atoi(code[1:]); return n }

func runQueue(c Case) []Step {
	q := newQueue(c)
	e := &exec{}
	for i := range c.Vars {
		e.ctls = append(e.ctls, newCtl(i, q.Producer()))
		e.phase = append(e.phase, phReady)
	}
	defer e.stopAll()
	next := int64(0)
	add := func() {
		// every attempt gets its own value, so a rejected one is recognisable if it ever shows up
		next++
		v := next
		err := q.Add(v)
		ob := Obs{Kind: "ok"}
		if err != nil {
			ob = classify(0, err)
		}
		e.emit("add", 0, v, ob)
		e.afterOp()
	}
	remove := func() {
		v, ok := q.Remove()
		if ok {
			e.emit("remove", 0, 0, Obs{Kind: "some", V: v})
		} else {
			e.emit("remove", 0, 0, Obs{Kind: "none"})
		}
		e.afterOp()
	}
	closeq := func() {
		_ = q.Close()
		e.emit("close", 0, 0, Obs{Kind: "none"})
		e.afterOp()
	}

	var capw *ctl
	if c.Kind == "qshared" {
		// a capacity waiter sharing q.nupdates with the iterator: after Add(1) the soft quota (1) is
		// reached, so BlockingAdd parks, while a plain Add still succeeds on burst credit.
		add()
		capw = newCtl(100, func(ctx context.Context) (int64, error) { return 0, q.BlockingAdd(ctx, 99) })
		defer capw.stop()
		park := func() {
			capw.call()
			if ob := capw.settle(); ob.Kind != "parked" {
				e.emit("note", 100, 0, Obs{Kind: "other", Msg: "BlockingAdd did not park: " + ob.String()})
			}
		}
		if c.Sub == 0 {
			park()
		}
		e.advance(0) // yields 1
		e.advance(0) // window
		e.advance(0) // parks in waitForNew
		if c.Sub != 0 {
			park()
		}
		add() // succeeds on burst credit; the iterator must now deliver 2
		add()
	} else {
		for k := 0; k < c.Init; k++ {
			add()
		}
	}
	for _, a := range c.Acts {
		switch a[0] {
		case 'A':
			add()
		case 'R':
			remove()
		case 'C':
			closeq()
		case 'I':
			if i := idx(a); i < len(e.ctls) {
				e.advance(i)
			}
		case 'X':
			if i := idx(a); i < len(e.ctls) {
				e.cancelIter(i)
			}
		case 'W':
			if i := idx(a); i < len(e.ctls) {
				e.cancelInWindow(i)
			}
		}
	}
	// ---- final phase: let everybody reach a stable point, then release and drain
	for i := range e.ctls {
		if e.phase[i] == phWindow {
			e.advance(i)
		}
	}
	if c.Fin == "cancel" {
		for i := range e.ctls {
			if e.phase[i] == phParked {
				e.cancelIter(i)
			}
		}
	}
	e.emit("len", 0, int64(q.Len()), Obs{Kind: "none"})
	closeq()
	if capw != nil {
		// BlockingAdd does not re-check `closed` in its wait loop (outside C20: reported to C05/C07);
		// release it through its context.
		capw.cancel()
		if ob := capw.mustReturn(); !ob.returned() {
			e.emit("note", 100, 0, Obs{Kind: "other", Msg: "BlockingAdd did not return after Close+cancel: " + ob.String()})
		}
	}
	for i := range e.ctls {
		e.drain(i, int(next)+3)
	}
	for k := 0; k < int(next)+1; k++ {
		v, ok := q.Remove()
		if !ok {
			e.emit("remove", 0, 0, Obs{Kind: "none"})
			break
		}
		e.emit("remove", 0, 0, Obs{Kind: "some", V: v})
	}
	return e.steps
}

// ---------------------------------------------------------------- queue oracle (direct, from the property text)

type fail struct {
	sig, detail string
	step        int
}

func queueOracle(c Case, steps []Step) *fail {
	n := len(c.Vars)
	// positions: the k-th ACCEPTED value has position k (1-based); all bookkeeping is over positions
	nAdded, nRemoved := int64(0), int64(0)
	posOf := map[int64]int64{}
	valAt := map[int64]int64{}
	rejected := map[int64]string{}
	removedAt := map[int64]int{}
	closed := false
	started := make([]bool, n)
	startFront := make([]int64, n)
	last := make([]int64, n) // position of the last yielded value
	cancelled := make([]bool, n)
	inWindow := make([]bool, n)
	who := "Queue.Producer"
	cursor := func(i int) int64 {
		if last[i] > startFront[i] {
			return last[i]
		}
		return startFront[i]
	}
	liveUnseen := func(i int) int64 {
		lo := cursor(i)
		if !started[i] {
			lo = nRemoved
		}
		for x := lo + 1; x <= nAdded; x++ {
			if _, rm := removedAt[x]; !rm {
				return x
			}
		}
		return 0
	}
	cursorRemoved := func(i int) bool {
		_, rm := removedAt[last[i]]
		return last[i] > 0 && rm
	}
	for t, s := range steps {
		switch s.Act {
		case "add":
			switch {
			case s.Ob.Kind == "ok":
				nAdded++
				posOf[s.V] = nAdded
				valAt[nAdded] = s.V
			case s.Ob.Kind == "closed" && closed:
				rejected[s.V] = "closed"
			case (s.Ob.Kind == "full" || s.Ob.Kind == "nocredit") && !closed && (c.Opt != "" || c.Kind == "qshared"):
				rejected[s.V] = s.Ob.Kind
			default:
				return &fail{"C20:Queue.Add:unexpected-error", fmt.Sprintf("Add reported %s", s.Ob), t}
			}
		case "remove":
			if s.Ob.Kind == "some" {
				nRemoved++
				removedAt[nRemoved] = t
				if posOf[s.Ob.V] != nRemoved {
					return &fail{"C20:iterator:destructive", fmt.Sprintf("Remove returned %d, expected %d (an iterator changed the queue?)", s.Ob.V, valAt[nRemoved]), t}
				}
			} else if nRemoved != nAdded {
				return &fail{"C20:iterator:destructive", fmt.Sprintf("Remove reported empty with %d items left", nAdded-nRemoved), t}
			}
		case "len":
			if s.V != nAdded-nRemoved {
				return &fail{"C20:iterator:destructive", fmt.Sprintf("Len=%d, expected %d", s.V, nAdded-nRemoved), t}
			}
		case "close":
			closed = true
		case "cancel":
			cancelled[s.I] = true
			inWindow[s.I] = s.Ob.Kind == "inwindow"
		case "note":
			return &fail{"C20:harness:note", s.Ob.Msg, t}
		case "call", "go":
			i := s.I
			if s.Act == "call" && !started[i] {
				started[i] = true
				startFront[i] = nRemoved
			}
			switch s.Ob.Kind {
			case "yield":
				v := s.Ob.V
				pv, ok := posOf[v]
				if !ok {
					why := "which was never added"
					if r, was := rejected[v]; was {
						why = "whose Add was rejected (" + r + "): it was never in the queue"
					}
					return &fail{"C20:iterator:invented", fmt.Sprintf("iterator %d yielded %d, %s", i, v, why), t}
				}
				if pv <= startFront[i] {
					return &fail{"C20:iterator:invented", fmt.Sprintf("iterator %d yielded %d, which had left the queue before the iterator started", i, v), t}
				}
				if pv <= last[i] {
					return &fail{"C20:" + who + ":duplicate", fmt.Sprintf("iterator %d yielded %d after %d", i, v, valAt[last[i]]), t}
				}
				for x := cursor(i) + 1; x < pv; x++ {
					if _, rm := removedAt[x]; !rm {
						return &fail{"C20:" + who + ":skipped", fmt.Sprintf("iterator %d yielded %d but never yielded %d, which was not removed", i, v, valAt[x]), t}
					}
				}
				last[i] = pv
			case "eof", "closed":
				if !closed {
					return &fail{"C20:" + who + ":premature-eof", fmt.Sprintf("iterator %d finished (%s) although the queue is not closed", i, s.Ob.Kind), t}
				}
				if x := liveUnseen(i); x != 0 {
					return &fail{"C20:" + who + ":skipped", fmt.Sprintf("iterator %d finished (%s) without yielding %d", i, s.Ob.Kind, valAt[x]), t}
				}
			case "ctx":
				if !cancelled[i] {
					return &fail{"C20:iterator:spurious-ctx-error", fmt.Sprintf("iterator %d returned a context error but was not cancelled", i), t}
				}
			case "panic":
				if cursorRemoved(i) {
					return &fail{"C20:" + who + ":cursor-removed", fmt.Sprintf("iterator %d panicked after the entry it stands on (%d) was removed: %s", i, valAt[last[i]], s.Ob.Msg), t}
				}
				return &fail{"C20:iterator:panic", fmt.Sprintf("iterator %d panicked: %s", i, s.Ob.Msg), t}
			case "parked":
				switch {
				case closed:
					return &fail{"C20:" + who + ":no-eof", fmt.Sprintf("iterator %d is still blocked after Close", i), t}
				case cancelled[i] && inWindow[i]:
					return &fail{"C20:" + who + ":cancel-lost", fmt.Sprintf("iterator %d: its context ended between its ctx.Done() check and cond.Wait; it is still parked 10s later", i), t}
				case cancelled[i]:
					return &fail{"C20:iterator:stuck-after-cancel", fmt.Sprintf("iterator %d is still blocked after its context was cancelled", i), t}
				}
				if x := liveUnseen(i); x != 0 {
					cls := "blocked-with-unseen"
					if cursorRemoved(i) {
						cls = "cursor-removed"
					} else if c.Kind == "qshared" {
						cls = "blocked-with-unseen-shared-cond"
					}
					return &fail{"C20:" + who + ":" + cls, fmt.Sprintf("iterator %d is blocked at quiescence while item %d is in the queue and unseen (last yielded %d)", i, valAt[x], valAt[last[i]]), t}
				}
			case "window":
			case "hung":
				return &fail{"C20:iterator:hung", fmt.Sprintf("iterator %d neither returned nor parked within 10s (%s)", i, s.Ob.Msg), t}
			default:
				return &fail{"C20:iterator:other-error", fmt.Sprintf("iterator %d: %s %s", i, s.Ob.Kind, s.Ob.Msg), t}
			}
		}
	}
	if nRemoved != nAdded {
		return &fail{"C20:iterator:destructive", "final drain did not return every remaining item", len(steps)}
	}
	return nil
}

// ---------------------------------------------------------------- Coq terms

func coqRes(o Obs) string {
	switch o.Kind {
	case "yield":
		return "(RYield " + kit.Z(o.V) + ")"
	case "eof":
		return "REOF"
	case "closed":
		return "RClosed"
	case "ctx":
		return "RCtx"
	case "panic":
		return "RPanic"
	case "window":
		return "RWindow"
	case "parked":
		return "RParked"
	}
	return "RHung"
}

func coqSteps(kind string, steps []Step) string {
	var out []string
	p := "Q"
	if kind == "deque" {
		p = "D"
	}
	for _, s := range steps {
		var a, o string
		switch s.Act {
		case "add":
			a, o = "QAdd "+kit.Z(s.V), "ObAdd "+kit.Bool(s.Ob.Kind == "ok")
			if s.Ob.Kind == "full" || s.Ob.Kind == "nocredit" {
				a = "QAddRej " + kit.Z(s.V) // the tracker's verdict is an input of the model's step
			}
		case "pb":
			a, o = "DPushBack "+kit.Z(s.V), "ObAdd "+kit.Bool(s.Ob.Kind == "ok")
			if s.Ob.Kind == "full" || s.Ob.Kind == "nocredit" {
				a = "DPushRej " + kit.Z(s.V)
			}
		case "pf":
			a, o = "DPushFront "+kit.Z(s.V), "ObAdd "+kit.Bool(s.Ob.Kind == "ok")
			if s.Ob.Kind == "full" || s.Ob.Kind == "nocredit" {
				a = "DPushRej " + kit.Z(s.V)
			}
		case "fb", "ff":
			a = "DForcePush " + kit.Z(s.V) + " " + kit.Bool(s.Act == "fb") + " " + kit.Bool(s.Ob.Msg == "full")
			o = "ObAdd " + kit.Bool(s.Ob.Kind == "ok")
		case "remove", "of", "ob":
			a = map[string]string{"remove": "QRemove", "of": "DPopFront", "ob": "DPopBack"}[s.Act]
			o = "ObRem " + kit.OptZ(s.Ob.V, s.Ob.Kind == "some")
		case "close":
			a, o = p+"Close", "ObUnit"
		case "cancel":
			a, o = p+"Cancel "+kit.Nat(s.I), "ObUnit"
		case "call":
			a, o = p+"Call "+kit.Nat(s.I), "ObIt "+coqRes(s.Ob)
		case "go":
			a, o = p+"Go "+kit.Nat(s.I), "ObIt "+coqRes(s.Ob)
		case "len":
			a, o = p+"Len", "ObLen "+kit.Z(s.V)
		default:
			continue
		}
		out = append(out, "("+a+", "+o+")")
	}
	return kit.List(out)
}

func coqVars(vs []string) string {
	m := map[string]string{"fwd": "VFwd", "rev": "VRev", "fwdb": "VFwdB", "revb": "VRevB"}
	s := make([]string, len(vs))
	for i, v := range vs {
		s[i] = m[v]
	}
	return kit.List(s)
}

// ---------------------------------------------------------------- running one case

var failures int

func execCase(run *kit.Run, c Case, verbose bool) {
	var steps []Step
	var f *fail
	var term string
	switch c.Kind {
	case "queue", "qshared":
		steps = runQueue(c)
		f = queueOracle(c, steps)
		term = fmt.Sprintf("CQ %s %s", kit.ZI(c.ID), coqSteps("queue", steps))
	case "deque":
		steps = runDeque(c)
		f = dequeOracle(c, steps)
		term = fmt.Sprintf("CD %s %s %s", kit.ZI(c.ID), coqVars(c.Vars), coqSteps("deque", steps))
	case "stress":
		f = runStress(c)
	}
	if verbose {
		fmt.Printf("case %d kind=%s opt=%q build=%q vars=%v init=%d acts=%v fin=%s\n", c.ID, c.Kind, c.Opt, c.Build, c.Vars, c.Init, c.Acts, c.Fin)
		for t, s := range steps {
			fmt.Printf("  %2d %s\n", t, s)
		}
		if f != nil {
			fmt.Printf("ORACLE: %s at step %d: %s\n", f.sig, f.step, f.detail)
		} else {
			fmt.Println("ORACLE: ok")
		}
	}
	if f != nil {
		failures++
		var impl []string
		for _, s := range steps {
			impl = append(impl, s.String())
		}
		run.OracleFail(c.ID, f.sig, fmt.Sprintf("step %d: %s", f.step, f.detail), c, impl)
	}
	nIter, nOps, nontriv := 0, 0, false
	for _, s := range steps {
		switch s.Act {
		case "call", "go":
			nIter++
			if s.Ob.Kind == "parked" || s.Ob.Kind == "window" {
				nontriv = true
			}
		case "add", "remove", "pb", "pf", "fb", "ff", "of", "ob", "close", "cancel":
			nOps++
		}
	}
	if c.Kind == "stress" {
		nontriv = true
	}
	run.Count(c.Kind + c.Opt + "/" + strings.Join(c.Vars, "+"))
	run.Count(fmt.Sprintf("%s/acts=%d", c.Kind, len(c.Acts)))
	for _, s := range steps {
		if s.Act == "call" || s.Act == "go" {
			run.Count("obs/" + s.Ob.Kind)
		}
	}
	key := fmt.Sprintf("%s|%s|%s|%v|%d|%v|%s|%d|%d", c.Kind, c.Opt, c.Build, c.Vars, c.Init, c.Acts, c.Fin, c.Sub, c.Seed)
	run.Case(c.ID, c, term, key, nontriv)
}

// ---------------------------------------------------------------- generation

func enumerate(alpha []string, maxLen int, f func([]string)) {
	var rec func(cur []string)
	rec = func(cur []string) {
		f(append([]string(nil), cur...))
		if len(cur) == maxLen {
			return
		}
		for _, a := range alpha {
			rec(append(cur, a))
		}
	}
	rec(nil)
}

func randActs(r *kit.Rand, alpha []string, lo, hi int) []string {
	n := r.Range(lo, hi)
	out := make([]string, n)
	for i := range out {
		out[i] = alpha[r.Intn(len(alpha))]
	}
	return out
}

const maxFailures = 6 // enough evidence; a broken tree would otherwise spend its time re-finding the same defect

func main() {
	run := kit.Start()
	run.Header = "From FunV Require Import Base.Tac Corr.C20_corr."
	run.Footer = "Definition M := Eval vm_compute in mismatches cases.\nPrint M."
	run.CaseType = "case"
	run.Rule = "schedule-directed runs of the real Queue.Producer / Deque.Producer* (1-3 iterators): initial contents 0..3 x every string over {iterator step, Add/Push, Remove/Pop, Close} up to a length bound on unlimited queues/deques and on bounded queues (hard limit 1..3, quota+credit; every Add attempt has its own value, rejected Adds included), bounded deques (capacity 1..3) built and changed by ForcePushFront/ForcePushBack (full and not full) and pushes/pops at both ends, cancellation placed between the waiter's ctx check and cond.Wait (yield point pubsub.wait.before-cond-wait) (iterator steps split at the pubsub.Queue.Producer.unlocked yield point), random longer schedules incl. cancellation and several iterators, the shared-cond scenario, and randomized concurrent stress; distinct = distinct (kind, variants, init, schedule, release mode); non-trivial = some iterator step stopped in the unlocked window or parked"
	pubsub.SetVerifYieldHook(yieldHook)

	if run.Replay != "" {
		var c Case
		if err := kit.ReadReplayCase(run.Replay, &c); err != nil {
			panic(err)
		}
		execCase(run, c, true)
		run.Finish()
		return
	}

	id := 0
	emit := func(c Case) {
		if failures >= maxFailures {
			return
		}
		c.ID = id
		id++
		if c.Fin == "" {
			c.Fin = "close"
			if c.ID%3 == 1 {
				c.Fin = "cancel"
			}
		}
		execCase(run, c, false)
	}

	// ---- corpus: the schedules behind the defects found so far; they always run first
	Q := []string{"q"}
	corpus := []Case{
		// #11: the only element is removed while the iterator waits; then a later Add
		{Kind: "queue", Vars: Q, Acts: []string{"A", "I0", "I0", "I0", "R", "A", "I0"}},
		// Remove-to-empty inside the unlocked window, then Add
		{Kind: "queue", Vars: Q, Acts: []string{"A", "I0", "I0", "R", "I0", "A"}},
		// Add inside the unlocked window
		{Kind: "queue", Vars: Q, Acts: []string{"A", "I0", "I0", "A", "I0"}},
		// cursor one behind the entry being removed
		{Kind: "queue", Vars: Q, Acts: []string{"A", "I0", "A", "R", "R", "I0", "A", "I0"}},
		{Kind: "queue", Vars: Q, Acts: []string{"I0", "A", "R", "I0", "A", "I0", "I0"}},
		// Close while parked / in the window; cancel while parked
		{Kind: "queue", Vars: Q, Acts: []string{"I0", "I0", "C"}},
		{Kind: "queue", Vars: Q, Acts: []string{"I0", "C", "I0"}},
		{Kind: "queue", Vars: Q, Acts: []string{"A", "I0", "I0", "I0", "X0"}},
		// two iterators parked on the same cond, one Add
		{Kind: "queue", Vars: []string{"q", "q"}, Acts: []string{"I0", "I1", "I0", "I1", "A", "A"}},
		// #20: nupdates shared with a capacity waiter
		{Kind: "qshared", Vars: Q, Sub: 0},
		{Kind: "qshared", Vars: Q, Sub: 1},
		// #19: blocking deque producer at the tail, push at the far end
		{Kind: "deque", Vars: []string{"fwdb"}, Acts: []string{"PB", "I0", "I0", "PB"}},
		{Kind: "deque", Vars: []string{"revb"}, Acts: []string{"PF", "I0", "I0", "PF"}},
		{Kind: "deque", Vars: []string{"fwdb"}, Acts: []string{"I0", "C"}},
		{Kind: "deque", Vars: []string{"fwdb"}, Acts: []string{"PB", "I0", "I0", "OF", "PB"}},
		{Kind: "deque", Vars: []string{"fwd", "rev"}, Init: 3, Acts: []string{"I0", "I1", "I0", "I1", "I0", "I1", "I0", "I1"}},
		// a rejected Add (hard limit / no burst credit) must stay invisible: iterator at the tail, then a later accepted Add
		{Kind: "queue", Opt: "h1", Vars: Q, Acts: []string{"A", "A", "I0", "I0", "I0", "R", "A", "I0"}},
		{Kind: "queue", Opt: "h1", Vars: Q, Acts: []string{"A", "I0", "I0", "I0", "A", "R", "A"}},
		{Kind: "queue", Opt: "h2", Vars: Q, Acts: []string{"A", "A", "I0", "I0", "I0", "A", "I0", "R", "A", "I0"}},
		{Kind: "queue", Opt: "quota", Vars: Q, Acts: []string{"A", "A", "A", "I0", "I0", "I0", "I0", "R", "R", "A"}},
		// Force pushes on a full deque of capacity 1 / 2: evict at the far end, then insert; a fresh iterator afterwards
		{Kind: "deque", Opt: "c1", Build: "fb", Vars: []string{"fwd", "rev", "fwdb"}, Init: 2, Acts: []string{"I0", "I0", "I1", "I1", "I2", "I2"}},
		{Kind: "deque", Opt: "c1", Build: "ff", Vars: []string{"fwd", "rev", "revb"}, Init: 2, Acts: []string{"I0", "I0", "I1", "I1", "I2", "I2"}},
		{Kind: "deque", Opt: "c2", Build: "fb", Vars: []string{"fwd", "rev"}, Init: 3, Acts: []string{"FF", "I0", "I1", "I0", "I1", "I0", "I1"}},
		{Kind: "deque", Opt: "c1", Vars: []string{"fwdb"}, Acts: []string{"PB", "PB", "I0", "I0", "FB", "FB"}},
		// the context ends between the waiter's ctx.Done() check and cond.Wait
		{Kind: "queue", Vars: Q, Acts: []string{"I0", "W0"}},
		{Kind: "queue", Vars: Q, Init: 1, Acts: []string{"I0", "I0", "W0"}},
		{Kind: "deque", Vars: []string{"fwdb"}, Acts: []string{"W0"}},
		{Kind: "deque", Vars: []string{"revb"}, Init: 1, Acts: []string{"I0", "W0"}},
		{Kind: "deque", Vars: []string{"fwdb", "fwdb"}, Init: 1, Acts: []string{"I0", "I1", "I1", "W0"}},
	}
	for _, c := range corpus {
		emit(c)
	}

	// ---- exhaustive small schedules, one iterator
	qAlpha := []string{"I0", "A", "R", "C"}
	for init := 0; init <= 3; init++ {
		enumerate(qAlpha, run.Pick(5, 7), func(acts []string) {
			emit(Case{Kind: "queue", Vars: Q, Init: init, Acts: acts})
		})
	}
	// bounded queues: rejected Adds interleaved at every segment boundary
	for _, opt := range []string{"h1", "h2", "h3", "quota"} {
		for init := 0; init <= 2; init++ {
			enumerate(qAlpha, run.Pick(4, 6), func(acts []string) {
				emit(Case{Kind: "queue", Opt: opt, Vars: Q, Init: init, Acts: acts})
			})
		}
	}
	dAlpha := []string{"I0", "PB", "PF", "OF", "OB", "C"}
	for _, v := range []string{"fwd", "rev", "fwdb", "revb"} {
		for init := 0; init <= 3; init++ {
			enumerate(dAlpha, run.Pick(3, 5), func(acts []string) {
				emit(Case{Kind: "deque", Vars: []string{v}, Init: init, Acts: acts})
			})
		}
	}

	// bounded deques, contents built and changed by Force pushes (full and not full) and pushes/pops at both ends
	fAlpha := []string{"I0", "PB", "PF", "FB", "FF", "OF", "OB", "C"}
	for _, opt := range []string{"c1", "c2", "c3"} {
		for _, v := range []string{"fwd", "rev", "fwdb", "revb"} {
			for _, bld := range []string{"fb", "ff"} {
				for init := 0; init <= 3; init++ {
					enumerate(fAlpha, run.Pick(2, 3), func(acts []string) {
						emit(Case{Kind: "deque", Opt: opt, Build: bld, Vars: []string{v}, Init: init, Acts: acts})
					})
				}
			}
		}
	}

	// ---- random longer schedules: several iterators, cancellation
	nq := run.Pick(500, 20000)
	for k := 0; k < nq; k++ {
		r := run.Rand.Fork()
		ni := r.Range(1, 3)
		vars := make([]string, ni)
		alpha := []string{"A", "A", "R", "C"}
		for i := range vars {
			vars[i] = "q"
			alpha = append(alpha, "I"+strconv.Itoa(i), "I"+strconv.Itoa(i))
		}
		if r.Chance(1, 2) {
			alpha = alpha[:3] // no Close inside the schedule
		}
		if r.Chance(1, 3) {
			alpha = append(alpha, "X"+strconv.Itoa(r.Intn(ni)))
		}
		if r.Chance(1, 3) {
			alpha = append(alpha, "W"+strconv.Itoa(r.Intn(ni)))
		}
		opt := ""
		if r.Chance(1, 2) {
			opt = []string{"h1", "h2", "h3", "quota"}[r.Intn(4)]
		}
		emit(Case{Kind: "queue", Opt: opt, Vars: vars, Init: r.Intn(4), Acts: randActs(r, alpha, 4, 14)})
	}
	nd := run.Pick(1200, 30000)
	dv := []string{"fwd", "rev", "fwdb", "revb"}
	for k := 0; k < nd; k++ {
		r := run.Rand.Fork()
		ni := r.Range(1, 3)
		vars := make([]string, ni)
		alpha := []string{"PB", "PB", "PF", "PF", "C"}
		for i := range vars {
			vars[i] = dv[r.Intn(4)]
			alpha = append(alpha, "I"+strconv.Itoa(i), "I"+strconv.Itoa(i))
		}
		if r.Chance(1, 2) {
			alpha = alpha[:4]
		}
		if r.Chance(1, 2) {
			alpha = append(alpha, "OF", "OB")
		}
		if r.Chance(1, 3) {
			alpha = append(alpha, "X"+strconv.Itoa(r.Intn(ni)))
		}
		if r.Chance(1, 3) {
			alpha = append(alpha, "W"+strconv.Itoa(r.Intn(ni)))
		}
		opt, bld := "", ""
		if r.Chance(2, 3) {
			opt = []string{"c1", "c2", "c3"}[r.Intn(3)]
		}
		if r.Chance(2, 3) {
			alpha = append(alpha, "FB", "FF")
			bld = []string{"", "pf", "fb", "ff"}[r.Intn(4)]
		}
		emit(Case{Kind: "deque", Opt: opt, Build: bld, Vars: vars, Init: r.Intn(4), Acts: randActs(r, alpha, 4, 14)})
	}

	// ---- randomized concurrent stress (safety oracles only)
	ns := run.Pick(120, 3000)
	sv := []string{"q", "qi", "fwd", "rev", "fwdb", "revb", "di", "dir"}
	for k := 0; k < ns; k++ {
		r := run.Rand.Fork()
		ni := r.Range(1, 3)
		vars := make([]string, ni)
		base := r.Intn(2) // 0: queue, 1: deque
		for i := range vars {
			if base == 0 {
				vars[i] = sv[r.Intn(2)]
			} else {
				vars[i] = sv[2+r.Intn(6)]
			}
		}
		emit(Case{Kind: "stress", Vars: vars, Init: r.Intn(4), Seed: r.U64(), Fin: "close"})
	}
	if failures >= maxFailures {
		fmt.Fprintf(os.Stderr, "c20: stopped generating after %d oracle failures\n", failures)
	}
	run.Finish()
}
