package main

import (
	"context"
	"fmt"
	"sync"
	"time"

	"github.com/tychoish/fun"
	"github.com/tychoish/fun/pubsub"

	"verif/harness/kit"
)

func dequeProducer(dq *pubsub.Deque[int64], v string) fun.Producer[int64] {
	switch v {
	case "fwd":
		return dq.Producer()
	case "rev":
		return dq.ProducerReverse()
	case "fwdb":
		return dq.ProducerBlocking()
	case "revb":
		return dq.ProducerReverseBlocking()
	case "di":
		return dq.Iterator().ReadOne
	case "dir":
		return dq.IteratorReverse().ReadOne
	}
	panic("unknown variant " + v)
}

func runDeque(c Case) []Step {
	dq := pubsub.NewUnlimitedDeque[int64]()
	capacity := 0
	if len(c.Opt) == 2 && c.Opt[0] == 'c' {
		capacity = int(c.Opt[1] - '0')
		var err error
		if dq, err = pubsub.NewDeque[int64](pubsub.DequeOptions{Capacity: capacity}); err != nil {
			panic(err)
		}
	}
	e := &exec{}
	for i, v := range c.Vars {
		p := dequeProducer(dq, v)
		e.ctls = append(e.ctls, newCtl(i, func(ctx context.Context) (int64, error) { return p(ctx) }))
		e.phase = append(e.phase, phReady)
	}
	defer e.stopAll()
	next := int64(0)
	push := func(back bool) {
		next++ // every attempt has its own value
		v := next
		var err error
		act := "pf"
		if back {
			act = "pb"
			err = dq.PushBack(v)
		} else {
			err = dq.PushFront(v)
		}
		ob := Obs{Kind: "ok"}
		if err != nil {
			ob = classify(0, err)
		}
		e.emit(act, 0, v, ob)
		e.afterOp()
	}
	force := func(back bool) {
		next++
		v := next
		// the outcome of `dq.tracker.cap() == dq.tracker.len()` is an input of the model's step
		full := capacity > 0 && dq.Len() == capacity
		var err error
		act := "ff"
		if back {
			act = "fb"
			err = dq.ForcePushBack(v)
		} else {
			err = dq.ForcePushFront(v)
		}
		ob := Obs{Kind: "ok"}
		if err != nil {
			ob = classify(0, err)
		}
		if full {
			ob.Msg = "full"
		}
		e.emit(act, 0, v, ob)
		e.afterOp()
	}
	pop := func(back bool) {
		var v int64
		var ok bool
		act := "of"
		if back {
			act = "ob"
			v, ok = dq.PopBack()
		} else {
			v, ok = dq.PopFront()
		}
		if ok {
			e.emit(act, 0, 0, Obs{Kind: "some", V: v})
		} else {
			e.emit(act, 0, 0, Obs{Kind: "none"})
		}
		e.afterOp()
	}
	closed := false
	closeq := func() {
		_ = dq.Close()
		closed = true
		e.emit("close", 0, 0, Obs{Kind: "none"})
		e.afterOp()
	}
	for k := 0; k < c.Init; k++ {
		switch c.Build {
		case "pf":
			push(false)
		case "fb":
			force(true)
		case "ff":
			force(false)
		default:
			push(true)
		}
	}
	for _, a := range c.Acts {
		switch a {
		case "PB":
			push(true)
		case "PF":
			push(false)
		case "FB":
			force(true)
		case "FF":
			force(false)
		case "OF":
			pop(false)
		case "OB":
			pop(true)
		case "C":
			closeq()
		default:
			i := idx(a)
			if i >= len(e.ctls) {
				continue
			}
			switch a[0] {
			case 'I':
				e.advance(i)
			case 'X':
				e.cancelIter(i)
			case 'W':
				e.cancelInWindow(i)
			}
		}
	}
	if c.Fin == "cancel" {
		for i := range e.ctls {
			if e.phase[i] == phParked {
				e.cancelIter(i)
			}
		}
	}
	e.emit("len", 0, int64(dq.Len()), Obs{Kind: "none"})
	if !closed {
		// what is left, front to back (pop fails once the deque is closed)
		for k := 0; k < int(next)+1; k++ {
			v, ok := dq.PopFront()
			if !ok {
				e.emit("of", 0, 0, Obs{Kind: "none"})
				break
			}
			e.emit("of", 0, 0, Obs{Kind: "some", V: v})
			e.afterOp()
		}
	}
	closeq()
	for i := range e.ctls {
		e.drain(i, int(next)+3)
	}
	return e.steps
}

// ---------------------------------------------------------------- deque oracle (direct)

func indexOf(l []int64, v int64) int {
	for i, x := range l {
		if x == v {
			return i
		}
	}
	return -1
}

func dequeOracle(c Case, steps []Step) *fail {
	n := len(c.Vars)
	capacity := 0
	if len(c.Opt) == 2 && c.Opt[0] == 'c' {
		capacity = int(c.Opt[1] - '0')
	}
	var contents []int64
	pushed := map[int64]bool{}
	poppedAt := map[int64]int{}
	closed := false
	started := make([]bool, n)
	startT := make([]int, n)
	last := make([]int64, n) // 0 = the cursor is the root
	relaxed := make([]bool, n)
	cancelled := make([]bool, n)
	inWindow := make([]bool, n)
	finished := make([]bool, n)
	rev := func(i int) bool { return c.Vars[i] == "rev" || c.Vars[i] == "revb" }
	blocking := func(i int) bool { return c.Vars[i] == "fwdb" || c.Vars[i] == "revb" }
	// the value that follows the cursor in container order (0: the cursor is at the end)
	succ := func(i int) int64 {
		if last[i] == 0 {
			if len(contents) == 0 {
				return 0
			}
			if rev(i) {
				return contents[len(contents)-1]
			}
			return contents[0]
		}
		k := indexOf(contents, last[i])
		if k < 0 {
			return -1
		}
		if rev(i) {
			k--
		} else {
			k++
		}
		if k < 0 || k >= len(contents) {
			return 0
		}
		return contents[k]
	}
	for t, s := range steps {
		who := "Deque.Producer"
		switch s.Act {
		case "pb", "pf", "fb", "ff":
			force := s.Act == "fb" || s.Act == "ff"
			back := s.Act == "pb" || s.Act == "fb"
			switch {
			case s.Ob.Kind == "ok":
				if force {
					isFull := capacity > 0 && len(contents) == capacity
					if isFull != (s.Ob.Msg == "full") {
						return &fail{"C20:iterator:destructive", fmt.Sprintf("Len()==cap was %v before %s, expected %v", s.Ob.Msg == "full", s.Act, isFull), t}
					}
					if isFull { // evict at the opposite end: a removal
						var x int64
						if back {
							x, contents = contents[0], contents[1:]
						} else {
							x, contents = contents[len(contents)-1], contents[:len(contents)-1]
						}
						poppedAt[x] = t
						for i := range relaxed {
							if started[i] {
								relaxed[i] = true
							}
						}
					}
				} else if capacity > 0 && len(contents) >= capacity {
					return &fail{"C20:Deque.Push:unexpected-error", fmt.Sprintf("push accepted beyond capacity %d", capacity), t}
				}
				pushed[s.V] = true
				if back {
					contents = append(contents, s.V)
				} else {
					contents = append([]int64{s.V}, contents...)
				}
			case s.Ob.Kind == "closed" && closed:
			case s.Ob.Kind == "full" && !force && !closed && capacity > 0 && len(contents) >= capacity:
			default:
				return &fail{"C20:Deque.Push:unexpected-error", fmt.Sprintf("%s reported %s", s.Act, s.Ob), t}
			}
		case "of", "ob":
			if s.Ob.Kind == "some" {
				var want int64
				if len(contents) > 0 {
					if s.Act == "of" {
						want, contents = contents[0], contents[1:]
					} else {
						want, contents = contents[len(contents)-1], contents[:len(contents)-1]
					}
				}
				if want != s.Ob.V || closed {
					return &fail{"C20:iterator:destructive", fmt.Sprintf("%s returned %d, expected %d", s.Act, s.Ob.V, want), t}
				}
				poppedAt[s.Ob.V] = t
				for i := range relaxed {
					if started[i] {
						relaxed[i] = true
					}
				}
			} else if len(contents) != 0 && !closed {
				return &fail{"C20:iterator:destructive", fmt.Sprintf("%s reported empty with %d items left", s.Act, len(contents)), t}
			}
		case "len":
			if int(s.V) != len(contents) {
				return &fail{"C20:iterator:destructive", fmt.Sprintf("Len=%d, expected %d", s.V, len(contents)), t}
			}
		case "close":
			closed = true
		case "cancel":
			cancelled[s.I] = true
			inWindow[s.I] = s.Ob.Kind == "inwindow"
		case "note":
			return &fail{"C20:harness:note", s.Ob.Msg, t}
		case "call", "go":
			i := s.I
			if s.Act == "call" && !started[i] {
				started[i] = true
				startT[i] = t
			}
			if !blocking(i) {
				who = "Deque.Iterator"
			}
			switch s.Ob.Kind {
			case "yield":
				v := s.Ob.V
				if !pushed[v] {
					return &fail{"C20:iterator:invented", fmt.Sprintf("iterator %d yielded %d, which was never pushed", i, v), t}
				}
				if pt, was := poppedAt[v]; was && pt < startT[i] {
					return &fail{"C20:iterator:invented", fmt.Sprintf("iterator %d yielded %d, which had left the deque before the iterator started", i, v), t}
				}
				if !relaxed[i] {
					if want := succ(i); want != v {
						return &fail{"C20:" + who + ":order", fmt.Sprintf("iterator %d (%s) yielded %d; the item following its cursor (%d) in %v is %d", i, c.Vars[i], v, last[i], contents, want), t}
					}
				}
				last[i] = v
			case "eof", "closed":
				if blocking(i) && !closed && !relaxed[i] {
					return &fail{"C20:" + who + ":premature-eof", fmt.Sprintf("blocking iterator %d finished (%s) although the deque is not closed", i, s.Ob.Kind), t}
				}
				if !blocking(i) && s.Ob.Kind == "closed" {
					return &fail{"C20:" + who + ":other-error", fmt.Sprintf("non-blocking iterator %d returned ErrQueueClosed", i), t}
				}
				if !relaxed[i] && !finished[i] {
					if want := succ(i); want != 0 {
						return &fail{"C20:" + who + ":skipped", fmt.Sprintf("iterator %d (%s) finished (%s) with its cursor at %d in %v: %d not yielded", i, c.Vars[i], s.Ob.Kind, last[i], contents, want), t}
					}
				}
				finished[i] = true
			case "ctx":
				if !cancelled[i] {
					return &fail{"C20:iterator:spurious-ctx-error", fmt.Sprintf("iterator %d returned a context error but was not cancelled", i), t}
				}
			case "panic":
				return &fail{"C20:iterator:panic", fmt.Sprintf("iterator %d (%s) panicked: %s", i, c.Vars[i], s.Ob.Msg), t}
			case "parked":
				switch {
				case !blocking(i):
					return &fail{"C20:Deque.Iterator:blocked", fmt.Sprintf("non-blocking iterator %d (%s) is blocked", i, c.Vars[i]), t}
				case closed:
					return &fail{"C20:" + who + ":no-eof", fmt.Sprintf("iterator %d is still blocked after Close", i), t}
				case cancelled[i] && inWindow[i]:
					return &fail{"C20:Deque.Producer:cancel-lost", fmt.Sprintf("iterator %d (%s): its context ended between its ctx.Done() check and cond.Wait; it is still parked 10s later", i, c.Vars[i]), t}
				case cancelled[i]:
					return &fail{"C20:iterator:stuck-after-cancel", fmt.Sprintf("iterator %d is still blocked after its context was cancelled", i), t}
				}
				if !relaxed[i] {
					if want := succ(i); want != 0 {
						return &fail{"C20:" + who + ":blocked-with-unseen", fmt.Sprintf("iterator %d (%s) is blocked at quiescence with its cursor at %d in %v: %d is present and unseen", i, c.Vars[i], last[i], contents, want), t}
					}
				}
			case "hung":
				return &fail{"C20:iterator:hung", fmt.Sprintf("iterator %d neither returned nor parked within 10s (%s)", i, s.Ob.Msg), t}
			default:
				return &fail{"C20:iterator:other-error", fmt.Sprintf("iterator %d: %s %s", i, s.Ob.Kind, s.Ob.Msg), t}
			}
		}
	}
	return nil
}

// ---------------------------------------------------------------- randomized concurrent stress

// runStress races adders, removers and a closer against 1..3 iterators.  Only
// the schedule-independent oracles are checked: no panic, nothing invented, the
// queue iterator's values strictly increase (and are complete when nothing is
// removed), everybody returns once the container is closed.
func runStress(c Case) *fail {
	r := kit.NewRand(c.Seed)
	total := int64(r.Range(5, 60))
	withRemove := r.Chance(1, 2)
	isQueue := c.Vars[0] == "q" || c.Vars[0] == "qi"
	var q *pubsub.Queue[int64]
	var dq *pubsub.Deque[int64]
	if isQueue {
		q = pubsub.NewUnlimitedQueue[int64]()
	} else {
		dq = pubsub.NewUnlimitedDeque[int64]()
	}
	ctx, cancel := context.WithTimeout(context.Background(), 6*longWait)
	defer cancel()

	var mu sync.Mutex
	pushed := map[int64]bool{}
	nOK := int64(0)
	push := func(v int64, back bool) {
		var err error
		mu.Lock()
		pushed[v] = true // recorded before the push so that an iterator can never be ahead of the record
		mu.Unlock()
		switch {
		case isQueue:
			err = q.Add(v)
		case back:
			err = dq.PushBack(v)
		default:
			err = dq.PushFront(v)
		}
		mu.Lock()
		if err != nil {
			delete(pushed, v)
		} else {
			nOK++
		}
		mu.Unlock()
	}
	for v := int64(1); v <= int64(c.Init); v++ {
		push(v, true)
	}

	type out struct {
		vals []int64
		end  Obs
	}
	outs := make([]out, len(c.Vars))
	var wg sync.WaitGroup
	for i, v := range c.Vars {
		var p fun.Producer[int64]
		switch v {
		case "q":
			p = q.Producer()
		case "qi":
			p = q.Iterator().ReadOne
		default:
			p = dequeProducer(dq, v)
		}
		wg.Add(1)
		go func(i int, p fun.Producer[int64]) {
			defer wg.Done()
			defer func() {
				if rec := recover(); rec != nil {
					outs[i].end = Obs{Kind: "panic", Msg: fmt.Sprint(rec)}
				}
			}()
			for {
				val, err := p(ctx)
				if err != nil {
					outs[i].end = classify(0, err)
					return
				}
				outs[i].vals = append(outs[i].vals, val)
				if len(outs[i].vals) > 100000 {
					outs[i].end = Obs{Kind: "other", Msg: "does not terminate"}
					return
				}
			}
		}(i, p)
	}

	var ops sync.WaitGroup
	half := int64(c.Init) + (total-int64(c.Init))/2
	adder := func(lo, hi int64, seed uint64) {
		defer ops.Done()
		rr := kit.NewRand(seed)
		for v := lo; v <= hi; v++ {
			push(v, rr.Chance(3, 4))
			if rr.Chance(1, 4) {
				time.Sleep(time.Duration(rr.Intn(50)) * time.Microsecond)
			}
		}
	}
	ops.Add(1)
	go adder(int64(c.Init)+1, total, r.U64())
	_ = half
	if withRemove {
		ops.Add(1)
		seed := r.U64()
		go func() {
			defer ops.Done()
			rr := kit.NewRand(seed)
			for k := 0; k < int(total); k++ {
				switch {
				case isQueue:
					q.Remove()
				case rr.Bool():
					dq.PopFront()
				default:
					dq.PopBack()
				}
				if rr.Chance(1, 3) {
					time.Sleep(time.Duration(rr.Intn(50)) * time.Microsecond)
				}
			}
		}()
	}
	closeEarly := r.Chance(1, 3)
	if !closeEarly {
		ops.Wait()
	} else {
		time.Sleep(time.Duration(r.Intn(300)) * time.Microsecond)
	}
	if isQueue {
		_ = q.Close()
	} else {
		_ = dq.Close()
	}
	ops.Wait()
	fin := make(chan struct{})
	go func() { wg.Wait(); close(fin) }()
	stuck := false
	select {
	case <-fin:
	case <-time.After(longWait):
		stuck = true
	}
	cancel()
	if stuck {
		select {
		case <-fin:
		case <-time.After(longWait):
		}
		return &fail{"C20:iterator:stuck-after-close", "an iterator did not return within 10s of Close", 0}
	}
	mu.Lock()
	defer mu.Unlock()
	for i, o := range outs {
		if o.end.Kind == "panic" {
			return &fail{"C20:iterator:panic", fmt.Sprintf("iterator %d (%s) panicked: %s", i, c.Vars[i], o.end.Msg), 0}
		}
		if o.end.Kind != "eof" && o.end.Kind != "closed" {
			return &fail{"C20:iterator:other-error", fmt.Sprintf("iterator %d (%s) ended with %s %s", i, c.Vars[i], o.end.Kind, o.end.Msg), 0}
		}
		prev := int64(0)
		for _, v := range o.vals {
			if !pushed[v] {
				return &fail{"C20:iterator:invented", fmt.Sprintf("iterator %d (%s) yielded %d, which was never in the container", i, c.Vars[i], v), 0}
			}
			if isQueue {
				if v <= prev {
					return &fail{"C20:Queue.Producer:duplicate", fmt.Sprintf("iterator %d yielded %d after %d", i, v, prev), 0}
				}
				if !withRemove && v != prev+1 {
					return &fail{"C20:Queue.Producer:skipped", fmt.Sprintf("iterator %d yielded %d after %d with no removals", i, v, prev), 0}
				}
				prev = v
			}
		}
		if isQueue && !withRemove && prev != nOK {
			return &fail{"C20:Queue.Producer:skipped", fmt.Sprintf("iterator %d finished after %d of %d items with no removals", i, prev, nOK), 0}
		}
	}
	return nil
}
