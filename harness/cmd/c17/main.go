// Driver for C17: runs the real dt.List.IsSorted and dt.Heap on generated cases,
// prints the cases with the implementation's observations as Coq terms, and runs
// the property's direct oracles (adjacent-pair oracle for IsSorted; multiset and
// minimality oracles for Heap) on the implementation's outputs.
package main

import (
	"context"
	"errors"
	"fmt"
	"io"
	"sort"
	"strings"

	"github.com/tychoish/fun"
	"github.com/tychoish/fun/dt"
	"github.com/tychoish/fun/dt/cmp"

	"verif/harness/kit"
)

type Case struct {
	ID    int     `json:"id"`
	Kind  string  `json:"kind"`           // issorted | heap | sort | heapiter
	Alg   int     `json:"alg,omitempty"`  // sort: 0 SortMerge, 1 SortQuick
	Mode  int     `json:"mode,omitempty"` // heapiter: 0 the iterator completes, 1 it fails after K values, 2 the context is cancelled while value K is produced
	K     int     `json:"k,omitempty"`
	Twice bool    `json:"twice,omitempty"` // sort: sort the list a second time (an already sorted input)
	Lt    int     `json:"lt"`
	L     []int64 `json:"l,omitempty"`
	Ops   []HOp   `json:"ops,omitempty"`
}

type HOp struct {
	Push bool  `json:"push"`
	V    int64 `json:"v,omitempty"`
}

func mod(a, m int64) int64 {
	r := a % m
	if r < 0 {
		r += m
	}
	return r
}
func abs(a int64) int64 {
	if a < 0 {
		return -a
	}
	return a
}

// the comparison family; ids must match lt_of in coq/Model/SortSpec.v
func ltOf(k int) cmp.LessThan[int64] {
	switch k {
	case 0:
		return cmp.LessThanNative[int64]
	case 1:
		return func(a, b int64) bool { return b < a }
	case 2:
		return cmp.LessThanConverter(func(a int64) int64 { return mod(a, 3) })
	case 3:
		return func(a, b int64) bool { return false }
	case 4:
		return cmp.LessThanConverter(abs)
	default:
		return cmp.Reverse(cmp.LessThanNative[int64])
	}
}

const nStrict = 5 // ids 0..4 are strict weak orders; 5 is correspondence-only

func genList(r *kit.Rand) []int64 {
	shape := r.Intn(10)
	n := r.Intn(9)
	if r.Chance(1, 6) {
		n = r.Range(9, 24)
	}
	span := int64(r.Range(1, 6))
	l := make([]int64, n)
	for i := range l {
		l[i] = int64(r.Intn(int(2*span+1))) - span
	}
	switch shape {
	case 0: // sorted ascending
		sort.Slice(l, func(i, j int) bool { return l[i] < l[j] })
	case 1: // descending
		sort.Slice(l, func(i, j int) bool { return l[i] > l[j] })
	case 2: // sorted except the first pair
		sort.Slice(l, func(i, j int) bool { return l[i] < l[j] })
		if n >= 2 {
			l[0] = l[1] + 1 + int64(r.Intn(3))
		}
	case 3: // sorted except the last pair
		sort.Slice(l, func(i, j int) bool { return l[i] < l[j] })
		if n >= 2 {
			l[n-1] = l[n-2] - 1 - int64(r.Intn(3))
		}
	case 4: // sorted, all negative / all positive (first element vs. a zero sentinel)
		sort.Slice(l, func(i, j int) bool { return l[i] < l[j] })
		off := int64(10)
		if r.Bool() {
			off = -10
		}
		for i := range l {
			l[i] += off
		}
	case 5: // constant
		for i := range l {
			l[i] = l[0]
		}
	}
	return l
}

func runIsSorted(c Case) bool {
	l := &dt.List[int64]{}
	for _, v := range c.L {
		l.PushBack(v)
	}
	return l.IsSorted(ltOf(c.Lt))
}

type heapObs struct {
	Pops  []*int64
	Final []int64
}

func runHeap(c Case) (obs heapObs, trace []string) {
	return runHeapOn(&dt.Heap[int64]{LT: ltOf(c.Lt)}, c)
}

func runHeapOn(h *dt.Heap[int64], c Case) (obs heapObs, trace []string) {
	for _, o := range c.Ops {
		if o.Push {
			h.Push(o.V)
		} else {
			v, ok := h.Pop()
			if ok {
				vv := v
				obs.Pops = append(obs.Pops, &vv)
			} else {
				obs.Pops = append(obs.Pops, nil)
			}
		}
	}
	for {
		if h.Len() == 0 {
			break
		}
		v, ok := h.Pop()
		if !ok {
			break
		}
		obs.Final = append(obs.Final, v)
		if len(obs.Final) > 10000 {
			break
		}
	}
	return
}

func coqOps(ops []HOp) string {
	s := make([]string, len(ops))
	for i, o := range ops {
		if o.Push {
			s[i] = "HPush " + kit.Z(o.V)
		} else {
			s[i] = "HPop"
		}
	}
	return kit.List(s)
}

func coqPops(p []*int64) string {
	s := make([]string, len(p))
	for i, v := range p {
		if v == nil {
			s[i] = "None"
		} else {
			s[i] = "Some " + kit.Z(*v)
		}
	}
	return kit.List(s)
}

func main() {
	run := kit.Start()
	run.Header = "From FunV Require Import Base.Tac Model.SortSpec Corr.C17_corr."
	run.ShardSize = 200
	run.Footer = "Definition M := Eval vm_compute in mismatches cases.\nPrint M."
	run.CaseType = "case"
	run.Rule = "IsSorted: random lists over 10 shape families (sorted, reversed, out-of-order pair first/last, negatives, constant, random) x 6 comparison functions; Heap: random push/pop sequences x 6 comparison functions; heaps built by the real NewHeapFromIterator from iterators that complete / fail after k values / are cancelled at value k, followed by pushes and pops; Sort: SortMerge (6 comparison functions) / SortQuick (5 strict weak orders) on the same list shapes, followed by a pop and a push on the sorted list. distinct = distinct (kind, alg, lt, input); non-trivial = length >= 2 (IsSorted, Sort) or at least one pop after a push (Heap)"

	if run.Replay != "" {
		var c Case
		if err := kit.ReadReplayCase(run.Replay, &c); err != nil {
			panic(err)
		}
		guarded(run, c, true)
		finish(run)
		return
	}

	id := 0
	// corpus: boundary cases that must always run (minimised earlier failures)
	corpus := []Case{
		{Kind: "issorted", Lt: 0, L: []int64{1, 2, 0}},
		{Kind: "issorted", Lt: 0, L: []int64{-1, 2, 3}},
		{Kind: "issorted", Lt: 0, L: []int64{2, 1}},
		{Kind: "issorted", Lt: 0, L: []int64{1, 2}},
		{Kind: "issorted", Lt: 0, L: []int64{}},
		{Kind: "issorted", Lt: 1, L: []int64{5}},
		{Kind: "sort", Alg: 0, Lt: 0, L: []int64{3, 1, 2}},
		{Kind: "sort", Alg: 1, Lt: 0, L: []int64{3, 1, 2}},
		{Kind: "sort", Alg: 0, Lt: 0, L: []int64{}},
		{Kind: "sort", Alg: 0, Lt: 0, L: []int64{1, 2, 3, 4}},           // already sorted
		{Kind: "sort", Alg: 0, Lt: 0, L: []int64{2, 2, 2}},              // all equal
		{Kind: "sort", Alg: 0, Lt: 0, L: []int64{3, 1, 2}, Twice: true}, // sorted twice
		{Kind: "sort", Alg: 1, Lt: 0, L: []int64{1, 2, 3, 4}},
		{Kind: "sort", Alg: 1, Lt: 2, L: []int64{4, 1, 3, 0}, Twice: true},
		{Kind: "sort", Alg: 0, Lt: 1, L: []int64{5}},
		{Kind: "sort", Alg: 1, Lt: 2, L: []int64{5, 2, 8, 3, 0, 6}},
		{Kind: "sort", Alg: 0, Lt: 2, L: []int64{5, 2, 8, 3, 0, 6}},
		{Kind: "sort", Alg: 0, Lt: 3, L: []int64{2, 1}},
		{Kind: "sort", Alg: 0, Lt: 5, L: []int64{1, 1, 2}},
		{Kind: "heapiter", Lt: 0, Mode: 0, L: []int64{5, 3, 9, -1, 7, 0, 3}, Ops: []HOp{{}, {Push: true, V: 4}, {}}},
		{Kind: "heapiter", Lt: 0, Mode: 1, K: 7, L: []int64{5, 3, 9, -1, 7, 0, 3}, Ops: []HOp{{}, {}}},
		{Kind: "heapiter", Lt: 0, Mode: 1, K: 3, L: []int64{5, 3, 9, -1, 7, 0, 3}, Ops: []HOp{{Push: true, V: 4}, {Push: true, V: -7}, {}}},
		{Kind: "heapiter", Lt: 0, Mode: 2, K: 5, L: []int64{5, 3, 9, -1, 7, 0, 3}, Ops: []HOp{{Push: true, V: 4}, {Push: true, V: -7}}},
		{Kind: "heapiter", Lt: 1, Mode: 2, K: 1, L: []int64{1, 2, 3}},
		{Kind: "heapiter", Lt: 2, Mode: 1, K: 0, L: []int64{1, 2, 3}, Ops: []HOp{{}}},
		{Kind: "heap", Lt: 0, Ops: []HOp{{Push: true, V: 3}, {Push: true, V: 1}, {Push: true, V: 2}, {}, {Push: true, V: 0}, {}, {}, {}, {}}},
	}
	for _, c := range corpus {
		c.ID = id
		id++
		if !guarded(run, c, false) {
			break
		}
	}
	n := run.Pick(1500, 40000)
	for i := 0; i < n && hangs < maxHangs; i++ {
		r := run.Rand.Fork()
		c := Case{ID: id, Lt: r.Intn(6)}
		id++
		if x := r.Intn(5); x < 2 {
			c.Kind = "issorted"
			c.L = genList(r)
		} else if x < 4 {
			c.Kind = "sort"
			c.Alg = r.Intn(2)
			c.Twice = r.Chance(1, 4)
			if c.Alg == 1 {
				c.Lt = r.Intn(nStrict) // sort.SliceStable with a non-strict lt is algorithm-specific
			}
			c.L = genList(r)
		} else if r.Chance(1, 2) {
			c.Kind = "heapiter"
			c.L = genList(r)
			c.Mode = r.Intn(3)
			c.K = r.Intn(len(c.L) + 2)
			if c.Mode == 2 && c.K == 0 {
				c.K = 1
			}
			span := r.Range(1, 6)
			for j, nops := 0, r.Range(0, 8); j < nops; j++ {
				if r.Chance(1, 2) {
					c.Ops = append(c.Ops, HOp{Push: true, V: int64(r.Intn(2*span+1) - span)})
				} else {
					c.Ops = append(c.Ops, HOp{})
				}
			}
		} else {
			c.Kind = "heap"
			nops := r.Range(0, 24)
			span := r.Range(1, 6)
			for j := 0; j < nops; j++ {
				if r.Chance(3, 5) {
					c.Ops = append(c.Ops, HOp{Push: true, V: int64(r.Intn(2*span+1) - span)})
				} else {
					c.Ops = append(c.Ops, HOp{})
				}
			}
		}
		if !guarded(run, c, false) {
			break
		}
	}
	finish(run)
}

func execCase(run *recorder, c Case, verbose bool) {
	lt := ltOf(c.Lt)
	switch c.Kind {
	case "issorted":
		got := runIsSorted(c)
		// direct oracle: true iff no adjacent pair out of order
		want := true
		for i := 0; i+1 < len(c.L); i++ {
			if lt(c.L[i+1], c.L[i]) {
				want = false
			}
		}
		if verbose {
			fmt.Printf("IsSorted(lt=%d, %v) = %v (oracle %v)\n", c.Lt, c.L, got, want)
		}
		if got != want {
			cls := "false-positive"
			if !got {
				cls = "false-negative"
			}
			run.OracleFail(c.ID, "C17:List.IsSorted:"+cls, fmt.Sprintf("IsSorted=%v but adjacent-pair oracle=%v on %v", got, want, c.L), c, got)
		}
		run.Count("issorted/len" + bucket(len(c.L)))
		run.Count(fmt.Sprintf("issorted/result=%v", got))
		term := fmt.Sprintf("CIsSorted %s %s %s %s", kit.ZI(c.ID), kit.ZI(c.Lt), kit.ZList(c.L), kit.Bool(got))
		run.Case(c.ID, c, term, fmt.Sprintf("s|%d|%v", c.Lt, c.L), len(c.L) >= 2)
	case "sort":
		execSort(run, c, verbose)
	case "heapiter":
		execHeapIter(run, c, verbose)
	case "heap":
		obs, _ := runHeap(c)
		if verbose {
			fmt.Printf("Heap(lt=%d) ops=%v pops=%s final=%v\n", c.Lt, c.Ops, coqPops(obs.Pops), obs.Final)
		}
		// oracles (strict weak orders only): multiset conservation; each pop minimal among what is inside
		if c.Lt < nStrict {
			bad := heapOracle(lt, nil, c.Ops, obs)
			if bad != "" {
				cls := "order"
				if strings.Contains(bad, "multiset") || strings.Contains(bad, "not inside") || strings.Contains(bad, "not-ok") {
					cls = "conservation"
				}
				run.OracleFail(c.ID, "C17:Heap:"+cls, bad, c, obs)
			}
		}
		npop := 0
		seenPush := false
		nontriv := false
		for _, o := range c.Ops {
			if o.Push {
				seenPush = true
			} else {
				npop++
				if seenPush {
					nontriv = true
				}
			}
		}
		run.Count("heap/ops" + bucket(len(c.Ops)))
		term := fmt.Sprintf("CHeap %s %s %s %s %s", kit.ZI(c.ID), kit.ZI(c.Lt), coqOps(c.Ops), coqPops(obs.Pops), kit.ZList(obs.Final))
		run.Case(c.ID, c, term, fmt.Sprintf("h|%d|%v", c.Lt, c.Ops), nontriv)
	}
}

// execSort runs SortMerge / SortQuick on the real dt.List, then a pop and a push on the sorted
// list.  Oracle (independent of the model): permutation of the same elements, no element lt its
// predecessor (strict weak orders), SortQuick keeps equal elements in their previous order,
// every element still In(l), walks/Len consistent, pop and push work afterwards.
func execSort(run *recorder, c Case, verbose bool) {
	lt := ltOf(c.Lt)
	name := []string{"SortMerge", "SortQuick"}[c.Alg&1]
	l := &dt.List[int64]{}
	for _, v := range c.L {
		l.PushBack(v)
	}
	before := []*dt.Element[int64]{}
	for e := l.Front(); e.Ok() && len(before) <= len(c.L); e = e.Next() {
		before = append(before, e)
	}
	bad, cls := "", ""
	fail := func(k, m string) {
		if bad == "" {
			bad, cls = m, k
		}
	}
	func() {
		defer func() {
			if p := recover(); p != nil {
				fail("panic", fmt.Sprint("panic: ", p))
			}
		}()
		for i := 0; i < 1+map[bool]int{true: 1}[c.Twice]; i++ {
			if c.Alg&1 == 0 {
				l.SortMerge(lt)
			} else {
				l.SortQuick(lt)
			}
		}
	}()
	walk := func(fwd bool) (vs []int64, ps []*dt.Element[int64]) {
		vs = []int64{}
		e := l.Front()
		if !fwd {
			e = l.Back()
		}
		for i := 0; i < 2*l.Len()+4 && e.Ok(); i++ {
			vs = append(vs, e.Value())
			ps = append(ps, e)
			if fwd {
				e = e.Next()
			} else {
				e = e.Previous()
			}
		}
		return
	}
	obs := []int64{}
	lp := func(vs []int64) { obs = append(obs, int64(len(vs))); obs = append(obs, vs...) }
	var f, b []int64
	var fp []*dt.Element[int64]
	if bad == "" {
		f, fp = walk(true)
		b, _ = walk(false)
		lp(f)
		lp(b)
		obs = append(obs, int64(l.Len()))
		allIn := int64(1)
		for _, e := range fp {
			if !e.In(l) {
				allIn = 0
			}
		}
		obs = append(obs, allIn)
		// oracle
		idx := map[*dt.Element[int64]]int{}
		for i, e := range before {
			idx[e] = i
		}
		seen := map[int]bool{}
		if len(fp) != len(before) {
			fail("perm", fmt.Sprintf("%d elements before, forward walk has %d after (%v -> %v)", len(before), len(fp), c.L, f))
		}
		for _, e := range fp {
			i, ok := idx[e]
			if !ok || seen[i] {
				fail("perm", fmt.Sprintf("result %v is not a permutation of the elements of %v", f, c.L))
			}
			seen[i] = true
		}
		if len(b) != len(f) {
			fail("usable", fmt.Sprintf("backward walk %v is not the reverse of the forward walk %v", b, f))
		} else {
			for i := range f {
				if f[i] != b[len(b)-1-i] {
					fail("usable", fmt.Sprintf("backward walk %v is not the reverse of the forward walk %v", b, f))
				}
			}
		}
		if c.Lt < nStrict {
			for i := 0; i+1 < len(f); i++ {
				if lt(f[i+1], f[i]) {
					fail("order", fmt.Sprintf("%v -> %v: element %d is lt its predecessor", c.L, f, i+1))
				}
			}
			if c.Alg&1 == 1 && bad == "" {
				for i := 0; i+1 < len(fp); i++ {
					if !lt(f[i], f[i+1]) && idx[fp[i]] > idx[fp[i+1]] {
						fail("stable", fmt.Sprintf("%v -> %v: equal elements at %d,%d changed their relative order", c.L, f, i, i+1))
					}
				}
			}
		}
		if l.Len() != len(c.L) {
			fail("usable", fmt.Sprintf("Len = %d after sorting %d elements", l.Len(), len(c.L)))
		}
		if allIn == 0 {
			fail("usable", "an element of the sorted list does not report In(list)")
		}
		// handle identity: an element handle taken before the sort still carries ITS value afterwards,
		// still reports In(list), and Remove() through it removes exactly that element
		// (mirrors the handle part of sort_obs in coq/Corr/C17_corr.v)
		func() {
			defer func() {
				if p := recover(); p != nil {
					fail("handle-identity", fmt.Sprint("panic while using a handle kept across the sort: ", p))
				}
			}()
			for i, e := range before {
				in := int64(0)
				if e.In(l) {
					in = 1
				}
				obs = append(obs, e.Value(), in)
				if e.Value() != c.L[i] || !e.In(l) {
					fail("handle-identity", fmt.Sprintf("%v -> %v: the handle of element %d (value %d) now carries %d, In(list)=%v", c.L, f, i, c.L[i], e.Value(), e.In(l)))
				}
			}
			picks := []int{}
			if len(before) >= 1 {
				picks = append(picks, 0)
			}
			if len(before) >= 2 {
				picks = append(picks, len(before)/2)
			}
			ref := append([]int64{}, f...)
			for _, i := range picks {
				e := before[i]
				pos := -1
				for j, q := range fp {
					if q == e {
						pos = j
					}
				}
				okr := e.Remove()
				obs = append(obs, map[bool]int64{false: 0, true: 1}[okr])
				if pos >= 0 && pos < len(ref) {
					ref = append(ref[:pos:pos], ref[pos+1:]...)
				}
				f, fp = walk(true)
				lp(f)
				if !okr || e.In(l) || fmt.Sprint(f) != fmt.Sprint(ref) || l.Len() != len(ref) {
					fail("handle-identity", fmt.Sprintf("Remove() through the handle of element %d (value %d) returned %v and left %v (Len %d), expected %v", i, c.L[i], okr, f, l.Len(), ref))
				}
			}
		}()
		// the list must stay FULLY usable: the probe below touches the sentinel side too
		// (PushFront, pushes into the drained list); it mirrors `probe` in coq/Corr/C17_corr.v
		// and is judged against a plain-slice reference
		func() {
			defer func() {
				if p := recover(); p != nil {
					fail("usable", fmt.Sprint("panic in the usability probe after the sort: ", p))
				}
			}()
			ref := append([]int64{}, f...)
			b2i := func(b bool) int64 {
				if b {
					return 1
				}
				return 0
			}
			check := func(step string) {
				fw, _ := walk(true)
				bw, _ := walk(false)
				okb := len(bw) == len(fw)
				for i := range fw {
					if okb && fw[i] != bw[len(bw)-1-i] {
						okb = false
					}
				}
				if fmt.Sprint(fw) != fmt.Sprint(ref) || !okb || l.Len() != len(ref) {
					fail("usable", fmt.Sprintf("%s after the sort: forward %v backward %v Len %d, plain-slice reference %v", step, fw, bw, l.Len(), ref))
				}
			}
			// 1. PushFront (goes through the sentinel)
			l.PushFront(88)
			ref = append([]int64{88}, ref...)
			f1, _ := walk(true)
			lp(f1)
			fr := l.Front()
			obs = append(obs, int64(l.Len()), b2i(fr.In(l)), fr.Value())
			check("PushFront")
			if !fr.Ok() || !fr.In(l) || fr.Value() != 88 {
				fail("usable", "after PushFront the front element is not the pushed value or does not report In(list)")
			}
			// 2. PushBack
			l.PushBack(77)
			ref = append(ref, 77)
			f2, _ := walk(true)
			lp(f2)
			bk := l.Back()
			obs = append(obs, int64(l.Len()), b2i(bk.In(l)), bk.Value())
			check("PushBack")
			if !bk.Ok() || !bk.In(l) || bk.Value() != 77 {
				fail("usable", "after PushBack the back element is not the pushed value or does not report In(list)")
			}
			// 3. PopFront, 4. PopBack
			e3 := l.PopFront()
			obs = append(obs, b2i(e3.Ok()), e3.Value(), b2i(e3.In(l)), int64(l.Len()))
			if !e3.Ok() || e3.Value() != ref[0] || e3.In(l) {
				fail("usable", fmt.Sprintf("PopFront after the sort returned ok=%v value=%d in=%v, expected %d", e3.Ok(), e3.Value(), e3.In(l), ref[0]))
			}
			ref = ref[1:]
			check("PopFront")
			e4 := l.PopBack()
			obs = append(obs, b2i(e4.Ok()), e4.Value(), b2i(e4.In(l)), int64(l.Len()))
			if !e4.Ok() || e4.Value() != ref[len(ref)-1] || e4.In(l) {
				fail("usable", fmt.Sprintf("PopBack after the sort returned ok=%v value=%d in=%v, expected %d", e4.Ok(), e4.Value(), e4.In(l), ref[len(ref)-1]))
			}
			ref = ref[:len(ref)-1]
			check("PopBack")
			// 5. drain completely
			dr := []int64{}
			for i := 0; i < len(c.L)+4; i++ {
				e := l.PopFront()
				if !e.Ok() {
					break
				}
				dr = append(dr, e.Value())
			}
			lp(dr)
			obs = append(obs, int64(l.Len()))
			if fmt.Sprint(dr) != fmt.Sprint(ref) || l.Len() != 0 {
				fail("usable", fmt.Sprintf("draining the sorted list popped %v and left Len %d, reference %v", dr, l.Len(), ref))
			}
			ref = ref[:0]
			check("drain")
			// 6. push into the drained list (both pushes go through the sentinel)
			l.PushBack(55)
			l.PushFront(44)
			ref = []int64{44, 55}
			f6, _ := walk(true)
			b6, _ := walk(false)
			lp(f6)
			lp(b6)
			obs = append(obs, int64(l.Len()), b2i(l.Front().In(l)), b2i(l.Back().In(l)))
			check("push after drain")
			if !l.Front().In(l) || !l.Back().In(l) {
				fail("usable", "elements pushed into the drained list do not report In(list)")
			}
			// 7. final pop
			e7 := l.PopFront()
			obs = append(obs, b2i(e7.Ok()), e7.Value(), int64(l.Len()))
			if !e7.Ok() || e7.Value() != 44 {
				fail("usable", fmt.Sprintf("PopFront after refilling returned ok=%v value=%d, expected 44", e7.Ok(), e7.Value()))
			}
			ref = ref[1:]
			check("final PopFront")
		}()
	}
	if verbose {
		fmt.Printf("%s(lt=%d, %v) -> %v  obs=%v  oracle: %q\n", name, c.Lt, c.L, f, obs, bad)
	}
	if bad != "" {
		run.OracleFail(c.ID, "C17:"+name+":"+cls, bad, c, obs)
	}
	run.Count("sort/" + name + "/len" + bucket(len(c.L)))
	term := ""
	if cls != "panic" {
		term = fmt.Sprintf("CSort %s %s %s %s %s", kit.ZI(c.ID), kit.ZI(c.Alg&1+2*map[bool]int{true: 1}[c.Twice]), kit.ZI(c.Lt), kit.ZList(c.L), kit.ZList(obs))
	}
	run.Case(c.ID, c, term, fmt.Sprintf("q|%d|%v|%d|%v", c.Alg, c.Twice, c.Lt, c.L), len(c.L) >= 2)
}

// heapOracle: multiset conservation and minimality of every pop, starting from a heap that holds
// `initial`; returns "" or a description of the first violation.
func heapOracle(lt cmp.LessThan[int64], initial []int64, ops []HOp, obs heapObs) string {
	inside := append([]int64{}, initial...)
	pi := 0
	bad := ""
	for _, o := range ops {
		if o.Push {
			inside = append(inside, o.V)
			continue
		}
		p := obs.Pops[pi]
		pi++
		if p == nil {
			if len(inside) != 0 {
				bad = "pop reported not-ok on a non-empty heap"
			}
			continue
		}
		idx := -1
		for i, w := range inside {
			if w == *p && idx < 0 {
				idx = i
			}
		}
		if idx < 0 {
			bad = fmt.Sprintf("popped %d which is not inside", *p)
			break
		}
		inside = append(inside[:idx], inside[idx+1:]...)
		for _, w := range inside {
			if lt(w, *p) {
				bad = fmt.Sprintf("popped %d while %d (lt it) is still inside", *p, w)
			}
		}
	}
	if bad == "" {
		a := append([]int64(nil), inside...)
		b := append([]int64(nil), obs.Final...)
		sort.Slice(a, func(i, j int) bool { return a[i] < a[j] })
		sort.Slice(b, func(i, j int) bool { return b[i] < b[j] })
		if fmt.Sprint(a) != fmt.Sprint(b) {
			bad = fmt.Sprintf("remaining content %v is not the multiset pushed-minus-popped %v", obs.Final, inside)
		}
		for i := 0; i+1 < len(obs.Final); i++ {
			if lt(obs.Final[i+1], obs.Final[i]) {
				bad = fmt.Sprintf("drain order %v is not non-decreasing", obs.Final)
			}
		}
	}
	return bad
}

// ---------------------------------------------------------------- NewHeapFromIterator

var errSource = errors.New("source failed")

// buildHeapFromIterator runs the real NewHeapFromIterator on an iterator over c.L that completes
// (mode 0), fails with an error after K values (mode 1), or whose context is cancelled while
// value K is being produced (mode 2).
func buildHeapFromIterator(c Case) (h *dt.Heap[int64], err error, panicked string) {
	defer func() {
		if p := recover(); p != nil {
			panicked = fmt.Sprint(p)
		}
	}()
	ctx, cancel := context.WithCancel(context.Background())
	defer cancel()
	idx := 0
	iter := fun.Producer[int64](func(context.Context) (int64, error) {
		if c.Mode == 1 && idx >= min(c.K, len(c.L)) {
			return 0, errSource
		}
		if idx >= len(c.L) {
			return 0, io.EOF
		}
		idx++
		if c.Mode == 2 && idx == c.K {
			cancel()
		}
		return c.L[idx-1], nil
	}).Iterator()
	if c.Mode == 0 && idx == 0 && len(c.L)%2 == 0 {
		iter = fun.SliceIterator(append([]int64{}, c.L...)) // the library's own slice iterator, too
	}
	h, err = dt.NewHeapFromIterator(ctx, ltOf(c.Lt), iter)
	return h, err, ""
}

func execHeapIter(run *recorder, c Case, verbose bool) {
	lt := ltOf(c.Lt)
	h, err, panicked := buildHeapFromIterator(c)
	bad := ""
	switch {
	case panicked != "":
		bad = "NewHeapFromIterator panicked: " + panicked
	case h == nil:
		bad = "NewHeapFromIterator returned a nil heap"
	case c.Mode == 0 && err != nil:
		bad = fmt.Sprint("a complete iterator produced the error ", err)
	case c.Mode == 1 && !errors.Is(err, errSource):
		bad = fmt.Sprint("the source's error was not returned: ", err)
	case c.Mode == 2 && c.K >= 1 && c.K <= len(c.L) && !errors.Is(err, context.Canceled):
		bad = fmt.Sprint("cancellation was not reported: ", err)
	}
	if bad != "" {
		run.OracleFail(c.ID, "C17:Heap:from-iterator-order", bad, c, nil)
		run.Case(c.ID, c, "", fmt.Sprintf("i|%d|%d|%d|%v", c.Lt, c.Mode, c.K, c.L), true)
		return
	}
	n := h.Len()
	if n < 0 || n > len(c.L) {
		n = len(c.L)
	}
	consumed := append([]int64{}, c.L[:n]...)
	switch {
	case c.Mode == 0 && n != len(c.L):
		bad = fmt.Sprintf("a complete iterator of %d values left a heap of %d", len(c.L), h.Len())
	case c.Mode == 1 && n != min(c.K, len(c.L)):
		bad = fmt.Sprintf("the source failed after %d values but the heap holds %d", c.K, h.Len())
	}
	obs, _ := runHeapOn(h, c)
	if bad == "" && c.Lt < nStrict {
		bad = heapOracle(lt, consumed, c.Ops, obs)
	}
	if verbose {
		fmt.Printf("NewHeapFromIterator(lt=%d, mode=%d, k=%d, %v) err=%v consumed=%v ops=%v pops=%s final=%v oracle: %q\n", c.Lt, c.Mode, c.K, c.L, err, consumed, c.Ops, coqPops(obs.Pops), obs.Final, bad)
	}
	if bad != "" {
		run.OracleFail(c.ID, "C17:Heap:from-iterator-order", bad, c, obs)
	}
	run.Count(fmt.Sprintf("heapiter/mode%d/consumed%s", c.Mode, bucket(n)))
	term := fmt.Sprintf("CHeapIter %s %s %s %s %s %s", kit.ZI(c.ID), kit.ZI(c.Lt), kit.ZList(consumed), coqOps(c.Ops), coqPops(obs.Pops), kit.ZList(obs.Final))
	run.Case(c.ID, c, term, fmt.Sprintf("i|%d|%d|%d|%v|%v", c.Lt, c.Mode, c.K, c.L, c.Ops), n >= 2)
}

func min(a, b int) int {
	if a < b {
		return a
	}
	return b
}

func bucket(n int) string {
	switch {
	case n == 0:
		return "=0"
	case n == 1:
		return "=1"
	case n <= 4:
		return "2-4"
	case n <= 8:
		return "5-8"
	default:
		return ">8"
	}
}
