package main

// Watchdog for library calls that do not return (e.g. SortMerge ending in Extend(l, l), which
// loops for ever).  Every case runs in its own goroutine and records into a buffer; the main
// goroutine applies the buffer when the case finishes.  If a case has not finished after
// hangAfter it is reported as an oracle failure `C17:<op>:hang` with the case as replay; the hung
// goroutine cannot be reclaimed, so after maxHangs hangs generation stops and, once the output
// files are written, the process exits.

import (
	"fmt"
	"os"
	"time"

	"verif/harness/kit"
)

const (
	hangAfter = 10 * time.Second
	maxHangs  = 3
)

var hangs int

type recFail struct {
	id     int
	sig    string
	detail string
	cs     any
	impl   any
}

type recCase struct {
	id         int
	js         any
	term, key  string
	nontrivial bool
}

// recorder has the methods of kit.Run that the exec functions use.
type recorder struct {
	fails  []recFail
	counts []string
	cases  []recCase
}

func (r *recorder) OracleFail(id int, sig, detail string, cs any, impl any) {
	r.fails = append(r.fails, recFail{id, sig, detail, cs, impl})
}
func (r *recorder) Count(k string) { r.counts = append(r.counts, k) }
func (r *recorder) Case(id int, js any, term, key string, nontrivial bool) {
	r.cases = append(r.cases, recCase{id, js, term, key, nontrivial})
}

func (r *recorder) apply(run *kit.Run) {
	for _, f := range r.fails {
		run.OracleFail(f.id, f.sig, f.detail, f.cs, f.impl)
	}
	for _, k := range r.counts {
		run.Count(k)
	}
	for _, c := range r.cases {
		run.Case(c.id, c.js, c.term, c.key, c.nontrivial)
	}
}

func hangOp(c Case) string {
	switch c.Kind {
	case "sort":
		return []string{"SortMerge", "SortQuick"}[c.Alg&1]
	case "issorted":
		return "List.IsSorted"
	case "heapiter":
		return "NewHeapFromIterator"
	}
	return "Heap"
}

// guarded runs one case under the watchdog; false means: stop generating.
func guarded(run *kit.Run, c Case, verbose bool) bool {
	rec := &recorder{}
	done := make(chan struct{})
	go func() {
		defer close(done)
		execCase(rec, c, verbose)
	}()
	select {
	case <-done:
		rec.apply(run)
		return true
	case <-time.After(hangAfter):
	}
	hangs++
	sig := "C17:" + hangOp(c) + ":hang"
	detail := fmt.Sprintf("the library call of this case did not return within %v (lt=%d, input %v)", hangAfter, c.Lt, c.L)
	run.OracleFail(c.ID, sig, detail, c, nil)
	run.Case(c.ID, c, "", fmt.Sprintf("hang|%d|%s|%d|%v", c.ID, c.Kind, c.Lt, c.L), true)
	run.Count("hang/" + hangOp(c))
	fmt.Fprintln(os.Stderr, "watchdog:", sig, detail)
	return hangs < maxHangs
}

// finish writes the output files; with a hung goroutine still spinning the process must be ended explicitly.
func finish(run *kit.Run) {
	run.Finish()
	if hangs > 0 {
		os.Exit(0)
	}
}
