// Driver for C06: pubsub.Deque is a linearizable bounded double-ended queue.
//
// Three streams, all executed on the REAL deque from /repo:
//
//	seq       sequential differential: random operation sequences over both ends, for every
//	          kind of DequeOptions (fixed capacity, unlimited, queue-options tracker, malformed);
//	          blocking operations are called with an already-cancelled context (try-form).  Per
//	          step the result, Len() and the contents seen by the forward and reverse producers
//	          are observed; at the end the deque is drained from both ends.  The case and the
//	          observations are printed as a Coq term (re-run on the model by vm_compute) and
//	          checked by the direct oracle of the property (independent of any model).
//	hist      concurrent histories: 2..6 goroutines, invocation/response stamped from one atomic
//	          counter, checked for linearizability against a sequential deque specification by a
//	          small WGL-style search; the linearization found is printed as a Coq term so that Coq
//	          re-validates its legality (and real-time consistency) on the model.
//	scenario  wake-up scenarios with long (10 s) deadlines: a Wait* call whose condition already
//	          holds must not block; a parked consumer/producer must be woken by the push/pop that
//	          satisfies it, whichever end it happens at; Close must wake every parked waiter.
package main

import (
	"context"
	"errors"
	"fmt"
	"math"
	"runtime"
	"sort"
	"strings"
	"sync"
	"sync/atomic"
	"time"

	"github.com/tychoish/fun/pubsub"

	"verif/harness/kit"
)

// ---------------------------------------------------------------- case format

type QO struct {
	Hard  int     `json:"hard"`
	Soft  int     `json:"soft"`
	Burst float64 `json:"burst"`
}

type Opts struct {
	Unlimited bool `json:"unlimited"`
	Capacity  int  `json:"capacity"`
	Q         *QO  `json:"q,omitempty"`
}

// Op kinds: pf pb (PushFront/Back) of ob (PopFront/Back) ff fb (ForcePush) wf wb (WaitFront/Back)
// wpf wpb (WaitPush) len close.  Live: the context of a blocking op is live with a short timeout
// (histories only); otherwise it is already cancelled.
type Op struct {
	K    string `json:"k"`
	V    int64  `json:"v,omitempty"`
	Live bool   `json:"live,omitempty"`
}

type Case struct {
	ID      int    `json:"id"`
	Kind    string `json:"kind"` // seq | hist | scenario
	Opts    Opts   `json:"opts"`
	Ops     []Op   `json:"ops,omitempty"`
	Threads [][]Op `json:"threads,omitempty"`
	Prefill []Op   `json:"prefill,omitempty"`
	Name    string `json:"name,omitempty"` // scenario
	Arg     int    `json:"arg,omitempty"`
}

// result of one operation
type R struct {
	T  string `json:"t"`            // err | pop | got | len | blocked | panic
	E  string `json:"e,omitempty"`  // nil full nocredit closed other
	V  int64  `json:"v,omitempty"`
	OK bool   `json:"ok,omitempty"` // pop
}

func (r R) String() string {
	switch r.T {
	case "err":
		return "err:" + r.E
	case "pop":
		if r.OK {
			return fmt.Sprintf("pop:%d", r.V)
		}
		return "pop:none"
	case "got":
		return fmt.Sprintf("got:%d", r.V)
	case "len":
		return fmt.Sprintf("len:%d", r.V)
	}
	return r.T
}

func (r R) Coq() string {
	switch r.T {
	case "err":
		switch r.E {
		case "nil":
			return "RErr ENil"
		case "full":
			return "RErr EFull"
		case "nocredit":
			return "RErr ENoCredit"
		case "closed":
			return "RErr EClosed"
		}
		return "RErr ECtx" // never produced by the model: forces a mismatch
	case "pop":
		if r.OK {
			return "RPop (Some " + kit.Z(r.V) + ")"
		}
		return "RPop None"
	case "got":
		return "RGot " + kit.Z(r.V)
	case "len":
		return "RLen " + kit.Z(r.V)
	case "blocked":
		return "RBlocked"
	}
	return "RErr ECtx"
}

func (o Op) Coq() string {
	switch o.K {
	case "pf":
		return "PushFront " + kit.Z(o.V)
	case "pb":
		return "PushBack " + kit.Z(o.V)
	case "of":
		return "PopFront"
	case "ob":
		return "PopBack"
	case "ff":
		return "ForcePushFront " + kit.Z(o.V)
	case "fb":
		return "ForcePushBack " + kit.Z(o.V)
	case "wf":
		return "WaitFront"
	case "wb":
		return "WaitBack"
	case "wpf":
		return "WaitPushFront " + kit.Z(o.V)
	case "wpb":
		return "WaitPushBack " + kit.Z(o.V)
	case "len":
		return "Len"
	case "close":
		return "Close"
	}
	panic("bad op " + o.K)
}

var opName = map[string]string{"pf": "PushFront", "pb": "PushBack", "of": "PopFront", "ob": "PopBack",
	"ff": "ForcePushFront", "fb": "ForcePushBack", "wf": "WaitFront", "wb": "WaitBack",
	"wpf": "WaitPushFront", "wpb": "WaitPushBack", "len": "Len", "close": "Close"}

func coqFloat(f float64) string {
	s := fmt.Sprintf("%v", f)
	if f < 0 {
		return "(" + s + ")%float"
	}
	return s + "%float"
}

func (o Opts) Coq() string {
	q := "None"
	if o.Q != nil {
		q = fmt.Sprintf("(Some (mkQ %s %s %s))", kit.ZI(o.Q.Hard), kit.ZI(o.Q.Soft), coqFloat(o.Q.Burst))
	}
	return fmt.Sprintf("(mkD %s %s %s)", kit.Bool(o.Unlimited), kit.ZI(o.Capacity), q)
}

func (o Opts) real() pubsub.DequeOptions {
	d := pubsub.DequeOptions{Unlimited: o.Unlimited, Capacity: o.Capacity}
	if o.Q != nil {
		d.QueueOptions = &pubsub.QueueOptions{HardLimit: o.Q.Hard, SoftQuota: o.Q.Soft, BurstCredit: o.Q.Burst}
	}
	return d
}

func (o Opts) class() string {
	switch {
	case o.Q != nil:
		return "quota"
	case o.Unlimited:
		return "unlimited"
	}
	return "fixed"
}

// ---------------------------------------------------------------- running the real deque

var cancelled = func() context.Context {
	ctx, cancel := context.WithCancel(context.Background())
	cancel()
	return ctx
}()

func errKind(err error) string {
	switch {
	case err == nil:
		return "nil"
	case errors.Is(err, pubsub.ErrQueueFull):
		return "full"
	case errors.Is(err, pubsub.ErrQueueNoCredit):
		return "nocredit"
	case errors.Is(err, pubsub.ErrQueueClosed):
		return "closed"
	case errors.Is(err, context.Canceled), errors.Is(err, context.DeadlineExceeded):
		return "ctx"
	}
	return "other"
}

func errRes(err error) R {
	k := errKind(err)
	if k == "ctx" {
		return R{T: "blocked"}
	}
	return R{T: "err", E: k}
}

// apply runs one operation on the real deque; ctx is used by the blocking operations.
func apply(dq *pubsub.Deque[int64], o Op, ctx context.Context) (res R) {
	defer func() {
		if p := recover(); p != nil {
			res = R{T: "panic", E: fmt.Sprint(p)}
		}
	}()
	switch o.K {
	case "pf":
		return errRes(dq.PushFront(o.V))
	case "pb":
		return errRes(dq.PushBack(o.V))
	case "of":
		v, ok := dq.PopFront()
		if !ok {
			v = 0
		}
		return R{T: "pop", V: v, OK: ok}
	case "ob":
		v, ok := dq.PopBack()
		if !ok {
			v = 0
		}
		return R{T: "pop", V: v, OK: ok}
	case "ff":
		return errRes(dq.ForcePushFront(o.V))
	case "fb":
		return errRes(dq.ForcePushBack(o.V))
	case "wf":
		v, err := dq.WaitFront(ctx)
		if err != nil {
			return errRes(err)
		}
		return R{T: "got", V: v}
	case "wb":
		v, err := dq.WaitBack(ctx)
		if err != nil {
			return errRes(err)
		}
		return R{T: "got", V: v}
	case "wpf":
		return errRes(dq.WaitPushFront(ctx, o.V))
	case "wpb":
		return errRes(dq.WaitPushBack(ctx, o.V))
	case "len":
		return R{T: "len", V: int64(dq.Len())}
	case "close":
		return errRes(dq.Close())
	}
	panic("bad op")
}

// contents as seen by the non-destructive forward and reverse producers
func walk(dq *pubsub.Deque[int64]) (fwd, bwd []int64) {
	fwd, bwd = []int64{}, []int64{}
	ctx := context.Background()
	p := dq.Producer()
	for i := 0; i < 100000; i++ {
		v, err := p(ctx)
		if err != nil {
			break
		}
		fwd = append(fwd, v)
	}
	p = dq.ProducerReverse()
	for i := 0; i < 100000; i++ {
		v, err := p(ctx)
		if err != nil {
			break
		}
		bwd = append(bwd, v)
	}
	return
}

// ---------------------------------------------------------------- sequential specification (Go mirror of coq/Model/DequeHeap.v `spec`)

type tracker struct {
	kind   int // 0 nolimit 1 hard 2 quota
	capa   int
	soft   int
	hard   int
	length int
	credit float64
}

func (t *tracker) capv() int {
	switch t.kind {
	case 0:
		return math.MaxInt
	case 1:
		return t.capa
	}
	return t.soft
}

func (t *tracker) add() string {
	switch t.kind {
	case 0:
		t.length++
		return "nil"
	case 1:
		if t.length >= t.capa {
			return "full"
		}
		t.length++
		return "nil"
	}
	if t.length >= t.soft {
		if t.length == t.hard {
			return "full"
		} else if t.credit < 1 {
			return "nocredit"
		}
		t.credit--
		t.soft = t.length + 1
	}
	t.length++
	return "nil"
}

func (t *tracker) remove() {
	if t.kind != 2 {
		if t.length > 0 {
			t.length--
		}
		return
	}
	t.length--
	if t.length < t.soft {
		if t.soft > 1 && t.length < t.soft/2 {
			t.soft--
		}
		t.credit += float64(t.soft-t.length) / float64(t.soft)
		if lc := float64(t.hard - t.soft); t.credit > lc {
			t.credit = lc
		}
	}
}

type sspec struct {
	items  []int64
	t      tracker
	closed bool
}

func (s sspec) clone() sspec {
	c := s
	c.items = append([]int64(nil), s.items...)
	return c
}

func (s sspec) key() string {
	return fmt.Sprintf("%v|%d|%d|%d|%x|%v", s.items, s.t.soft, s.t.hard, s.t.length, math.Float64bits(s.t.credit), s.closed)
}

func (s *sspec) push(v int64, back bool) string {
	if s.closed {
		return "closed"
	}
	if e := s.t.add(); e != "nil" {
		return e
	}
	if back {
		s.items = append(s.items, v)
	} else {
		s.items = append([]int64{v}, s.items...)
	}
	return "nil"
}

func (s *sspec) pop(back bool) (int64, bool) {
	if s.closed || len(s.items) == 0 {
		return 0, false
	}
	s.t.remove()
	var v int64
	if back {
		v = s.items[len(s.items)-1]
		s.items = s.items[:len(s.items)-1]
	} else {
		v = s.items[0]
		s.items = s.items[1:]
	}
	return v, true
}

// step returns the successor state and the result (functional: s is not modified)
func (s sspec) step(o Op) (sspec, R) {
	n := s.clone()
	switch o.K {
	case "pf", "pb":
		return n, R{T: "err", E: n.push(o.V, o.K == "pb")}
	case "of", "ob":
		v, ok := n.pop(o.K == "ob")
		return n, R{T: "pop", V: v, OK: ok}
	case "ff", "fb":
		if n.t.capv() == n.t.length {
			n.pop(o.K == "ff")
		}
		return n, R{T: "err", E: n.push(o.V, o.K == "fb")}
	case "wf", "wb":
		v, ok := n.pop(o.K == "wb")
		if ok {
			return n, R{T: "got", V: v}
		}
		if n.closed {
			return n, R{T: "err", E: "closed"}
		}
		return n, R{T: "blocked"}
	case "wpf", "wpb":
		if n.t.capv() > n.t.length {
			return n, R{T: "err", E: n.push(o.V, o.K == "wpb")}
		}
		if n.closed {
			return n, R{T: "err", E: "closed"}
		}
		return n, R{T: "blocked"}
	case "len":
		return n, R{T: "len", V: int64(n.t.length)}
	case "close":
		n.closed = true
		return n, R{T: "err", E: "nil"}
	}
	panic("bad op")
}

// newReal builds the real deque; the tracker of the mirror specification is initialised from the
// options as mutated by Validate (the QueueOptions pointer is shared with the caller).
func newReal(o Opts) (*pubsub.Deque[int64], sspec, error) {
	ro := o.real()
	dq, err := pubsub.NewDeque[int64](ro)
	if err != nil {
		return nil, sspec{}, err
	}
	var s sspec
	switch {
	case ro.QueueOptions != nil:
		s.t = tracker{kind: 2, soft: ro.QueueOptions.SoftQuota, hard: ro.QueueOptions.HardLimit, credit: ro.QueueOptions.BurstCredit}
	case o.Unlimited && o.Capacity == 0:
		s.t = tracker{kind: 0}
	default:
		c := o.Capacity
		if c <= 0 {
			c = 1
		}
		s.t = tracker{kind: 1, capa: c}
	}
	return dq, s, nil
}

// ---------------------------------------------------------------- generators

var bursts = []float64{0, 0, 0.25, 0.5, 1, 1.5, 2, 2.75, 3, 5}

func genOpts(r *kit.Rand, maxcap int) Opts {
	switch r.Intn(10) {
	case 0, 1, 2, 3:
		c := r.Range(1, maxcap)
		if r.Chance(1, 12) {
			c = -r.Intn(3) // <= 0 is replaced by 1
		}
		return Opts{Capacity: c}
	case 4, 5:
		return Opts{Unlimited: true}
	default:
		h := r.Range(1, maxcap)
		s := r.Range(0, h)
		o := Opts{Q: &QO{Hard: h, Soft: s, Burst: bursts[r.Intn(len(bursts))]}}
		if r.Chance(1, 10) {
			o.Capacity = -r.Intn(3)
		}
		return o
	}
}

func genMalformed(r *kit.Rand) Opts {
	switch r.Intn(8) {
	case 0:
		return Opts{Unlimited: true, Capacity: r.Range(1, 4)}
	case 1:
		return Opts{Unlimited: true, Capacity: -r.Range(1, 3)}
	case 2:
		return Opts{Capacity: r.Range(1, 4), Q: &QO{Hard: 3, Soft: 2, Burst: 1}}
	case 3:
		return Opts{Unlimited: true, Q: &QO{Hard: 3, Soft: 2, Burst: 1}}
	case 4:
		return Opts{Q: &QO{Hard: -r.Intn(3), Soft: 0, Burst: 1}}
	case 5:
		return Opts{Q: &QO{Hard: 2, Soft: r.Range(3, 6), Burst: 1}}
	case 6:
		return Opts{Q: &QO{Hard: 4, Soft: 2, Burst: -0.5}}
	default:
		return Opts{Q: &QO{Hard: 4, Soft: -1, Burst: 0}}
	}
}

var allKinds = []string{"pf", "pb", "of", "ob", "ff", "fb", "wf", "wb", "wpf", "wpb", "len", "close"}

func genOp(r *kit.Rand, next *int64, closeDen int) Op {
	// weights: pushes 34, pops 22, force 14, waits 20, len 6, close 1/closeDen
	if closeDen > 0 && r.Chance(1, closeDen) {
		return Op{K: "close"}
	}
	w := r.Intn(96)
	k := ""
	switch {
	case w < 17:
		k = "pf"
	case w < 34:
		k = "pb"
	case w < 45:
		k = "of"
	case w < 56:
		k = "ob"
	case w < 63:
		k = "ff"
	case w < 70:
		k = "fb"
	case w < 75:
		k = "wf"
	case w < 80:
		k = "wb"
	case w < 85:
		k = "wpf"
	case w < 90:
		k = "wpb"
	default:
		k = "len"
	}
	o := Op{K: k}
	switch k {
	case "pf", "pb", "ff", "fb", "wpf", "wpb":
		*next++
		o.V = *next
	}
	return o
}

// ---------------------------------------------------------------- sequential stream

type stepObs struct {
	R   R       `json:"r"`
	Len int     `json:"len"`
	Fwd []int64 `json:"fwd"`
	Bwd []int64 `json:"bwd"`
}

type seqObs struct {
	NewOK bool      `json:"newok"`
	Steps []stepObs `json:"steps"`
	Drain []Op      `json:"drain"`
	DObs  []stepObs `json:"dobs"`
}

func runSeq(c Case) seqObs {
	var obs seqObs
	dq, _, err := newReal(c.Opts)
	if err != nil {
		return obs
	}
	obs.NewOK = true
	for _, o := range c.Ops {
		r := apply(dq, o, cancelled)
		f, b := walk(dq)
		obs.Steps = append(obs.Steps, stepObs{R: r, Len: dq.Len(), Fwd: f, Bwd: b})
	}
	// drain from both ends, alternating, until a pop reports not-ok
	for i := 0; i < 10000; i++ {
		o := Op{K: "of"}
		if i%2 == 1 {
			o.K = "ob"
		}
		r := apply(dq, o, cancelled)
		f, b := walk(dq)
		obs.Drain = append(obs.Drain, o)
		obs.DObs = append(obs.DObs, stepObs{R: r, Len: dq.Len(), Fwd: f, Bwd: b})
		if !(r.T == "pop" && r.OK) {
			break
		}
	}
	return obs
}

func eqI64(a, b []int64) bool {
	if len(a) != len(b) {
		return false
	}
	for i := range a {
		if a[i] != b[i] {
			return false
		}
	}
	return true
}

func rev(a []int64) []int64 {
	out := make([]int64, len(a))
	for i, v := range a {
		out[len(a)-1-i] = v
	}
	return out
}

// seqOracle is the direct oracle of the property on a sequential run.  It tracks the contents from
// the observed outcomes only and knows nothing about trackers beyond the capacity bound:
// fixed capacity c (full iff len = c), unlimited, or hard limit h of the quota tracker (a push may
// additionally be refused for lack of credit, and the eviction threshold of a Force push is the
// soft quota, which the oracle does not track: it accepts either outcome there and checks that at
// most one item, and only the one at the opposite end, disappeared).
// It returns "" or (signature class, detail).
func seqOracle(c Case, obs seqObs) (string, string, string) {
	if !obs.NewOK {
		return "", "", ""
	}
	class := c.Opts.class()
	capa := -1 // none
	switch class {
	case "fixed":
		capa = c.Opts.Capacity
		if capa <= 0 {
			capa = 1
		}
	case "quota":
		capa = c.Opts.Q.Hard
	}
	inside := []int64{}
	closed := false
	returned := map[int64]bool{}
	ops := append(append([]Op{}, c.Ops...), obs.Drain...)
	steps := append(append([]stepObs{}, obs.Steps...), obs.DObs...)
	for i, o := range ops {
		st := steps[i]
		r := st.R
		name := opName[o.K]
		fail := func(cls, msg string) (string, string, string) {
			return name, cls, fmt.Sprintf("step %d %s -> %s: %s (contents before %v, closed=%v)", i, name, r, msg, inside, closed)
		}
		if r.T == "panic" {
			return fail("panic", r.E)
		}
		before := append([]int64{}, inside...)
		full := capa >= 0 && len(inside) >= capa
		switch o.K {
		case "pf", "pb", "wpf", "wpb":
			back := o.K == "pb" || o.K == "wpb"
			waiting := o.K == "wpf" || o.K == "wpb"
			switch {
			case closed:
				if !(r.T == "err" && r.E == "closed") {
					return fail("closed", "push on a closed deque must fail with ErrQueueClosed")
				}
			case full:
				if waiting {
					if r.T != "blocked" {
						return fail("full", "blocking push on a full deque with a cancelled context must return the context error")
					}
				} else if !(r.T == "err" && r.E == "full") {
					return fail("full", "plain push on a full deque must fail with ErrQueueFull")
				}
			default:
				okNil := r.T == "err" && r.E == "nil"
				okRefused := class == "quota" && ((!waiting && r.T == "err" && r.E == "nocredit") || (waiting && r.T == "blocked"))
				if !okNil && !okRefused {
					return fail("wrong-error", "push with free capacity must succeed")
				}
				if okNil {
					if back {
						inside = append(inside, o.V)
					} else {
						inside = append([]int64{o.V}, inside...)
					}
				}
			}
		case "ff", "fb":
			back := o.K == "fb"
			switch {
			case closed:
				if !(r.T == "err" && r.E == "closed") {
					return fail("closed", "push on a closed deque must fail with ErrQueueClosed")
				}
			default:
				if !(r.T == "err" && r.E == "nil") {
					return fail("wrong-error", "Force push on an open deque must succeed")
				}
				evict := full
				if class == "quota" && !full && st.Len == len(inside) && len(inside) > 0 {
					evict = true // at the soft quota
				}
				if evict && len(inside) > 0 {
					if back {
						inside = inside[1:]
					} else {
						inside = inside[:len(inside)-1]
					}
				}
				if back {
					inside = append(inside, o.V)
				} else {
					inside = append([]int64{o.V}, inside...)
				}
			}
		case "of", "ob", "wf", "wb":
			back := o.K == "ob" || o.K == "wb"
			waiting := o.K == "wf" || o.K == "wb"
			switch {
			case closed:
				if waiting {
					if !(r.T == "err" && r.E == "closed") {
						return fail("closed", "Wait on a closed deque must fail with ErrQueueClosed")
					}
				} else if !(r.T == "pop" && !r.OK) {
					return fail("closed", "pop on a closed deque must report not-ok")
				}
			case len(inside) == 0:
				if waiting {
					if r.T != "blocked" {
						return fail("empty", "Wait on an empty deque with a cancelled context must return the context error")
					}
				} else if !(r.T == "pop" && !r.OK) {
					return fail("empty", "pop on an empty deque must report not-ok")
				}
			default:
				want := inside[0]
				if back {
					want = inside[len(inside)-1]
				}
				var got int64
				switch {
				case waiting && r.T == "got":
					got = r.V
				case !waiting && r.T == "pop" && r.OK:
					got = r.V
				case waiting && r.T == "blocked":
					return fail("blocks-nonempty", fmt.Sprintf("the deque is not empty (item %d is at the requested end) but the call returned the context error", want))
				default:
					return fail("not-ok-nonempty", "pop on a non-empty open deque must return the end item")
				}
				if got != want {
					return fail("wrong-item", fmt.Sprintf("returned %d, the item at the requested end is %d", got, want))
				}
				if returned[got] {
					return fail("duplicate", fmt.Sprintf("item %d returned twice", got))
				}
				returned[got] = true
				if back {
					inside = inside[:len(inside)-1]
				} else {
					inside = inside[1:]
				}
			}
		case "len":
			if !(r.T == "len" && int(r.V) == len(inside)) {
				return fail("len", fmt.Sprintf("Len must be %d", len(inside)))
			}
		case "close":
			if !(r.T == "err" && r.E == "nil") {
				return fail("wrong-error", "Close must return nil")
			}
			closed = true
		}
		// state after the step, as seen through Len and both producers
		if st.Len != len(inside) {
			return fail("len", fmt.Sprintf("Len() is %d afterwards, expected %d", st.Len, len(inside)))
		}
		if capa >= 0 && st.Len > capa {
			return fail("exceeds-capacity", fmt.Sprintf("Len() %d exceeds the capacity %d", st.Len, capa))
		}
		if !eqI64(st.Fwd, inside) || !eqI64(st.Bwd, rev(inside)) {
			cls := "effect"
			if eqI64(before, inside) {
				cls = "no-effect-expected"
			}
			return fail(cls, fmt.Sprintf("contents afterwards fwd=%v bwd=%v, expected %v", st.Fwd, st.Bwd, inside))
		}
	}
	if !closed && len(inside) != 0 {
		return "Drain", "effect", fmt.Sprintf("drain stopped with %v still inside", inside)
	}
	return "", "", ""
}

func coqObs(st []stepObs) string {
	s := make([]string, len(st))
	for i, x := range st {
		s[i] = "(" + x.R.Coq() + ", " + kit.ZI(x.Len) + ")"
	}
	return kit.List(s)
}

func coqOps(ops []Op) string {
	s := make([]string, len(ops))
	for i, o := range ops {
		s[i] = o.Coq()
	}
	return kit.List(s)
}

func execSeq(run *kit.Run, c Case, verbose bool) {
	obs := runSeq(c)
	if verbose {
		fmt.Printf("seq opts=%+v newok=%v\n", c.Opts, obs.NewOK)
		for i, st := range obs.Steps {
			fmt.Printf("  %2d %-14s %v -> %s | len=%d fwd=%v bwd=%v\n", i, opName[c.Ops[i].K], c.Ops[i].V, st.R, st.Len, st.Fwd, st.Bwd)
		}
		for i, st := range obs.DObs {
			fmt.Printf("  drain %-8s -> %s | len=%d\n", opName[obs.Drain[i].K], st.R, st.Len)
		}
	}
	if name, cls, detail := seqOracle(c, obs); cls != "" {
		run.OracleFail(c.ID, "C06:Deque."+name+":"+cls, detail, c, obs)
		if verbose {
			fmt.Println("ORACLE:", detail)
		}
	}
	fwd, bwd := []int64{}, []int64{}
	if n := len(obs.Steps); n > 0 {
		fwd, bwd = obs.Steps[n-1].Fwd, obs.Steps[n-1].Bwd
	}
	term := fmt.Sprintf("CSeq %s %s %s %s %s %s %s %s %s", kit.ZI(c.ID), c.Opts.Coq(), kit.Bool(obs.NewOK), coqOps(c.Ops),
		coqObs(obs.Steps), kit.ZList(fwd), kit.ZList(bwd), coqOps(obs.Drain), coqObs(obs.DObs))
	nontriv := false
	if obs.NewOK {
		seenPush := false
		for i, o := range c.Ops {
			r := obs.Steps[i].R
			if r.T == "err" && r.E == "nil" && o.K != "close" {
				seenPush = true
			}
			if seenPush && ((r.T == "pop" && r.OK) || r.T == "got") {
				nontriv = true
			}
			run.Count("seq/op/" + opName[o.K])
			run.Count("seq/result/" + strings.SplitN(r.String(), ":", 2)[0] + map[bool]string{true: ":" + r.E, false: ""}[r.T == "err"])
		}
	}
	cls := c.Opts.class()
	if !obs.NewOK {
		cls = "malformed"
	}
	run.Count("seq/opts/" + cls)
	run.Count("seq/len" + bucket(len(c.Ops)))
	run.Case(c.ID, c, term, fmt.Sprintf("s|%+v|%v|%v", c.Opts, c.Opts.Q, c.Ops), nontriv)
}

// ---------------------------------------------------------------- concurrent histories

type hop struct {
	Tid int `json:"tid"`
	Op  Op  `json:"op"`
	R   R   `json:"r"`
	Inv int `json:"inv"`
	Ret int `json:"ret"`
}

func runHist(c Case) ([]hop, sspec, error) {
	dq, s0, err := newReal(c.Opts)
	if err != nil {
		return nil, s0, err
	}
	var clock atomic.Int64
	var out []hop
	for _, o := range c.Prefill { // sequential prefix, thread -1
		inv := int(clock.Add(1))
		r := apply(dq, o, cancelled)
		out = append(out, hop{Tid: -1, Op: o, R: r, Inv: inv, Ret: int(clock.Add(1))})
	}
	// spin barrier: every goroutine is running before any of them issues its first operation
	var arrived atomic.Int32
	nthreads := int32(len(c.Threads))
	var wg sync.WaitGroup
	res := make([][]hop, len(c.Threads))
	for t := range c.Threads {
		wg.Add(1)
		go func(t int) {
			defer wg.Done()
			arrived.Add(1)
			for spin := 0; arrived.Load() < nthreads; spin++ {
				if spin%4096 == 4095 {
					runtime.Gosched()
				}
			}
			for _, o := range c.Threads[t] {
				ctx := cancelled
				var cancel context.CancelFunc
				if o.Live {
					ctx, cancel = context.WithTimeout(context.Background(), 2*time.Millisecond)
				}
				inv := int(clock.Add(1))
				r := apply(dq, o, ctx)
				ret := int(clock.Add(1))
				if cancel != nil {
					cancel()
				}
				res[t] = append(res[t], hop{Tid: t, Op: o, R: r, Inv: inv, Ret: ret})
			}
		}(t)
	}
	wg.Wait()
	for t := range res {
		out = append(out, res[t]...)
	}
	sort.Slice(out, func(i, j int) bool { return out[i].Inv < out[j].Inv })
	return out, s0, nil
}

// linearize: WGL-style backtracking with memoisation on (set of linearized operations, state).
func linearize(h []hop, s0 sspec) ([]int, bool) {
	n := len(h)
	if n > 30 {
		panic("history too long")
	}
	seen := map[string]bool{}
	order := make([]int, 0, n)
	var dfs func(mask uint32, s sspec) bool
	dfs = func(mask uint32, s sspec) bool {
		if mask == uint32(1)<<n-1 {
			return true
		}
		k := fmt.Sprintf("%x|%s", mask, s.key())
		if seen[k] {
			return false
		}
		seen[k] = true
		// the earliest response among pending operations bounds who may go next
		minRet := int(^uint(0) >> 1)
		for j := 0; j < n; j++ {
			if mask&(1<<j) == 0 && h[j].Ret < minRet {
				minRet = h[j].Ret
			}
		}
		for i := 0; i < n; i++ {
			if mask&(1<<i) != 0 || h[i].Inv > minRet {
				continue
			}
			s2, r := s.step(h[i].Op)
			if r != h[i].R {
				continue
			}
			order = append(order, i)
			if dfs(mask|1<<i, s2) {
				return true
			}
			order = order[:len(order)-1]
		}
		return false
	}
	ok := dfs(0, s0)
	return order, ok
}

func execHist(run *kit.Run, c Case, verbose bool) {
	h, s0, err := runHist(c)
	if err != nil {
		run.OracleFail(c.ID, "C06:NewDeque:valid-options-rejected", err.Error(), c, nil)
		return
	}
	order, ok := linearize(h, s0)
	if verbose {
		for _, x := range h {
			fmt.Printf("  t%d [%d,%d] %s %d -> %s\n", x.Tid, x.Inv, x.Ret, opName[x.Op.K], x.Op.V, x.R)
		}
		fmt.Println("  linearizable:", ok, "order:", order)
	}
	panicked := false
	for _, x := range h {
		if x.R.T == "panic" {
			panicked = true
		}
	}
	term := ""
	if !ok || panicked {
		lines := make([]string, len(h))
		for i, x := range h {
			lines[i] = fmt.Sprintf("t%d[%d,%d]%s(%d)->%s", x.Tid, x.Inv, x.Ret, opName[x.Op.K], x.Op.V, x.R)
		}
		run.OracleFail(c.ID, "C06:Deque:non-linearizable", "no sequential deque execution consistent with real-time order explains: "+strings.Join(lines, " "), c, h)
		if verbose {
			fmt.Println("ORACLE: non-linearizable")
		}
	} else {
		items := make([]string, len(order))
		for i, idx := range order {
			x := h[idx]
			items[i] = fmt.Sprintf("(%s, %s, (%s, %s))", x.Op.Coq(), x.R.Coq(), kit.ZI(x.Inv), kit.ZI(x.Ret))
		}
		term = fmt.Sprintf("CLin %s %s %s", kit.ZI(c.ID), c.Opts.Coq(), kit.List(items))
	}
	// non-trivial: at least two operations of different threads overlap and a pop returned an item
	overlap, gotItem := false, false
	for i := range h {
		if (h[i].R.T == "pop" && h[i].R.OK) || h[i].R.T == "got" {
			gotItem = true
		}
		for j := range h {
			if i != j && h[i].Tid != h[j].Tid && h[i].Inv < h[j].Ret && h[j].Inv < h[i].Ret {
				overlap = true
			}
		}
	}
	if overlap {
		run.Count("hist/overlapping")
	}
	run.Count(fmt.Sprintf("hist/threads=%d", len(c.Threads)))
	run.Count("hist/opts/" + c.Opts.class())
	for _, x := range h {
		if x.Tid >= 0 {
			run.Count("hist/op/" + opName[x.Op.K])
			if x.R.T == "blocked" {
				run.Count("hist/blocked")
			}
		}
	}
	key := fmt.Sprintf("h|%d", c.ID)
	lines := make([]string, len(h))
	for i, x := range h {
		lines[i] = fmt.Sprintf("%d:%s:%d:%d:%s", x.Tid, x.Op.K, x.Inv, x.Ret, x.R)
	}
	key = "h|" + fmt.Sprintf("%+v|%v|", c.Opts, c.Opts.Q) + strings.Join(lines, ",")
	run.Case(c.ID, c, term, key, overlap && gotItem)
}

func genHist(r *kit.Rand, id int) Case {
	c := Case{ID: id, Kind: "hist", Opts: genOpts(r, 3)}
	var next int64
	npre := r.Intn(3)
	for i := 0; i < npre; i++ {
		next++
		k := "pb"
		if r.Bool() {
			k = "pf"
		}
		c.Prefill = append(c.Prefill, Op{K: k, V: next})
	}
	k := r.Range(2, 6)
	total := r.Range(k, 12-npre)
	c.Threads = make([][]Op, k)
	for i := 0; i < total; i++ {
		t := i
		if i >= k {
			t = r.Intn(k)
		}
		o := genOp(r, &next, 40)
		switch o.K {
		case "wf", "wb", "wpf", "wpb":
			o.Live = r.Bool()
		}
		c.Threads[t] = append(c.Threads[t], o)
	}
	return c
}

// ---------------------------------------------------------------- wake-up scenarios (long deadlines)

const deadline = 10 * time.Second

type scen struct {
	name string
	args int
	fn   func(arg int, settle time.Duration) (method, class, detail string)
}

func mkDeque(capacity int) *pubsub.Deque[int64] {
	o := pubsub.DequeOptions{Capacity: capacity}
	if capacity == 0 {
		o = pubsub.DequeOptions{Unlimited: true}
	}
	dq, err := pubsub.NewDeque[int64](o)
	if err != nil {
		panic(err)
	}
	return dq
}

// late: the waiter's 10 s deadline had already fired when it returned, i.e. it was the deadline's
// broadcast that woke it, not the operation that satisfied its condition.
type waitRes struct {
	v    int64
	err  error
	late bool
}

var scenarios = []scen{
	// a Wait call made while its condition already holds does not block
	{"wait-nonempty-live", 4, func(arg int, _ time.Duration) (string, string, string) {
		dq := mkDeque(arg/2*3 + 0) // unlimited (0) or capacity 3
		for _, v := range []int64{1, 2, 3} {
			_ = dq.PushBack(v)
		}
		ctx, cancel := context.WithTimeout(context.Background(), deadline)
		defer cancel()
		var v int64
		var err error
		name, want := "WaitFront", int64(1)
		if arg%2 == 1 {
			name, want = "WaitBack", 3
			v, err = dq.WaitBack(ctx)
		} else {
			v, err = dq.WaitFront(ctx)
		}
		if err != nil {
			return name, "blocks-nonempty", fmt.Sprintf("%s on the non-empty deque [1 2 3] with a live context (10 s deadline) returned %v instead of %d", name, err, want)
		}
		if v != want {
			return name, "wrong-item", fmt.Sprintf("%s on [1 2 3] returned %d, expected %d", name, v, want)
		}
		return "", "", ""
	}},
	// a push-wait with free capacity does not block
	{"waitpush-free-live", 2, func(arg int, _ time.Duration) (string, string, string) {
		dq := mkDeque(2)
		_ = dq.PushBack(1)
		ctx, cancel := context.WithTimeout(context.Background(), deadline)
		defer cancel()
		name := "WaitPushFront"
		var err error
		if arg == 1 {
			name = "WaitPushBack"
			err = dq.WaitPushBack(ctx, 2)
		} else {
			err = dq.WaitPushFront(ctx, 2)
		}
		if err != nil {
			return name, "blocks-free-capacity", fmt.Sprintf("%s with free capacity returned %v", name, err)
		}
		return "", "", ""
	}},
	// a consumer parked on an empty deque is woken by a push at either end
	{"parked-consumer-wakes", 4, func(arg int, settle time.Duration) (string, string, string) {
		dq := mkDeque(0)
		ctx, cancel := context.WithTimeout(context.Background(), deadline)
		defer cancel()
		ch := make(chan waitRes, 1)
		wname := "WaitFront"
		if arg/2 == 1 {
			wname = "WaitBack"
		}
		go func() {
			var r waitRes
			if arg/2 == 1 {
				r.v, r.err = dq.WaitBack(ctx)
			} else {
				r.v, r.err = dq.WaitFront(ctx)
			}
			r.late = ctx.Err() != nil
			ch <- r
		}()
		time.Sleep(settle)
		pname := "PushFront"
		if arg%2 == 1 {
			pname = "PushBack"
			_ = dq.PushBack(7)
		} else {
			_ = dq.PushFront(7)
		}
		r := <-ch
		if r.err != nil || r.v != 7 || r.late {
			return wname, "missed-wakeup", fmt.Sprintf("%s parked on an empty deque; %s(7) followed; the waiter returned (%d, %v), woken only by its 10 s deadline: %v; expected (7, nil) at once", wname, pname, r.v, r.err, r.late)
		}
		return "", "", ""
	}},
	// Close wakes parked consumers and producers
	{"close-wakes", 4, func(arg int, settle time.Duration) (string, string, string) {
		dq := mkDeque(1)
		names := []string{"WaitFront", "WaitBack", "WaitPushFront", "WaitPushBack"}
		name := names[arg]
		if arg >= 2 {
			_ = dq.PushBack(1) // full
		}
		ctx, cancel := context.WithTimeout(context.Background(), deadline)
		defer cancel()
		ch := make(chan waitRes, 1)
		go func() {
			var err error
			switch arg {
			case 0:
				_, err = dq.WaitFront(ctx)
			case 1:
				_, err = dq.WaitBack(ctx)
			case 2:
				err = dq.WaitPushFront(ctx, 9)
			case 3:
				err = dq.WaitPushBack(ctx, 9)
			}
			ch <- waitRes{err: err, late: ctx.Err() != nil}
		}()
		time.Sleep(settle)
		_ = dq.Close()
		r := <-ch
		if !errors.Is(r.err, pubsub.ErrQueueClosed) || r.late {
			return name, "close-no-wakeup", fmt.Sprintf("%s was parked when Close() was called; it returned %v, woken only by its 10 s deadline: %v; expected ErrQueueClosed at once", name, r.err, r.late)
		}
		return "", "", ""
	}},
	// a producer parked on a full deque is woken by a pop at either end
	{"parked-producer-wakes", 4, func(arg int, settle time.Duration) (string, string, string) {
		dq := mkDeque(1)
		_ = dq.PushBack(1)
		ctx, cancel := context.WithTimeout(context.Background(), deadline)
		defer cancel()
		ch := make(chan waitRes, 1)
		name := "WaitPushFront"
		if arg/2 == 1 {
			name = "WaitPushBack"
		}
		go func() {
			var err error
			if arg/2 == 1 {
				err = dq.WaitPushBack(ctx, 5)
			} else {
				err = dq.WaitPushFront(ctx, 5)
			}
			ch <- waitRes{err: err, late: ctx.Err() != nil}
		}()
		time.Sleep(settle)
		if arg%2 == 1 {
			dq.PopBack()
		} else {
			dq.PopFront()
		}
		r := <-ch
		v, ok := dq.PopFront()
		if r.err != nil || !ok || v != 5 || r.late {
			return name, "missed-wakeup", fmt.Sprintf("%s parked on a full deque; a pop followed; it returned %v (woken only by its 10 s deadline: %v) and the deque then held (%d,%v), expected nil at once and 5", name, r.err, r.late, v, ok)
		}
		return "", "", ""
	}},
	// two parked consumers, two pushes: both return, with different items
	{"two-consumers", 2, func(arg int, settle time.Duration) (string, string, string) {
		dq := mkDeque(0)
		ctx, cancel := context.WithTimeout(context.Background(), deadline)
		defer cancel()
		ch := make(chan waitRes, 2)
		for i := 0; i < 2; i++ {
			go func(i int) {
				var r waitRes
				if arg == 1 && i == 1 {
					r.v, r.err = dq.WaitBack(ctx)
				} else {
					r.v, r.err = dq.WaitFront(ctx)
				}
				r.late = ctx.Err() != nil
				ch <- r
			}(i)
		}
		time.Sleep(settle)
		_ = dq.PushBack(1)
		_ = dq.PushBack(2)
		a, b := <-ch, <-ch
		if a.err != nil || b.err != nil || a.v == b.v || a.v+b.v != 3 || a.late || b.late {
			return "WaitFront", "missed-wakeup", fmt.Sprintf("two parked consumers, PushBack(1), PushBack(2): results (%d,%v,late=%v) and (%d,%v,late=%v)", a.v, a.err, a.late, b.v, b.err, b.late)
		}
		return "", "", ""
	}},
	// a blocking producer (iterator) parked behind the last element sees a push at that end
	{"blocking-iterator-tail", 2, func(arg int, settle time.Duration) (string, string, string) {
		dq := mkDeque(0)
		_ = dq.PushBack(1)
		ctx, cancel := context.WithTimeout(context.Background(), deadline)
		defer cancel()
		p := dq.ProducerBlocking()
		name := "ProducerBlocking"
		if arg == 1 {
			p = dq.ProducerReverseBlocking()
			name = "ProducerReverseBlocking"
		}
		if v, err := p(ctx); err != nil || v != 1 {
			return name, "first-item", fmt.Sprintf("first call returned (%d,%v)", v, err)
		}
		ch := make(chan waitRes, 1)
		go func() {
			var r waitRes
			r.v, r.err = p(ctx)
			r.late = ctx.Err() != nil
			ch <- r
		}()
		time.Sleep(settle)
		if arg == 1 {
			_ = dq.PushFront(2)
		} else {
			_ = dq.PushBack(2)
		}
		r := <-ch
		if r.err != nil || r.v != 2 || r.late {
			return name, "missed-wakeup", fmt.Sprintf("%s parked behind the last element; a push at that end followed; it returned (%d,%v), woken only by its 10 s deadline: %v; expected (2,nil) at once", name, r.v, r.err, r.late)
		}
		return "", "", ""
	}},
}

func findScen(name string) *scen {
	for i := range scenarios {
		if scenarios[i].name == name {
			return &scenarios[i]
		}
	}
	return nil
}

type scenOut struct {
	c                     Case
	method, class, detail string
}

// runScenarios executes the given scenario cases concurrently (each on its own deque) so that a
// tree with the wake-up defects costs one deadline, not one per scenario.
func runScenarios(cs []Case, settle func(i int) time.Duration) []scenOut {
	out := make([]scenOut, len(cs))
	var wg sync.WaitGroup
	for i := range cs {
		wg.Add(1)
		go func(i int) {
			defer wg.Done()
			s := findScen(cs[i].Name)
			out[i].c = cs[i]
			out[i].method, out[i].class, out[i].detail = s.fn(cs[i].Arg, settle(i))
		}(i)
	}
	wg.Wait()
	return out
}

func recordScen(run *kit.Run, o scenOut, verbose bool) {
	if o.class != "" {
		run.OracleFail(o.c.ID, "C06:Deque."+o.method+":"+o.class, "scenario "+o.c.Name+": "+o.detail, o.c, o.detail)
	}
	if verbose {
		fmt.Printf("scenario %s/%d: %s %s %s\n", o.c.Name, o.c.Arg, o.method, o.class, o.detail)
	}
	run.Count("scenario/" + o.c.Name)
	run.Case(o.c.ID, o.c, "", fmt.Sprintf("sc|%s|%d", o.c.Name, o.c.Arg), true)
}

// ---------------------------------------------------------------- main

func bucket(n int) string {
	switch {
	case n <= 4:
		return "<=4"
	case n <= 12:
		return "5-12"
	case n <= 24:
		return "13-24"
	default:
		return ">24"
	}
}

func main() {
	run := kit.Start()
	run.Header = "From FunV Require Import Base.Tac Model.DequeHeap Corr.C06_corr.\nFrom Coq Require Import PrimFloat."
	run.Footer = "Definition M := Eval vm_compute in mismatches cases.\nPrint M."
	run.CaseType = "case"
	run.Rule = "seq: random sequences of the 12 Deque operations (unique item values, both ends, blocking ops with a cancelled context) over fixed-capacity / unlimited / queue-options / malformed options, results + Len + forward and reverse contents observed after every step, drained from both ends; hist: 2-6 goroutines, <= 12 operations, stamped from one atomic counter, blocking ops with a cancelled or a 2 ms context, linearizability searched against the sequential specification; scenario: wake-up scenarios with 10 s deadlines. distinct = distinct (options, operation sequence) resp. distinct recorded history; non-trivial = a pop/Wait returned an item after a successful push (seq), two operations of different goroutines overlapped and an item was returned (hist), every scenario"

	if run.Replay != "" {
		var c Case
		if err := kit.ReadReplayCase(run.Replay, &c); err != nil {
			panic(err)
		}
		switch c.Kind {
		case "seq":
			execSeq(run, c, true)
		case "hist":
			// the schedule is not part of the case: try it repeatedly
			for i := 0; i < 200 && run.NOracle == 0; i++ {
				execHist(run, c, i == 0)
			}
		case "scenario":
			for _, o := range runScenarios([]Case{c}, func(int) time.Duration { return 50 * time.Millisecond }) {
				recordScen(run, o, true)
			}
		}
		run.Finish()
		return
	}

	id := 0
	// ---- corpus: minimal shapes of the defects this check found (they run first, always)
	corpus := []Case{
		{Kind: "seq", Opts: Opts{Capacity: 2}, Ops: []Op{{K: "pb", V: 1}, {K: "wf"}}},
		{Kind: "seq", Opts: Opts{Capacity: 2}, Ops: []Op{{K: "pb", V: 1}, {K: "pb", V: 2}, {K: "wb"}, {K: "wf"}, {K: "wf"}}},
		{Kind: "seq", Opts: Opts{Capacity: 2}, Ops: []Op{{K: "pb", V: 1}, {K: "pb", V: 2}, {K: "pb", V: 3}, {K: "ff", V: 4}, {K: "fb", V: 5}, {K: "len"}}},
		{Kind: "seq", Opts: Opts{Capacity: 1}, Ops: []Op{{K: "pf", V: 1}, {K: "close"}, {K: "pf", V: 2}, {K: "ff", V: 3}, {K: "of"}, {K: "wf"}, {K: "wpb", V: 4}, {K: "len"}}},
		{Kind: "seq", Opts: Opts{Q: &QO{Hard: 2, Soft: 0, Burst: 0}}, Ops: []Op{{K: "pb", V: 1}, {K: "pb", V: 2}, {K: "of"}, {K: "of"}, {K: "pb", V: 3}, {K: "wpb", V: 4}, {K: "pb", V: 5}, {K: "fb", V: 6}}},
		{Kind: "seq", Opts: Opts{Unlimited: true}, Ops: []Op{{K: "wpf", V: 1}, {K: "wpb", V: 2}, {K: "ff", V: 3}, {K: "wb"}, {K: "wf"}, {K: "wf"}, {K: "wf"}}},
	}
	for _, c := range corpus {
		c.ID = id
		id++
		execSeq(run, c, false)
	}

	// ---- scenarios
	rounds := run.Pick(2, 20)
	var scs []Case
	for rd := 0; rd < rounds; rd++ {
		for _, s := range scenarios {
			for a := 0; a < s.args; a++ {
				scs = append(scs, Case{ID: id, Kind: "scenario", Name: s.name, Arg: a})
				id++
			}
		}
	}
	settles := make([]time.Duration, len(scs))
	for i := range settles {
		settles[i] = time.Duration(run.Rand.Intn(60)) * time.Millisecond
		if i < len(scs)/rounds {
			settles[i] = 50 * time.Millisecond
		}
	}
	// at most one round at a time (one deadline per round on a defective tree; stop after the first defective round)
	per := len(scs) / rounds
	for rd := 0; rd < rounds; rd++ {
		outs := runScenarios(scs[rd*per:(rd+1)*per], func(i int) time.Duration { return settles[rd*per+i] })
		bad := false
		for _, o := range outs {
			recordScen(run, o, false)
			bad = bad || o.class != ""
		}
		if bad {
			break
		}
	}

	// ---- sequential differential
	n := run.Pick(1500, 40000)
	for i := 0; i < n; i++ {
		r := run.Rand.Fork()
		c := Case{ID: id, Kind: "seq"}
		id++
		if r.Chance(1, 12) {
			c.Opts = genMalformed(r)
		} else {
			c.Opts = genOpts(r, 6)
		}
		nops := r.Range(0, 30)
		if r.Chance(1, 10) {
			nops = r.Range(30, 60)
		}
		closeDen := 60
		if r.Chance(1, 5) {
			closeDen = 12
		}
		var next int64
		for j := 0; j < nops; j++ {
			c.Ops = append(c.Ops, genOp(r, &next, closeDen))
		}
		execSeq(run, c, false)
	}

	// ---- concurrent histories
	nh := run.Pick(4000, 60000)
	stopHist := false
	for i := 0; i < nh && !stopHist; i++ {
		r := run.Rand.Fork()
		c := genHist(r, id)
		id++
		before := run.NOracle
		execHist(run, c, false)
		if run.NOracle > before+0 && run.NOracle >= 5 {
			stopHist = true // enough evidence; every further defective history costs its timeouts
		}
	}
	run.Finish()
}
