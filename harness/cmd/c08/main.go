// Driver for C08 (broker delivers each message exactly once, in order, to every
// subscriber). Runs the REAL pubsub.Broker over every distributor back-end and
// option combination, with scripted handshakes instead of sleeps, and
//   - applies the property's direct oracles to the per-subscriber delivery logs
//     (foreign value, duplicate, order with one worker, completeness for lossless
//     configurations);
//   - prints each run as a Coq case: configuration, a schedule of model events
//     synthesised from the observed event-loop order and delivery logs, and the
//     logs; coq/Corr/Broker_corr.v replays it through the Coq model.
// A corpus scenario always reproduces known finding #17
// (C08:broker:unsubscribe-before-dispatch).
package main

import (
	"encoding/json"
	"fmt"
	"os"
	"runtime"

	"verif/harness/cmd/c08/bk"
	"verif/harness/kit"
)

// unexpected counts oracle failures other than the known in-flight finding; once
// a few have been recorded the verdict is settled and the run stops early (a
// broken broker makes every remaining scenario wait for its 10 s bounds).
var unexpected int

const knownInflight = "C08:broker:unsubscribe-before-dispatch"

func record(run *kit.Run, sc bk.Scenario, res *bk.Result) {
	bk.Synthesize(sc, res)
	nontrivial := res.NMsgs > 0 && len(res.Obs.Logs) > 0
	key := fmt.Sprintf("%s|%s|%d|%v", sc.Kind, sc.Cfg.Key(), len(sc.Steps), res.Obs.Logs)
	run.Case(sc.ID, sc, res.Coq, key, nontrivial)
	run.Count("kind/" + sc.Kind)
	run.Count("backend/" + sc.Cfg.Backend)
	run.Count(fmt.Sprintf("workers/%d", sc.Cfg.NW()))
	if sc.Cfg.Par {
		run.Count("parallel-dispatch")
	}
	if sc.Cfg.Buf > 0 {
		run.Count("buffered-subscriptions")
	}
	if res.Coq == "" {
		run.Count("oracle-only(no schedule synthesised)")
	}
	if res.Stuck != "" {
		run.Count("schedule-synthesis-stuck")
	}
	seen := map[string]bool{}
	for _, f := range res.Fails {
		if seen[f.Sig] {
			continue
		}
		seen[f.Sig] = true
		if f.Sig != knownInflight {
			unexpected++
		}
		run.OracleFail(sc.ID, f.Sig, f.Detail, sc, res.Obs)
	}
}

func execute(sc bk.Scenario) bk.Result {
	switch sc.Kind {
	case "close-race-loop":
		return bk.RunCloseRace(sc, false)
	case "close-race-owner":
		return bk.RunCloseRace(sc, true)
	}
	return bk.Run(sc, true)
}

func main() {
	run := kit.Start()
	run.Header = "From FunV Require Import Corr.C08_corr."
	run.CaseType = "case"
	run.Footer = "Definition M := Eval vm_compute in mismatches cases.\nPrint M."
	run.ShardSize = 40
	run.Rule = "a run is non-trivial if it published at least one message and had at least one subscriber; distinct = distinct (kind, configuration, script length, delivery logs)"

	if run.Replay != "" {
		var sc bk.Scenario
		if err := kit.ReadReplayCase(run.Replay, &sc); err != nil {
			fmt.Fprintln(os.Stderr, "replay:", err)
			os.Exit(2)
		}
		res := execute(sc)
		record(run, sc, &res)
		b, _ := json.Marshal(map[string]any{"observed": res.Obs, "control": res.Ctl, "fails": res.Fails, "stuck": res.Stuck})
		fmt.Println(string(b))
		run.Finish()
		return
	}

	id := 0
	next := func() int { id++; return id }

	// corpus: known finding #17 on both buffered lossless back-ends, and the same
	// script on a broker whose subscriber reads throughout (nothing may be lost)
	for _, be := range []string{"queue", "deque"} {
		sc := bk.GenInflight(next(), be, 3)
		res := bk.Run(sc, true)
		record(run, sc, &res)
	}

	// corpus: redundant / foreign Unsubscribe calls must not disturb a subscriber
	// that stays subscribed throughout
	for _, be := range []string{"chan", "queue", "deque"} {
		sc := bk.GenRedundantUnsub(next(), be, 25)
		res := bk.Run(sc, true)
		record(run, sc, &res)
	}
	// many subscribers, a dispatch parked on its first send, most unsubscribe, all drain
	for i, n := 0, run.Pick(12, 200); i < n && unexpected < 3; i++ {
		r := run.Rand.Fork()
		sc := bk.GenMassUnsub(r, next(), []string{"queue", "deque", "chan"}[i%3], []int{1, 1, 2}[i%3])
		res := execute(sc)
		record(run, sc, &res)
	}
	// API calls with dead / expiring contexts between ordinary traffic
	for i, n := 0, run.Pick(30, 400); i < n && unexpected < 3; i++ {
		r := run.Rand.Fork()
		c := bk.GenCfg(r, bk.Backends)
		sc := bk.GenDeadCalls(r, next(), c)
		res := execute(sc)
		record(run, sc, &res)
	}
	// the queue/deque behind the broker is closed right after the last message,
	// while the workers are parked: only published values may ever arrive
	for i, n := 0, run.Pick(48, 600); i < n && unexpected < 3; i++ {
		be := []string{"deque", "lifo", "queue", "dequeblock"}[i%4]
		kind := "close-race-loop"
		if i%8 >= 4 {
			kind = "close-race-owner"
		}
		sc := bk.Scenario{ID: next(), Kind: kind, Cfg: bk.Cfg{Backend: be, W: []int{1, 4, 2}[i%3], Cap: 3}}
		res := execute(sc)
		record(run, sc, &res)
	}

	// corpus: distributors with filters (MakeDistributorBroker over WithInputFilter / WithOutputFilter)
	for i, be := range []string{"queue", "deque", "queue", "deque", "chan"} {
		inF, outF := []int{0, 3, 2, 0, 0}[i], []int{2, 0, 3, 2, 2}[i]
		sc := bk.GenFiltered(next(), be, inF, outF, []int{1, 2, 4, 1, 2}[i], i%2 == 1)
		res := execute(sc)
		record(run, sc, &res)
	}

	rounds := run.Pick(1500, 30000)
	procs := []int{runtime.NumCPU(), 1, 2, 4}
	for i := 0; i < rounds && unexpected < 3; i++ {
		if i%25 == 0 {
			// scheduling perturbation only
			runtime.GOMAXPROCS(procs[(i/25)%len(procs)])
		}
		r := run.Rand.Fork()
		c := bk.GenCfg(r, bk.Backends)
		var sc bk.Scenario
		switch {
		case i%7 == 3:
			sc = bk.GenJoin(r, next(), c)
		case i%11 == 5:
			sc = bk.GenPhased(r, next(), c, true)
		default:
			sc = bk.GenPhased(r, next(), c, false)
		}
		res := bk.Run(sc, true)
		record(run, sc, &res)
	}
	run.Finish()
}
