// Package bk is the shared machinery of the C08 and C09 drivers: it builds real
// pubsub brokers over every distributor back-end, runs scripted and randomised
// scenarios against them with deterministic handshakes (no verdict depends on a
// short sleep), records what every subscriber received, evaluates the
// properties' direct oracles, and synthesises a schedule of model events that
// coq/Corr/Broker_corr.v replays through the Coq model.
package bk

import (
	"context"
	"errors"
	"fmt"
	"io"
	"runtime"
	"sort"
	"strings"
	"sync"
	"sync/atomic"
	"time"

	"github.com/tychoish/fun"
	"github.com/tychoish/fun/pubsub"
)

// Bound is the only timeout that decides "blocked".
const Bound = 10 * time.Second

// ---------------------------------------------------------------- configuration

type Cfg struct {
	Backend string `json:"backend"` // chan | queue | deque | dequeblock | lifo | queuelim
	W       int    `json:"w"`       // WorkerPoolSize
	Par     bool   `json:"par"`     // ParallelDispatch
	Buf     int    `json:"buf"`     // BufferSize
	Cap     int    `json:"cap"`     // capacity of bounded back-ends
	InF     int    `json:"inf,omitempty"`  // WithInputFilter: ids divisible by InF are rejected (0 = none)
	OutF    int    `json:"outf,omitempty"` // WithOutputFilter: ids divisible by OutF are rejected (0 = none)
}

func passes(k, m int) bool { return k == 0 || m%k != 0 }

// Passes: the message gets through both filters of the distributor.
func (c Cfg) Passes(m int) bool { return passes(c.InF, m) && passes(c.OutF, m) }

var Backends = []string{"chan", "queue", "deque", "dequeblock", "lifo", "queuelim"}

func (c Cfg) NW() int {
	if c.W <= 0 {
		return 1
	}
	return c.W
}

// Lossless per the property text: unbuffered subscription channels and a
// channel / unlimited (or blocking) buffer distributor.
func (c Cfg) Lossless() bool {
	if c.Buf != 0 || c.InF != 0 || c.OutF != 0 {
		return false
	}
	switch c.Backend {
	case "chan", "queue", "deque", "dequeblock":
		return true
	}
	return false
}

// LosslessButFilters: nothing is dropped except what the distributor's filters reject.
func (c Cfg) LosslessButFilters() bool {
	d := c
	d.InF, d.OutF = 0, 0
	return d.Lossless()
}

func (c Cfg) Bounded() bool {
	return c.Backend == "dequeblock" || c.Backend == "lifo" || c.Backend == "queuelim"
}

func (c Cfg) Coq() string {
	chanb, dcap, pol := "false", "None", "PBlock"
	switch c.Backend {
	case "chan":
		chanb = "true"
	case "dequeblock":
		dcap = fmt.Sprintf("(Some %d)", c.Cap)
	case "lifo":
		dcap, pol = fmt.Sprintf("(Some %d)", c.Cap), "PEvict"
	case "queuelim":
		dcap, pol = fmt.Sprintf("(Some %d)", c.Cap), "PDropNew"
	}
	par := "false"
	if c.Par {
		par = "true"
	}
	return fmt.Sprintf("(mkCfg %d %s %d %s %s %s true %d %d false false)", c.W, par, c.Buf, chanb, dcap, pol, c.InF, c.OutF)
}

func (c Cfg) Key() string {
	return fmt.Sprintf("%s/w%d/par%v/buf%d/cap%d/in%d/out%d", c.Backend, c.W, c.Par, c.Buf, c.Cap, c.InF, c.OutF)
}

// ---------------------------------------------------------------- tapped distributor

type SendRec struct {
	M   int    `json:"m"`
	Res string `json:"res"` // ok | full | nocredit | ctx | closed | other
}

// Tap wraps a real distributor; Send is only ever called by the broker's
// event-loop goroutine, so `sends` is the exact event-loop order of publications.
type Tap struct {
	base  pubsub.Distributor[int]
	back  backing
	// closeAfter != 0: the container is closed, inside the event loop, right
	// after this message has been accepted (the owner shuts the broker's queue
	// down after the last message)
	closeAfter atomic.Int64
	inF        int
	mu    sync.Mutex
	sends []SendRec
	recvs atomic.Int64
}

func errKind(err error) string {
	switch {
	case err == nil:
		return "ok"
	case errors.Is(err, pubsub.ErrQueueFull):
		return "full"
	case errors.Is(err, pubsub.ErrQueueNoCredit):
		return "nocredit"
	case errors.Is(err, pubsub.ErrQueueClosed), errors.Is(err, io.EOF):
		return "closed"
	case errors.Is(err, context.Canceled), errors.Is(err, context.DeadlineExceeded):
		return "ctx"
	}
	return "other"
}

func (t *Tap) tapSend(ctx context.Context, v int) error {
	err := t.base.Send(ctx, v)
	if ca := t.closeAfter.Load(); ca != 0 && int64(v) == ca && t.back.close != nil {
		_ = t.back.close()
	}
	res := errKind(err)
	if res == "ok" && !passes(t.inF, v) {
		res = "filtered" // the input filter swallowed it: Send returns nil, nothing was enqueued
	}
	t.mu.Lock()
	t.sends = append(t.sends, SendRec{M: v, Res: res})
	t.mu.Unlock()
	return err
}

func (t *Tap) tapRecv(ctx context.Context) (int, error) {
	v, err := t.base.Receive(ctx)
	if err == nil {
		t.recvs.Add(1)
	}
	return v, err
}

func (t *Tap) Dist() pubsub.Distributor[int] {
	return pubsub.MakeDistributor(fun.Processor[int](t.tapSend), fun.Producer[int](t.tapRecv), t.base.Len)
}

func (t *Tap) NSends() int { t.mu.Lock(); defer t.mu.Unlock(); return len(t.sends) }

func (t *Tap) SendsFrom(i int) []SendRec {
	t.mu.Lock()
	defer t.mu.Unlock()
	return append([]SendRec(nil), t.sends[i:]...)
}

// backing is the container behind a distributor, as its owner sees it.
type backing struct {
	dist  pubsub.Distributor[int]
	close func() error      // Queue.Close / Deque.Close (nil for a plain channel)
	push  func(int) error   // the owner's own non-blocking push (nil for a plain channel)
}

func makeBacking(c Cfg) backing {
	switch c.Backend {
	case "chan":
		return backing{dist: pubsub.DistributorChannel(make(chan int))}
	case "queue":
		q := pubsub.NewUnlimitedQueue[int]()
		return backing{dist: q.Distributor(), close: q.Close, push: q.Add}
	case "deque":
		dq := pubsub.NewUnlimitedDeque[int]()
		return backing{dist: dq.Distributor(), close: dq.Close, push: dq.PushBack}
	case "dequeblock":
		dq, err := pubsub.NewDeque[int](pubsub.DequeOptions{Capacity: c.Cap})
		if err != nil {
			panic(err)
		}
		return backing{dist: dq.Distributor(), close: dq.Close, push: dq.PushBack}
	case "lifo":
		dq, err := pubsub.NewDeque[int](pubsub.DequeOptions{Capacity: c.Cap})
		if err != nil {
			panic(err)
		}
		// exactly what NewLIFOBroker uses
		return backing{dist: dq.DistributorNonBlocking(), close: dq.Close, push: dq.ForcePushBack}
	case "queuelim":
		q, err := pubsub.NewQueue[int](pubsub.QueueOptions{HardLimit: c.Cap, SoftQuota: c.Cap})
		if err != nil {
			panic(err)
		}
		return backing{dist: q.Distributor(), close: q.Close, push: q.Add}
	}
	panic("unknown backend " + c.Backend)
}

// ---------------------------------------------------------------- goroutine snapshots

type gor struct {
	state string
	body  string
}

func snapshot() []gor {
	buf := make([]byte, 1<<16)
	for {
		n := runtime.Stack(buf, true)
		if n < len(buf) {
			buf = buf[:n]
			break
		}
		buf = make([]byte, 2*len(buf))
	}
	var out []gor
	for _, blk := range strings.Split(string(buf), "\n\n") {
		blk = strings.TrimSpace(blk)
		if !strings.HasPrefix(blk, "goroutine ") {
			continue
		}
		nl := strings.IndexByte(blk, '\n')
		if nl < 0 {
			continue
		}
		hdr := blk[:nl]
		st := ""
		if i := strings.IndexByte(hdr, '['); i >= 0 {
			if j := strings.IndexByte(hdr[i:], ']'); j > 0 {
				st = hdr[i+1 : i+j]
			}
		}
		if k := strings.IndexByte(st, ','); k >= 0 {
			st = st[:k]
		}
		out = append(out, gor{state: st, body: blk[nl+1:]})
	}
	return out
}

func waiting(state string) bool {
	switch state {
	case "select", "chan receive", "chan send", "sync.Cond.Wait", "semacquire", "sync.Mutex.Lock", "sync.WaitGroup.Wait", "select (no cases)":
		return true
	}
	return false
}

const libPrefix = "github.com/tychoish/fun"

// LibGoroutines returns the stacks of goroutines that have a frame inside the
// library under test and are not goroutines of this harness blocked in an API
// call (callers exclude those by finishing them first).
func LibGoroutines() []string {
	var out []string
	for _, g := range snapshot() {
		if strings.Contains(g.body, libPrefix) {
			out = append(out, "["+g.state+"]\n"+g.body)
		}
	}
	return out
}

// WaitNoLibGoroutines polls until no goroutine has a frame in the library, or Bound.
func WaitNoLibGoroutines() []string {
	deadline := time.Now().Add(Bound)
	for {
		l := LibGoroutines()
		if len(l) == 0 || time.Now().After(deadline) {
			return l
		}
		time.Sleep(200 * time.Microsecond)
	}
}

// countWhere counts goroutines whose stack contains all of `frames` and that are parked.
func countWhere(gs []gor, mustWait bool, frames ...string) int {
	n := 0
outer:
	for _, g := range gs {
		for _, f := range frames {
			if !strings.Contains(g.body, f) {
				continue outer
			}
		}
		if mustWait && !waiting(g.state) {
			continue
		}
		n++
	}
	return n
}

// ---------------------------------------------------------------- subscribers

type ctlMsg struct {
	kind string // pause | resume | flush
	ack  chan struct{}
}

type Sub struct {
	Idx       int
	ch        chan int
	mu        sync.Mutex
	log       []int
	ctl       chan ctlMsg
	quit      chan struct{}
	done      chan struct{}
	SubRet    int64
	UnsubCall int64 // 0 = never
	UnsubRet  int64
	Subscribed bool
	paused    bool
	Leftover  []int // still in the subscription channel's buffer after everything stopped
	Foreign   bool  // a channel the broker never handed out (only ever passed to Unsubscribe)
}

func (s *Sub) run(startPaused bool) {
	defer close(s.done)
	paused := startPaused
	for {
		var in <-chan int = s.ch
		if paused {
			in = nil
		}
		select {
		case v := <-in:
			s.mu.Lock()
			s.log = append(s.log, v)
			s.mu.Unlock()
		case c := <-s.ctl:
			switch c.kind {
			case "pause":
				paused = true
			case "resume":
				paused = false
			}
			close(c.ack)
		case <-s.quit:
			return
		}
	}
}

func (s *Sub) control(kind string) {
	ack := make(chan struct{})
	select {
	case s.ctl <- ctlMsg{kind: kind, ack: ack}:
		<-ack
	case <-s.done:
	}
}

func (s *Sub) Log() []int {
	s.mu.Lock()
	defer s.mu.Unlock()
	return append([]int(nil), s.log...)
}

// ---------------------------------------------------------------- runner

type PubRec struct {
	M        int
	Pubr     int
	Call     int64
	Ret      int64
	Returned bool // rendezvous with the loop (not a ctx abort)
}

type CtlEv struct {
	Op  string `json:"op"` // sub | unsub | pub | stop
	I   int    `json:"i,omitempty"`
	M   int    `json:"m,omitempty"`
	Res string `json:"res,omitempty"`
}

type Fail struct {
	Sig    string
	Detail string
}

type Runner struct {
	Cfg     Cfg
	ctx     context.Context
	cancel  context.CancelFunc // parent context of the broker
	B       *pubsub.Broker[int]
	Tap     *Tap
	clock   atomic.Int64
	Subs    []*Sub
	pmu     sync.Mutex
	Pubs    []PubRec
	Ctl     []CtlEv
	flushed int
	Fails   []Fail
	Stopped bool
	Inflight bool // an Unsubscribe was issued while messages were in flight towards that subscriber
	nsubscribed int
	actx    context.Context
	acancel context.CancelFunc
	awg     sync.WaitGroup
	deadPubs int
}

func NewRunner(c Cfg) *Runner {
	r := &Runner{Cfg: c}
	r.ctx, r.cancel = context.WithCancel(context.Background())
	bk := makeBacking(c)
	d := bk.dist
	if c.InF > 0 {
		k := c.InF
		d = d.WithInputFilter(func(m int) bool { return m%k != 0 })
	}
	if c.OutF > 0 {
		k := c.OutF
		d = d.WithOutputFilter(func(m int) bool { return m%k != 0 })
	}
	r.Tap = &Tap{base: d, back: bk, inF: c.InF}
	r.B = pubsub.MakeDistributorBroker(r.ctx, r.Tap.Dist(), pubsub.BrokerOptions{BufferSize: c.Buf, ParallelDispatch: c.Par, WorkerPoolSize: c.W})
	return r
}

func (r *Runner) fail(sig, format string, a ...any) {
	r.Fails = append(r.Fails, Fail{Sig: sig, Detail: fmt.Sprintf(format, a...)})
}

func (r *Runner) now() int64 { return r.clock.Add(1) }

func (r *Runner) flushSends() {
	for _, s := range r.Tap.SendsFrom(r.flushed) {
		r.Ctl = append(r.Ctl, CtlEv{Op: "pub", M: s.M, Res: s.Res})
		r.flushed++
	}
}

func bctx() (context.Context, context.CancelFunc) {
	return context.WithTimeout(context.Background(), Bound)
}

// loopIdle: the event loop is parked in its select (not between a rendezvous and
// the end of dist.Send), observed in one stop-the-world snapshot.
func loopIdle(gs []gor) bool {
	return countWhere(gs, true, "startQueueWorkers.func1") == 1 && countWhere(gs, false, "startQueueWorkers.func1", "bk.(*Tap).tapSend") == 0
}

func (r *Runner) dequeBased() bool {
	switch r.Cfg.Backend {
	case "deque", "dequeblock", "lifo":
		return true
	}
	return false
}

// workersIdle: every dispatch worker is waiting inside Receive. For the channel
// and Queue back-ends that is "parked inside tapRecv" (a worker that has popped
// an item but not yet returned is running, hence not counted). Deque waiters
// signal each other from inside their wait loop (two idle waiters keep waking
// each other), so for Deque back-ends a worker counts when it is inside
// element.wait, in any run state.
func (r *Runner) workersIdle(gs []gor) bool {
	if r.dequeBased() {
		return countWhere(gs, false, "bk.(*Tap).tapRecv", "pubsub.(*element[", ").wait(") == r.Cfg.NW()
	}
	return countWhere(gs, true, "bk.(*Tap).tapRecv") == r.Cfg.NW()
}

// idleNow takes one consistent reading: no send completed around a
// stop-the-world snapshot in which the loop is parked in its select and every
// worker waits in Receive, and the buffer was empty just before it.
func (r *Runner) idleNow() (bool, string) {
	n0 := r.Tap.NSends()
	l0 := r.Tap.base.Len()
	gs := snapshot()
	n1 := r.Tap.NSends()
	li, wi := loopIdle(gs), r.workersIdle(gs)
	return n0 == n1 && l0 == 0 && li && wi, fmt.Sprintf("loopIdle=%v workersWaiting=%v len=%d sends=%d/%d", li, wi, l0, n0, n1)
}

// Quiesce waits until every worker is waiting inside Receive, the loop is parked
// in its select and the distributor is empty; then until every receiving
// subscriber has drained its channel and recorded what it took. A broker that
// does not get there within Bound has stalled.
func (r *Runner) Quiesce(what string) bool {
	deadline := time.Now().Add(Bound)
	for {
		ok, why := r.idleNow()
		if ok {
			break
		}
		if time.Now().After(deadline) {
			r.fail("C09:broker:stall:"+r.Cfg.Backend, "%s: not idle after %v: %s", what, Bound, why)
			return false
		}
		time.Sleep(100 * time.Microsecond)
	}
	for _, s := range r.Subs {
		if s.paused {
			continue
		}
		for len(s.ch) > 0 {
			if time.Now().After(deadline) {
				r.fail("C09:broker:stall:"+r.Cfg.Backend, "%s: subscriber %d did not drain", what, s.Idx)
				return false
			}
			time.Sleep(50 * time.Microsecond)
		}
		s.control("flush")
	}
	r.flushSends()
	return true
}

// WaitLoopIdle waits until the loop is parked in its select.
func (r *Runner) WaitLoopIdle() bool {
	deadline := time.Now().Add(Bound)
	for {
		if loopIdle(snapshot()) {
			return true
		}
		if time.Now().After(deadline) {
			return false
		}
		time.Sleep(100 * time.Microsecond)
	}
}

// WaitWorkerInSend waits until n goroutines are parked in Broker.sendMsg.
func (r *Runner) WaitWorkerInSend(n int) bool {
	deadline := time.Now().Add(Bound)
	for {
		if countWhere(snapshot(), true, ").sendMsg(") >= n {
			return true
		}
		if time.Now().After(deadline) {
			return false
		}
		time.Sleep(100 * time.Microsecond)
	}
}

func (r *Runner) statsSubs() (int, bool) {
	ctx, cancel := bctx()
	defer cancel()
	st := r.B.Stats(ctx)
	return st.Subscriptions, ctx.Err() == nil
}

// Subscribe creates subscriber idx (the next index) and waits until the event
// loop has registered it (immediately at the rendezvous when BufferSize = 0).
func (r *Runner) Subscribe(paused bool) *Sub {
	ctx, cancel := bctx()
	defer cancel()
	r.flushSends()
	ch := r.B.Subscribe(ctx)
	s := &Sub{Idx: len(r.Subs), ch: ch, ctl: make(chan ctlMsg), quit: make(chan struct{}), done: make(chan struct{}), paused: paused}
	s.SubRet = r.now()
	r.Subs = append(r.Subs, s)
	if ch == nil {
		r.fail("C09:broker:stall:"+r.Cfg.Backend, "Subscribe did not return a channel within %v", Bound)
		close(s.done)
		return s
	}
	s.Subscribed = true
	r.nsubscribed++
	go s.run(paused)
	if r.Cfg.Buf > 0 {
		// the request may still sit in the buffered subCh; with BufferSize = 0
		// Subscribe returns at the hand-off to the loop, which registers the
		// channel before it looks at any later request - nothing to wait for, and
		// waiting would hide a broker that returns from Subscribe too early
		r.awaitSubCount()
	}
	r.Ctl = append(r.Ctl, CtlEv{Op: "sub", I: s.Idx})
	return s
}

func (r *Runner) awaitSubCount() {
	deadline := time.Now().Add(Bound)
	for {
		n, ok := r.statsSubs()
		if ok && n == r.nsubscribed {
			return
		}
		if time.Now().After(deadline) {
			r.fail("C09:broker:stall:"+r.Cfg.Backend, "subscription count %d never became %d", n, r.nsubscribed)
			return
		}
		time.Sleep(100 * time.Microsecond)
	}
}

func (r *Runner) Unsubscribe(s *Sub) {
	if !s.Subscribed {
		return
	}
	ctx, cancel := bctx()
	defer cancel()
	r.flushSends()
	s.UnsubCall = r.now()
	r.B.Unsubscribe(ctx, s.ch)
	s.UnsubRet = r.now()
	if ctx.Err() != nil {
		r.fail("C09:broker:stall:"+r.Cfg.Backend, "Unsubscribe did not return within %v", Bound)
		return
	}
	s.Subscribed = false
	r.nsubscribed--
	// Unsubscribe returns at the hand-off to the event loop (or to the buffered
	// request channel); a Stats round trip observes that the loop has performed
	// the Delete.
	r.awaitSubCount()
	r.flushSends()
	r.Ctl = append(r.Ctl, CtlEv{Op: "unsub", I: s.Idx})
}

// UnsubscribeAgain issues an Unsubscribe for a channel that is not subscribed
// (already unsubscribed, or never handed out by Subscribe): a no-op for the
// subscriber set. The Stats round trip (BufferSize 0) runs after the loop has
// handled the request.
func (r *Runner) UnsubscribeAgain(s *Sub) {
	ctx, cancel := bctx()
	defer cancel()
	r.flushSends()
	r.B.Unsubscribe(ctx, s.ch)
	if ctx.Err() != nil {
		r.fail("C09:broker:stall:"+r.Cfg.Backend, "redundant Unsubscribe did not return within %v", Bound)
		return
	}
	r.awaitSubCount()
	r.flushSends()
	r.Ctl = append(r.Ctl, CtlEv{Op: "unsub", I: s.Idx})
}

// Foreign makes a subscriber record for a channel the broker never handed out.
func (r *Runner) Foreign() *Sub {
	s := &Sub{Idx: len(r.Subs), ch: make(chan int, r.Cfg.Buf), ctl: make(chan ctlMsg), quit: make(chan struct{}), done: make(chan struct{}), paused: true, Foreign: true}
	close(s.done)
	r.Subs = append(r.Subs, s)
	return s
}

// DeadCalls issues API calls whose own context is already over (or is
// cancelled at the moment of the call) on the live broker, each while the event
// loop is parked in its select, i.e. while the hand-off to the loop is possible.
// A call that comes back empty-handed must have had no effect: afterwards the
// number of subscriptions the loop reports is exactly the number the harness
// holds. A Subscribe that does return a channel (possible with an expiring
// context) is an ordinary subscriber from then on.
func (r *Runner) DeadCalls(n int, expiring bool) {
	for i := 0; i < n; i++ {
		r.WaitLoopIdle()
		ctx, cancel := context.WithCancel(context.Background())
		if expiring && i%2 == 1 {
			go cancel()
		} else {
			cancel()
		}
		switch i % 5 {
		case 4:
			// the select may pick either arm: the message is published or it is not;
			// nobody is owed it, but if it is delivered it is a published message
			r.deadPubs++
			m := 800 + r.deadPubs
			call := r.now()
			r.B.Publish(ctx, m)
			r.pmu.Lock()
			r.Pubs = append(r.Pubs, PubRec{M: m, Pubr: 200, Call: call, Ret: r.now(), Returned: false})
			r.pmu.Unlock()
		case 0, 1:
			r.flushSends()
			ch := r.B.Subscribe(ctx)
			if ch != nil {
				s := &Sub{Idx: len(r.Subs), ch: ch, ctl: make(chan ctlMsg), quit: make(chan struct{}), done: make(chan struct{})}
				s.SubRet = r.now()
				s.Subscribed = true
				r.Subs = append(r.Subs, s)
				r.nsubscribed++
				go s.run(false)
				r.awaitSubCount()
				r.Ctl = append(r.Ctl, CtlEv{Op: "sub", I: s.Idx})
			}
		case 2:
			_ = r.B.Stats(ctx)
		case 3:
			// a channel nobody subscribed: whether or not the request gets through, nothing changes
			r.B.Unsubscribe(ctx, make(chan int, r.Cfg.Buf))
		}
		cancel()
	}
	// whatever a dead-context Publish got through is dispatched before the script goes on
	allReading := true
	for _, s := range r.Subs {
		if s.Subscribed && s.paused {
			allReading = false
		}
	}
	if allReading {
		r.Quiesce("after calls with ended contexts")
	}
	r.WaitLoopIdle()
	if n, ok := r.statsSubs(); ok && n != r.nsubscribed {
		r.fail("C08:Subscribe:ghost", "the event loop holds %d subscriptions, but only %d Subscribe calls returned a channel that is still subscribed (a Subscribe that returned nil registered its channel)", n, r.nsubscribed)
	}
}

func (r *Runner) Pause(s *Sub)  { s.control("pause"); s.paused = true }
func (r *Runner) Resume(s *Sub) { s.control("resume"); s.paused = false }

// Burst starts one goroutine per publisher, each publishing its messages in
// order, and returns a function that waits for all of them (false if a Publish
// did not return within Bound).
func (r *Runner) Burst(pubs [][]int) func() bool {
	var wg sync.WaitGroup
	var timedOut atomic.Bool
	base := len(r.Pubs)
	n := 0
	for _, l := range pubs {
		n += len(l)
	}
	r.pmu.Lock()
	r.Pubs = append(r.Pubs, make([]PubRec, n)...)
	r.pmu.Unlock()
	off := base
	for p, l := range pubs {
		wg.Add(1)
		go func(p int, l []int, off int) {
			defer wg.Done()
			for j, m := range l {
				ctx, cancel := bctx()
				call := r.now()
				r.B.Publish(ctx, m)
				ok := ctx.Err() == nil
				cancel()
				ret := r.now()
				r.pmu.Lock()
				r.Pubs[off+j] = PubRec{M: m, Pubr: p, Call: call, Ret: ret, Returned: ok}
				r.pmu.Unlock()
				if !ok {
					timedOut.Store(true)
					return
				}
			}
		}(p, l, off)
		off += len(l)
	}
	return func() bool {
		wg.Wait()
		if timedOut.Load() {
			r.fail("C09:broker:stall:"+r.Cfg.Backend, "a Publish did not return within %v", Bound)
			return false
		}
		return true
	}
}

// BurstAsync is Burst with one cancellable context shared by the publishers.
func (r *Runner) BurstAsync(pubs [][]int) {
	if r.actx == nil {
		r.actx, r.acancel = context.WithCancel(context.Background())
	}
	ctx := r.actx
	for p, l := range pubs {
		r.awg.Add(1)
		go func(p int, l []int) {
			defer r.awg.Done()
			for _, m := range l {
				call := r.now()
				r.B.Publish(ctx, m)
				ok := ctx.Err() == nil
				ret := r.now()
				r.pmu.Lock()
				r.Pubs = append(r.Pubs, PubRec{M: m, Pubr: 100 + p, Call: call, Ret: ret, Returned: ok})
				r.pmu.Unlock()
				if !ok {
					return
				}
			}
		}(p, l)
	}
}

// WaitAsync waits for the asynchronous publishers, optionally cancelling their
// context first; a Publish that does not return within Bound ignores its context.
func (r *Runner) WaitAsync(cancel bool) bool {
	if r.actx == nil {
		return true
	}
	if cancel {
		r.acancel()
	}
	done := make(chan struct{})
	go func() { r.awg.Wait(); close(done) }()
	select {
	case <-done:
		return true
	case <-time.After(Bound):
		if cancel {
			r.fail("C09:Broker.Publish:ctx-ignored", "Publish did not return within %v of the cancellation of its own context", Bound)
		} else {
			r.fail("C09:broker:stall:"+r.Cfg.Backend, "a Publish did not return within %v", Bound)
		}
		return false
	}
}

// Stop stops the broker (Stop, or cancellation of its parent context).
func (r *Runner) Stop(viaParent bool) bool {
	r.flushSends()
	r.Ctl = append(r.Ctl, CtlEv{Op: "stop"})
	r.Stopped = true
	if viaParent {
		r.cancel()
		return true
	}
	done := make(chan struct{})
	go func() { r.B.Stop(); close(done) }()
	select {
	case <-done:
		return true
	case <-time.After(Bound):
		r.fail("C09:Broker.Stop:blocked", "Stop did not return within %v", Bound)
		return false
	}
}

// WaitDone checks that Wait returns (with a context that is still live).
func (r *Runner) WaitDone() bool {
	ctx, cancel := bctx()
	defer cancel()
	r.B.Wait(ctx)
	if ctx.Err() != nil {
		r.fail("C09:Broker.Wait:blocked", "Wait did not return within %v after Stop/cancel", Bound)
		return false
	}
	return true
}

// Finish ends every harness goroutine and the broker, then applies the leak oracle.
func (r *Runner) Finish(checkLeak bool) {
	if r.actx != nil {
		r.acancel()
		r.awg.Wait()
	}
	for _, s := range r.Subs {
		select {
		case <-s.done:
		default:
			close(s.quit)
			<-s.done
		}
	}
	r.flushSends()
	if !r.Stopped {
		r.cancel() // not part of the scenario: only tidying up
	}
	r.cancel()
	left := WaitNoLibGoroutines()
	for _, s := range r.Subs {
		if s.ch == nil {
			continue
		}
	drain:
		for {
			select {
			case v := <-s.ch:
				s.Leftover = append(s.Leftover, v)
			default:
				break drain
			}
		}
	}
	if checkLeak {
		if l := left; len(l) > 0 {
			r.fail("C09:broker:goroutine-leak", "%d goroutine(s) still inside %s %v after shutdown; first:\n%s", len(l), libPrefix, Bound, trim(l[0], 1200))
		}
	}
}

func trim(s string, n int) string {
	if len(s) > n {
		return s[:n] + "..."
	}
	return s
}

// ---------------------------------------------------------------- C08 oracles on what was observed

type Obs struct {
	Logs map[int][]int `json:"logs"`
	Left map[int][]int `json:"left,omitempty"` // sent into a subscription channel's buffer, never received
}

func (r *Runner) Observations() Obs {
	o := Obs{Logs: map[int][]int{}, Left: map[int][]int{}}
	for _, s := range r.Subs {
		o.Logs[s.Idx] = s.Log()
		if len(s.Leftover) > 0 {
			o.Left[s.Idx] = s.Leftover
		}
	}
	return o
}

// CheckC08 evaluates the property's direct oracles; `complete` says the run
// ended at a live quiescent point with every subscribed receiver active, so the
// exactly-once clause can be judged.
func (r *Runner) CheckC08(complete bool) {
	published := map[int]PubRec{}
	for _, p := range r.Pubs {
		if p.M != 0 || p.Call != 0 {
			published[p.M] = p
		}
	}
	order := map[int]int{} // distributor (event-loop) order
	for i, s := range r.Tap.SendsFrom(0) {
		if _, dup := order[s.M]; !dup {
			order[s.M] = i
		}
	}
	for _, s := range r.Subs {
		log := s.Log()
		seen := map[int]int{}
		for i, v := range log {
			if _, ok := published[v]; !ok {
				r.fail("C08:broker:foreign", "subscriber %d received %d, which was never published", s.Idx, v)
			}
			if !r.Cfg.Passes(v) {
				r.fail("C08:broker:filtered-delivered", "subscriber %d received %d, which the distributor's filter rejects", s.Idx, v)
			}
			if j, dup := seen[v]; dup {
				r.fail("C08:broker:duplicate", "subscriber %d received %d twice (positions %d and %d)", s.Idx, v, j, i)
			}
			seen[v] = i
		}
		if r.Cfg.NW() == 1 {
			lastPos := -1
			lastPer := map[int]int64{}
			for _, v := range log {
				pos, ok := order[v]
				if !ok {
					continue
				}
				if pos < lastPos {
					r.fail("C08:broker:order", "subscriber %d received %d out of distributor order (single worker)", s.Idx, v)
					break
				}
				lastPos = pos
				p := published[v]
				if p.Call < lastPer[p.Pubr] {
					r.fail("C08:broker:order", "subscriber %d: publisher %d's messages out of order at %d", s.Idx, p.Pubr, v)
					break
				}
				lastPer[p.Pubr] = p.Call
			}
		}
		if complete && r.Cfg.LosslessButFilters() && s.ch != nil && !s.Foreign {
			for _, p := range r.Pubs {
				if !p.Returned || p.Call <= s.SubRet || !r.Cfg.Passes(p.M) {
					continue
				}
				if s.UnsubCall != 0 && p.Ret >= s.UnsubCall {
					continue
				}
				if _, ok := seen[p.M]; !ok {
					sig := "C08:broker:lost"
					if s.UnsubCall != 0 {
						sig = "C08:broker:unsubscribe-before-dispatch"
					}
					r.fail(sig, "subscriber %d never received %d (Publish returned at %d, Subscribe returned at %d, Unsubscribe called at %d)", s.Idx, p.M, p.Ret, s.SubRet, s.UnsubCall)
					break
				}
			}
		}
	}
}

func SortedKeys(m map[int][]int) []int {
	ks := make([]int, 0, len(m))
	for k := range m {
		ks = append(ks, k)
	}
	sort.Ints(ks)
	return ks
}
