package bk

import (
	"fmt"
	"strings"
	"time"

	"verif/harness/kit"
)

type Step struct {
	Op     string  `json:"op"` // sub | unsub | burst | pburst | inflight | joinburst | stop | wait
	I      int     `json:"i,omitempty"`
	Paused bool    `json:"paused,omitempty"`
	Parent bool    `json:"parent,omitempty"`
	Pubs   [][]int `json:"pubs,omitempty"`
	Joins  int     `json:"joins,omitempty"`
}

type Scenario struct {
	ID    int    `json:"id"`
	Kind  string `json:"kind"`
	Cfg   Cfg    `json:"cfg"`
	Steps []Step `json:"steps"`
}

type Result struct {
	Fails    []Fail
	Obs      Obs
	Ctl      []CtlEv
	Complete bool // ended live, idle, every subscribed receiver active
	Stopped  bool
	Inflight bool
	Wild     bool // subscribers joined while publishers were running: no schedule is synthesised
	Coq      string
	Stuck    string
	NEvents  int
	NMsgs    int
}

func nmsgs(p [][]int) int {
	n := 0
	for _, l := range p {
		n += len(l)
	}
	return n
}

// Run executes the scenario on a fresh real broker.
func Run(sc Scenario, leak bool) Result {
	r := NewRunner(sc.Cfg)
	res := Result{Complete: true}
	ok := true
	for _, st := range sc.Steps {
		if !ok {
			break
		}
		switch st.Op {
		case "sub":
			r.Subscribe(st.Paused)
		case "unsub":
			r.Unsubscribe(r.Subs[st.I])
		case "unsub2":
			// redundant: the channel is no longer subscribed
			r.UnsubscribeAgain(r.Subs[st.I])
		case "unsubx":
			// a channel that was never subscribed
			r.UnsubscribeAgain(r.Foreign())
		case "burst":
			res.NMsgs += nmsgs(st.Pubs)
			wait := r.Burst(st.Pubs)
			ok = wait() && r.Quiesce("burst")
		case "pburst":
			// publishes complete (or block on a full / unbuffered back-end) while no
			// subscriber reads, i.e. before the dispatcher can make progress
			res.NMsgs += nmsgs(st.Pubs)
			var paused []*Sub
			for _, s := range r.Subs {
				if s.Subscribed && !s.paused {
					r.Pause(s)
					paused = append(paused, s)
				}
			}
			wait := r.Burst(st.Pubs)
			if len(paused) > 0 {
				time.Sleep(time.Duration(200+100*len(st.Pubs)) * time.Microsecond) // perturbation only
			}
			for _, s := range paused {
				r.Resume(s)
			}
			ok = wait() && r.Quiesce("pburst")
		case "inflight":
			// subscriber I is subscribed but not reading; the messages are accepted by
			// the buffer; Unsubscribe is processed; then the subscriber reads on.
			res.NMsgs += nmsgs(st.Pubs)
			s := r.Subs[st.I]
			wait := r.Burst(st.Pubs)
			ok = wait()
			if ok {
				ok = r.WaitLoopIdle() && r.WaitWorkerInSend(1)
			}
			if ok {
				r.Inflight = true
				r.Unsubscribe(s)
				r.Resume(s)
				ok = r.Quiesce("inflight")
			}
		case "joinburst":
			// new subscribers join while the publishers are running
			res.NMsgs += nmsgs(st.Pubs)
			res.Wild = true
			wait := r.Burst(st.Pubs)
			for j := 0; j < st.Joins; j++ {
				r.Subscribe(false)
			}
			ok = wait() && r.Quiesce("joinburst")
		case "deadcalls":
			r.DeadCalls(st.I, st.Paused)
		case "blockedpub":
			// one message while nobody reads: the dispatch is parked on its first send
			res.NMsgs += nmsgs(st.Pubs)
			r.Inflight = true
			wait := r.Burst(st.Pubs)
			ok = wait() && r.WaitLoopIdle() && r.WaitWorkerInSend(1)
		case "pause":
			r.Pause(r.Subs[st.I])
		case "resume":
			r.Resume(r.Subs[st.I])
		case "aburst":
			// publishers with their own cancellable context; nobody waits for them here
			res.NMsgs += nmsgs(st.Pubs)
			r.BurstAsync(st.Pubs)
		case "waitsend":
			ok = r.WaitWorkerInSend(st.I)
			if !ok {
				r.fail("C09:broker:stall:"+r.Cfg.Backend, "no dispatch worker reached sendMsg within %v", Bound)
			}
		case "waitpubs":
			// every asynchronous Publish has returned by itself (buffered back-ends)
			ok = r.WaitAsync(false)
		case "cancelpubs":
			// the publishers' own context is cancelled: every Publish must return
			ok = r.WaitAsync(true)
		case "stop":
			res.Complete = false
			ok = r.Stop(st.Parent)
		case "wait":
			ok = r.WaitDone()
		}
	}
	for _, s := range r.Subs {
		if s.Subscribed && s.paused {
			res.Complete = false
		}
	}
	if !ok {
		res.Complete = false
	}
	r.Finish(leak)
	res.Obs = r.Observations()
	r.CheckC08(res.Complete)
	res.Fails = r.Fails
	res.Ctl = r.Ctl
	res.Stopped = r.Stopped
	res.Inflight = r.Inflight
	return res
}

// Synthesize builds the Coq case term for a finished run.
func Synthesize(sc Scenario, res *Result) {
	if res.Wild {
		return
	}
	sim := NewSim(sc.Cfg, res.Obs.Logs, res.Obs.Left)
	func() {
		// observations no run of the model can explain must end up as a rejected
		// case, never as a crash of the driver
		defer func() {
			if p := recover(); p != nil {
				sim.Stuck = fmt.Sprint("schedule synthesis failed: ", p)
			}
		}()
		for _, e := range res.Ctl {
			sim.Feed(e)
		}
		sim.Finish()
	}()
	res.Stuck = sim.Stuck
	res.NEvents = len(sim.Ev)
	var obs []string
	for _, k := range SortedKeys(res.Obs.Logs) {
		l := res.Obs.Logs[k]
		s := make([]string, len(l))
		for i, v := range l {
			s[i] = fmt.Sprint(v)
		}
		obs = append(obs, fmt.Sprintf("(%d, [%s])", k, strings.Join(s, "; ")))
	}
	full := sc.Cfg.Lossless() && !res.Inflight && !res.Stopped && res.Complete
	res.Coq = fmt.Sprintf("mkCase %s %s\n  %s\n  [%s] %s %s", kit.ZI(sc.ID), sc.Cfg.Coq(), sim.CoqEvents(),
		strings.Join(obs, "; "), kit.Bool(res.Stopped), kit.Bool(full))
}

// ---------------------------------------------------------------- generators

func GenCfg(r *kit.Rand, backends []string) Cfg {
	c := Cfg{Backend: backends[r.Intn(len(backends))]}
	switch r.Intn(4) {
	case 0:
		c.W = 0
	case 1:
		c.W = 1
	case 2:
		c.W = 2
	default:
		c.W = r.Range(3, 4)
	}
	c.Par = r.Chance(1, 3)
	if r.Chance(1, 4) {
		c.Buf = r.Range(1, 3)
	}
	if c.Backend == "dequeblock" || c.Backend == "lifo" || c.Backend == "queuelim" {
		c.Cap = r.Range(1, 4)
	}
	// custom distributors: MakeDistributorBroker over a distributor carrying filters
	if r.Chance(1, 5) {
		switch r.Intn(3) {
		case 0:
			c.InF = r.Range(2, 4)
		case 1:
			c.OutF = r.Range(2, 4)
		default:
			c.InF, c.OutF = r.Range(2, 3), r.Range(3, 5)
		}
	}
	return c
}

type idgen struct{ next int }

func (g *idgen) pubs(r *kit.Rand, maxPubs, maxEach int) [][]int {
	p := r.Range(1, maxPubs)
	out := make([][]int, p)
	for i := range out {
		n := r.Intn(maxEach + 1)
		for j := 0; j < n; j++ {
			g.next++
			out[i] = append(out[i], g.next)
		}
	}
	return out
}

// GenPhased: subscriber set changes only at quiescent points; bursts with
// reading or temporarily non-reading subscribers.
func GenPhased(r *kit.Rand, id int, c Cfg, big bool) Scenario {
	sc := Scenario{ID: id, Kind: "phased", Cfg: c}
	g := &idgen{}
	nsub := 0
	live := []int{}
	add := func() {
		sc.Steps = append(sc.Steps, Step{Op: "sub"})
		live = append(live, nsub)
		nsub++
	}
	for i, n := 0, r.Range(0, 3); i < n; i++ {
		add()
	}
	gone := []int{}
	phases := r.Range(1, 4)
	for ph := 0; ph < phases; ph++ {
		switch r.Intn(7) {
		case 0:
			if nsub < 6 {
				add()
			}
		case 1:
			if len(live) > 0 {
				k := r.Intn(len(live))
				sc.Steps = append(sc.Steps, Step{Op: "unsub", I: live[k]})
				gone = append(gone, live[k])
				live = append(live[:k], live[k+1:]...)
			}
		case 2:
			// redundant Unsubscribe calls (as many as there are live subscribers, or a few)
			if len(gone) > 0 {
				for j, n := 0, r.Range(1, len(live)+1); j < n; j++ {
					sc.Steps = append(sc.Steps, Step{Op: "unsub2", I: gone[r.Intn(len(gone))]})
				}
			}
		case 4:
			// API calls whose context is over (or ends during the call): no effect allowed
			sc.Steps = append(sc.Steps, Step{Op: "deadcalls", I: r.Range(2, 8), Paused: r.Bool()})
		case 3:
			// Unsubscribe of channels the broker never handed out
			for j, n := 0, r.Range(1, len(live)+1); j < n && nsub < 8; j++ {
				sc.Steps = append(sc.Steps, Step{Op: "unsubx"})
				nsub++
			}
		}
		maxEach := 6
		if big {
			maxEach = 40
		}
		op := "burst"
		if r.Chance(2, 5) {
			op = "pburst"
		}
		sc.Steps = append(sc.Steps, Step{Op: op, Pubs: g.pubs(r, 3, maxEach)})
	}
	return sc
}

// GenInflight: the deterministic reproduction of finding #17.
func GenInflight(id int, backend string, n int) Scenario {
	sc := Scenario{ID: id, Kind: "inflight", Cfg: Cfg{Backend: backend, W: 1}}
	msgs := make([]int, n)
	for i := range msgs {
		msgs[i] = i + 1
	}
	sc.Steps = []Step{{Op: "sub", Paused: true}, {Op: "inflight", I: 0, Pubs: [][]int{msgs}}}
	return sc
}

func GenJoin(r *kit.Rand, id int, c Cfg) Scenario {
	sc := Scenario{ID: id, Kind: "join", Cfg: c}
	g := &idgen{}
	for i, n := 0, r.Range(0, 2); i < n; i++ {
		sc.Steps = append(sc.Steps, Step{Op: "sub"})
	}
	sc.Steps = append(sc.Steps, Step{Op: "joinburst", Pubs: g.pubs(r, 3, 25), Joins: r.Range(1, 3)})
	sc.Steps = append(sc.Steps, Step{Op: "burst", Pubs: g.pubs(r, 2, 5)})
	return sc
}

// GenRedundantUnsub: two subscribers, the leaver is unsubscribed twice (an
// explicit call plus e.g. a deferred one), a foreign channel once, a new
// subscriber joins; the keeper stays subscribed throughout and must get everything.
func GenRedundantUnsub(id int, backend string, n int) Scenario {
	sc := Scenario{ID: id, Kind: "redundant-unsub", Cfg: Cfg{Backend: backend, W: 1}}
	g := &idgen{}
	seq := func(k int) [][]int {
		l := make([]int, k)
		for i := range l {
			g.next++
			l[i] = g.next
		}
		return [][]int{l}
	}
	sc.Steps = []Step{{Op: "sub"}, {Op: "sub"}, {Op: "burst", Pubs: seq(2)},
		{Op: "unsub", I: 1}, {Op: "unsub2", I: 1}, {Op: "burst", Pubs: seq(n)},
		{Op: "unsubx"}, {Op: "unsub2", I: 1}, {Op: "burst", Pubs: seq(3)},
		{Op: "sub"}, {Op: "burst", Pubs: seq(3)}}
	return sc
}

// GenFiltered: the demo configuration of a filtered distributor - a pool of
// workers over an output-filtered (and/or input-filtered) buffer, several
// rejected publications, subscribers reading throughout.
func GenFiltered(id int, backend string, inF, outF, w int, par bool) Scenario {
	sc := Scenario{ID: id, Kind: "filtered", Cfg: Cfg{Backend: backend, W: w, Par: par, InF: inF, OutF: outF}}
	a, b := []int{}, []int{}
	for i := 1; i <= 12; i++ {
		a = append(a, i)
		b = append(b, 12+i)
	}
	sc.Steps = []Step{{Op: "sub"}, {Op: "sub"}, {Op: "burst", Pubs: [][]int{a}}, {Op: "pburst", Pubs: [][]int{b}}}
	return sc
}

// GenDeadCalls: normal traffic, then a series of API calls with dead / expiring
// contexts on the idle live broker, then more traffic: every real subscriber
// still gets everything and the broker does not stall.
func GenDeadCalls(r *kit.Rand, id int, c Cfg) Scenario {
	sc := Scenario{ID: id, Kind: "dead-ctx-calls", Cfg: c}
	g := &idgen{}
	for i, n := 0, r.Range(1, 3); i < n; i++ {
		sc.Steps = append(sc.Steps, Step{Op: "sub"})
	}
	sc.Steps = append(sc.Steps, Step{Op: "burst", Pubs: g.pubs(r, 2, 4)},
		Step{Op: "deadcalls", I: r.Range(6, 12)},
		Step{Op: "burst", Pubs: g.pubs(r, 2, 6)},
		Step{Op: "deadcalls", I: r.Range(4, 8), Paused: true},
		Step{Op: "pburst", Pubs: g.pubs(r, 2, 6)})
	return sc
}

// GenMassUnsub: many subscribers, one message published while nobody reads (the
// sequential dispatch is parked on its first send), most of them unsubscribe,
// then everybody drains: the ones that stayed must have the message.
func GenMassUnsub(r *kit.Rand, id int, backend string, w int) Scenario {
	sc := Scenario{ID: id, Kind: "mass-unsub", Cfg: Cfg{Backend: backend, W: w}}
	n := r.Range(6, 10)
	for i := 0; i < n; i++ {
		sc.Steps = append(sc.Steps, Step{Op: "sub", Paused: true})
	}
	sc.Steps = append(sc.Steps, Step{Op: "blockedpub", Pubs: [][]int{{1}}})
	stay := r.Range(1, 2)
	perm := make([]int, n)
	for i := range perm {
		perm[i] = i
	}
	for i := n - 1; i > 0; i-- {
		j := r.Intn(i + 1)
		perm[i], perm[j] = perm[j], perm[i]
	}
	for _, i := range perm[stay:] {
		sc.Steps = append(sc.Steps, Step{Op: "unsub", I: i})
	}
	for i := 0; i < n; i++ {
		sc.Steps = append(sc.Steps, Step{Op: "resume", I: i})
	}
	sc.Steps = append(sc.Steps, Step{Op: "burst", Pubs: [][]int{{2, 3}}})
	return sc
}
