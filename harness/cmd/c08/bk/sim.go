package bk

import (
	"fmt"
	"strings"
)

// Sim synthesises, from the control events of a run (event-loop order of
// subscribe / unsubscribe / publish / stop) and the per-subscriber delivery
// logs, a schedule of events of coq/Model/BrokerModel.v that reproduces those
// logs. It mirrors the model's enabling conditions with a greedy policy; the Coq
// side replays the schedule through the real `step` function and is the judge.
type simWorker struct {
	busy    bool
	m       int
	ranging bool
	vis     map[int]bool
	must    map[int]bool
	pend    []int
}

type Sim struct {
	cfg    Cfg
	Ev     []string
	caller int
	subs   []int
	dist   []int
	wk     []simWorker
	ch     map[int][]int
	want   map[int][]int // still to be received by the subscriber
	need   map[int][]int // still to be sent to the subscriber (received later, or left in its buffer)
	live   bool
	hold   int // >= 0: a subscriber about to be added; a dispatch whose message it received stays open
	Stuck  string
}

func NewSim(c Cfg, logs, left map[int][]int) *Sim {
	s := &Sim{cfg: c, wk: make([]simWorker, c.NW()), ch: map[int][]int{}, want: map[int][]int{}, need: map[int][]int{}, live: true, hold: -1}
	for k, v := range logs {
		s.want[k] = append([]int(nil), v...)
		s.need[k] = append([]int(nil), v...)
		if c.Buf > 0 {
			s.need[k] = append(s.need[k], left[k]...)
		}
	}
	return s
}

func (s *Sim) emit(format string, a ...any) { s.Ev = append(s.Ev, fmt.Sprintf(format, a...)) }

func (s *Sim) isSub(i int) bool {
	for _, x := range s.subs {
		if x == i {
			return true
		}
	}
	return false
}

// deliverable: m is the next message subscriber i must get through a send.
func (s *Sim) deliverable(i, m int) bool {
	n := s.need[i]
	if len(n) == 0 || n[0] != m {
		return false
	}
	return s.cfg.Buf == 0 || len(s.ch[i]) < s.cfg.Buf
}

func (s *Sim) wants(i, m int) bool {
	for _, x := range s.need[i] {
		if x == m {
			return true
		}
	}
	return false
}

func (s *Sim) anyWants(m int) bool {
	for i := range s.need {
		if s.wants(i, m) {
			return true
		}
	}
	return false
}

func removeOne(l []int, x int) []int {
	for i, y := range l {
		if y == x {
			return append(append([]int(nil), l[:i]...), l[i+1:]...)
		}
	}
	return l
}

// progress performs one enabled worker/subscriber step that is consistent with
// the observed logs; false if there is none.
func (s *Sim) progress() bool {
	// subscriber receives from its buffered channel
	for i, c := range s.ch {
		if len(c) > 0 && len(s.want[i]) > 0 && s.want[i][0] == c[0] {
			s.emit("ERecv %d", i)
			s.ch[i] = c[1:]
			s.want[i] = s.want[i][1:]
			return true
		}
	}
	for w := range s.wk {
		k := &s.wk[w]
		if !k.busy {
			continue
		}
		// complete a pending send
		for _, i := range k.pend {
			if s.deliverable(i, k.m) {
				s.emit("ESend %d %d", w, i)
				s.need[i] = s.need[i][1:]
				if s.cfg.Buf == 0 {
					s.want[i] = s.want[i][1:]
				} else {
					s.ch[i] = append(s.ch[i], k.m)
				}
				k.pend = removeOne(k.pend, i)
				return true
			}
		}
		// a send the subscriber never saw is abandoned once the context is dead
		if !s.live {
			for _, i := range k.pend {
				if !s.wants(i, k.m) {
					s.emit("EDropSend %d %d", w, i)
					k.pend = removeOne(k.pend, i)
					return true
				}
			}
		}
		if k.ranging {
			// yield the next key
			if s.cfg.Par || len(k.pend) == 0 {
				for _, i := range s.subs {
					if !k.vis[i] && s.deliverable(i, k.m) {
						s.emit("ERangeNext %d %d", w, i)
						k.vis[i] = true
						k.pend = append(k.pend, i)
						return true
					}
				}
			}
			// end of the Range
			owing := false
			for _, i := range s.subs {
				if !k.vis[i] && s.wants(i, k.m) {
					owing = true
				}
			}
			covered := true
			for i := range k.must {
				if !k.vis[i] {
					covered = false
				}
			}
			if s.hold >= 0 && s.wants(s.hold, k.m) {
				owing = true // the Range of this dispatch will still yield the subscriber being added
			}
			if !owing && (covered || !s.live) {
				s.emit("ERangeEnd %d", w)
				k.ranging = false
				return true
			}
		} else if len(k.pend) == 0 {
			s.emit("EEnd %d", w)
			*k = simWorker{}
			return true
		}
	}
	return false
}

func (s *Sim) idleWorker() int {
	for w := range s.wk {
		if !s.wk[w].busy {
			return w
		}
	}
	return -1
}

func (s *Sim) startDispatch(w, m int) {
	must := map[int]bool{}
	for _, i := range s.subs {
		must[i] = true
	}
	s.wk[w] = simWorker{busy: true, m: m, ranging: true, vis: map[int]bool{}, must: must}
}

// freeWorker runs worker steps until some worker is idle.
func (s *Sim) freeWorker(why string) int {
	for {
		if w := s.idleWorker(); w >= 0 {
			return w
		}
		if !s.progress() {
			s.Stuck = "no idle worker for " + why
			return -1
		}
	}
}

func (s *Sim) takeHead(why string) bool {
	w := s.freeWorker(why)
	if w < 0 {
		return false
	}
	m := s.dist[0]
	s.dist = s.dist[1:]
	if !passes(s.cfg.OutF, m) {
		s.emit("ESkip %d", w) // rejected by the output filter: consumed, not dispatched
		return true
	}
	s.emit("ETake %d", w)
	s.startDispatch(w, m)
	return true
}

// drain takes and dispatches while allowed: all = everything buffered;
// otherwise only while the head message is still wanted by `only` (>= 0) or by anybody (-1).
func (s *Sim) drain(all bool, only int) {
	for s.Stuck == "" {
		if s.progress() {
			continue
		}
		if len(s.dist) == 0 {
			return
		}
		head := s.dist[0]
		ok := all
		if !ok {
			if only >= 0 {
				ok = len(s.need[only]) > 0 && s.anyWantsUpTo(only)
			} else {
				ok = s.anyWants(head)
			}
		}
		if !ok || s.idleWorker() < 0 {
			return
		}
		s.takeHead("drain")
	}
}

// drainBefore dispatches buffered messages as long as the head is not one that
// subscriber i (about to be added) received.
func (s *Sim) drainBefore(i int) {
	s.hold = i
	defer func() { s.hold = -1 }()
	for s.Stuck == "" {
		if s.progress() {
			continue
		}
		if len(s.dist) == 0 || s.wants(i, s.dist[0]) || s.idleWorker() < 0 {
			return
		}
		s.takeHead("drain before subscribe")
	}
}

// anyWantsUpTo: subscriber i still expects some buffered message.
func (s *Sim) anyWantsUpTo(i int) bool {
	for _, m := range s.dist {
		if s.wants(i, m) {
			return true
		}
	}
	return false
}

func (s *Sim) room() bool {
	if !s.cfg.Bounded() {
		return true
	}
	return len(s.dist) < s.cfg.Cap
}

func (s *Sim) Feed(ev CtlEv) {
	if s.Stuck != "" {
		return
	}
	switch ev.Op {
	case "sub":
		// every dispatch the new subscriber did not take part in ends before the Ensure
		s.drainBefore(ev.I)
		k := s.caller
		s.caller++
		s.emit("ECall %d (OpSub %d)", k, ev.I)
		s.emit("ESubSend %d", k)
		if s.cfg.Buf > 0 {
			s.emit("ELoopSub")
		}
		s.subs = append(s.subs, ev.I)
	case "unsub":
		// whatever this subscriber still got has to be on its way before the Delete
		s.drain(false, ev.I)
		for s.Stuck == "" && s.pendingFor(ev.I) && s.progress() {
		}
		k := s.caller
		s.caller++
		s.emit("ECall %d (OpUnsub %d)", k, ev.I)
		s.emit("EUnsubSend %d", k)
		if s.cfg.Buf > 0 {
			s.emit("ELoopUnsub")
		}
		s.subs = removeOne(s.subs, ev.I)
		for w := range s.wk {
			if s.wk[w].busy {
				delete(s.wk[w].must, ev.I)
			}
		}
	case "pub":
		k := s.caller
		s.caller++
		s.emit("ECall %d (OpPub %d)", k, ev.M)
		s.emit("EPub %d", k)
		s.push(ev.M, ev.Res)
	case "stop":
		s.drain(false, -1)
		s.emit("ECancel")
		s.live = false
	}
}

func (s *Sim) pendingFor(i int) bool {
	for w := range s.wk {
		if s.wk[w].busy && s.wants(i, s.wk[w].m) {
			return true
		}
	}
	return false
}

func (s *Sim) push(m int, res string) {
	if res == "filtered" {
		s.emit("ELoopFilter")
		return
	}
	if s.cfg.Backend == "chan" {
		switch res {
		case "ok":
			w := s.freeWorker("channel rendezvous")
			if w < 0 {
				return
			}
			if !passes(s.cfg.OutF, m) {
				s.emit("ESkip %d", w)
				return
			}
			s.emit("ETake %d", w)
			s.startDispatch(w, m)
		case "ctx":
			s.emit("ELoopAbort")
		default:
			s.Stuck = "channel send result " + res
		}
		return
	}
	switch res {
	case "ok":
		for !s.room() {
			if s.cfg.Backend == "lifo" && !s.anyWants(s.dist[0]) {
				break // ForcePushBack evicts it
			}
			if !s.takeHead("room") {
				return
			}
		}
		s.emit("ELoopPush")
		if !s.room() {
			s.dist = s.dist[1:]
		}
		s.dist = append(s.dist, m)
	case "full", "nocredit":
		if s.cfg.Backend != "queuelim" {
			s.Stuck = "unexpected " + res + " from " + s.cfg.Backend
			return
		}
		if !s.room() {
			s.emit("ELoopPush")
		} else if len(s.dist) > 0 {
			s.emit("ELoopDrop")
		} else {
			s.Stuck = "queue refused a message while empty"
		}
	case "ctx":
		if s.live {
			s.Stuck = "context error from Send while the broker context is live"
			return
		}
		s.emit("ELoopAbort")
	default:
		s.Stuck = "send result " + res
	}
}

// Finish drains (live run) or shuts everything down (stopped run).
func (s *Sim) Finish() {
	if s.Stuck != "" {
		return
	}
	s.drain(true, -1)
	if s.live || s.Stuck != "" {
		return
	}
	for s.progress() {
	}
	s.emit("ELoopExit")
	for w := range s.wk {
		if !s.wk[w].busy {
			s.emit("EWExit %d", w)
		}
	}
}

func (s *Sim) CoqEvents() string { return "[" + strings.Join(s.Ev, "; ") + "]" }
