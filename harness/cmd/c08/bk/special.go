package bk

import (
	"context"
	"strings"
	"sync"
	"time"

	"verif/harness/kit"
)

func waitFrames(n int, frames ...string) bool {
	deadline := time.Now().Add(Bound)
	for {
		if countWhere(snapshot(), true, frames...) >= n {
			return true
		}
		if time.Now().After(deadline) {
			return false
		}
		time.Sleep(100 * time.Microsecond)
	}
}

// RunStopDuringWait: one goroutine is inside Broker.Wait (observed in a goroutine
// snapshot: it has reached fun.WaitGroup.Wait); Stop must still return.
func RunStopDuringWait(sc Scenario) Result {
	r := NewRunner(sc.Cfg)
	res := Result{}
	wctx, wcancel := context.WithCancel(context.Background())
	waitDone := make(chan struct{})
	go func() { r.B.Wait(wctx); close(waitDone) }()
	if !waitFrames(1, "pubsub.(*Broker[", ").Wait(", "fun.(*WaitGroup).Wait") {
		r.fail("C09:harness:handshake", "Broker.Wait never reached WaitGroup.Wait")
	}
	stopDone := make(chan struct{})
	go func() { r.B.Stop(); close(stopDone) }()
	r.Stopped = true
	select {
	case <-stopDone:
		select {
		case <-waitDone:
		case <-time.After(Bound):
			r.fail("C09:Broker.Wait:blocked", "Wait did not return within %v after Stop", Bound)
		}
	case <-time.After(Bound):
		r.fail("C09:Broker.Stop:during-Wait", "Stop did not return within %v while another goroutine was in Wait", Bound)
	}
	// tidy up whatever happened: ending Wait's own context releases the mutex
	wcancel()
	<-waitDone
	select {
	case <-stopDone:
	case <-time.After(Bound):
	}
	r.Finish(true)
	res.Fails = r.Fails
	res.Obs = r.Observations()
	res.Stopped = true
	res.Wild = true
	return res
}

// RunStatsWedge: Stats calls whose context is already over (half of them hand
// their closure to the loop and then leave through ctx.Done); afterwards the
// loop must still serve requests, and Stop + Wait must finish.
func RunStatsWedge(sc Scenario, attempts int) Result {
	r := NewRunner(sc.Cfg)
	res := Result{Wild: true, Stopped: true}
	dead, cancel := context.WithCancel(context.Background())
	cancel()
	for i := 0; i < attempts; i++ {
		// the hand-over can only happen while the loop is parked in its select
		r.WaitLoopIdle()
		_ = r.B.Stats(dead)
	}
	ctx, c2 := bctx()
	ch := r.B.Subscribe(ctx)
	c2()
	if ch == nil {
		r.fail("C09:Broker.Stats:wedges-loop", "after %d Stats calls with an ended context Subscribe got no answer from the event loop within %v", attempts, Bound)
	} else {
		r.Stop(false)
		r.WaitDone()
	}
	r.Stopped = true
	r.Finish(len(r.Fails) == 0)
	res.Fails = r.Fails
	res.Obs = r.Observations()
	return res
}

// RunAPICtx: while the event loop cannot serve requests (busy in a blocking
// distributor send, or gone after Stop) every API call blocks; each must return
// once its own context is cancelled.
func RunAPICtx(sc Scenario, afterStop bool) Result {
	r := NewRunner(sc.Cfg)
	res := Result{Wild: true, Stopped: true}
	s0 := r.Subscribe(true)
	if afterStop {
		r.Stop(false)
		r.WaitDone()
	} else {
		r.BurstAsync([][]int{{1, 2, 3}})
		if !r.WaitWorkerInSend(1) || !waitFrames(1, "bk.(*Tap).tapSend") {
			r.fail("C09:harness:handshake", "the loop did not block in the distributor send")
		}
	}
	actx, acancel := context.WithCancel(context.Background())
	var wg sync.WaitGroup
	calls := map[string]func(){
		"Publish":     func() { r.B.Publish(actx, 999) },
		"Subscribe":   func() { r.B.Subscribe(actx) },
		"Unsubscribe": func() { r.B.Unsubscribe(actx, s0.ch) },
		"Stats":       func() { r.B.Stats(actx) },
	}
	done := map[string]chan struct{}{}
	for name, fn := range calls {
		d := make(chan struct{})
		done[name] = d
		wg.Add(1)
		go func(fn func(), d chan struct{}) { defer wg.Done(); fn(); close(d) }(fn, d)
	}
	// all four are parked inside their select
	for name := range calls {
		if !waitFrames(1, "pubsub.(*Broker[", ")."+name+"(") {
			r.fail("C09:harness:handshake", "%s did not block although the loop is unavailable", name)
		}
	}
	acancel()
	for name, d := range done {
		select {
		case <-d:
		case <-time.After(Bound):
			r.fail("C09:Broker."+name+":ctx-ignored", "%s did not return within %v of the cancellation of its own context", name, Bound)
		}
	}
	if !afterStop {
		r.Stop(false)
		r.WaitDone()
	}
	r.WaitAsync(true)
	wg.Wait()
	r.Finish(true)
	res.Fails = r.Fails
	res.Obs = r.Observations()
	return res
}

func FailSummary(fs []Fail) string {
	var s []string
	for _, f := range fs {
		s = append(s, f.Sig)
	}
	return strings.Join(s, ",")
}

// ---------------------------------------------------------------- C09 generators

// GenStop: a phased prefix, then Stop (or parent cancellation) at a chosen
// point: idle, with a backlog, in the middle of a dispatch, in the middle of a
// publish; then Wait must return and nothing of the broker may be left.
func GenStop(r *kit.Rand, id int, c Cfg, mode string) Scenario {
	sc := Scenario{ID: id, Kind: "stop-" + mode, Cfg: c}
	g := &idgen{}
	parent := r.Chance(1, 3)
	switch mode {
	case "idle":
		for i, n := 0, r.Range(0, 3); i < n; i++ {
			sc.Steps = append(sc.Steps, Step{Op: "sub"})
		}
		for i, n := 0, r.Range(0, 2); i < n; i++ {
			op := "burst"
			if r.Bool() {
				op = "pburst"
			}
			sc.Steps = append(sc.Steps, Step{Op: op, Pubs: g.pubs(r, 3, 8)})
		}
		sc.Steps = append(sc.Steps, Step{Op: "stop", Parent: parent}, Step{Op: "wait"})
	case "blocked":
		// some subscriber does not read: a worker is parked in sendMsg, the rest of
		// the burst is a backlog in the buffer, in the loop's blocking Send, or in
		// publishers still inside Publish
		if c.Backend == "lifo" || c.Backend == "queuelim" {
			c.Buf = 0 // a load-shedding back-end may drop what would have filled the subscriber's buffer
		}
		c.InF, c.OutF = 0, 0 // the messages that are to block a worker must reach it
		sc.Cfg = c
		nsub := r.Range(1, 3)
		paused := r.Intn(nsub)
		for i := 0; i < nsub; i++ {
			sc.Steps = append(sc.Steps, Step{Op: "sub", Paused: i == paused})
		}
		sc.Steps = append(sc.Steps,
			Step{Op: "aburst", Pubs: g.pubs(r, 2, 6)})
		// enough messages to fill the non-reading subscriber's buffer and block a worker
		extra := []int{}
		for i := 0; i <= c.Buf; i++ {
			extra = append(extra, 1001+i)
		}
		sc.Steps[len(sc.Steps)-1].Pubs = append(sc.Steps[len(sc.Steps)-1].Pubs, extra)
		sc.Steps = append(sc.Steps, Step{Op: "waitsend", I: 1},
			Step{Op: "stop", Parent: parent}, Step{Op: "wait"}, Step{Op: "cancelpubs"})
	}
	return sc
}

// RunCloseRace: the owner of the broker's queue/deque shuts it down right after
// the last message: the dispatch workers are parked in Receive on the empty
// container (observed), then the message is pushed and the container closed
// back-to-back - inside the event loop (the tapped Send closes it right after
// the push) or by the owner itself (push + Close). Whoever wins, a subscriber
// may get that message or nothing, never a value nobody published.
func RunCloseRace(sc Scenario, owner bool) Result {
	r := NewRunner(sc.Cfg)
	res := Result{Wild: true, NMsgs: 1}
	nsub := 1 + sc.ID%2
	for i := 0; i < nsub; i++ {
		r.Subscribe(false)
	}
	value := 1 + sc.ID%50 // never the zero value
	ok := r.Quiesce("close-race: workers parked")
	if ok {
		call := r.now()
		if owner {
			_ = r.Tap.back.push(value)
			_ = r.Tap.back.close()
		} else {
			r.Tap.closeAfter.Store(int64(value))
			ctx, cancel := bctx()
			r.B.Publish(ctx, value)
			cancel()
		}
		r.pmu.Lock()
		r.Pubs = append(r.Pubs, PubRec{M: value, Pubr: 0, Call: call, Ret: r.now(), Returned: true})
		r.pmu.Unlock()
		// every worker finds the container closed and leaves
		deadline := time.Now().Add(Bound)
		for countWhere(snapshot(), false, "startQueueWorkers.func2") > 0 {
			if time.Now().After(deadline) {
				r.fail("C09:broker:stall:"+r.Cfg.Backend, "dispatch workers still running %v after the container was closed", Bound)
				break
			}
			time.Sleep(100 * time.Microsecond)
		}
		for _, s := range r.Subs {
			for len(s.ch) > 0 && time.Now().Before(deadline) {
				time.Sleep(50 * time.Microsecond)
			}
			s.control("flush")
		}
	}
	r.Stop(false)
	r.WaitDone()
	r.Finish(true)
	res.Obs = r.Observations()
	r.CheckC08(false)
	res.Fails = r.Fails
	res.Stopped = true
	return res
}
