// Several live histograms: a source, snapshots taken at arbitrary points, histograms imported from
// them, merge targets -- with further RecordValues / Reset on any of them afterwards.  Every histogram
// has its own reference multiset (what was recorded into IT since ITS last Reset, what it was imported
// with, what was merged into it); all oracles are evaluated per histogram against its own data.  An
// implementation in which two of them share storage fails here (C19:Export:aliased / C19:Import:aliased).
package main

import (
	"fmt"
	"strings"

	"github.com/tychoish/fun/dt/hdrhist"

	"verif/harness/kit"
)

type MOp struct {
	K  string `json:"k"` // new rec reset export import scribble merge query eq
	I  int    `json:"i,omitempty"`
	J  int    `json:"j,omitempty"`
	V  int64  `json:"v,omitempty"`
	N  int64  `json:"n,omitempty"`
	D  int64  `json:"d,omitempty"`
	QM int64  `json:"qm,omitempty"`
	QE int    `json:"qe,omitempty"`
}

type slot struct {
	h        *hdrhist.Histogram
	recs     []rec
	imported bool // created by Import
	exported bool // Export was called on it
	merged   bool // took part in a Merge
}

type snap struct {
	s    *hdrhist.Snapshot
	recs []rec
}

func (sl *slot) sig(what string) string {
	switch {
	case sl.imported:
		return "C19:Import:aliased"
	case sl.exported:
		return "C19:Export:aliased"
	case sl.merged:
		return "C19:Merge:aliased"
	}
	return "C19:multi:" + what
}

func execMulti(run *kit.Run, c Case, verbose bool) {
	st := &runState{run: run, c: c, verbose: verbose, failed: map[string]bool{}}
	var slots []*slot
	var snaps []*snap
	var terms []string
	nq := 0
	pn, msg := safe(func() { slots = append(slots, &slot{h: hdrhist.New(c.Lo, c.Hi, c.Sig)}) })
	if pn {
		st.fail("C19:panic", "New panicked on a valid shape: "+msg)
		run.Case(c.ID, c, fmt.Sprintf("CMulti %s %s %s %s []", kit.ZI(c.ID), kit.Z(c.Lo), kit.Z(c.Hi), kit.ZI(c.Sig)), fmt.Sprint("m|", c.ID), false)
		return
	}
	okI := func(i int) bool { return i >= 0 && i < len(slots) }
	for _, o := range c.MOps {
		ob := "OZ []"
		var call string
		switch o.K {
		case "new":
			p, m := safe(func() { slots = append(slots, &slot{h: hdrhist.New(c.Lo, c.Hi, c.Sig)}) })
			if p {
				ob = "OPanic"
				st.fail("C19:panic", "New panicked: "+m)
			}
			st.note("h%d := New", len(slots)-1)
			call = "MCOp MNew"
		case "rec":
			if okI(o.I) {
				sl := slots[o.I]
				var err error
				p, m := safe(func() { err = sl.h.RecordValues(o.V, o.N) })
				switch {
				case p:
					ob = "OPanic"
					st.fail(sl.sig("panic"), fmt.Sprintf("h%d.RecordValues(%d,%d) panicked: %s", o.I, o.V, o.N, m))
				case err == nil:
					ob = obsZ(1)
					sl.recs = append(sl.recs, rec{o.V, o.N})
				default:
					ob = obsZ(0)
					if c.Lo <= o.V && o.V <= c.Hi {
						st.fail("C19:RecordValue:in-range-rejected", fmt.Sprintf("h%d.RecordValues(%d,%d) rejected: %v", o.I, o.V, o.N, err))
					}
				}
				st.note("h%d.RecordValues(%d,%d) -> %s", o.I, o.V, o.N, ob)
			}
			call = fmt.Sprintf("MCOp (MRecord %s %s %s)", kit.Nat(o.I), kit.Z(o.V), kit.Z(o.N))
		case "reset":
			if okI(o.I) {
				slots[o.I].h.Reset()
				slots[o.I].recs = nil
				st.note("h%d.Reset()", o.I)
			}
			call = fmt.Sprintf("MCOp (MReset %s)", kit.Nat(o.I))
		case "export":
			if okI(o.I) {
				sl := slots[o.I]
				var s *hdrhist.Snapshot
				p, m := safe(func() { s = sl.h.Export() })
				if p {
					ob = "OPanic"
					st.fail(sl.sig("panic"), "Export panicked: "+m)
				} else {
					snaps = append(snaps, &snap{s: s, recs: append([]rec(nil), sl.recs...)})
					sl.exported = true
				}
				st.note("s%d := h%d.Export()", len(snaps)-1, o.I)
			}
			call = fmt.Sprintf("MCOp (MExport %s)", kit.Nat(o.I))
		case "import":
			if o.I >= 0 && o.I < len(snaps) {
				sn := snaps[o.I]
				var h *hdrhist.Histogram
				p, m := safe(func() { h = hdrhist.Import(sn.s) })
				if p {
					ob = "OPanic"
					st.fail("C19:panic", "Import panicked: "+m)
				} else {
					slots = append(slots, &slot{h: h, recs: append([]rec(nil), sn.recs...), imported: true})
				}
				st.note("h%d := Import(s%d)", len(slots)-1, o.I)
			}
			call = fmt.Sprintf("MCOp (MImport %s)", kit.Nat(o.I))
		case "scribble":
			if o.I >= 0 && o.I < len(snaps) && o.J >= 0 && o.J < len(snaps[o.I].s.Counts) {
				snaps[o.I].s.Counts[o.J] += o.D
				st.note("s%d.Counts[%d] += %d", o.I, o.J, o.D)
			}
			call = fmt.Sprintf("MCOp (MScribble %s %s %s)", kit.Nat(o.I), kit.ZI(o.J), kit.Z(o.D))
		case "merge":
			if okI(o.I) && okI(o.J) {
				t, f := slots[o.I], slots[o.J]
				var d int64
				p, m := safe(func() { d = t.h.Merge(f.h) })
				if p {
					ob = "OPanic"
					st.fail(f.sig("panic"), fmt.Sprintf("h%d.Merge(h%d) panicked: %s", o.I, o.J, m))
				} else {
					ob = obsZ(d)
					t.recs = append(t.recs, f.recs...)
					t.merged = true
					if d != 0 {
						st.fail(f.sig("Merge-dropped"), fmt.Sprintf("h%d.Merge(h%d) of the same shape dropped %d", o.I, o.J, d))
					}
				}
				st.note("h%d.Merge(h%d) -> %s", o.I, o.J, ob)
			}
			call = fmt.Sprintf("MCOp (MMerge %s %s)", kit.Nat(o.I), kit.Nat(o.J))
		case "eq":
			if okI(o.I) && okI(o.J) {
				var e bool
				p, m := safe(func() { e = slots[o.I].h.Equals(slots[o.J].h) })
				if p {
					ob = "OPanic"
					st.fail(slots[o.I].sig("panic"), "Equals panicked: "+m)
				} else {
					ob = obsZ(b2i(e))
				}
				st.note("h%d.Equals(h%d) -> %s", o.I, o.J, ob)
			}
			call = fmt.Sprintf("MCEq %s %s", kit.Nat(o.I), kit.Nat(o.J))
		case "query":
			if okI(o.I) {
				ob = queryOracle(st, c, o, slots[o.I])
				nq++
			}
			call = fmt.Sprintf("MCQuery %s %s %s", kit.Nat(o.I), kit.Z(o.QM), kit.ZI(o.QE))
		default:
			continue
		}
		terms = append(terms, fmt.Sprintf("(%s, %s)", call, ob))
	}
	run.Count("multi")
	run.Count(fmt.Sprintf("multi/slots=%d", len(slots)))
	term := fmt.Sprintf("CMulti %s %s %s %s %s", kit.ZI(c.ID), kit.Z(c.Lo), kit.Z(c.Hi), kit.ZI(c.Sig), kit.List(terms))
	var sb strings.Builder
	fmt.Fprintf(&sb, "m|%d|%d|%d|%v", c.Lo, c.Hi, c.Sig, c.MOps)
	run.Case(c.ID, c, term, sb.String(), nq > 0 && len(slots) > 1)
}

// queryOracle asks one histogram for TotalCount, ValueAtQuantile(q), Min, Max and checks the answers
// against THAT histogram's own recorded data.
func queryOracle(st *runState, c Case, o MOp, sl *slot) string {
	q := meFloat(o.QM, o.QE)
	var t, v, mn, mx int64
	p, m := safe(func() {
		t = sl.h.TotalCount()
		v = sl.h.ValueAtQuantile(q)
		mn = sl.h.Min()
		mx = sl.h.Max()
	})
	if p {
		st.note("query h%d panicked: %s", o.I, m)
		sig := sl.sig("panic")
		if strings.HasPrefix(sig, "C19:multi:") {
			sig = "C19:panic"
		}
		st.fail(sig, fmt.Sprintf("h%d: a query (TotalCount/ValueAtQuantile/Min/Max) panicked after a valid call sequence: %s", o.I, m))
		return "OPanic"
	}
	qq := q
	if qq > 100 {
		qq = 100
	}
	rank := int64(((qq / 100) * float64(t)) + 0.5)
	st.note("query h%d: total=%d q=%v rank=%d value=%d min=%d max=%d", o.I, t, q, rank, v, mn, mx)
	want := int64(0)
	for _, r := range sl.recs {
		want += r.n
	}
	if t != want {
		st.fail(sl.sig("TotalCount"), fmt.Sprintf("h%d.TotalCount()=%d but %d occurrences were recorded into it", o.I, t, want))
	}
	if len(sl.recs) > 0 && want > 0 {
		sm, lg := sl.recs[0].v, sl.recs[0].v
		for _, r := range sl.recs {
			if r.v < sm {
				sm = r.v
			}
			if r.v > lg {
				lg = r.v
			}
		}
		if !(mn <= sm && sm-mn <= bound(c.Lo, c.Sig, sm)) {
			st.fail(sl.sig("Min"), fmt.Sprintf("h%d.Min()=%d, smallest value recorded into it %d", o.I, mn, sm))
		}
		if !(lg <= mx && mx-lg <= bound(c.Lo, c.Sig, lg)) {
			st.fail(sl.sig("Max"), fmt.Sprintf("h%d.Max()=%d, largest value recorded into it %d", o.I, mx, lg))
		}
		if q > 0 && rank >= 1 && t == want {
			exact, ok := orderStat(sl.recs, rank)
			if !ok || v < exact || v-exact > bound(c.Lo, c.Sig, exact) {
				st.fail(sl.sig("ValueAtQuantile"), fmt.Sprintf("h%d.ValueAtQuantile(%v)=%d (rank %d), exact order statistic of its own data %d", o.I, q, v, rank, exact))
			}
		}
	}
	return obsZ(t, rank, v, mn, mx)
}

func mq(i int, q float64) MOp {
	m, e := frexpME(q)
	return MOp{K: "query", I: i, QM: m, QE: e}
}

// the three scenarios of an Export that hands out a view of the live counts
func multiCorpus() []Case {
	return []Case{
		// export, then record into the source, then import: the copy must be the state as exported
		{Kind: "multi", Family: "corpus", Lo: 1, Hi: 100000, Sig: 2, MOps: []MOp{
			{K: "rec", I: 0, V: 500, N: 10}, {K: "rec", I: 0, V: 1000, N: 1}, {K: "export", I: 0},
			{K: "rec", I: 0, V: 51000, N: 11}, {K: "import", I: 0}, mq(1, 50), mq(1, 100), mq(0, 100), {K: "eq", I: 0, J: 1}}},
		// recording into the imported copy must not change the source, and vice versa
		{Kind: "multi", Family: "corpus", Lo: 1, Hi: 100000, Sig: 2, MOps: []MOp{
			{K: "rec", I: 0, V: 7, N: 3}, {K: "export", I: 0}, {K: "import", I: 0}, {K: "rec", I: 1, V: 90000, N: 5},
			mq(0, 100), mq(1, 100), {K: "rec", I: 0, V: 300, N: 2}, mq(1, 50), mq(0, 50), {K: "eq", I: 0, J: 1}}},
		// Reset (what WindowedHistogram.Rotate does to a section) of the source after export/import
		{Kind: "multi", Family: "corpus", Lo: 1, Hi: 100000, Sig: 2, MOps: []MOp{
			{K: "rec", I: 0, V: 500, N: 1000}, {K: "export", I: 0}, {K: "import", I: 0}, {K: "reset", I: 0},
			mq(1, 50), mq(0, 50), {K: "rec", I: 0, V: 9, N: 1}, mq(1, 100), mq(0, 100)}},
		// the caller scribbles over its snapshot: no histogram may notice
		{Kind: "multi", Family: "corpus", Lo: 1, Hi: 1000, Sig: 1, MOps: []MOp{
			{K: "rec", I: 0, V: 5, N: 2}, {K: "rec", I: 0, V: 900, N: 1}, {K: "export", I: 0}, {K: "scribble", I: 0, J: 5, D: 40},
			{K: "scribble", I: 0, J: 0, D: 7}, mq(0, 50), mq(0, 100), {K: "new"}, {K: "merge", I: 1, J: 0}, mq(1, 100), {K: "eq", I: 0, J: 1}}},
	}
}

func multiCase(r *kit.Rand) Case {
	sig := 1 + r.Intn(2)
	if r.Chance(1, 10) {
		sig = 3
	}
	lo := minChoices[r.Intn(6)]
	u := floorLog2(lo)
	hi := clamp(genMax(r, lo, sig), lo, int64(1)<<uint(scmTable[sig]+u+3))
	c := Case{Kind: "multi", Family: "multi", Lo: lo, Hi: hi, Sig: sig}
	nslots := 1
	type sstate struct{ dead bool }
	var sn []sstate
	clen := (&planner{lo: lo, hi: hi, sig: sig}).clen()
	queryAll := func() {
		for i := 0; i < nslots; i++ {
			c.MOps = append(c.MOps, mq(i, quantiles[r.Intn(5)]))
		}
	}
	nops := r.Range(8, 28)
	for k := 0; k < nops; k++ {
		if k == nops/2 {
			queryAll()
		}
		i := r.Intn(nslots)
		switch x := r.Intn(20); {
		case x < 8:
			n := int64(1)
			if r.Chance(1, 3) {
				n = int64(r.Range(1, 500))
			}
			c.MOps = append(c.MOps, MOp{K: "rec", I: i, V: genValue(r, lo, hi, sig), N: n})
		case x < 10:
			c.MOps = append(c.MOps, MOp{K: "reset", I: i})
		case x < 13:
			c.MOps = append(c.MOps, MOp{K: "export", I: i})
			sn = append(sn, sstate{})
		case x < 16: // import a live snapshot (each snapshot at most once, never touched afterwards)
			live := -1
			for j := range sn {
				if !sn[j].dead && (live < 0 || r.Bool()) {
					live = j
				}
			}
			if live >= 0 && nslots < 6 {
				c.MOps = append(c.MOps, MOp{K: "import", I: live})
				sn[live].dead = true
				nslots++
			} else {
				c.MOps = append(c.MOps, MOp{K: "export", I: i})
				sn = append(sn, sstate{})
			}
		case x < 17: // scribble over a snapshot that will never be imported
			for j := range sn {
				if !sn[j].dead {
					c.MOps = append(c.MOps, MOp{K: "scribble", I: j, J: r.Intn(clen), D: int64(r.Range(1, 1000))})
					sn[j].dead = true
					break
				}
			}
		case x < 18:
			if nslots < 6 {
				c.MOps = append(c.MOps, MOp{K: "new"})
				nslots++
			}
		case x < 19:
			j := r.Intn(nslots)
			if j != i {
				c.MOps = append(c.MOps, MOp{K: "merge", I: i, J: j})
			}
		default:
			c.MOps = append(c.MOps, MOp{K: "eq", I: i, J: r.Intn(nslots)})
		}
		if r.Chance(1, 4) {
			c.MOps = append(c.MOps, mq(r.Intn(nslots), quantiles[r.Intn(len(quantiles))]))
		}
	}
	queryAll()
	return c
}
