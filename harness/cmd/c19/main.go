// Driver for C19: runs the real dt/hdrhist histogram on generated shapes and call
// scripts, prints every case together with what the implementation returned as a
// Coq term (the model is re-run on it by coqc), and checks the property's direct
// oracles on the implementation's answers, independently of the model:
// in-range values are accepted, TotalCount is the number of recorded occurrences,
// quantile answers are within one bucket width above the exact order statistic,
// Min/Max bracket, Export->Import and Merge-into-empty give an Equal histogram
// with nothing dropped, and nothing panics.
package main

import (
	"fmt"
	"math"
	"math/bits"
	"sort"
	"strings"

	"github.com/tychoish/fun/dt/hdrhist"

	"verif/harness/kit"
)

// ---------------------------------------------------------------- case format

type Op struct {
	K   string `json:"k"` // rec idx eqv tot q min max rt merge reset
	V   int64  `json:"v,omitempty"`
	N   int64  `json:"n,omitempty"`
	QM  int64  `json:"qm,omitempty"` // quantile = QM * 2^QE (exact)
	QE  int    `json:"qe,omitempty"`
	Lo  int64  `json:"lo,omitempty"`
	Hi  int64  `json:"hi,omitempty"`
	Sig int    `json:"sig,omitempty"`
}

type WOp struct {
	K string `json:"k"` // rec rot merge
	V int64  `json:"v,omitempty"`
}

type Case struct {
	ID        int     `json:"id"`
	Kind      string  `json:"kind"` // hist | bitlen | win
	Family    string  `json:"family,omitempty"`
	Malformed bool    `json:"malformed,omitempty"` // out-of-range values / invalid shapes: correspondence only
	Lo        int64   `json:"lo,omitempty"`
	Hi        int64   `json:"hi,omitempty"`
	Sig       int     `json:"sig,omitempty"`
	Ops       []Op    `json:"ops,omitempty"`
	Xs        []int64 `json:"xs,omitempty"`
	N         int     `json:"n,omitempty"`
	WOps      []WOp   `json:"wops,omitempty"`
	MOps      []MOp   `json:"mops,omitempty"`
}

// ---------------------------------------------------------------- arithmetic helpers (oracle side, independent of the model)

var scmTable = map[int]int{1: 5, 2: 8, 3: 11, 4: 15, 5: 18}

func floorLog2(x int64) int { return bits.Len64(uint64(x)) - 1 }

func pow10(s int) int64 {
	p := int64(1)
	for i := 0; i < s; i++ {
		p *= 10
	}
	return p
}

// shapeValid: the shapes the property quantifies over and for which New terminates without
// overflowing int64 (1 <= min <= max < 2^62, floor(log2 min) + subBucketCountMagnitude <= 62).
func shapeValid(lo, hi int64, sig int) bool {
	if sig < 1 || sig > 5 || lo < 1 || hi < lo || hi >= 1<<62 {
		return false
	}
	return floorLog2(lo)+scmTable[sig] <= 62
}

// shapeTerminates: New returns (possibly by panicking) instead of looping for ever.
func shapeTerminates(lo, hi int64, sig int) bool {
	if sig < 1 || sig > 5 {
		return true // panics immediately
	}
	if hi < 0 {
		return true
	}
	u := 0
	if lo >= 1 {
		u = floorLog2(lo)
		// head room: a float computation of unitMagnitude may be one larger just below 2^k, k >= 49
		if lo >= 1<<48 && floorLog2(lo+32) > u {
			u++
		}
	}
	return hi < 1<<62 && u+scmTable[sig] <= 62
}

// the property's precision bound at exact: max(2^floor(log2 min), exact / 10^sigfigs)
func bound(lo int64, sig int, exact int64) int64 {
	a := int64(1) << uint(floorLog2(lo))
	b := exact / pow10(sig)
	if b > a {
		return b
	}
	return a
}

func frexpME(q float64) (int64, int) {
	if q == 0 || math.IsNaN(q) || math.IsInf(q, 0) {
		return 0, 0
	}
	fr, ex := math.Frexp(q)
	m := int64(math.Ldexp(fr, 53))
	e := ex - 53
	for m != 0 && m%2 == 0 && e < 0 {
		m /= 2
		e++
	}
	return m, e
}

func meFloat(m int64, e int) float64 { return math.Ldexp(float64(m), e) }

// safe runs f and reports whether it panicked.
func safe(f func()) (panicked bool, msg string) {
	defer func() {
		if r := recover(); r != nil {
			panicked = true
			msg = fmt.Sprint(r)
		}
	}()
	f()
	return
}

func b2i(b bool) int64 {
	if b {
		return 1
	}
	return 0
}

func obsZ(vs ...int64) string { return "OZ " + kit.ZList(vs) }

// ---------------------------------------------------------------- running a histogram case

type rec struct{ v, n int64 }

type runState struct {
	run     *kit.Run
	c       Case
	verbose bool
	failed  map[string]bool
	trace   []string
}

func (s *runState) fail(sig, detail string) {
	if s.failed[sig] {
		return
	}
	s.failed[sig] = true
	s.run.OracleFail(s.c.ID, sig, detail, s.c, s.trace)
	if s.verbose {
		fmt.Printf("ORACLE FAIL %s: %s\n", sig, detail)
	}
}

func (s *runState) note(format string, a ...any) {
	line := fmt.Sprintf(format, a...)
	if len(s.trace) < 80 {
		s.trace = append(s.trace, line)
	}
	if s.verbose {
		fmt.Println(line)
	}
}

// the order statistic of rank k (1-based) of the accepted records
func orderStat(recs []rec, k int64) (int64, bool) {
	s := append([]rec(nil), recs...)
	sort.Slice(s, func(i, j int) bool { return s[i].v < s[j].v })
	cum := int64(0)
	for _, r := range s {
		cum += r.n
		if cum >= k {
			return r.v, true
		}
	}
	return 0, false
}

func isPow2(x int64) bool { return x > 0 && x&(x-1) == 0 }

func execHist(run *kit.Run, c Case, verbose bool) {
	st := &runState{run: run, c: c, verbose: verbose, failed: map[string]bool{}}
	valid := !c.Malformed
	var h *hdrhist.Histogram
	pn, msg := safe(func() { h = hdrhist.New(c.Lo, c.Hi, c.Sig) })
	var geom string
	var terms []string
	if pn {
		geom = "OPanic"
		st.note("New(%d,%d,%d) panicked: %s", c.Lo, c.Hi, c.Sig, msg)
		if valid {
			st.fail("C19:panic", "New panicked on a valid shape: "+msg)
		}
	} else {
		g := h.VerifGeometry()
		geom = obsZ(g.UnitMagnitude, int64(g.SubBucketHalfCountMagnitude), int64(g.SubBucketHalfCount), g.SubBucketMask,
			int64(g.SubBucketCount), int64(g.BucketCount), int64(g.CountsLen), int64(g.LenCounts))
		st.note("New(%d,%d,%d): %+v", c.Lo, c.Hi, c.Sig, g)
	}
	var recs []rec // accepted records since the last Reset
	nq := 0
	if !pn {
		for _, o := range c.Ops {
			var ob string
			switch o.K {
			case "rec":
				var err error
				p, m := safe(func() { err = h.RecordValues(o.V, o.N) })
				if p {
					ob = "OPanic"
					st.note("RecordValues(%d,%d) panicked: %s", o.V, o.N, m)
					if valid {
						st.fail("C19:panic", fmt.Sprintf("RecordValues(%d,%d) panicked: %s", o.V, o.N, m))
					}
				} else {
					ob = obsZ(b2i(err == nil))
					st.note("RecordValues(%d,%d) ok=%v", o.V, o.N, err == nil)
					if err == nil {
						recs = append(recs, rec{o.V, o.N})
					} else if valid && c.Lo <= o.V && o.V <= c.Hi {
						cls := "C19:RecordValue:in-range-rejected"
						if isPow2(c.Hi) && o.V >= c.Hi/2+1 {
							// max is a power of two at or above the first bucket boundary: subBucketCount * 2^(unit+k)
							cls = "C19:New:max-at-bucket-boundary"
						}
						st.fail(cls, fmt.Sprintf("New(%d,%d,%d): RecordValues(%d,%d) rejected although %d <= v <= %d: %v", c.Lo, c.Hi, c.Sig, o.V, o.N, c.Lo, c.Hi, err))
					}
				}
				terms = append(terms, fmt.Sprintf("(ORecord %s %s, %s)", kit.Z(o.V), kit.Z(o.N), ob))
			case "idx":
				var b, sb int32
				var idx int
				p, m := safe(func() {
					b = h.VerifBucketIndex(o.V)
					sb = h.VerifSubBucketIdx(o.V, b)
					idx = h.VerifCountsIndexFor(o.V)
				})
				if p {
					ob = "OPanic"
					if valid {
						st.fail("C19:panic", "countsIndexFor panicked: "+m)
					}
				} else {
					ob = obsZ(int64(b), int64(sb), int64(idx))
					st.note("index(%d) bucket=%d sub=%d idx=%d", o.V, b, sb, idx)
				}
				terms = append(terms, fmt.Sprintf("(OIndex %s, %s)", kit.Z(o.V), ob))
			case "eqv":
				var lo, hi int64
				p, m := safe(func() {
					lo = h.VerifLowestEquivalentValue(o.V)
					hi = h.VerifHighestEquivalentValue(o.V)
				})
				if p {
					ob = "OPanic"
					st.note("equivalent range of %d panicked: %s", o.V, m)
					if valid && c.Lo <= o.V && o.V <= c.Hi {
						st.fail("C19:panic", fmt.Sprintf("highestEquivalentValue(%d) panicked: %s", o.V, m))
					}
				} else {
					ob = obsZ(lo, hi)
					st.note("equivalent range of %d = [%d,%d]", o.V, lo, hi)
					if valid && c.Lo <= o.V && o.V <= c.Hi {
						if !(lo <= o.V && o.V <= hi) {
							st.fail("C19:equivalentRange:not-containing", fmt.Sprintf("v=%d not in [%d,%d]", o.V, lo, hi))
						} else if hi-lo+1 > bound(c.Lo, c.Sig, o.V) {
							st.fail("C19:equivalentRange:too-wide", fmt.Sprintf("v=%d range [%d,%d] wider than %d", o.V, lo, hi, bound(c.Lo, c.Sig, o.V)))
						}
					}
				}
				terms = append(terms, fmt.Sprintf("(OEquiv %s, %s)", kit.Z(o.V), ob))
			case "tot":
				t := h.TotalCount()
				ob = obsZ(t)
				st.note("TotalCount = %d", t)
				if valid {
					want := int64(0)
					for _, r := range recs {
						want += r.n
					}
					if t != want {
						st.fail("C19:TotalCount:mismatch", fmt.Sprintf("TotalCount=%d, recorded occurrences=%d", t, want))
					}
				}
				terms = append(terms, fmt.Sprintf("(OTotal, %s)", ob))
			case "q":
				q := meFloat(o.QM, o.QE)
				var v int64
				p, m := safe(func() { v = h.ValueAtQuantile(q) })
				// the rank the implementation computes (same float64 expression)
				qq := q
				if qq > 100 {
					qq = 100
				}
				rank := int64(((qq / 100) * float64(h.TotalCount())) + 0.5)
				if p {
					ob = "OPanic"
					st.note("ValueAtQuantile(%v) panicked: %s", q, m)
					if valid {
						st.fail("C19:panic", fmt.Sprintf("ValueAtQuantile(%v) panicked: %s", q, m))
					}
				} else {
					ob = obsZ(rank, v)
					st.note("ValueAtQuantile(%v) = %d (rank %d)", q, v, rank)
					if valid && q > 0 && rank >= 1 {
						nq++
						exact, ok := orderStat(recs, rank)
						if !ok {
							st.fail("C19:ValueAtQuantile:rank-beyond-total", fmt.Sprintf("q=%v rank=%d exceeds the %d recorded occurrences", q, rank, h.TotalCount()))
						} else if v < exact {
							st.fail("C19:ValueAtQuantile:below-exact", fmt.Sprintf("New(%d,%d,%d) q=%v rank=%d: returned %d < exact order statistic %d", c.Lo, c.Hi, c.Sig, q, rank, v, exact))
						} else if v-exact > bound(c.Lo, c.Sig, exact) {
							st.fail("C19:ValueAtQuantile:bound", fmt.Sprintf("New(%d,%d,%d) q=%v rank=%d: returned %d, exact %d, error %d > max(2^floor(log2 min), exact/10^sigfigs) = %d", c.Lo, c.Hi, c.Sig, q, rank, v, exact, v-exact, bound(c.Lo, c.Sig, exact)))
						}
					}
				}
				terms = append(terms, fmt.Sprintf("(OQuant %s %s, %s)", kit.Z(o.QM), kit.ZI(o.QE), ob))
			case "min", "max":
				var v int64
				p, m := safe(func() {
					if o.K == "min" {
						v = h.Min()
					} else {
						v = h.Max()
					}
				})
				if p {
					ob = "OPanic"
					st.note("%s panicked: %s", o.K, m)
					if valid {
						st.fail("C19:panic", o.K+" panicked: "+m)
					}
				} else {
					ob = obsZ(v)
					st.note("%s = %d", o.K, v)
					if valid && len(recs) > 0 {
						nq++
						sm, lg := recs[0].v, recs[0].v
						for _, r := range recs {
							if r.v < sm {
								sm = r.v
							}
							if r.v > lg {
								lg = r.v
							}
						}
						if o.K == "min" && !(v <= sm && sm-v <= bound(c.Lo, c.Sig, sm)) {
							st.fail("C19:Min:bracket", fmt.Sprintf("New(%d,%d,%d): Min()=%d, smallest recorded %d, allowed error %d", c.Lo, c.Hi, c.Sig, v, sm, bound(c.Lo, c.Sig, sm)))
						}
						if o.K == "max" && !(lg <= v && v-lg <= bound(c.Lo, c.Sig, lg)) {
							st.fail("C19:Max:bracket", fmt.Sprintf("New(%d,%d,%d): Max()=%d, largest recorded %d, allowed error %d", c.Lo, c.Hi, c.Sig, v, lg, bound(c.Lo, c.Sig, lg)))
						}
					}
				}
				name := "OMin"
				if o.K == "max" {
					name = "OMax"
				}
				terms = append(terms, fmt.Sprintf("(%s, %s)", name, ob))
			case "rt":
				var e1, e2 bool
				var t int64
				p, m := safe(func() {
					i := hdrhist.Import(h.Export())
					e1 = h.Equals(i)
					e2 = i.Equals(h)
					t = i.TotalCount()
				})
				if p {
					ob = "OPanic"
					st.note("Export/Import panicked: %s", m)
					if valid {
						st.fail("C19:panic", "Export/Import/Equals panicked: "+m)
					}
				} else {
					ob = obsZ(b2i(e1), b2i(e2), t)
					st.note("Import(Export(h)): h.Equals(i)=%v i.Equals(h)=%v total=%d", e1, e2, t)
					if valid && !(e1 && e2) {
						st.fail("C19:Import:not-equal", fmt.Sprintf("New(%d,%d,%d): Import(Export(h)) is not Equal to h", c.Lo, c.Hi, c.Sig))
					}
				}
				terms = append(terms, fmt.Sprintf("(ORoundTrip, %s)", ob))
			case "merge":
				var d, t int64
				var e bool
				p, m := safe(func() {
					tg := hdrhist.New(o.Lo, o.Hi, o.Sig)
					d = tg.Merge(h)
					t = tg.TotalCount()
					e = tg.Equals(h)
				})
				same := o.Lo == c.Lo && o.Hi == c.Hi && o.Sig == c.Sig
				if p {
					ob = "OPanic"
					st.note("Merge into New(%d,%d,%d) panicked: %s", o.Lo, o.Hi, o.Sig, m)
					if valid && shapeValid(o.Lo, o.Hi, o.Sig) {
						st.fail("C19:panic", "Merge panicked: "+m)
					}
				} else {
					ob = obsZ(d, t, b2i(e))
					st.note("Merge into New(%d,%d,%d): dropped=%d total=%d equal=%v", o.Lo, o.Hi, o.Sig, d, t, e)
					if valid && same {
						nq++
						if d != 0 {
							st.fail("C19:Merge:dropped", fmt.Sprintf("New(%d,%d,%d): Merge into an empty histogram of the same shape dropped %d", c.Lo, c.Hi, c.Sig, d))
						} else if !e {
							st.fail("C19:Merge:not-equal", fmt.Sprintf("New(%d,%d,%d): Merge into an empty histogram of the same shape is not Equal", c.Lo, c.Hi, c.Sig))
						}
					}
					if valid && d+t != h.TotalCount() {
						st.fail("C19:Merge:conservation", fmt.Sprintf("dropped %d + merged %d != source total %d", d, t, h.TotalCount()))
					}
				}
				terms = append(terms, fmt.Sprintf("(OMergeInto %s %s %s, %s)", kit.Z(o.Lo), kit.Z(o.Hi), kit.ZI(o.Sig), ob))
			case "reset":
				h.Reset()
				recs = recs[:0]
				st.note("Reset")
				terms = append(terms, "(OReset, OZ [])")
			}
		}
	}
	run.Count(fmt.Sprintf("hist/sig=%d", c.Sig))
	run.Count("hist/family=" + c.Family)
	if c.Malformed {
		run.Count("hist/malformed")
	}
	run.Count("hist/ops" + bucket(len(c.Ops)))
	term := fmt.Sprintf("CHist %s %s %s %s (%s) %s", kit.ZI(c.ID), kit.Z(c.Lo), kit.Z(c.Hi), kit.ZI(c.Sig), geom, kit.List(terms))
	key := fmt.Sprintf("h|%d|%d|%d|%v", c.Lo, c.Hi, c.Sig, c.Ops)
	run.Case(c.ID, c, term, key, valid && len(recs) > 0 && nq > 0)
}

func execBitLen(run *kit.Run, c Case, verbose bool) {
	out := make([]int64, len(c.Xs))
	for i, x := range c.Xs {
		out[i] = hdrhist.VerifBitLen(x)
		want := int64(0)
		if x > 0 {
			want = int64(bits.Len64(uint64(x)))
		}
		if out[i] != want {
			run.OracleFail(c.ID, "C19:bitLen:wrong", fmt.Sprintf("bitLen(%d)=%d, want %d", x, out[i], want), c, out)
		}
		if verbose {
			fmt.Printf("bitLen(%d) = %d\n", x, out[i])
		}
	}
	run.Count("bitlen")
	term := fmt.Sprintf("CBitLen %s %s %s", kit.ZI(c.ID), kit.ZList(c.Xs), kit.ZList(out))
	run.Case(c.ID, c, term, fmt.Sprintf("b|%v", c.Xs), true)
}

func execWin(run *kit.Run, c Case, verbose bool) {
	st := &runState{run: run, c: c, verbose: verbose, failed: map[string]bool{}}
	valid := !c.Malformed
	var w *hdrhist.WindowedHistogram
	pn, msg := safe(func() { w = hdrhist.NewWindowed(c.N, c.Lo, c.Hi, c.Sig) })
	made := "OPanic"
	var terms []string
	nq := 0
	if pn {
		st.note("NewWindowed(%d,%d,%d,%d) panicked: %s", c.N, c.Lo, c.Hi, c.Sig, msg)
		if valid {
			st.fail("C19:panic", "NewWindowed panicked: "+msg)
		}
	} else {
		// idx after the initial Rotate is 0
		made = obsZ(int64(c.N), 0)
		// reference: the multiset held by each window slot
		slots := make([][]int64, c.N)
		cur := 0
		rot := 0
		for _, o := range c.WOps {
			var ob string
			switch o.K {
			case "rec":
				var err error
				p, m := safe(func() { err = w.Current.RecordValue(o.V) })
				if p {
					ob = "OPanic"
					if valid {
						st.fail("C19:panic", "Current.RecordValue panicked: "+m)
					}
				} else {
					ob = obsZ(b2i(err == nil))
					if err == nil {
						slots[cur] = append(slots[cur], o.V)
					} else if valid && c.Lo <= o.V && o.V <= c.Hi {
						st.fail("C19:RecordValue:in-range-rejected", fmt.Sprintf("window: RecordValue(%d) rejected", o.V))
					}
				}
				st.note("Current.RecordValue(%d) -> %s", o.V, ob)
				terms = append(terms, fmt.Sprintf("(WRecord %s, %s)", kit.Z(o.V), ob))
			case "rot":
				p, m := safe(func() { w.Rotate() })
				if p {
					ob = "OPanic"
					if valid {
						st.fail("C19:panic", "Rotate panicked: "+m)
					}
				} else {
					ob = "OZ []"
					rot++
					cur = rot % c.N
					slots[cur] = nil
				}
				st.note("Rotate -> %s", ob)
				terms = append(terms, fmt.Sprintf("(WRotate, %s)", ob))
			case "merge":
				var t, mn, mx int64
				p, m := safe(func() {
					mh := w.Merge()
					t = mh.TotalCount()
					mn = mh.Min()
					mx = mh.Max()
				})
				if p {
					ob = "OPanic"
					if valid {
						st.fail("C19:panic", "Windowed Merge panicked: "+m)
					}
				} else {
					ob = obsZ(t, mn, mx)
					if valid {
						nq++
						want := 0
						for _, s := range slots {
							want += len(s)
						}
						if t != int64(want) {
							st.fail("C19:Window:total", fmt.Sprintf("merged TotalCount=%d, windows hold %d", t, want))
						}
					}
				}
				st.note("Merge -> %s", ob)
				terms = append(terms, fmt.Sprintf("(WMerge, %s)", ob))
			}
		}
	}
	run.Count("win")
	term := fmt.Sprintf("CWin %s %s %s %s %s (%s) %s", kit.ZI(c.ID), kit.ZI(c.N), kit.Z(c.Lo), kit.Z(c.Hi), kit.ZI(c.Sig), made, kit.List(terms))
	run.Case(c.ID, c, term, fmt.Sprintf("w|%d|%d|%d|%d|%v", c.N, c.Lo, c.Hi, c.Sig, c.WOps), valid && nq > 0)
}

func execCase(run *kit.Run, c Case, verbose bool) {
	switch c.Kind {
	case "hist":
		execHist(run, c, verbose)
	case "bitlen":
		execBitLen(run, c, verbose)
	case "win":
		execWin(run, c, verbose)
	case "multi":
		execMulti(run, c, verbose)
	}
}

func bucket(n int) string {
	switch {
	case n == 0:
		return "=0"
	case n <= 4:
		return "1-4"
	case n <= 12:
		return "5-12"
	case n <= 30:
		return "13-30"
	default:
		return ">30"
	}
}

// ---------------------------------------------------------------- generators

var minChoices = []int64{1, 2, 3, 7, 8, 1000, 1<<20 - 1, 1 << 20, 1<<20 + 1}

func clamp(v, lo, hi int64) int64 {
	if v < lo {
		return lo
	}
	if v > hi {
		return hi
	}
	return v
}

func randBits(r *kit.Rand, nbits int) int64 {
	if nbits <= 0 {
		return 0
	}
	if nbits > 62 {
		nbits = 62
	}
	return int64(r.U64() & (uint64(1)<<uint(nbits) - 1))
}

func genMin(r *kit.Rand, sig int) int64 {
	switch r.Intn(10) {
	case 0, 1, 2, 3, 4, 5:
		return minChoices[r.Intn(len(minChoices))]
	case 6: // 2^k, 2^k +- 1, also where floor(log2(float64(min))) is inexact (k >= 49)
		k := r.Range(1, 62-scmTable[sig]-1)
		return clamp(int64(1)<<uint(k)+int64(r.Range(-2, 1)), 1, 1<<62)
	case 7:
		k := r.Range(40, 62-scmTable[sig]-1)
		return int64(1)<<uint(k) - int64(r.Range(1, 3))
	default:
		return 1 + randBits(r, r.Range(1, 30))
	}
}

// genMax: at / around a bucket boundary subBucketCount * 2^(unit+k), or arbitrary
func genMax(r *kit.Rand, lo int64, sig int) int64 {
	u := floorLog2(lo)
	top := 61 - u - scmTable[sig] // largest k with boundary < 2^62
	var hi int64
	switch r.Intn(8) {
	case 0, 1, 2, 3:
		k := r.Range(0, min(top, 6))
		if r.Chance(1, 6) {
			k = r.Range(0, top)
		}
		hi = int64(1)<<uint(scmTable[sig]+u+k) + int64(r.Range(-1, 1))
	case 4: // inside the first bucket
		hi = lo + randBits(r, r.Range(1, scmTable[sig]+u))
	case 5:
		hi = lo + int64(r.Intn(4))
	default:
		hi = lo + randBits(r, r.Range(1, min(61, u+scmTable[sig]+8)))
	}
	return clamp(hi, lo, 1<<62-1)
}

func min(a, b int) int {
	if a < b {
		return a
	}
	return b
}

func genValue(r *kit.Rand, lo, hi int64, sig int) int64 {
	u := floorLog2(lo)
	scm := scmTable[sig]
	var v int64
	switch r.Intn(12) {
	case 0:
		v = lo
	case 1:
		v = hi
	case 2:
		v = lo + int64(r.Intn(4))
	case 3:
		v = hi - int64(r.Intn(4))
	case 4: // bucket boundary
		k := r.Range(0, 62-u-scm)
		v = int64(1)<<uint(min(62, scm+u+k)) + int64(r.Range(-1, 1))
	case 5: // sub-bucket half boundary
		k := r.Range(0, 62-u-scm)
		v = int64(1)<<uint(min(62, scm-1+u+k)) + int64(r.Range(-1, 1))
	case 6: // power of two +- 1
		v = int64(1)<<uint(r.Range(0, 61)) + int64(r.Range(-1, 1))
	case 7: // sub-bucket boundary inside a bucket
		k := r.Range(0, min(8, 62-u-scm))
		sb := int64(r.Range(1<<uint(scm-1), 1<<uint(scm)-1))
		v = sb<<uint(u+k) + int64(r.Range(-1, 1))
	case 8:
		v = lo + int64(r.U64()%uint64(hi-lo+1))
	default: // log-uniform
		a, b := bits.Len64(uint64(lo)), bits.Len64(uint64(hi))
		v = randBits(r, r.Range(a, b))
	}
	return clamp(v, lo, hi)
}

var quantiles = []float64{100, 50, 99.9, 99.99, 99, 90, 75, 25, 10, 1, 0.1, 0.001, 1e-9, 100 - 1e-9, 33.333333333333336}

func qOp(q float64) Op {
	m, e := frexpME(q)
	return Op{K: "q", QM: m, QE: e}
}

func genQuantile(r *kit.Rand, total int64) Op {
	switch r.Intn(5) {
	case 0, 1, 2:
		return qOp(quantiles[r.Intn(len(quantiles))])
	case 3: // the quantile of an exact rank
		if total > 0 {
			k := 1 + int64(r.U64()%uint64(total))
			return qOp(100 * float64(k) / float64(total))
		}
		return qOp(50)
	default:
		return qOp(float64(r.Intn(100000)+1) / 1000)
	}
}

// walkCost: number of iterator steps a full walk takes (the model evaluates every step under vm_compute)
type planner struct {
	lo, hi int64
	sig    int
	maxRec int64
	any    bool
	cost   int
	budget int
}

func (p *planner) walk() int {
	if !p.any {
		return 1
	}
	u := floorLog2(p.lo)
	scm := scmTable[p.sig]
	b := floorLog2(p.maxRec) - (u + scm - 1)
	if b < 0 {
		b = 0
	}
	return (b+1)<<uint(scm-1) + int(p.maxRec>>uint(b+u)) - 1<<uint(scm-1) + 1
}

func (p *planner) clen() int {
	u := floorLog2(p.lo)
	scm := scmTable[p.sig]
	b := floorLog2(p.hi) - (u + scm - 1)
	if b < 0 {
		b = 0
	}
	return (b + 2) << uint(scm-1)
}

func (p *planner) can(c int) bool {
	if p.cost+c > p.budget {
		return false
	}
	p.cost += c
	return true
}

// boundary family: one shape at / around a bucket boundary, a short fixed script
func boundaryCase(r *kit.Rand, lo int64, sig, k, delta int, budget int) Case {
	u := floorLog2(lo)
	hi := int64(1)<<uint(scmTable[sig]+u+k) + int64(delta)
	c := Case{Kind: "hist", Family: "boundary", Lo: lo, Hi: hi, Sig: sig}
	p := &planner{lo: lo, hi: hi, sig: sig, budget: budget}
	vals := []int64{hi, lo, hi - 1, clamp(hi/2, lo, hi), clamp(hi/2+1, lo, hi)}
	for _, v := range vals {
		v = clamp(v, lo, hi)
		c.Ops = append(c.Ops, Op{K: "rec", V: v, N: 1})
		if v > p.maxRec {
			p.maxRec = v
		}
		p.any = true
	}
	c.Ops = append(c.Ops, Op{K: "idx", V: hi}, Op{K: "eqv", V: hi}, Op{K: "eqv", V: lo}, Op{K: "tot"})
	if p.can(p.walk()) {
		c.Ops = append(c.Ops, qOp(100))
	}
	if p.can(p.walk()) {
		c.Ops = append(c.Ops, Op{K: "max"})
	}
	if p.can(1) {
		c.Ops = append(c.Ops, Op{K: "min"})
	}
	if p.can(p.walk()) {
		c.Ops = append(c.Ops, qOp(50))
	}
	if p.can(p.walk() + p.clen()/4) {
		c.Ops = append(c.Ops, Op{K: "merge", Lo: lo, Hi: hi, Sig: sig})
	}
	if p.can(p.clen() / 4) {
		c.Ops = append(c.Ops, Op{K: "rt"})
	}
	return c
}

func randomCase(r *kit.Rand, budget int) Case {
	sig := 1 + r.Intn(3)
	if r.Chance(1, 6) {
		sig = 4 + r.Intn(2)
	}
	lo := genMin(r, sig)
	for floorLog2(lo)+scmTable[sig] > 60 {
		lo = genMin(r, sig)
	}
	hi := genMax(r, lo, sig)
	c := Case{Kind: "hist", Family: "random", Lo: lo, Hi: hi, Sig: sig}
	p := &planner{lo: lo, hi: hi, sig: sig, budget: budget}
	nops := r.Range(3, 40)
	total := int64(0)
	dup := genValue(r, lo, hi, sig)
	// big histograms: keep most values low so that the walks stay short
	for i := 0; i < nops; i++ {
		switch x := r.Intn(20); {
		case x < 10:
			v := genValue(r, lo, hi, sig)
			if r.Chance(1, 4) {
				v = dup // heavy duplicates
			}
			n := int64(1)
			if r.Chance(1, 5) {
				n = int64(r.Range(1, 1000))
			}
			if r.Chance(1, 50) {
				n = int64(r.Range(1, 1000000))
			}
			if p.walk() > p.budget/2 && v > p.maxRec && p.any {
				v = clamp(p.maxRec, lo, hi)
			}
			c.Ops = append(c.Ops, Op{K: "rec", V: v, N: n})
			total += n
			if v > p.maxRec {
				p.maxRec = v
			}
			p.any = true
		case x < 11:
			c.Ops = append(c.Ops, Op{K: "idx", V: genValue(r, lo, hi, sig)})
		case x < 12:
			c.Ops = append(c.Ops, Op{K: "eqv", V: genValue(r, lo, hi, sig)})
		case x < 13:
			c.Ops = append(c.Ops, Op{K: "tot"})
		case x < 16:
			if p.can(p.walk()) {
				c.Ops = append(c.Ops, genQuantile(r, total))
			}
		case x < 17:
			if p.can(p.walk()) {
				c.Ops = append(c.Ops, Op{K: "max"})
			}
		case x < 18:
			if p.can(1) {
				c.Ops = append(c.Ops, Op{K: "min"})
			}
		case x < 19:
			if r.Chance(1, 2) {
				if p.can(p.clen() / 4) {
					c.Ops = append(c.Ops, Op{K: "rt"})
				}
			} else if p.can(p.walk() + p.clen()/4) {
				c.Ops = append(c.Ops, Op{K: "merge", Lo: lo, Hi: hi, Sig: sig})
			}
		default:
			if r.Chance(1, 4) {
				c.Ops = append(c.Ops, Op{K: "reset"})
				total = 0
				p.any = false
				p.maxRec = 0
			} else if p.can(p.walk()) {
				// merge into a different (valid) shape: values may be dropped
				s2 := 1 + r.Intn(3)
				lo2 := minChoices[r.Intn(6)]
				hi2 := genMax(r, lo2, s2)
				c.Ops = append(c.Ops, Op{K: "merge", Lo: lo2, Hi: hi2, Sig: s2})
			}
		}
	}
	// always end with the summary queries the property talks about
	c.Ops = append(c.Ops, Op{K: "tot"})
	if p.can(p.walk()) {
		c.Ops = append(c.Ops, qOp(100))
	}
	if p.can(p.walk()) {
		c.Ops = append(c.Ops, Op{K: "max"})
	}
	if p.can(1) {
		c.Ops = append(c.Ops, Op{K: "min"})
	}
	return c
}

// malformed stream: invalid shapes, out-of-range values, non-positive counts, odd quantiles.
// Only the correspondence with the model is checked on these.
func malformedCase(r *kit.Rand) Case {
	sig := 1 + r.Intn(3)
	lo := minChoices[r.Intn(len(minChoices))]
	hi := genMax(r, lo, sig)
	switch r.Intn(8) {
	case 0:
		sig = []int{0, 6, -1, 7}[r.Intn(4)]
	case 1:
		lo = []int64{0, -1, -1000}[r.Intn(3)]
		hi = int64(r.Range(1, 100000))
	case 2:
		hi = lo - int64(r.Range(1, 1000))
	case 3:
		hi = -int64(r.Range(1, 1000))
	}
	c := Case{Kind: "hist", Family: "malformed", Malformed: true, Lo: lo, Hi: hi, Sig: sig}
	if !shapeTerminates(lo, hi, sig) {
		c.Lo, c.Hi, c.Sig = 1, 1000, 2
		lo, hi, sig = 1, 1000, 2
	}
	odd := []int64{0, -1, -5, lo - 1, hi + 1, hi + 2, hi * 2, hi*2 + 1, hi * 4, 1 << 61, 1 << 62, math.MaxInt64, math.MinInt64, math.MinInt64 + 1, -1 << 40}
	nops := r.Range(2, 14)
	neg := r.Chance(1, 4)
	for i := 0; i < nops; i++ {
		v := odd[r.Intn(len(odd))]
		if r.Chance(1, 3) && hi >= lo && lo >= 1 && sig >= 1 && sig <= 5 {
			v = genValue(r, lo, hi, sig)
		}
		switch r.Intn(6) {
		case 0, 1, 2:
			n := int64(r.Range(1, 5))
			if neg && r.Chance(1, 2) {
				n = -int64(r.Range(0, 5))
			}
			c.Ops = append(c.Ops, Op{K: "rec", V: v, N: n})
		case 3:
			c.Ops = append(c.Ops, Op{K: "idx", V: v})
		case 4:
			c.Ops = append(c.Ops, Op{K: "eqv", V: v})
		default:
			c.Ops = append(c.Ops, Op{K: "tot"})
		}
	}
	// walks only on small geometries
	if sig >= 1 && sig <= 3 && hi < 1<<uint(scmTable[3]+6) && lo < 2000 {
		qs := []float64{100, 50, 0, -5, 150, 1e-12, 99.9}
		c.Ops = append(c.Ops, qOp(qs[r.Intn(len(qs))]), Op{K: "min"}, Op{K: "max"}, Op{K: "tot"})
		if r.Chance(1, 2) {
			c.Ops = append(c.Ops, Op{K: "rt"})
		} else {
			c.Ops = append(c.Ops, Op{K: "merge", Lo: lo, Hi: hi, Sig: sig})
		}
	}
	return c
}

func bitLenCase(r *kit.Rand) Case {
	c := Case{Kind: "bitlen"}
	for i := 0; i < 40; i++ {
		var x int64
		switch r.Intn(5) {
		case 0:
			x = int64(1)<<uint(r.Range(0, 62)) + int64(r.Range(-1, 1))
		case 1:
			x = randBits(r, r.Range(1, 62))
		case 2:
			x = int64(r.U64()) // any int64, negative included
		case 3:
			x = int64(r.Range(-3, 70000))
		default:
			x = math.MaxInt64 - int64(r.Intn(3))
		}
		c.Xs = append(c.Xs, x)
	}
	return c
}

func winCase(r *kit.Rand) Case {
	sig := 1 + r.Intn(2)
	lo := minChoices[r.Intn(6)]
	hi := clamp(genMax(r, lo, sig), lo, lo<<uint(scmTable[sig]+4))
	c := Case{Kind: "win", N: r.Range(1, 4), Lo: lo, Hi: hi, Sig: sig}
	nops := r.Range(2, 25)
	for i := 0; i < nops; i++ {
		switch x := r.Intn(10); {
		case x < 6:
			c.WOps = append(c.WOps, WOp{K: "rec", V: genValue(r, lo, hi, sig)})
		case x < 8:
			c.WOps = append(c.WOps, WOp{K: "rot"})
		default:
			c.WOps = append(c.WOps, WOp{K: "merge"})
		}
	}
	c.WOps = append(c.WOps, WOp{K: "merge"})
	return c
}

// ---------------------------------------------------------------- main

func main() {
	run := kit.Start()
	run.Header = "From FunV Require Import Base.Tac Model.Hdr Corr.C19_corr.\nLocal Open Scope Z_scope."
	run.Footer = "Definition M := Eval vm_compute in mismatches cases.\nPrint M."
	run.CaseType = "case"
	run.ShardSize = 24
	run.Rule = "hist: (min,max,sigfigs) shape x call script run on the real hdrhist.Histogram. Families: boundary = sigfigs 1..5 x min in {1,2,3,7,8,1000,2^20-1,2^20,2^20+1,2^49-1,..} x max = subBucketCount*2^(unit+k)+{-1,0,1}, recording max, min, max-1, max/2, max/2+1; random = random valid shapes, values at bucket / sub-bucket boundaries, powers of two, min, max, heavy duplicates, quantiles near 0, 50, 99.9, 100 and exact-rank quantiles, Export/Import, Merge into the same and into other shapes, Reset; malformed = invalid shapes, out-of-range values, non-positive counts (correspondence only); bitlen = bitLen on 40 int64 values; multi = a store of up to 6 live histograms of one shape (source, snapshots taken at arbitrary points, histograms imported from them, fresh merge targets) with RecordValues/Reset/Export/Import/Merge/snapshot-scribbling in any order and TotalCount/ValueAtQuantile/Min/Max of every histogram checked against its own data at the mid-point and at the end; win = WindowedHistogram record/rotate/merge scripts. distinct = distinct (shape, script); non-trivial = valid case with at least one accepted record and at least one quantile/Min/Max/Merge answer checked by the oracle (bitlen: always)"

	if run.Replay != "" {
		var c Case
		if err := kit.ReadReplayCase(run.Replay, &c); err != nil {
			panic(err)
		}
		execCase(run, c, true)
		run.Finish()
		return
	}

	id := 0
	emit := func(c Case) {
		if c.Kind != "bitlen" && !shapeTerminates(c.Lo, c.Hi, c.Sig) {
			run.Count("skipped/New-would-not-terminate")
			return
		}
		c.ID = id
		id++
		execCase(run, c, false)
	}

	// corpus: minimised earlier failures / the shapes named in DESIGN.md section 9 #7; always run first
	corpus := []Case{
		{Kind: "hist", Family: "corpus", Lo: 1, Hi: 32, Sig: 1, Ops: []Op{{K: "rec", V: 32, N: 1}, {K: "tot"}, qOp(100), {K: "max"}}},
		{Kind: "hist", Family: "corpus", Lo: 1, Hi: 64, Sig: 1, Ops: []Op{{K: "rec", V: 64, N: 1}, {K: "tot"}, qOp(100)}},
		{Kind: "hist", Family: "corpus", Lo: 1, Hi: 2048, Sig: 3, Ops: []Op{{K: "rec", V: 2048, N: 1}, {K: "tot"}, qOp(100)}},
		// unitMagnitude from floor(log2(float64(min))) is one too large just below 2^49
		{Kind: "hist", Family: "corpus", Lo: 1<<49 - 1, Hi: 1 << 55, Sig: 1, Ops: []Op{{K: "rec", V: 1 << 49, N: 1}, {K: "eqv", V: 1 << 49}, {K: "tot"}, qOp(100), {K: "min"}, {K: "max"}}},
		{Kind: "hist", Family: "corpus", Lo: 1<<52 - 7, Hi: 1 << 57, Sig: 2, Ops: []Op{{K: "rec", V: 1<<52 + 5, N: 3}, {K: "tot"}, qOp(50), {K: "min"}}},
		{Kind: "hist", Family: "corpus", Lo: 1, Hi: 1000000, Sig: 3, Ops: []Op{{K: "rec", V: 1, N: 1}, {K: "rec", V: 1000000, N: 1}, {K: "rec", V: 500, N: 10}, {K: "tot"}, qOp(50), qOp(99.9), qOp(100), {K: "min"}, {K: "max"}, {K: "rt"}, {K: "merge", Lo: 1, Hi: 1000000, Sig: 3}}},
	}
	for _, c := range corpus {
		emit(c)
	}

	// a few full walks on the big geometries (own small shards, evaluated first: they are the long poles)
	run.ShardSize = 2
	type bigShape struct {
		lo  int64
		sig int
		k   int
	}
	bigs := []bigShape{{1, 4, 0}}
	if run.Thorough() {
		bigs = append(bigs, bigShape{1, 5, 0}, bigShape{1, 4, 1}, bigShape{8, 4, 0}, bigShape{3, 5, 0}, bigShape{1000, 4, 2})
	}
	// sigfigs 5 in the quick tier: walks over the low part of the first bucket only
	emit(Case{Kind: "hist", Family: "corpus", Lo: 1, Hi: 1 << 19, Sig: 5, Ops: []Op{{K: "rec", V: 1 << 19, N: 1}, {K: "rec", V: 1, N: 2}, {K: "rec", V: 29999, N: 5}, {K: "rec", V: 30000, N: 1}, {K: "idx", V: 1 << 19}, {K: "eqv", V: 1<<19 - 1}, {K: "tot"}, qOp(50), qOp(80), {K: "min"}}})
	for _, sh := range bigs {
		for delta := -1; delta <= 1; delta++ {
			if delta != 0 && !run.Thorough() {
				continue
			}
			b := 70000
			if sh.sig == 5 {
				b = 300000
			}
			if run.Thorough() {
				b *= 3
			}
			emit(boundaryCase(run.Rand.Fork(), sh.lo, sh.sig, sh.k, delta, b))
		}
	}
	run.ShardSize = 40

	// --- boundary family (systematic)
	walkBudget := run.Pick(4000, 12000)
	mins := append([]int64(nil), minChoices...)
	mins = append(mins, 1<<49-1, 1<<40+1)
	for sig := 1; sig <= 5; sig++ {
		for _, lo := range mins {
			u := floorLog2(lo)
			top := 61 - u - scmTable[sig]
			ks := []int{0, 1, 2, 3}
			if run.Thorough() {
				ks = nil
				for k := 0; k <= top; k++ {
					ks = append(ks, k)
				}
			} else {
				r := run.Rand.Fork()
				ks = append(ks, r.Range(4, top), top)
			}
			for _, k := range ks {
				if k > top || k < 0 {
					continue
				}
				for delta := -1; delta <= 1; delta++ {
					r := run.Rand.Fork()
					b := walkBudget
					if sig >= 4 {
						b = 0 // records, indices and totals only; the full walks are above
					}
					emit(boundaryCase(r, lo, sig, k, delta, b))
				}
			}
		}
	}

	// --- random family
	n := run.Pick(500, 10000)
	for i := 0; i < n; i++ {
		r := run.Rand.Fork()
		b := run.Pick(3000, 4000)
		if r.Chance(1, 50) {
			b = run.Pick(30000, 40000)
		}
		emit(randomCase(r, b))
	}
	// --- malformed stream
	n = run.Pick(150, 4000)
	for i := 0; i < n; i++ {
		emit(malformedCase(run.Rand.Fork()))
	}
	// --- bitLen
	n = run.Pick(60, 2000)
	for i := 0; i < n; i++ {
		emit(bitLenCase(run.Rand.Fork()))
	}
	// --- several live histograms (export / import / merge, then more calls on any of them)
	for _, c := range multiCorpus() {
		emit(c)
	}
	n = run.Pick(150, 3000)
	for i := 0; i < n; i++ {
		emit(multiCase(run.Rand.Fork()))
	}
	// --- windowed histogram
	n = run.Pick(80, 2000)
	for i := 0; i < n; i++ {
		emit(winCase(run.Rand.Fork()))
	}
	_ = strings.Join
	run.Finish()
}
