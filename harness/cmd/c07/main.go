// Driver for C07: blocking queue/deque operations never miss a wake-up.
//
// Every case is a *scenario* run on the REAL pubsub.Queue / Distributor / pubsub.Deque: a table of operations
// (one per "thread") and a script of steps
//
//	one   an operation done by the driver itself (an effect op: synchronously; a blocking op: started in its own
//	      goroutine, and the driver waits until that goroutine has returned or is parked inside sync.Cond.Wait)
//	race  several items (effect ops, blocking ops, context cancellations) released together from separate
//	      goroutines; afterwards every effect has returned and every blocking op has returned or parked
//	settle  the driver waits for QUIESCENCE
//
// Every blocking call gets a 10 s deadline that is never reached in a passing run.  "Parked" and "quiescent" are
// decided from stop-the-world goroutine snapshots (runtime.Stack(all)), never from short timeouts: the process is
// quiescent when every goroutine with a pubsub frame is parked in sync.Cond.Wait (a waiter) or in `chan receive`
// (a per-wait helper waiting for ctx.Done), and every operation that has not returned is one of the parked
// waiters.  In such a state nothing can happen any more without a new external event, so a waiter that is parked
// there although its condition holds has missed its wake-up - deterministically, however long one waits.
// (The Deque's wait loops Signal their own cond before every Wait, so two waiters on one cond wake each other for
// ever and never quiesce; there the driver accepts "every operation that has not returned has a false condition,
// stably", and reports a violation only for a waiter that sits in sync.Cond.Wait with a true condition for 3 s
// while nothing else returns.)
//
// Direct oracles (independent of the Coq model), evaluated at the end of every scenario: a blocked consumer must
// not remain while the container is non-empty (Queue) / non-empty and open (Deque); a blocked producer must not
// remain while there is room; nobody may remain blocked once the container is closed or its own context has been
// cancelled; a call made while its condition already holds must return without ever parking; an iterator must not
// remain parked once an item has been added behind it.  The scenario and the observed outcome (who returned what,
// who is still blocked, final Len) are printed as a Coq term; coq/Corr/C07_corr.v searches the interleavings the
// model allows for one with exactly that outcome.
package main

import (
	"context"
	"errors"
	"fmt"
	"go/ast"
	"go/parser"
	"go/token"
	"os"
	"path/filepath"
	"regexp"
	"runtime"
	"strconv"
	"strings"
	"sync"
	"sync/atomic"
	"time"

	"github.com/tychoish/fun/pubsub"

	"verif/harness/kit"
)

// ---------------------------------------------------------------- case format

type Trk struct {
	Kind  string  `json:"kind"` // unlimited | hard | quota
	Cap   int     `json:"cap,omitempty"`
	Hard  int     `json:"hard,omitempty"`
	Soft  int     `json:"soft,omitempty"`
	Burst float64 `json:"burst,omitempty"`
}

// Queue ops:  add send(Distributor.Send) remove close len | wait recv(Distributor.Receive) badd iter
// Deque ops:  pf pb of ob ff fb close len | wf wb drecv(Distributor.Receive) wpf wpb dsend(Distributor.Send)
type Op struct {
	K string `json:"k"`
	V int64  `json:"v,omitempty"`
	// Ctx: context of a blocking call: "" = 10 s deadline (cancellable), "bg" = context.Background(),
	// "todo" = context.TODO() - contexts that can never end (Done() == nil)
	Ctx string `json:"ctx,omitempty"`
}

type Item struct {
	K string `json:"k"` // do | spawn | cancel
	T int    `json:"t"`
}

type Step struct {
	K     string `json:"k"` // one | race | settle
	Items []Item `json:"items,omitempty"`
}

type Case struct {
	ID     int    `json:"id"`
	Cont   string `json:"cont"` // queue | deque
	Family string `json:"family"`
	Trk    Trk    `json:"trk"`
	Ops    []Op   `json:"ops"`
	Script []Step `json:"script"`
	// Window: thread whose context is cancelled while it sits between its `select` and cond.Wait (held there
	// through the yield point pubsub.wait.before-cond-wait); -1 = none.  The script must spawn it with a `one`
	// step directly followed by its cancel.
	Window int `json:"window"`
	Procs  int `json:"procs,omitempty"`
	// Stress > 0: not a scripted scenario but `Stress` rounds of the cancellation stress (family stress-cancel)
	Stress  int `json:"stress,omitempty"`
	Waiters int `json:"waiters,omitempty"`
}

type Res struct {
	K string `json:"k"` // blocked | val | none | unit | nil | full | nocredit | closed | ctx | other
	V int64  `json:"v,omitempty"`
}

func isBlocking(k string) bool {
	switch k {
	case "wait", "recv", "badd", "iter", "wf", "wb", "drecv", "wpf", "wpb", "dsend":
		return true
	}
	return false
}
func isConsumer(k string) bool {
	switch k {
	case "wait", "recv", "wf", "wb", "drecv":
		return true
	}
	return false
}
func isProducer(k string) bool {
	switch k {
	case "badd", "wpf", "wpb", "dsend":
		return true
	}
	return false
}

var opName = map[string]string{
	"add": "Queue.Add", "send": "Distributor.Send", "remove": "Queue.Remove", "close": "Close", "len": "Len",
	"wait": "Queue.Wait", "recv": "Distributor.Receive", "badd": "Queue.BlockingAdd", "iter": "Queue.nupdates",
	"pf": "Deque.PushFront", "pb": "Deque.PushBack", "of": "Deque.PopFront", "ob": "Deque.PopBack",
	"ff": "Deque.ForcePushFront", "fb": "Deque.ForcePushBack", "wf": "Deque.WaitFront", "wb": "Deque.WaitBack",
	"drecv": "Deque.WaitFront", "wpf": "Deque.WaitPushFront", "wpb": "Deque.WaitPushBack", "dsend": "Deque.WaitPushBack",
}

// ---------------------------------------------------------------- goroutine snapshots

var gidRe = regexp.MustCompile(`^goroutine (\d+) \[([^\],]+)`)

func curGID() int64 {
	var buf [64]byte
	n := runtime.Stack(buf[:], false)
	m := gidRe.FindSubmatch(buf[:n])
	if m == nil {
		return -1
	}
	v, _ := strconv.ParseInt(string(m[1]), 10, 64)
	return v
}

// a per-wait helper goroutine is idle when it is parked on channels (waiting for ctx.Done(), possibly in a select)
func helperIdle(g gInfo) bool {
	if !g.helper {
		return false
	}
	switch g.state {
	case "chan receive", "select", "chan send", "chan receive (nil chan)", "select (no cases)":
		return true
	}
	return false
}

type gInfo struct {
	state  string
	pubsub bool
	helper bool // a per-wait helper goroutine: func literal inside a pubsub wait function
}

var snapBuf = make([]byte, 4<<20)

func snapshot() map[int64]gInfo {
	n := runtime.Stack(snapBuf, true)
	out := map[int64]gInfo{}
	for _, blk := range strings.Split(string(snapBuf[:n]), "\n\n") {
		m := gidRe.FindStringSubmatch(blk)
		if m == nil {
			continue
		}
		id, _ := strconv.ParseInt(m[1], 10, 64)
		gi := gInfo{state: m[2]}
		if strings.Contains(blk, "github.com/tychoish/fun/pubsub.") {
			gi.pubsub = true
			lines := strings.Split(blk, "\n")
			if len(lines) > 1 && strings.Contains(lines[1], "pubsub.") && strings.Contains(lines[1], ".func") {
				gi.helper = true
			}
		}
		out[id] = gi
	}
	return out
}

// ---------------------------------------------------------------- the containers

type cont interface {
	Len() int
	exec(ctx context.Context, o Op, th *thread) Res
}

func errKind(err error) Res {
	switch {
	case err == nil:
		return Res{K: "nil"}
	case errors.Is(err, pubsub.ErrQueueFull):
		return Res{K: "full"}
	case errors.Is(err, pubsub.ErrQueueNoCredit):
		return Res{K: "nocredit"}
	case errors.Is(err, pubsub.ErrQueueClosed):
		return Res{K: "closed"}
	case errors.Is(err, context.Canceled), errors.Is(err, context.DeadlineExceeded):
		return Res{K: "ctx"}
	}
	return Res{K: "other"}
}

func valOrErr(v int64, err error) Res {
	if err == nil {
		return Res{K: "val", V: v}
	}
	return errKind(err)
}

type queueC struct {
	q    *pubsub.Queue[int64]
	dist pubsub.Distributor[int64]
}

func (c *queueC) Len() int { return c.q.Len() }

func (c *queueC) exec(ctx context.Context, o Op, th *thread) Res {
	switch o.K {
	case "add":
		return errKind(c.q.Add(o.V))
	case "send":
		return errKind(c.dist.Send(ctx, o.V))
	case "remove":
		v, ok := c.q.Remove()
		if !ok {
			return Res{K: "none"}
		}
		return Res{K: "val", V: v}
	case "close":
		_ = c.q.Close()
		return Res{K: "unit"}
	case "len":
		_ = c.q.Len()
		return Res{K: "unit"}
	case "wait":
		return valOrErr(c.q.Wait(ctx))
	case "recv":
		return valOrErr(c.dist.Receive(ctx))
	case "badd":
		return errKind(c.q.BlockingAdd(ctx, o.V))
	case "iter":
		// an iterator that has seen everything queued so far and asks for the next item
		it := c.q.Producer()
		for i := 0; i < th.skip; i++ {
			if _, err := it(ctx); err != nil {
				return Res{K: "other"}
			}
		}
		_, err := it(ctx)
		return errKind(err) // "nil" = the next item arrived
	}
	panic("bad queue op " + o.K)
}

type dequeC struct {
	d    *pubsub.Deque[int64]
	dist pubsub.Distributor[int64]
}

func (c *dequeC) Len() int { return c.d.Len() }

func popRes(v int64, ok bool) Res {
	if !ok {
		return Res{K: "none"}
	}
	return Res{K: "val", V: v}
}

func (c *dequeC) exec(ctx context.Context, o Op, th *thread) Res {
	switch o.K {
	case "pf":
		return errKind(c.d.PushFront(o.V))
	case "pb":
		return errKind(c.d.PushBack(o.V))
	case "of":
		return popRes(c.d.PopFront())
	case "ob":
		return popRes(c.d.PopBack())
	case "ff":
		return errKind(c.d.ForcePushFront(o.V))
	case "fb":
		return errKind(c.d.ForcePushBack(o.V))
	case "close":
		_ = c.d.Close()
		return Res{K: "unit"}
	case "len":
		_ = c.d.Len()
		return Res{K: "unit"}
	case "wf":
		return valOrErr(c.d.WaitFront(ctx))
	case "wb":
		return valOrErr(c.d.WaitBack(ctx))
	case "drecv":
		return valOrErr(c.dist.Receive(ctx))
	case "wpf":
		return errKind(c.d.WaitPushFront(ctx, o.V))
	case "wpb":
		return errKind(c.d.WaitPushBack(ctx, o.V))
	case "dsend":
		return errKind(c.dist.Send(ctx, o.V))
	}
	panic("bad deque op " + o.K)
}

func newCont(c Case) (cont, error) {
	if c.Cont == "queue" {
		var q *pubsub.Queue[int64]
		switch c.Trk.Kind {
		case "unlimited":
			q = pubsub.NewUnlimitedQueue[int64]()
		case "quota":
			var err error
			q, err = pubsub.NewQueue[int64](pubsub.QueueOptions{HardLimit: c.Trk.Hard, SoftQuota: c.Trk.Soft, BurstCredit: c.Trk.Burst})
			if err != nil {
				return nil, err
			}
		case "hard": // the fixed-capacity tracker, which only the Deque's constructors use (pubsub/verif_export.go)
			q = pubsub.NewVerifHardLimitQueue[int64](c.Trk.Cap)
		default:
			return nil, fmt.Errorf("queue tracker %q", c.Trk.Kind)
		}
		return &queueC{q: q, dist: q.Distributor()}, nil
	}
	var opts pubsub.DequeOptions
	switch c.Trk.Kind {
	case "unlimited":
		opts.Unlimited = true
	case "hard":
		opts.Capacity = c.Trk.Cap
	case "quota":
		opts.QueueOptions = &pubsub.QueueOptions{HardLimit: c.Trk.Hard, SoftQuota: c.Trk.Soft, BurstCredit: c.Trk.Burst}
	}
	d, err := pubsub.NewDeque[int64](opts)
	if err != nil {
		return nil, err
	}
	return &dequeC{d: d, dist: d.Distributor()}, nil
}

// ---------------------------------------------------------------- running a scenario

type thread struct {
	op      Op
	gid     atomic.Int64
	started bool
	done    atomic.Bool
	res     Res
	ctx     context.Context
	cancel  context.CancelFunc
	skip    int  // iterator: items to read before the blocking call
	parked  bool // has been seen parked in sync.Cond.Wait at least once
	preTrue bool // blocking op started by a `one` step right after a settle while its condition held
	preKnown bool
	cancelled bool
	addsAtSpawn int
	countedF bool
	t0       time.Time
}

type runner struct {
	c        Case
	cont     cont
	th       []*thread
	closed   bool // Close has returned (or was released in a race)
	adds     int  // successful adds/pushes so far (as observed from results)
	lastWasSettle bool
	inconclusive string
	wg       sync.WaitGroup
}

const deadline = 10 * time.Second
const giveUp = 30 * time.Second // harness bound, far beyond every deadline: only a hung run reaches it

func (th *thread) mkctx() {
	switch th.op.Ctx {
	case "bg":
		th.ctx, th.cancel = context.Background(), func() {}
	case "todo":
		th.ctx, th.cancel = context.TODO(), func() {}
	default:
		th.ctx, th.cancel = context.WithTimeout(context.Background(), deadline)
	}
}

func (r *runner) start(t int) {
	th := r.th[t]
	th.started = true
	th.t0 = time.Now()
	if th.ctx == nil {
		th.mkctx()
	}
	r.wg.Add(1)
	go func() {
		defer r.wg.Done()
		th.gid.Store(curGID())
		th.res = r.cont.exec(th.ctx, th.op, th)
		th.done.Store(true)
	}()
}

// parkedOrDone waits until each listed blocking thread has returned or has been seen inside sync.Cond.Wait.
func (r *runner) parkedOrDone(ts []int) bool {
	t0 := time.Now()
	for {
		all := true
		var snap map[int64]gInfo
		for _, t := range ts {
			th := r.th[t]
			if th.done.Load() || th.parked {
				continue
			}
			if snap == nil {
				snap = snapshot()
			}
			if g, ok := snap[th.gid.Load()]; ok && g.pubsub && g.state == "sync.Cond.Wait" {
				th.parked = true
				continue
			}
			all = false
		}
		if all {
			return true
		}
		if time.Since(t0) > giveUp {
			r.inconclusive = "operation neither returned nor parked"
			return false
		}
		time.Sleep(20 * time.Microsecond)
	}
}

// strictQuiescent: one snapshot in which nothing in pubsub can run: returns the not-done threads (all parked).
func (r *runner) strictQuiescent() bool {
	snap := snapshot()
	for _, g := range snap {
		if !g.pubsub {
			continue
		}
		if g.state == "sync.Cond.Wait" || helperIdle(g) {
			continue
		}
		return false
	}
	for _, th := range r.th {
		if !th.started || th.done.Load() {
			continue
		}
		g, ok := snap[th.gid.Load()]
		if !ok || !g.pubsub || g.state != "sync.Cond.Wait" {
			return false
		}
		th.parked = true
	}
	return true
}

// condition of a blocked operation, from the container's own observers (Deque fallback and oracles)
func (r *runner) condHolds(th *thread, n int) (holds bool, known bool) {
	k := th.op.K
	if th.cancelled {
		return true, true
	}
	if r.c.Cont == "queue" {
		switch {
		case isConsumer(k):
			return n > 0 || r.closed, true
		case k == "badd":
			if r.closed {
				return true, true
			}
			sn := r.cont.(*queueC).q.VerifSnapshot() // tracker.cap() (the SOFT quota for the quota tracker) and len()
			return sn.Cap > sn.Length, true
		case k == "iter":
			return r.closed || r.adds > th.addsAtSpawn, true
		}
		return false, false
	}
	if r.closed {
		return true, true
	}
	switch {
	case isConsumer(k):
		return n > 0, true
	case isProducer(k):
		// tracker.cap() > tracker.len() on the implementation's own tracker (cap() is the dynamic soft quota for a
		// deque built with QueueOptions)
		cp, ln, _ := r.cont.(*dequeC).d.VerifCapLen()
		return cp > ln, true
	}
	return false, false
}

func (r *runner) blockedThreads() []*thread {
	var out []*thread
	for _, th := range r.th {
		if th.started && !th.done.Load() {
			out = append(out, th)
		}
	}
	return out
}

// settle waits for quiescence (see the header).  final: the last settle of the scenario.
func (r *runner) settle() {
	t0 := time.Now()
	var stallSince time.Time
	lastDone := -1
	for i := 0; ; i++ {
		if r.strictQuiescent() {
			return
		}
		if r.c.Cont == "deque" && i >= 50 {
			// ping-pong fallback: stable, and every operation that has not returned has a false condition
			nd := r.doneCount()
			n1 := r.cont.Len()
			allFalse, someTrue := true, false
			for _, th := range r.blockedThreads() {
				h, known := r.condHolds(th, n1)
				if !known || h {
					allFalse = false
				}
				if known && h {
					someTrue = true
				}
			}
			n2 := r.cont.Len()
			if allFalse && n1 == n2 && nd == r.doneCount() && r.noEffectRunning() {
				return
			}
			if nd != lastDone {
				lastDone = nd
				stallSince = time.Now()
			}
			if someTrue && time.Since(stallSince) > 3*time.Second {
				return // the oracle decides (parked in sync.Cond.Wait with a true condition => missed wake-up)
			}
		}
		if time.Since(t0) > giveUp {
			r.inconclusive = "no quiescence"
			return
		}
		time.Sleep(20 * time.Microsecond)
	}
}

func (r *runner) doneCount() int {
	n := 0
	for _, th := range r.th {
		if th.done.Load() {
			n++
		}
	}
	return n
}

// no goroutine other than the known blocked waiters and helpers is inside pubsub
func (r *runner) noEffectRunning() bool {
	snap := snapshot()
	mine := map[int64]bool{}
	for _, th := range r.blockedThreads() {
		mine[th.gid.Load()] = true
	}
	for id, g := range snap {
		if !g.pubsub || mine[id] {
			continue
		}
		if g.helper {
			continue
		}
		return false
	}
	return true
}

func (r *runner) note(t int) {
	th := r.th[t]
	if th.res.K == "nil" {
		switch th.op.K {
		case "add", "send", "badd", "pf", "pb", "ff", "fb", "wpf", "wpb", "dsend":
			r.adds++
		}
	}
}

func (r *runner) doItemSync(it Item) {
	th := r.th[it.T]
	switch it.K {
	case "do":
		th.started = true
		th.ctx, th.cancel = context.WithTimeout(context.Background(), deadline)
		th.res = r.cont.exec(th.ctx, th.op, th)
		th.done.Store(true)
		th.cancel()
		if th.op.K == "close" {
			r.closed = true
		}
		r.note(it.T)
	case "spawn":
		n := r.cont.Len()
		th.addsAtSpawn = r.adds
		th.skip = n
		if r.lastWasSettle {
			h, known := r.condHolds(th, n)
			th.preKnown, th.preTrue = known, h && known
		}
		r.start(it.T)
		if r.c.Window == it.T {
			return // held at the yield point by the hook; released by the following cancel
		}
		r.parkedOrDone([]int{it.T})
	case "cancel":
		th.cancelled = true
		if th.cancel != nil {
			th.cancel()
		}
	}
}

func (r *runner) run() {
	for si, st := range r.c.Script {
		_ = si
		switch st.K {
		case "settle":
			r.settle()
			r.accountDone()
			r.lastWasSettle = true
			continue
		case "one":
			it := st.Items[0]
			if it.K == "cancel" && r.c.Window == it.T {
				r.windowCancel(it.T)
			} else {
				r.doItemSync(it)
			}
		case "race":
			startCh := make(chan struct{})
			var rw sync.WaitGroup
			var spawned []int
			for _, it := range st.Items {
				it := it
				th := r.th[it.T]
				switch it.K {
				case "do":
					th.started = true
					th.ctx, th.cancel = context.WithTimeout(context.Background(), deadline)
					rw.Add(1)
					go func() {
						defer rw.Done()
						<-startCh
						th.res = r.cont.exec(th.ctx, th.op, th)
						th.done.Store(true)
						th.cancel()
					}()
				case "spawn":
					th.addsAtSpawn = r.adds
					th.skip = r.cont.Len()
					th.started = true
					th.t0 = time.Now()
					th.mkctx()
					spawned = append(spawned, it.T)
					r.wg.Add(1)
					go func() {
						defer r.wg.Done()
						th.gid.Store(curGID())
						<-startCh
						th.res = r.cont.exec(th.ctx, th.op, th)
						th.done.Store(true)
					}()
				case "cancel":
					th.cancelled = true
					rw.Add(1)
					go func() {
						defer rw.Done()
						<-startCh
						if th.cancel != nil {
							th.cancel()
						}
					}()
				}
			}
			runtime.Gosched()
			close(startCh)
			rw.Wait()
			for _, it := range st.Items {
				if it.K == "do" {
					if r.th[it.T].op.K == "close" {
						r.closed = true
					}
					r.note(it.T)
				}
			}
			r.parkedOrDone(spawned)
		}
		r.lastWasSettle = false
	}
}

// a blocking op that completed with "nil" counts as an add once it is seen done
func (r *runner) accountDone() {
	for i, th := range r.th {
		if th.done.Load() && isBlocking(th.op.K) && !th.counted() {
			th.markCounted()
			r.note(i)
		}
	}
}

func (th *thread) counted() bool { return th.countedF }
func (th *thread) markCounted()  { th.countedF = true }

// the cancellation window: thread t is being held (lock held) at pubsub.wait.before-cond-wait, i.e. after its
// `select` found the context alive and before cond.Wait registers it.  Cancel its context there, give the helper
// goroutine time to run, then let the waiter go on into cond.Wait.
var hookReached = make(chan struct{}, 64)
var hookGate atomic.Pointer[chan struct{}]
var hookTarget atomic.Int64

func (r *runner) windowCancel(t int) {
	th := r.th[t]
	select {
	case <-hookReached:
	case <-time.After(giveUp):
		r.inconclusive = "yield point not reached"
	}
	th.cancelled = true
	th.cancel()
	time.Sleep(30 * time.Millisecond) // the helper (if it does not need the lock) broadcasts now - to nobody
	if g := hookGate.Load(); g != nil {
		close(*g)
	}
	hookTarget.Store(0)
}

func installWindowHook(r *runner) {
	gate := make(chan struct{})
	hookGate.Store(&gate)
	hookTarget.Store(-1)
	for len(hookReached) > 0 {
		<-hookReached
	}
	target := r.th[r.c.Window]
	pubsub.SetVerifYieldHook(func(name string) {
		if name != "pubsub.wait.before-cond-wait" || hookTarget.Load() != -1 {
			return
		}
		if curGID() != target.gid.Load() {
			return
		}
		hookTarget.Store(1)
		hookReached <- struct{}{}
		<-gate
	})
}

// ---------------------------------------------------------------- oracles, Coq term

type outcome struct {
	Res   []Res `json:"res"`
	Final int   `json:"final_len"`
}

var nInconclusive int

func execCase(run *kit.Run, c Case, verbose bool) {
	if c.Procs > 0 {
		defer runtime.GOMAXPROCS(runtime.GOMAXPROCS(c.Procs))
	}
	if c.Stress > 0 {
		stressCancel(run, c, verbose)
		return
	}
	ct, err := newCont(c)
	if err != nil {
		fmt.Fprintln(os.Stderr, "bad case", c.ID, err)
		return
	}
	r := &runner{c: c, cont: ct}
	for _, o := range c.Ops {
		r.th = append(r.th, &thread{op: o})
	}
	if c.Window >= 0 {
		installWindowHook(r)
	}
	r.run()
	r.settle()
	r.accountDone()
	if c.Window >= 0 {
		pubsub.SetVerifYieldHook(nil)
	}
	// ---- observe
	out := outcome{Final: ct.Len()}
	blocked := map[int]bool{}
	for i, th := range r.th {
		switch {
		case !th.started:
			out.Res = append(out.Res, Res{K: "unit"})
		case th.done.Load():
			out.Res = append(out.Res, th.res)
		default:
			out.Res = append(out.Res, Res{K: "blocked"})
			blocked[i] = true
		}
	}
	// every operation that has not returned must be (seen) parked in sync.Cond.Wait now; under the Deque's
	// ping-pong a waiter is parked only part of the time, so look until each one has been seen there (or returned)
	seenWait := map[*thread]bool{}
	for t0 := time.Now(); time.Since(t0) < 2*time.Second; time.Sleep(50 * time.Microsecond) {
		snap := snapshot()
		all := true
		for i, th := range r.th {
			if !blocked[i] || seenWait[th] {
				continue
			}
			if g, ok := snap[th.gid.Load()]; ok && g.state == "sync.Cond.Wait" {
				seenWait[th] = true
			} else {
				all = false
			}
		}
		if all {
			break
		}
	}
	for i, th := range r.th {
		if blocked[i] && th.done.Load() { // returned meanwhile: the snapshot it was taken from was not quiescent
			r.inconclusive = "operation returned after the final settle"
		}
	}
	inCondWait := func(th *thread) bool { return seenWait[th] }
	// ---- direct oracles
	type failure struct{ sig, detail string }
	var fails []failure
	fail := func(t int, class, detail string) {
		sig := "C07:" + opName[c.Ops[t].K] + ":" + class
		fails = append(fails, failure{sig, detail})
	}
	n := out.Final
	for i, th := range r.th {
		k := th.op.K
		if !th.started {
			continue
		}
		if blocked[i] {
			if !inCondWait(th) {
				if r.inconclusive == "" {
					r.inconclusive = "blocked operation not in sync.Cond.Wait"
				}
				continue
			}
			switch {
			case th.cancelled:
				fail(i, "cancel-lost", fmt.Sprintf("thread %d (%s): context cancelled, yet still parked in sync.Cond.Wait at quiescence", i, k))
			case r.closed:
				fails = append(fails, failure{"C07:" + map[string]string{"queue": "Queue", "deque": "Deque"}[c.Cont] + ".Close:no-wake",
					fmt.Sprintf("thread %d (%s): container closed, yet still parked at quiescence", i, k)})
			case th.preTrue:
				fail(i, "blocks-nonempty", fmt.Sprintf("thread %d (%s): called while its condition held (len=%d), yet parked", i, k, n))
			case isConsumer(k) && n > 0:
				fail(i, "missed-wakeup", fmt.Sprintf("thread %d (%s): parked at quiescence while len=%d", i, k, n))
			case k == "iter" && r.adds > th.addsAtSpawn:
				fail(i, "iterator-starved", fmt.Sprintf("thread %d: iterator parked at quiescence although %d item(s) were added behind it", i, r.adds-th.addsAtSpawn))
			case isProducer(k):
				h, known := r.condHolds(th, n)
				if known && h {
					fail(i, "missed-wakeup", fmt.Sprintf("thread %d (%s): parked at quiescence although there is room (len=%d)", i, k, n))
				}
			}
			continue
		}
		// returned: a call whose condition held when it was made must never have parked
		if th.preTrue && th.parked && !th.cancelled {
			fail(i, "blocks-nonempty", fmt.Sprintf("thread %d (%s): called while its condition held, parked before returning", i, k))
		}
		if isBlocking(k) {
			switch th.res.K {
			case "ctx":
				if !th.cancelled && time.Since(th.t0) > deadline-time.Second {
					// the machine stalled for the whole 10 s deadline: no verdict from this scenario
					if r.inconclusive == "" {
						r.inconclusive = "deadline reached"
					}
				} else if !th.cancelled {
					fail(i, "spurious-ctx", fmt.Sprintf("thread %d (%s): context error although its context was neither cancelled nor due", i, k))
				}
			case "closed":
				if !r.closed {
					fail(i, "spurious-closed", fmt.Sprintf("thread %d (%s): ErrQueueClosed although Close was never called", i, k))
				}
			}
		}
	}
	// values: every value returned by a consumer / pop was pushed, none twice
	pushed := map[int64]bool{}
	for _, o := range c.Ops {
		if o.V == 0 {
			continue // consumers carry no value; 0 is never pushed, so a phantom zero value is recognised
		}
		pushed[o.V] = true
	}
	seen := map[int64]int{}
	for i, th := range r.th {
		if th.started && th.done.Load() && th.res.K == "val" {
			if !pushed[th.res.V] && r.closed {
				fail(i, "phantom-after-close", fmt.Sprintf("thread %d returned (%d, nil): a value that was never pushed, after Close", i, th.res.V))
			} else if !pushed[th.res.V] || seen[th.res.V] > 0 {
				fail(i, "bad-value", fmt.Sprintf("thread %d returned %d (not pushed, or returned twice)", i, th.res.V))
			}
			seen[th.res.V]++
		}
	}
	if r.inconclusive != "" {
		// no quiescent snapshot was obtained (or the machine stalled): no verdict of any kind from this scenario
		fmt.Fprintf(os.Stderr, "case %d (%s): inconclusive: %s\n", c.ID, c.Family, r.inconclusive)
		run.Count("inconclusive")
		nInconclusive++
	} else {
		for _, f := range fails {
			run.OracleFail(c.ID, f.sig, f.detail, c, out)
			if verbose {
				fmt.Println("ORACLE FAIL", f.sig, f.detail)
			}
		}
	}
	// ---- cleanup: cancel everything, close, wait
	for _, th := range r.th {
		if th.cancel != nil {
			th.cancel()
		}
	}
	closeCont(ct)
	waitAll(r)
	if verbose {
		for i, th := range r.th {
			fmt.Printf("  thread %d %-6s %v -> %v\n", i, th.op.K, th.op.V, out.Res[i])
		}
		fmt.Printf("  final len %d, closed %v, inconclusive=%q\n", out.Final, r.closed, r.inconclusive)
	}
	// ---- stats, Coq term
	run.Count(c.Cont + "/" + c.Family)
	run.Count(fmt.Sprintf("%s/blocked-at-end=%d", c.Cont, len(blocked)))
	nw := 0
	for _, o := range c.Ops {
		if isBlocking(o.K) {
			nw++
		}
	}
	term := ""
	if r.inconclusive == "" && out.Final >= 0 {
		term = coqCase(c, out)
	}
	js := map[string]any{"id": c.ID, "cont": c.Cont, "family": c.Family, "trk": c.Trk, "ops": c.Ops, "script": c.Script,
		"window": c.Window, "procs": c.Procs, "outcome": out}
	run.Case(c.ID, js, term, caseKey(c), nw >= 1)
}

func closeCont(ct cont) {
	switch v := ct.(type) {
	case *queueC:
		_ = v.q.Close()
	case *dequeC:
		_ = v.d.Close()
	}
}

func waitAll(r *runner) {
	ch := make(chan struct{})
	go func() { r.wg.Wait(); close(ch) }()
	for i := 0; ; i++ {
		select {
		case <-ch:
			return
		case <-time.After(200 * time.Millisecond):
			// a waiter can be left parked with a dead context (the cancellation window); poke every cond
			closeCont(r.cont)
			if i > 200 {
				fmt.Fprintf(os.Stderr, "case %d: goroutines did not finish after cleanup\n", r.c.ID)
				return
			}
		}
	}
}

func caseKey(c Case) string {
	var sb strings.Builder
	fmt.Fprintf(&sb, "%s|%v|", c.Cont, c.Trk)
	for _, o := range c.Ops {
		sb.WriteString(o.K + ",")
	}
	for _, s := range c.Script {
		sb.WriteString(s.K)
		for _, it := range s.Items {
			fmt.Fprintf(&sb, "%s%d", it.K[:1], it.T)
		}
		sb.WriteString(";")
	}
	return sb.String()
}

func coqFloat(f float64) string { return fmt.Sprintf("%v%%float", f) }

func coqTrk(t Trk) string {
	switch t.Kind {
	case "unlimited":
		return "KUnlimited"
	case "hard":
		return "(KHard " + kit.ZI(t.Cap) + ")"
	}
	return fmt.Sprintf("(KQuota %s %s %s)", kit.ZI(t.Hard), kit.ZI(t.Soft), coqFloat(t.Burst))
}

func coqBool(b bool) string { return kit.Bool(b) }

func coqOp(cont string, o Op) string {
	v := kit.Z(o.V)
	switch o.K {
	case "add", "send":
		return "QAdd " + v
	case "remove":
		return "QRemove"
	case "close":
		if cont == "queue" {
			return "QClose"
		}
		return "DClose"
	case "len":
		if cont == "queue" {
			return "QLen"
		}
		return "DLen"
	case "wait", "recv":
		return "QWait"
	case "badd":
		return "QBlockingAdd " + v
	case "iter":
		return "QIterWait 0%Z"
	case "pf":
		return "DPush true " + v
	case "pb":
		return "DPush false " + v
	case "of":
		return "DPop true"
	case "ob":
		return "DPop false"
	case "ff":
		return "DForcePush true " + v
	case "fb":
		return "DForcePush false " + v
	case "wf", "drecv":
		return "DWaitPop true"
	case "wb":
		return "DWaitPop false"
	case "wpf":
		return "DWaitPush true " + v
	case "wpb", "dsend":
		return "DWaitPush false " + v
	}
	panic("coqOp " + o.K)
}

func coqItem(it Item) string {
	switch it.K {
	case "do":
		return fmt.Sprintf("RDo %d", it.T)
	case "spawn":
		return fmt.Sprintf("RSpawn %d", it.T)
	}
	return fmt.Sprintf("RCancel %d", it.T)
}

func coqRes(r Res) string {
	switch r.K {
	case "blocked":
		return "OBlocked"
	case "val":
		return "ORet (RVal " + kit.Z(r.V) + ")"
	case "none":
		return "ORet RNone"
	case "unit":
		return "ORet RUnit"
	case "nil":
		return "ORet (RErr ENil)"
	case "full":
		return "ORet (RErr EFull)"
	case "nocredit":
		return "ORet (RErr ENoCredit)"
	case "closed":
		return "ORet (RErr EClosed)"
	case "ctx":
		return "ORet (RErr ECtx)"
	}
	return "ORet RNone"
}

func coqCase(c Case, out outcome) string {
	ops := make([]string, len(c.Ops))
	for i, o := range c.Ops {
		ops[i] = coqOp(c.Cont, o)
	}
	var script []string
	for _, s := range c.Script {
		switch s.K {
		case "settle":
			script = append(script, "SSettle")
		case "one":
			script = append(script, "SOne ("+coqItem(s.Items[0])+")")
		case "race":
			its := make([]string, len(s.Items))
			for i, it := range s.Items {
				its[i] = coqItem(it)
			}
			script = append(script, "SRace "+kit.List(its))
		}
	}
	script = append(script, "SSettle")
	obs := make([]string, len(out.Res))
	for i, r := range out.Res {
		obs[i] = coqRes(r)
	}
	ctor := "CQueue"
	if c.Cont == "deque" {
		ctor = "CDeque"
	}
	return fmt.Sprintf("%s %s %s %s %s %s %s", ctor, kit.ZI(c.ID), coqTrk(c.Trk), kit.List(ops), kit.List(script), kit.List(obs), kit.ZI(out.Final))
}

// ---------------------------------------------------------------- cancellation stress (no hook, no script)

// Many blocking calls, each cancelled right after it was started, from a different goroutine: the cancellation
// lands at a random point of the call, now and then between the waiter's `select` and its registration in
// cond.Wait.  With a helper that broadcasts without the mutex such a waiter parks for ever (about 1 per 10^5 waits);
// with the helper broadcasting under the mutex never.  Verdict from a quiescent snapshot: every context is
// cancelled, nothing in pubsub is runnable, yet an operation has not returned.
var spinSink atomic.Int64

func stressCancel(run *kit.Run, c Case, verbose bool) {
	w := c.Waiters
	if w <= 0 {
		w = 64
	}
	stuck, waits := 0, 0
	var detail string
	for round := 0; round < c.Stress && stuck == 0; round++ {
		q := pubsub.NewUnlimitedQueue[int64]()
		full, _ := pubsub.NewQueue[int64](pubsub.QueueOptions{HardLimit: 1, SoftQuota: 1})
		_ = full.Add(1)
		dq, _ := pubsub.NewDeque[int64](pubsub.DequeOptions{Capacity: 1})
		dfull, _ := pubsub.NewDeque[int64](pubsub.DequeOptions{Capacity: 1})
		_ = dfull.PushBack(1)
		done := make([]atomic.Bool, w)
		kinds := make([]string, w)
		var wg, cw sync.WaitGroup
		for i := 0; i < w; i++ {
			i := i
			ctx, cancel := context.WithTimeout(context.Background(), deadline)
			wg.Add(1)
			cw.Add(1)
			spin := (i*37 + round*101) % 3000
			var started atomic.Bool
			go func() {
				defer wg.Done()
				started.Store(true)
				switch (i + round) % 6 {
				case 0, 1:
					kinds[i] = "Queue.Wait"
					_, _ = q.Wait(ctx)
				case 2:
					kinds[i] = "Queue.BlockingAdd"
					_ = full.BlockingAdd(ctx, 2)
				case 3:
					kinds[i] = "Deque.WaitFront"
					_, _ = dq.WaitFront(ctx)
				case 4:
					kinds[i] = "Deque.WaitBack"
					_, _ = dq.WaitBack(ctx)
				case 5:
					kinds[i] = "Deque.WaitPushBack"
					_ = dfull.WaitPushBack(ctx, 2)
				}
				done[i].Store(true)
			}()
			go func() {
				defer cw.Done()
				// cancel a few hundred nanoseconds after the call has begun: around the time the waiter is
				// between its `select` and cond.Wait
				for n := 0; !started.Load(); n++ {
					if n > 100 {
						runtime.Gosched()
					}
				}
				for k := 0; k < spin; k++ {
					spinSink.Add(1)
				}
				cancel()
			}()
		}
		cw.Wait() // every context is cancelled from here on
		waits += w
		// quiescence: nothing in pubsub runnable
		t0 := time.Now()
		for {
			all := true
			for i := range done {
				if !done[i].Load() {
					all = false
					break
				}
			}
			if all {
				break
			}
			quiet := true
			for _, g := range snapshot() {
				if g.pubsub && !(g.state == "sync.Cond.Wait" || helperIdle(g)) {
					quiet = false
					break
				}
			}
			if quiet {
				still := []string{}
				for i := range done {
					if !done[i].Load() {
						still = append(still, kinds[i])
					}
				}
				quiet2 := true
				for _, g := range snapshot() {
					if g.pubsub && !(g.state == "sync.Cond.Wait" || helperIdle(g)) {
						quiet2 = false
					}
				}
				if quiet2 && len(still) > 0 {
					stuck = len(still)
					detail = fmt.Sprintf("round %d: %d of %d cancelled operations still parked in sync.Cond.Wait at quiescence: %v", round, stuck, w, still)
					break
				}
			}
			if time.Since(t0) > giveUp {
				fmt.Fprintln(os.Stderr, "stress: no quiescence")
				break
			}
			time.Sleep(50 * time.Microsecond)
		}
		// release whatever is stuck so that the goroutines end
		for i := 0; i < 400; i++ {
			_ = q.Close()
			_ = full.Close()
			_ = dq.Close()
			_ = dfull.Close()
			all := true
			for j := range done {
				if !done[j].Load() {
					all = false
				}
			}
			if all {
				break
			}
			time.Sleep(time.Millisecond)
		}
		wg.Wait()
	}
	if stuck > 0 {
		run.OracleFail(c.ID, "C07:ctx-cancel-race", detail, c, map[string]any{"waits": waits, "stuck": stuck})
		if verbose {
			fmt.Println("ORACLE FAIL C07:ctx-cancel-race", detail)
		}
	}
	if verbose {
		fmt.Printf("  stress-cancel: %d waits, %d stuck\n", waits, stuck)
	}
	run.Count("stress-cancel/rounds")
	run.Extra["stress_cancel_waits"] = waits
	js := map[string]any{"id": c.ID, "cont": "queue+deque", "family": "stress-cancel", "stress": c.Stress, "waiters": w, "procs": c.Procs,
		"window": -1, "outcome": map[string]any{"waits": waits, "stuck": stuck}}
	run.Case(c.ID, js, "", fmt.Sprintf("stress|%d|%d|%d", c.Stress, w, c.Procs), true)
}

// ---------------------------------------------------------------- notification skeleton of the source

// Which cond every function of queue.go / deque.go Signals or Broadcasts, read off the source the driver was built
// from (go/ast, source order).  Items: "S:<cond>" / "B:<cond>" for x.<cond>.Signal() / Broadcast(), prefixed "H" inside
// a `go func(){...}` literal (the per-wait helper) and "HL" if that literal takes a Lock() first; "all" for a call of
// broadcastAll(); "<alias>=<cond>" for `cond := q.nupdates` style aliases.  coq/Corr/C07_corr.v compares this with the
// table the model's signal lists were transcribed from, so that a Signal<->Broadcast swap, a dropped or a moved
// notification is reported even when no scenario happens to expose it.
type skelFn struct {
	Name  string   `json:"fn"`
	Items []string `json:"items"`
}

func repoDir() string {
	if d := os.Getenv("VERIF_REPO"); d != "" {
		return d
	}
	return "/repo"
}

var condNames = map[string]bool{"nempty": true, "nupdates": true, "nfront": true, "nback": true, "updates": true, "cond": true}

func selName(e ast.Expr) string {
	switch x := e.(type) {
	case *ast.SelectorExpr:
		return x.Sel.Name
	case *ast.Ident:
		return x.Name
	}
	return "?"
}

func skeleton(file string) ([]skelFn, error) {
	fset := token.NewFileSet()
	f, err := parser.ParseFile(fset, file, nil, 0)
	if err != nil {
		return nil, err
	}
	var out []skelFn
	for _, d := range f.Decls {
		fd, ok := d.(*ast.FuncDecl)
		if !ok || fd.Body == nil {
			continue
		}
		var items []string
		var walk func(n ast.Node, prefix string)
		walk = func(n ast.Node, prefix string) {
			ast.Inspect(n, func(m ast.Node) bool {
				switch x := m.(type) {
				case *ast.GoStmt:
					if fl, ok := x.Call.Fun.(*ast.FuncLit); ok {
						p := "H"
						ast.Inspect(fl.Body, func(k ast.Node) bool {
							if ce, ok := k.(*ast.CallExpr); ok {
								if se, ok := ce.Fun.(*ast.SelectorExpr); ok && se.Sel.Name == "Lock" {
									p = "HL"
								}
							}
							return true
						})
						walk(fl.Body, p)
						return false
					}
				case *ast.AssignStmt:
					if len(x.Lhs) == 1 && len(x.Rhs) == 1 {
						if se, ok := x.Rhs[0].(*ast.SelectorExpr); ok && condNames[se.Sel.Name] && condNames[selName(x.Lhs[0])] {
							items = append(items, selName(x.Lhs[0])+"="+se.Sel.Name)
						}
					}
				case *ast.CallExpr:
					if se, ok := x.Fun.(*ast.SelectorExpr); ok {
						switch se.Sel.Name {
						case "Signal":
							items = append(items, prefix+"S:"+selName(se.X))
						case "Broadcast":
							items = append(items, prefix+"B:"+selName(se.X))
						case "broadcastAll":
							items = append(items, prefix+"all")
						}
					}
				}
				return true
			})
		}
		walk(fd.Body, "")
		if len(items) > 0 {
			out = append(out, skelFn{Name: fd.Name.Name, Items: items})
		}
	}
	return out, nil
}

func skeletonCase(run *kit.Run, id int, which string) {
	file := filepath.Join(repoDir(), "pubsub", which+".go")
	sk, err := skeleton(file)
	if err != nil {
		fmt.Fprintln(os.Stderr, "skeleton:", err)
		return
	}
	var fns []string
	for _, f := range sk {
		its := make([]string, len(f.Items))
		for i, it := range f.Items {
			its[i] = kit.Str(it)
		}
		fns = append(fns, kit.Pair(kit.Str(f.Name), kit.List(its)))
	}
	term := fmt.Sprintf("CSkel %s %s %s", kit.ZI(id), kit.Str(which), kit.List(fns))
	run.Count("skeleton/" + which)
	run.Case(id, map[string]any{"id": id, "family": "skeleton", "file": file, "skeleton": sk}, term, "skel|"+which, false)
}

// ---------------------------------------------------------------- scenario builders

type builder struct {
	c   Case
	val int64
}

func newB(cont, family string, trk Trk) *builder {
	return &builder{c: Case{Cont: cont, Family: family, Trk: trk, Window: -1}, val: 100}
}
func (b *builder) op(k string) int {
	o := Op{K: k}
	switch k {
	case "add", "send", "badd", "pf", "pb", "ff", "fb", "wpf", "wpb", "dsend":
		b.val++
		o.V = b.val
	}
	b.c.Ops = append(b.c.Ops, o)
	return len(b.c.Ops) - 1
}
func (b *builder) one(kind string, t int) { b.c.Script = append(b.c.Script, Step{K: "one", Items: []Item{{K: kind, T: t}}}) }
func (b *builder) do(k string) int        { t := b.op(k); b.one("do", t); return t }
func (b *builder) spawn(k string) int {
	t := b.op(k)
	b.settle()
	b.one("spawn", t)
	return t
}
func (b *builder) cancel(t int) { b.one("cancel", t) }
func (b *builder) settle() {
	if n := len(b.c.Script); n > 0 && b.c.Script[n-1].K == "settle" {
		return
	}
	b.c.Script = append(b.c.Script, Step{K: "settle"})
}
func (b *builder) race(items ...Item) { b.c.Script = append(b.c.Script, Step{K: "race", Items: items}) }
func (b *builder) rdo(k string) Item  { return Item{K: "do", T: b.op(k)} }
func (b *builder) rspawn(k string) Item {
	return Item{K: "spawn", T: b.op(k)}
}

var bursts = []float64{0.5, 1, 1.5, 2, 2.75, 3, 5}

// assignCtx gives some of the blocking operations that the script never cancels a context that cannot end
// (context.Background / context.TODO): mixed populations of cancellable and non-cancellable waiters.
func assignCtx(r *kit.Rand, c *Case) {
	if c.Stress > 0 {
		return
	}
	cancelled := map[int]bool{}
	for _, st := range c.Script {
		for _, it := range st.Items {
			if it.K == "cancel" {
				cancelled[it.T] = true
			}
		}
	}
	mode := r.Intn(4) // 0: all cancellable, 1: all that can be, 2,3: mixed
	for i := range c.Ops {
		if !isBlocking(c.Ops[i].K) || cancelled[i] || c.Window == i || mode == 0 {
			continue
		}
		if mode == 1 || r.Bool() {
			c.Ops[i].Ctx = pick(r, "bg", "bg", "todo")
		}
	}
}

func queueTrk(r *kit.Rand) Trk {
	if r.Chance(1, 3) {
		return Trk{Kind: "unlimited"}
	}
	if r.Chance(1, 4) {
		return Trk{Kind: "hard", Cap: r.Range(1, 3)}
	}
	hard := r.Range(1, 5)
	soft := r.Range(0, hard)
	return Trk{Kind: "quota", Hard: hard, Soft: soft, Burst: bursts[r.Intn(len(bursts))]}
}

func dequeTrk(r *kit.Rand) Trk {
	switch r.Intn(4) {
	case 0:
		return Trk{Kind: "unlimited"}
	case 1:
		hard := r.Range(1, 4)
		return Trk{Kind: "quota", Hard: hard, Soft: r.Range(0, hard), Burst: bursts[r.Intn(len(bursts))]}
	}
	return Trk{Kind: "hard", Cap: r.Range(1, 3)}
}

func pick(r *kit.Rand, xs ...string) string { return xs[r.Intn(len(xs))] }

// --- Queue families

// m parked consumers, a burst of k Adds (sequential or racing), then Close or cancellation of the rest
func qBurst(r *kit.Rand) Case {
	b := newB("queue", "consumers-burst", Trk{Kind: "unlimited"})
	if r.Chance(1, 3) {
		h := r.Range(2, 6)
		b.c.Trk = Trk{Kind: "quota", Hard: h, Soft: r.Range(1, h), Burst: bursts[r.Intn(len(bursts))]}
	}
	m, k := r.Range(1, 4), r.Range(1, 5)
	var cons []int
	for i := 0; i < m; i++ {
		cons = append(cons, b.spawn(pick(r, "wait", "recv")))
	}
	if r.Bool() {
		for i := 0; i < k; i++ {
			b.do(pick(r, "add", "add", "send"))
		}
	} else {
		var its []Item
		for i := 0; i < k; i++ {
			its = append(its, b.rdo("add"))
		}
		b.race(its...)
		b.c.Family = "consumers-burst-race"
	}
	b.settle()
	switch r.Intn(3) {
	case 0:
		b.do("close")
	case 1:
		for _, t := range cons {
			b.cancel(t)
			b.settle()
		}
	}
	return b.c
}

// pop racing push with parked consumers
func qPopPush(r *kit.Rand) Case {
	b := newB("queue", "pop-racing-push", Trk{Kind: "unlimited"})
	m := r.Range(1, 3)
	for i := 0; i < m; i++ {
		b.spawn(pick(r, "wait", "recv"))
	}
	var its []Item
	for i, n := 0, r.Range(1, 3); i < n; i++ {
		its = append(its, b.rdo("add"))
	}
	for i, n := 0, r.Range(1, 2); i < n; i++ {
		its = append(its, b.rdo("remove"))
	}
	b.race(its...)
	b.settle()
	if r.Bool() {
		b.do("add")
		b.settle()
	}
	if r.Bool() {
		b.do("close")
	}
	return b.c
}

// Close racing a wait (consumers and producers), with j items queued
func qCloseRace(r *kit.Rand) Case {
	b := newB("queue", "close-racing-wait", Trk{Kind: "unlimited"})
	full := r.Chance(1, 3)
	if full {
		h := r.Range(1, 3)
		b.c.Trk = Trk{Kind: "quota", Hard: h, Soft: h, Burst: 0.5}
		for i := 0; i < h; i++ {
			b.do("add")
		}
	} else {
		for i, j := 0, r.Intn(3); i < j; i++ {
			b.do("add")
		}
	}
	for i, p := 0, r.Intn(3); i < p; i++ { // some already parked
		if full {
			b.spawn("badd")
		} else if len(b.c.Ops) == 0 || r.Bool() {
			b.spawn("wait")
		}
	}
	var its []Item
	for i, n := 0, r.Range(1, 3); i < n; i++ {
		if full {
			its = append(its, b.rspawn(pick(r, "badd", "badd", "wait")))
		} else {
			its = append(its, b.rspawn(pick(r, "wait", "recv")))
		}
	}
	its = append(its, b.rdo("close"))
	if r.Bool() {
		its = append(its, b.rdo("add"))
	}
	b.race(its...)
	return b.c
}

// cancel racing a wake
func qCancelRace(r *kit.Rand) Case {
	b := newB("queue", "cancel-racing-wake", Trk{Kind: "unlimited"})
	m := r.Range(1, 3)
	var cons []int
	for i := 0; i < m; i++ {
		cons = append(cons, b.spawn(pick(r, "wait", "recv")))
	}
	its := []Item{{K: "cancel", T: cons[r.Intn(m)]}}
	for i, n := 0, r.Range(1, 2); i < n; i++ {
		its = append(its, b.rdo("add"))
	}
	if r.Chance(1, 4) {
		its = append(its, b.rdo("close"))
	}
	b.race(its...)
	b.settle()
	for _, t := range cons {
		if r.Bool() {
			b.cancel(t)
			b.settle()
		}
	}
	return b.c
}

// several consumers with DIFFERENT contexts on one cond; the context of a non-oldest one is cancelled: its watcher
// must wake IT (Broadcast), not just the longest-waiting consumer
func qCancelYounger(r *kit.Rand) Case {
	b := newB("queue", "cancel-non-oldest", Trk{Kind: "unlimited"})
	m := r.Range(2, 4)
	var cons []int
	for i := 0; i < m; i++ {
		cons = append(cons, b.spawn(pick(r, "wait", "recv")))
	}
	for _, j := range []int{m - 1, r.Range(1, m-1)} {
		b.cancel(cons[j])
		b.settle()
	}
	if r.Bool() {
		b.do("add")
		b.settle()
	}
	return b.c
}

func qProdCancelYounger(r *kit.Rand) Case {
	b := newB("queue", "cancel-non-oldest", Trk{Kind: "quota", Hard: 1, Soft: 1, Burst: 0.5})
	b.do("add")
	m := r.Range(2, 3)
	var ps []int
	for i := 0; i < m; i++ {
		ps = append(ps, b.spawn("badd"))
	}
	b.cancel(ps[m-1])
	b.settle()
	return b.c
}

// a parked consumer, then a push and a Close back to back on one P (the woken consumer cannot run in between, so
// Close gets the lock first): the consumer returns the pushed value or ErrQueueClosed - never a zero value with nil
func qPushClose(r *kit.Rand) Case {
	b := newB("queue", "push-then-close", Trk{Kind: "unlimited"})
	for i, m := 0, r.Range(1, 3); i < m; i++ {
		b.spawn(pick(r, "wait", "recv"))
	}
	b.settle()
	for i, k := 0, r.Range(1, 2); i < k; i++ {
		b.do("add")
	}
	b.do("close")
	b.c.Procs = 1
	return b.c
}

func dPushClose(r *kit.Rand) Case {
	b := newB("deque", "push-then-close", dequeTrk(r))
	for i, m := 0, r.Range(1, 3); i < m; i++ {
		b.spawn(endWait(r))
	}
	b.settle()
	for i, k := 0, r.Range(1, 2); i < k; i++ {
		b.do(endPush(r))
	}
	b.do("close")
	b.c.Procs = 1
	return b.c
}

// Deque with the QueueOptions tracker: cap() is the DYNAMIC soft quota.  Producers park at the soft quota; non-blocking
// pushes move the quota (burst credit); then single pops: a producer must complete whenever cap() > len().
func dQuotaProducers(r *kit.Rand) Case {
	hard := r.Range(3, 6)
	soft := r.Range(1, hard-1)
	b := newB("deque", "quota-producers", Trk{Kind: "quota", Hard: hard, Soft: soft, Burst: float64(r.Range(1, 3))})
	for i := 0; i < soft; i++ {
		b.do(endPush(r))
	}
	for i, m := 0, r.Range(1, 2); i < m; i++ {
		b.spawn(pick(r, "wpf", "wpb", "dsend"))
	}
	for i, n := 0, r.Range(1, 3); i < n; i++ {
		switch r.Intn(3) {
		case 0, 1:
			b.do(endPush(r)) // on burst credit: raises the soft quota
		case 2:
			b.do(pick(r, "ff", "fb"))
		}
		b.settle()
	}
	for i, n := 0, r.Range(1, 3); i < n; i++ {
		b.do(endPop(r)) // one pop at a time
		b.settle()
	}
	if r.Bool() {
		b.do("close")
	}
	return b.c
}

// a producer parked on a full queue; the queue is drained completely and a consumer starts to wait before the
// released producer has re-taken the lock (one P: the new goroutine runs before the woken one): the producer's add
// must signal nempty
func qDrainThenWait(r *kit.Rand) Case {
	c := r.Range(1, 2)
	b := newB("queue", "drain-then-wait", Trk{Kind: "quota", Hard: c, Soft: c, Burst: 0.5})
	if r.Chance(1, 3) {
		b.c.Trk = Trk{Kind: "hard", Cap: c}
	}
	for i := 0; i < c; i++ {
		b.do("add")
	}
	np := r.Range(1, 2)
	for i := 0; i < np; i++ {
		b.spawn("badd")
	}
	b.settle()
	if r.Bool() {
		for i := 0; i < c; i++ {
			b.do("remove")
		}
		for i, n := 0, r.Range(1, np); i < n; i++ {
			b.one("spawn", b.op(pick(r, "wait", "recv")))
		}
		b.c.Procs = 1
	} else {
		var its []Item
		for i := 0; i < c; i++ {
			its = append(its, b.rdo("remove"))
		}
		its = append(its, b.rspawn(pick(r, "wait", "recv")))
		b.race(its...)
		if r.Bool() {
			b.c.Procs = 1
		}
	}
	return b.c
}

func dCancelYounger(r *kit.Rand) Case {
	b := newB("deque", "cancel-non-oldest", Trk{Kind: "hard", Cap: 1})
	m := r.Range(2, 3)
	var cons []int
	k := endWait(r)
	for i := 0; i < m; i++ {
		cons = append(cons, b.spawn(k))
	}
	b.cancel(cons[m-1])
	b.settle()
	return b.c
}

// producers parked on a quota queue; pops (sequential or racing) make room; then Close / cancel
func qProducers(r *kit.Rand) Case {
	h := r.Range(1, 4)
	s := r.Range(1, h)
	b := newB("queue", "producers", Trk{Kind: "quota", Hard: h, Soft: s, Burst: bursts[r.Intn(len(bursts))]})
	if r.Chance(1, 4) {
		b.c.Trk = Trk{Kind: "hard", Cap: h}
	}
	for i, n := 0, r.Range(s, h+1); i < n; i++ {
		b.do("add") // up to the soft quota, beyond it on credit, possibly one rejected
	}
	m := r.Range(1, 3)
	var prods []int
	for i := 0; i < m; i++ {
		prods = append(prods, b.spawn("badd"))
	}
	k := r.Range(1, 4)
	if r.Bool() {
		for i := 0; i < k; i++ {
			b.do("remove")
		}
	} else {
		var its []Item
		for i := 0; i < k; i++ {
			its = append(its, b.rdo("remove"))
		}
		if r.Bool() {
			its = append(its, b.rdo("add"))
		}
		b.race(its...)
		b.c.Family = "producers-race"
	}
	b.settle()
	switch r.Intn(4) {
	case 0:
		b.do("close")
	case 1:
		for _, t := range prods {
			b.cancel(t)
			b.settle()
		}
	case 2:
		if r.Bool() {
			b.spawn("wait")
		}
		b.race(Item{K: "cancel", T: prods[0]}, b.rdo("remove"))
	}
	return b.c
}

// producers and consumers parked at once is impossible (empty vs full) - but producers, iterators and Adds on burst
// credit meet on nupdates: DESIGN section 9 #20
func qIterator(r *kit.Rand) Case {
	h := r.Range(3, 6)
	s := r.Range(1, 2)
	b := newB("queue", "nupdates-mixed", Trk{Kind: "quota", Hard: h, Soft: s, Burst: float64(r.Range(1, 3))})
	for i := 0; i < s; i++ {
		b.do("add")
	}
	np, ni := r.Range(0, 2), r.Range(1, 2)
	var order []string
	for i := 0; i < np; i++ {
		order = append(order, "badd")
	}
	for i := 0; i < ni; i++ {
		order = append(order, "iter")
	}
	if r.Bool() { // producers first is the order that starved the iterator
		for i, j := 0, len(order)-1; i < j; i, j = i+1, j-1 {
			order[i], order[j] = order[j], order[i]
		}
	}
	for _, k := range order {
		b.spawn(k)
	}
	if r.Chance(1, 3) {
		// a pop instead: its notification must reach the producers even if an iterator is first in line
		b.do("remove")
		b.settle()
		if r.Bool() {
			b.do("remove")
			b.settle()
		}
		if r.Bool() {
			b.do("close")
		}
		b.c.Family = "nupdates-mixed-pop"
		return b.c
	}
	b.do("add") // succeeds on burst credit
	b.settle()
	if r.Bool() {
		b.do("add")
		b.settle()
	}
	if r.Bool() {
		b.do("close")
	}
	return b.c
}

// a call made while its condition already holds returns at once
func qAlreadyTrue(r *kit.Rand) Case {
	b := newB("queue", "already-true", queueTrk(r))
	if r.Bool() {
		b.do("add")
		b.spawn(pick(r, "wait", "recv"))
		if r.Bool() {
			b.do("close")
			b.spawn("wait") // closed and empty: returns at once
			b.spawn("badd")
		}
	} else {
		b.spawn("badd")
		b.spawn("wait")
	}
	return b.c
}

// the cancellation window (needs the yield point)
func qWindow(r *kit.Rand) Case {
	b := newB("queue", "cancel-window", Trk{Kind: "unlimited"})
	k := pick(r, "wait", "recv", "badd")
	if k == "badd" {
		b.c.Trk = Trk{Kind: "quota", Hard: 1, Soft: 1, Burst: 0.5}
		b.do("add")
	}
	t := b.op(k)
	b.settle()
	b.one("spawn", t)
	b.cancel(t)
	b.c.Window = t
	return b.c
}

// random scripts over the whole Queue alphabet
func qRandom(r *kit.Rand) Case {
	b := newB("queue", "random", queueTrk(r))
	var blockedT []int
	for i, n := 0, r.Range(3, 9); i < n; i++ {
		switch r.Intn(10) {
		case 0, 1, 2:
			b.do(pick(r, "add", "add", "send"))
		case 3:
			b.do("remove")
		case 4, 5:
			blockedT = append(blockedT, b.spawn(pick(r, "wait", "recv", "badd", "wait")))
		case 6:
			var its []Item
			for j, m := 0, r.Range(2, 3); j < m; j++ {
				k := pick(r, "add", "remove", "add", "close", "wait", "badd")
				if k == "close" && r.Chance(2, 3) {
					k = "add"
				}
				if isBlocking(k) {
					its = append(its, b.rspawn(k))
				} else {
					its = append(its, b.rdo(k))
				}
			}
			b.race(its...)
		case 7:
			if len(blockedT) > 0 {
				b.settle()
				b.cancel(blockedT[r.Intn(len(blockedT))])
				b.settle()
			}
		case 8:
			b.settle()
		case 9:
			if r.Chance(1, 3) {
				b.do("close")
			}
		}
	}
	return b.c
}

// --- Deque families

func endWait(r *kit.Rand) string { return pick(r, "wf", "wb", "drecv") }
func endPush(r *kit.Rand) string { return pick(r, "pf", "pb") }
func endPop(r *kit.Rand) string  { return pick(r, "of", "ob") }

func dBurst(r *kit.Rand) Case {
	b := newB("deque", "consumers-burst", Trk{Kind: "unlimited"})
	if r.Bool() {
		b.c.Trk = Trk{Kind: "hard", Cap: r.Range(1, 3)}
	}
	m, k := r.Range(1, 3), r.Range(1, 4)
	var cons []int
	for i := 0; i < m; i++ {
		cons = append(cons, b.spawn(endWait(r)))
	}
	if r.Bool() {
		for i := 0; i < k; i++ {
			b.do(endPush(r))
		}
	} else {
		var its []Item
		for i := 0; i < k; i++ {
			its = append(its, b.rdo(endPush(r)))
		}
		b.race(its...)
		b.c.Family = "consumers-burst-race"
	}
	b.settle()
	switch r.Intn(3) {
	case 0:
		b.do("close")
	case 1:
		for _, t := range cons {
			b.cancel(t)
			b.settle()
		}
	}
	return b.c
}

func dPopPush(r *kit.Rand) Case {
	b := newB("deque", "pop-racing-push", dequeTrk(r))
	for i, m := 0, r.Range(1, 2); i < m; i++ {
		b.spawn(endWait(r))
	}
	var its []Item
	for i, n := 0, r.Range(1, 3); i < n; i++ {
		its = append(its, b.rdo(pick(r, "pf", "pb", "ff", "fb")))
	}
	for i, n := 0, r.Range(1, 2); i < n; i++ {
		its = append(its, b.rdo(endPop(r)))
	}
	b.race(its...)
	b.settle()
	if r.Bool() {
		b.do(endPush(r))
		b.settle()
	}
	if r.Bool() {
		b.do("close")
	}
	return b.c
}

func dProducers(r *kit.Rand) Case {
	cp := r.Range(1, 3)
	b := newB("deque", "producers", Trk{Kind: "hard", Cap: cp})
	for i := 0; i < cp; i++ {
		b.do(endPush(r))
	}
	m := r.Range(1, 3)
	var prods []int
	for i := 0; i < m; i++ {
		prods = append(prods, b.spawn(pick(r, "wpf", "wpb", "dsend")))
	}
	k := r.Range(1, 3)
	if r.Bool() {
		for i := 0; i < k; i++ {
			b.do(endPop(r))
		}
	} else {
		var its []Item
		for i := 0; i < k; i++ {
			its = append(its, b.rdo(endPop(r)))
		}
		if r.Bool() {
			its = append(its, b.rdo(pick(r, "ff", "fb", "pb")))
		}
		b.race(its...)
		b.c.Family = "producers-race"
	}
	b.settle()
	switch r.Intn(4) {
	case 0:
		b.do("close")
	case 1:
		for _, t := range prods {
			b.cancel(t)
			b.settle()
		}
	case 2:
		b.race(Item{K: "cancel", T: prods[0]}, b.rdo(endPop(r)))
	}
	return b.c
}

func dCloseRace(r *kit.Rand) Case {
	cp := r.Range(1, 3)
	b := newB("deque", "close-racing-wait", Trk{Kind: "hard", Cap: cp})
	full := r.Bool()
	if full {
		for i := 0; i < cp; i++ {
			b.do(endPush(r))
		}
	}
	for i, p := 0, r.Intn(3); i < p; i++ {
		if full {
			b.spawn(pick(r, "wpf", "wpb"))
		} else {
			b.spawn(endWait(r))
		}
	}
	var its []Item
	for i, n := 0, r.Range(1, 3); i < n; i++ {
		if full {
			its = append(its, b.rspawn(pick(r, "wpf", "wpb", "dsend", "wf")))
		} else {
			its = append(its, b.rspawn(endWait(r)))
		}
	}
	its = append(its, b.rdo("close"))
	if r.Bool() {
		its = append(its, b.rdo(endPush(r)))
	}
	b.race(its...)
	return b.c
}

func dCancelRace(r *kit.Rand) Case {
	b := newB("deque", "cancel-racing-wake", Trk{Kind: "unlimited"})
	m := r.Range(1, 3)
	var cons []int
	for i := 0; i < m; i++ {
		cons = append(cons, b.spawn(endWait(r)))
	}
	its := []Item{{K: "cancel", T: cons[r.Intn(m)]}}
	for i, n := 0, r.Range(1, 2); i < n; i++ {
		its = append(its, b.rdo(endPush(r)))
	}
	b.race(its...)
	b.settle()
	for _, t := range cons {
		if r.Bool() {
			b.cancel(t)
			b.settle()
		}
	}
	return b.c
}

func dAlreadyTrue(r *kit.Rand) Case {
	b := newB("deque", "already-true", dequeTrk(r))
	for i, n := 0, r.Range(1, 2); i < n; i++ {
		b.do(endPush(r))
	}
	b.spawn(endWait(r))
	if r.Bool() {
		b.spawn(endWait(r))
	}
	if r.Bool() {
		b.do("close")
		b.spawn(endWait(r))
		b.spawn(pick(r, "wpf", "wpb"))
	}
	return b.c
}

func dWindow(r *kit.Rand) Case {
	b := newB("deque", "cancel-window", Trk{Kind: "hard", Cap: 1})
	k := pick(r, "wf", "wb", "wpb")
	if k == "wpb" {
		b.do("pb")
	}
	t := b.op(k)
	b.settle()
	b.one("spawn", t)
	b.cancel(t)
	b.c.Window = t
	return b.c
}

func dRandom(r *kit.Rand) Case {
	b := newB("deque", "random", dequeTrk(r))
	var blockedT []int
	for i, n := 0, r.Range(3, 9); i < n; i++ {
		switch r.Intn(10) {
		case 0, 1, 2:
			b.do(pick(r, "pf", "pb", "ff", "fb", "pb"))
		case 3:
			b.do(endPop(r))
		case 4, 5:
			k := pick(r, "wf", "wb", "wpf", "wpb", "drecv", "dsend")
			blockedT = append(blockedT, b.spawn(k))
		case 6:
			var its []Item
			for j, m := 0, r.Range(2, 3); j < m; j++ {
				k := pick(r, "pf", "pb", "of", "ob", "fb", "close", "wf", "wb", "wpb")
				if k == "close" && r.Chance(2, 3) {
					k = "pb"
				}
				if isBlocking(k) {
					its = append(its, b.rspawn(k))
				} else {
					its = append(its, b.rdo(k))
				}
			}
			b.race(its...)
		case 7:
			if len(blockedT) > 0 {
				b.settle()
				b.cancel(blockedT[r.Intn(len(blockedT))])
				b.settle()
			}
		case 8:
			b.settle()
		case 9:
			if r.Chance(1, 3) {
				b.do("close")
			}
		}
	}
	return b.c
}

// ---------------------------------------------------------------- corpus: the defects found so far, always run

func corpus() []Case {
	var out []Case
	// DESIGN 9 #20: quota queue, producer parked, iterator parked, Add on burst credit
	{
		b := newB("queue", "corpus-nupdates-20", Trk{Kind: "quota", Hard: 3, Soft: 1, Burst: 2})
		b.do("add")
		b.spawn("badd")
		b.spawn("iter")
		b.do("add")
		out = append(out, b.c)
	}
	// an iterator and a producer parked on nupdates (in this order), then a pop: popFront must Broadcast
	{
		b := newB("queue", "corpus-nupdates-pop", Trk{Kind: "quota", Hard: 1, Soft: 1, Burst: 0.5})
		b.do("add")
		b.spawn("iter")
		b.spawn("badd")
		b.do("remove")
		out = append(out, b.c)
	}
	// BlockingAdd parked on a full queue, then Close
	{
		b := newB("queue", "corpus-badd-close", Trk{Kind: "quota", Hard: 1, Soft: 1, Burst: 0.5})
		b.do("add")
		b.spawn("badd")
		b.spawn("badd")
		b.do("close")
		out = append(out, b.c)
	}
	// two consumers, burst of two Adds: one Signal, the cascade must serve the second
	{
		b := newB("queue", "corpus-cascade", Trk{Kind: "unlimited"})
		b.spawn("wait")
		b.spawn("recv")
		b.do("add")
		b.do("add")
		out = append(out, b.c)
	}
	// two producers, two pops
	{
		b := newB("queue", "corpus-two-producers", Trk{Kind: "quota", Hard: 2, Soft: 2, Burst: 0.5})
		b.do("add")
		b.do("add")
		b.spawn("badd")
		b.spawn("badd")
		b.do("remove")
		b.do("remove")
		out = append(out, b.c)
	}
	// seeded C07-ind2-3: consumers whose context can never end still need the exit broadcast of the cascade:
	// three parked consumers (Background / TODO / mixed with a cancellable one), a burst of Adds
	for _, ctxs := range [][]string{{"bg", "bg", "bg"}, {"todo", "bg", ""}, {"", "bg", "todo"}} {
		for _, kinds := range [][]string{{"wait", "wait", "wait"}, {"recv", "wait", "recv"}} {
			b := newB("queue", "corpus-noncancellable-burst", Trk{Kind: "unlimited"})
			for i := range ctxs {
				t := b.spawn(kinds[i])
				b.c.Ops[t].Ctx = ctxs[i]
			}
			b.settle()
			b.do("add")
			b.do("add")
			b.do("add")
			out = append(out, b.c)
		}
	}
	// non-cancellable producers: two BlockingAdd(Background) on a full queue, two pops; and Close releases them
	{
		b := newB("queue", "corpus-noncancellable-producers", Trk{Kind: "quota", Hard: 2, Soft: 2, Burst: 0.5})
		b.do("add")
		b.do("add")
		for i := 0; i < 3; i++ {
			t := b.spawn("badd")
			b.c.Ops[t].Ctx = "bg"
		}
		b.do("remove")
		b.do("remove")
		b.settle()
		b.do("close")
		out = append(out, b.c)
	}
	for _, k := range []string{"wf", "wb"} {
		b := newB("deque", "corpus-noncancellable-burst", Trk{Kind: "unlimited"})
		for i := 0; i < 3; i++ {
			t := b.spawn(k)
			b.c.Ops[t].Ctx = "bg"
		}
		b.settle()
		b.do("pb")
		b.do("pf")
		out = append(out, b.c)
	}
	// seeded C09-ind2-2: two consumers with different contexts; the YOUNGER one's context is cancelled
	for _, k := range []string{"wait", "recv"} {
		b := newB("queue", "corpus-cancel-non-oldest", Trk{Kind: "unlimited"})
		b.spawn("wait")
		t := b.spawn(k)
		b.settle()
		b.cancel(t)
		out = append(out, b.c)
	}
	// push then Close before the woken consumer runs (one P)
	for _, cont := range []string{"queue", "deque"} {
		b := newB(cont, "corpus-push-then-close", Trk{Kind: "unlimited"})
		if cont == "queue" {
			b.spawn("wait")
			b.settle()
			b.do("add")
		} else {
			b.spawn("wf")
			b.spawn("wb")
			b.settle()
			b.do("pb")
		}
		b.do("close")
		b.c.Procs = 1
		out = append(out, b.c)
	}
	// seeded C07-ind3-1: quota deque, producer parked at the soft quota, a push on credit raises the quota, one pop
	for _, k := range []string{"wpb", "wpf", "dsend"} {
		b := newB("deque", "corpus-quota-producer", Trk{Kind: "quota", Hard: 4, Soft: 2, Burst: 2})
		b.do("pb")
		b.do("pb")
		b.spawn(k)
		b.do("pb")
		b.settle()
		b.do("of")
		out = append(out, b.c)
	}
	// seeded C07-ind3-2: producer parked on a full queue; drained completely; a consumer waits before the producer runs
	for c := 1; c <= 2; c++ {
		for _, k := range []string{"wait", "recv"} {
			b := newB("queue", "corpus-drain-then-wait", Trk{Kind: "quota", Hard: c, Soft: c, Burst: 0.5})
			for i := 0; i < c; i++ {
				b.do("add")
			}
			b.spawn("badd")
			b.settle()
			for i := 0; i < c; i++ {
				b.do("remove")
			}
			b.one("spawn", b.op(k))
			b.c.Procs = 1
			out = append(out, b.c)
		}
	}
	// Close wakes parked consumers
	{
		b := newB("queue", "corpus-close", Trk{Kind: "unlimited"})
		b.spawn("wait")
		b.spawn("wait")
		b.do("close")
		out = append(out, b.c)
	}
	// DESIGN 9 #9: WaitFront / WaitBack on a non-empty deque
	for _, k := range []string{"wf", "wb", "drecv"} {
		b := newB("deque", "corpus-nonempty-9", Trk{Kind: "hard", Cap: 3})
		b.do("pb")
		b.do("pb")
		b.spawn(k)
		out = append(out, b.c)
	}
	// DESIGN 9 #10: Close wakes; PushBack into an empty deque wakes WaitBack; PushFront wakes WaitFront and WaitBack
	{
		b := newB("deque", "corpus-close-10", Trk{Kind: "hard", Cap: 1})
		b.spawn("wf")
		b.spawn("wb")
		b.do("pb")
		b.settle()
		b.spawn("wpb")
		b.do("close")
		out = append(out, b.c)
	}
	for _, p := range []string{"pf", "pb"} {
		for _, w := range []string{"wf", "wb"} {
			b := newB("deque", "corpus-push-wakes-10", Trk{Kind: "unlimited"})
			b.spawn(w)
			b.do(p)
			out = append(out, b.c)
		}
	}
	// WaitPush* on a full deque of capacity 1..3, pops at either end
	for cp := 1; cp <= 3; cp++ {
		b := newB("deque", "corpus-waitpush", Trk{Kind: "hard", Cap: cp})
		for i := 0; i < cp; i++ {
			b.do("pb")
		}
		b.spawn("wpf")
		b.spawn("wpb")
		b.do("of")
		b.do("ob")
		out = append(out, b.c)
	}
	// the cancellation window, Queue and Deque
	{
		b := newB("queue", "corpus-cancel-window", Trk{Kind: "unlimited"})
		t := b.op("wait")
		b.one("spawn", t)
		b.cancel(t)
		b.c.Window = t
		out = append(out, b.c)
	}
	{
		b := newB("deque", "corpus-cancel-window", Trk{Kind: "unlimited"})
		t := b.op("wf")
		b.one("spawn", t)
		b.cancel(t)
		b.c.Window = t
		out = append(out, b.c)
	}
	return out
}

func main() {
	run := kit.Start()
	run.Header = "From FunV Require Import Base.Tac Conc.Monitor Model.QueueMonitor Model.DequeMonitor Corr.C07_corr.\nFrom Coq Require Import PrimFloat String."
	run.Footer = "Definition M := Eval vm_compute in mismatches cases.\nPrint M."
	run.CaseType = "case"
	run.ShardSize = 200
	run.Rule = "scenarios on the real Queue / Distributor / Deque: m parked consumers or producers x burst patterns (k Adds before any waiter runs, " +
		"pop racing push, Close racing a wait, cancel racing a wake, cancellation inside the select/cond.Wait window), all tracker kinds, both deque ends, " +
		"WaitPush* with capacity 1..3, plus random scripts; distinct = distinct (container, tracker, op table, script); non-trivial = at least one blocking operation"

	if run.Replay != "" {
		var c Case
		c.Window = -1
		if err := kit.ReadReplayCase(run.Replay, &c); err != nil {
			panic(err)
		}
		execCase(run, c, true)
		run.Finish()
		return
	}

	id := 0
	for _, which := range []string{"queue", "deque"} {
		skeletonCase(run, id, which)
		id++
	}
	for _, c := range corpus() {
		c.ID = id
		id++
		execCase(run, c, false)
	}
	type fam struct {
		f func(*kit.Rand) Case
		w int
	}
	fams := []fam{
		{dQuotaProducers, 3}, {qDrainThenWait, 3},
		{qCancelYounger, 2}, {qProdCancelYounger, 1}, {qPushClose, 2}, {dPushClose, 2}, {dCancelYounger, 1},
		{qBurst, 4}, {qPopPush, 3}, {qCloseRace, 3}, {qCancelRace, 3}, {qProducers, 4}, {qIterator, 2}, {qAlreadyTrue, 1}, {qWindow, 1}, {qRandom, 4},
		{dBurst, 4}, {dPopPush, 3}, {dProducers, 4}, {dCloseRace, 3}, {dCancelRace, 3}, {dAlreadyTrue, 2}, {dWindow, 1}, {dRandom, 4},
	}
	// cancellation stress: a token run in the quick tier, the real one (GOMAXPROCS 64, about 4*10^5 waits) in thorough
	if run.Thorough() {
		for _, p := range []int{64, 4, 64} {
			execCase(run, Case{ID: id, Family: "stress-cancel", Window: -1, Stress: 2000, Waiters: 64, Procs: p}, false)
			id++
		}
	} else {
		execCase(run, Case{ID: id, Family: "stress-cancel", Window: -1, Stress: 40, Waiters: 32}, false)
		id++
	}
	tot := 0
	for _, f := range fams {
		tot += f.w
	}
	n := run.Pick(900, 20000)
	procs := []int{0, 1, 2, 4, 16}
	for i := 0; i < n; i++ {
		r := run.Rand.Fork()
		x := r.Intn(tot)
		var c Case
		for _, f := range fams {
			if x < f.w {
				c = f.f(r)
				break
			}
			x -= f.w
		}
		assignCtx(r, &c)
		c.ID = id
		id++
		if run.Thorough() && c.Procs == 0 {
			c.Procs = procs[r.Intn(len(procs))]
			if c.Procs == 0 {
				c.Procs = runtime.NumCPU()
			}
		}
		execCase(run, c, false)
	}
	run.Finish()
	if nInconclusive > 0 {
		// never seen on the unchanged tree: quiescence could not be established (goroutines in states the
		// snapshot rules do not know, or a machine stall beyond 30 s) - do not let the run count as a pass
		fmt.Fprintf(os.Stderr, "%d scenario(s) without a verdict (no quiescent snapshot)\n", nInconclusive)
		os.Exit(3)
	}
}
