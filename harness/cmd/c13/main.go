// Driver for C13 (concurrency-safe types are free of data races).
//
// Built WITH the race detector (checks/c13.py sets RACE = True).  For every
// covered type it runs every unordered pair of public operations concurrently
// from several goroutines, for a bounded number of iterations, each scenario in
// a SUBPROCESS of this same binary (GORACE=halt_on_error=1 exitcode=66), so that
// a race report is captured instead of killing the driver.  A report is an
// oracle failure `C13:<Type.method>:race` with the scenario as the replay.
//
// The race detector has no false positives; a scenario that hangs or panics is
// counted in the statistics but is never reported as a violation of C13.
//
// This driver is the failing-input search of the check; the proof is
// coq/Props/C13.v over the skeletons regenerated from the source.
package main

import (
	"bytes"
	"context"
	"encoding/json"
	"errors"
	"fmt"
	"os"
	"os/exec"
	"runtime"
	"sort"
	"strconv"
	"strings"
	"sync"
	"time"

	"github.com/tychoish/fun"
	"github.com/tychoish/fun/adt"
	"github.com/tychoish/fun/dt"
	"github.com/tychoish/fun/erc"
	"github.com/tychoish/fun/pubsub"

	"verif/harness/kit"
)

// ---------------------------------------------------------------- scenarios

// An op is called as op(g, i): goroutine index and iteration.
type op struct {
	name string
	sig  string // signature component <Type.method> used when this op is the first of the pair
	cls  string // signature class (default "race")
	f    func(g, i int)
	solo bool // only paired with itself (wrappers)
	slow bool // blocks until a short context deadline: fewer iterations
	// custom scenarios drive their own goroutines (rounds of a prepared schedule); only paired with themselves
	custom func(rounds int)
}

type env struct {
	typ string
	ops []op
}

func tctx() (context.Context, context.CancelFunc) {
	return context.WithTimeout(context.Background(), 2*time.Millisecond)
}

func drain[T any](it *fun.Iterator[T], max int) {
	ctx, cancel := context.WithTimeout(context.Background(), 3*time.Millisecond)
	defer cancel()
	for n := 0; n < max; n++ {
		if _, err := it.ReadOne(ctx); err != nil {
			break
		}
	}
	_ = it.Close()
}

func queueEnv(kind string) env {
	var q *pubsub.Queue[int]
	if kind == "unlimited" {
		q = pubsub.NewUnlimitedQueue[int]()
	} else {
		q, _ = pubsub.NewQueue[int](pubsub.QueueOptions{HardLimit: 8, SoftQuota: 4, BurstCredit: 2})
	}
	for i := 0; i < 3; i++ {
		_ = q.Add(i)
	}
	d := q.Distributor()
	iters := map[int]*fun.Iterator[int]{}
	prods := map[int]fun.Producer[int]{}
	var mu sync.Mutex
	iterFor := func(g int) *fun.Iterator[int] { // one iterator per goroutine (iterators are not shared)
		mu.Lock()
		defer mu.Unlock()
		if iters[g] == nil {
			iters[g] = q.Iterator()
		}
		return iters[g]
	}
	prodFor := func(g int) fun.Producer[int] {
		mu.Lock()
		defer mu.Unlock()
		if prods[g] == nil {
			prods[g] = q.Producer()
		}
		return prods[g]
	}
	t := "Queue"
	return env{typ: t + "-" + kind, ops: []op{
		{name: "Distributor.Len", sig: t + ".Distributor", f: func(g, i int) { _ = d.Len() }},
		{slow: true, name: "Distributor.Send", sig: t + ".Distributor", f: func(g, i int) { c, cc := tctx(); defer cc(); _ = d.Send(c, i) }},
		{slow: true, name: "Distributor.Receive", sig: t + ".Distributor", f: func(g, i int) { c, cc := tctx(); defer cc(); _, _ = d.Receive(c) }},
		{slow: true, name: "Distributor.Iterator", sig: t + ".Distributor", f: func(g, i int) { drain(d.Iterator(), 2) }},
		{slow: true, name: "Iterator", sig: t + ".Iterator", f: func(g, i int) { c, cc := tctx(); defer cc(); _, _ = iterFor(g).ReadOne(c) }},
		{slow: true, name: "Producer", sig: t + ".Producer", f: func(g, i int) { c, cc := tctx(); defer cc(); _, _ = prodFor(g)(c) }},
		{name: "Len", sig: t + ".Len", f: func(g, i int) { _ = q.Len() }},
		{slow: true, name: "Wait", sig: t + ".Wait", f: func(g, i int) { c, cc := tctx(); defer cc(); _, _ = q.Wait(c) }},
		{name: "Remove", sig: t + ".Remove", f: func(g, i int) { _, _ = q.Remove() }},
		{slow: true, name: "BlockingAdd", sig: t + ".BlockingAdd", f: func(g, i int) { c, cc := tctx(); defer cc(); _ = q.BlockingAdd(c, i) }},
		{name: "Add", sig: t + ".Add", f: func(g, i int) { _ = q.Add(i) }},
		{name: "Close", sig: t + ".Close", f: func(g, i int) {
			if i%64 == 63 {
				_ = q.Close()
			}
		}},
	}}
}

func dequeEnv(kind string) env {
	var dq *pubsub.Deque[int]
	if kind == "unlimited" {
		dq = pubsub.NewUnlimitedDeque[int]()
	} else {
		dq, _ = pubsub.NewDeque[int](pubsub.DequeOptions{Capacity: 6})
	}
	for i := 0; i < 3; i++ {
		_ = dq.PushBack(i)
	}
	d := dq.Distributor()
	dn := dq.DistributorNonBlocking()
	var mu sync.Mutex
	prods := map[string]fun.Producer[int]{}
	prodFor := func(g int, kind string, mk func() fun.Producer[int]) fun.Producer[int] {
		mu.Lock()
		defer mu.Unlock()
		k := kind + strconv.Itoa(g)
		if prods[k] == nil {
			prods[k] = mk()
		}
		return prods[k]
	}
	t := "Deque"
	call := func(p fun.Producer[int]) { c, cc := tctx(); defer cc(); _, _ = p(c) }
	return env{typ: t + "-" + kind, ops: []op{
		{name: "Distributor.Len", sig: t + ".Distributor", f: func(g, i int) { _ = d.Len() }},
		{slow: true, name: "Distributor.Send", sig: t + ".Distributor", f: func(g, i int) { c, cc := tctx(); defer cc(); _ = d.Send(c, i) }},
		{slow: true, name: "Distributor.Receive", sig: t + ".Distributor", f: func(g, i int) { c, cc := tctx(); defer cc(); _, _ = d.Receive(c) }},
		{slow: true, name: "DistributorNonBlocking.Send", sig: t + ".DistributorNonBlocking", f: func(g, i int) { c, cc := tctx(); defer cc(); _ = dn.Send(c, i) }},
		{slow: true, name: "Producer", sig: t + ".Producer", f: func(g, i int) { call(prodFor(g, "p", dq.Producer)) }},
		{slow: true, name: "ProducerReverse", sig: t + ".ProducerReverse", f: func(g, i int) { call(prodFor(g, "pr", dq.ProducerReverse)) }},
		{slow: true, name: "ProducerBlocking", sig: t + ".ProducerBlocking", f: func(g, i int) { call(prodFor(g, "pb", dq.ProducerBlocking)) }},
		{slow: true, name: "ProducerReverseBlocking", sig: t + ".ProducerReverseBlocking", f: func(g, i int) { call(prodFor(g, "prb", dq.ProducerReverseBlocking)) }},
		{slow: true, name: "Iterator", sig: t + ".Iterator", f: func(g, i int) { drain(dq.Iterator(), 4) }},
		{slow: true, name: "IteratorReverse", sig: t + ".IteratorReverse", f: func(g, i int) { drain(dq.IteratorReverse(), 4) }},
		{name: "Len", sig: t + ".Len", f: func(g, i int) { _ = dq.Len() }},
		{slow: true, name: "WaitFront", sig: t + ".WaitFront", f: func(g, i int) { c, cc := tctx(); defer cc(); _, _ = dq.WaitFront(c) }},
		{slow: true, name: "WaitBack", sig: t + ".WaitBack", f: func(g, i int) { c, cc := tctx(); defer cc(); _, _ = dq.WaitBack(c) }},
		{name: "PopFront", sig: t + ".PopFront", f: func(g, i int) { _, _ = dq.PopFront() }},
		{name: "PopBack", sig: t + ".PopBack", f: func(g, i int) { _, _ = dq.PopBack() }},
		{slow: true, name: "WaitPushFront", sig: t + ".WaitPushFront", f: func(g, i int) { c, cc := tctx(); defer cc(); _ = dq.WaitPushFront(c, i) }},
		{slow: true, name: "WaitPushBack", sig: t + ".WaitPushBack", f: func(g, i int) { c, cc := tctx(); defer cc(); _ = dq.WaitPushBack(c, i) }},
		{name: "ForcePushFront", sig: t + ".ForcePushFront", f: func(g, i int) { _ = dq.ForcePushFront(i) }},
		{name: "ForcePushBack", sig: t + ".ForcePushBack", f: func(g, i int) { _ = dq.ForcePushBack(i) }},
		{name: "PushFront", sig: t + ".PushFront", f: func(g, i int) { _ = dq.PushFront(i) }},
		{name: "PushBack", sig: t + ".PushBack", f: func(g, i int) { _ = dq.PushBack(i) }},
		{name: "Close", sig: t + ".Close", f: func(g, i int) {
			if i%64 == 63 {
				_ = dq.Close()
			}
		}},
	}}
}

func waitGroupEnv() env {
	wg := &fun.WaitGroup{}
	t := "WaitGroup"
	nop := fun.Operation(func(context.Context) {})
	return env{typ: t, ops: []op{
		{name: "Num", sig: t + ".Num", f: func(g, i int) { _ = wg.Num() }},
		{name: "IsDone", sig: t + ".IsDone", f: func(g, i int) { _ = wg.IsDone() }},
		{slow: true, name: "Wait", sig: t + ".Wait", f: func(g, i int) { c, cc := tctx(); defer cc(); wg.Wait(c) }},
		{slow: true, name: "Worker", sig: t + ".Worker", f: func(g, i int) { c, cc := tctx(); defer cc(); _ = wg.Worker()(c) }},
		{slow: true, name: "Operation", sig: t + ".Operation", f: func(g, i int) { c, cc := tctx(); defer cc(); wg.Operation()(c) }},
		{name: "Launch", sig: t + ".Launch", f: func(g, i int) { wg.Launch(context.Background(), nop) }},
		{name: "DoTimes", sig: t + ".DoTimes", f: func(g, i int) { wg.DoTimes(context.Background(), 2, nop) }},
		{name: "Inc+Done", sig: t + ".Add", f: func(g, i int) { wg.Inc(); wg.Done() }},
		{name: "Add+Add", sig: t + ".Add", f: func(g, i int) { wg.Add(2); wg.Add(-2) }},
	}}
}

func collectorEnv() env {
	ec := erc.New()
	t := "Collector"
	e1 := errors.New("e1")
	return env{typ: t, ops: []op{
		// known finding: the error returned by Resolve IS the live stack
		{name: "Resolve+inspect", sig: t + ".Resolve", cls: "live-stack", f: func(g, i int) {
			if err := ec.Resolve(); err != nil {
				_ = err.Error()
				_ = errors.Is(err, e1)
			}
		}},
		{name: "Future+inspect", sig: t + ".Resolve", cls: "live-stack", f: func(g, i int) {
			if err := ec.Future()(); err != nil {
				_ = errors.Is(err, e1)
			}
		}},
		{slow: true, name: "Iterator", sig: t + ".Iterator", cls: "live-stack", f: func(g, i int) { drain(ec.Iterator(), 3) }},
		{name: "Resolve", sig: t + ".Resolve", f: func(g, i int) { _ = ec.Resolve() == nil }},
		{name: "Len", sig: t + ".Len", f: func(g, i int) { _ = ec.Len() }},
		{name: "HasErrors", sig: t + ".HasErrors", f: func(g, i int) { _ = ec.HasErrors() }},
		{name: "Ok", sig: t + ".Ok", f: func(g, i int) { _ = ec.Ok() }},
		{name: "Handler", sig: t + ".Handler", f: func(g, i int) { ec.Handler()(e1) }},
		{name: "Add", sig: t + ".Add", f: func(g, i int) {
			if i%3 == 0 {
				ec.Add(nil)
			} else {
				ec.Add(e1)
			}
		}},
	}}
}

func synchronizedEnv() env {
	s := adt.NewSynchronized(0)
	t := "Synchronized"
	return env{typ: t, ops: []op{
		{name: "Get", sig: t + ".Get", f: func(g, i int) { _ = s.Get() }},
		{name: "Load", sig: t + ".Load", f: func(g, i int) { _ = s.Load() }},
		{name: "String", sig: t + ".String", f: func(g, i int) { _ = s.String() }},
		{name: "With", sig: t + ".With", f: func(g, i int) { s.With(func(int) {}) }},
		{name: "Using", sig: t + ".Using", f: func(g, i int) { s.Using(func() {}) }},
		{name: "Swap", sig: t + ".Swap", f: func(g, i int) { _ = s.Swap(i) }},
		{name: "Set", sig: t + ".Set", f: func(g, i int) { s.Set(i) }},
		{name: "Store", sig: t + ".Store", f: func(g, i int) { s.Store(i) }},
		{name: "CompareAndSwap", sig: t + ".CompareAndSwap", f: func(g, i int) { _ = adt.CompareAndSwap[int](s, i, i+1) }},
	}}
}

func atomicEnv() env {
	a := adt.NewAtomic(0)
	t := "Atomic"
	return env{typ: t, ops: []op{
		{name: "Get", sig: t + ".Get", f: func(g, i int) { _ = a.Get() }},
		{name: "Load", sig: t + ".Load", f: func(g, i int) { _ = a.Load() }},
		{name: "Swap", sig: t + ".Swap", f: func(g, i int) { _ = a.Swap(i) }},
		{name: "Set", sig: t + ".Set", f: func(g, i int) { a.Set(i) }},
		{name: "Store", sig: t + ".Store", f: func(g, i int) { a.Store(i) }},
		{name: "CompareAndSwap", sig: t + ".CompareAndSwap", f: func(g, i int) { _ = adt.CompareAndSwap[int](a, i, i+1) }},
	}}
}

func onceEnv() env {
	o := adt.NewOnce(func() int { return 7 })
	t := "Once"
	return env{typ: t, ops: []op{
		{name: "Called", sig: t + ".Called", f: func(g, i int) { _ = o.Called() }},
		{name: "Defined", sig: t + ".Defined", f: func(g, i int) { _ = o.Defined() }},
		{name: "Resolve", sig: t + ".Resolve", f: func(g, i int) { _ = o.Resolve() }},
		{name: "Set", sig: t + ".Set", f: func(g, i int) { o.Set(func() int { return i }) }},
		{name: "Do", sig: t + ".Do", f: func(g, i int) { o.Do(func() int { return i }) }},
	}}
}

func mapEnv() env {
	m := &adt.Map[int, int]{}
	for i := 0; i < 4; i++ {
		m.Store(i, i)
	}
	t := "Map"
	return env{typ: t, ops: []op{
		{name: "Len", sig: t + ".Len", f: func(g, i int) { _ = m.Len() }},
		{name: "Check", sig: t + ".Check", f: func(g, i int) { _ = m.Check(i % 8) }},
		{name: "Load", sig: t + ".Load", f: func(g, i int) { _, _ = m.Load(i % 8) }},
		{name: "Range", sig: t + ".Range", f: func(g, i int) { m.Range(func(int, int) bool { return true }) }},
		{name: "MarshalJSON", sig: t + ".MarshalJSON", f: func(g, i int) { _, _ = m.MarshalJSON() }},
		{slow: true, name: "Keys", sig: t + ".Keys", f: func(g, i int) { drain(m.Keys(), 16) }},
		{slow: true, name: "Values", sig: t + ".Values", f: func(g, i int) { drain(m.Values(), 16) }},
		{slow: true, name: "Iterator", sig: t + ".Iterator", f: func(g, i int) { drain(m.Iterator(), 16) }},
		{name: "Get", sig: t + ".Get", f: func(g, i int) { _ = m.Get(i % 8) }},
		{name: "Ensure", sig: t + ".Ensure", f: func(g, i int) { m.Ensure(i % 8) }},
		{name: "EnsureDefault", sig: t + ".EnsureDefault", f: func(g, i int) { _ = m.EnsureDefault(i%8, func() int { return 1 }) }},
		{name: "EnsureStore", sig: t + ".EnsureStore", f: func(g, i int) { _ = m.EnsureStore(i%8, i) }},
		{name: "EnsureSet", sig: t + ".EnsureSet", f: func(g, i int) { _ = m.EnsureSet(dt.MakePair(i%8, i)) }},
		{name: "UnmarshalJSON", sig: t + ".UnmarshalJSON", f: func(g, i int) { _ = m.UnmarshalJSON([]byte(`{"1":2,"9":3}`)) }},
		{name: "Set", sig: t + ".Set", f: func(g, i int) { m.Set(dt.MakePair(i%8, i)) }},
		{name: "Store", sig: t + ".Store", f: func(g, i int) { m.Store(i%8, i) }},
		{name: "Delete", sig: t + ".Delete", f: func(g, i int) { m.Delete(i % 8) }},
	}}
}

type poolItem struct{ pad [64]byte }

func poolEnv() env {
	p := &adt.Pool[*poolItem]{}
	p.SetConstructor(func() *poolItem { return &poolItem{} }) // the default constructor yields nil, which Make cannot finalize
	t := "Pool"
	return env{typ: t, ops: []op{
		{name: "Get", sig: t + ".Get", f: func(g, i int) { _ = p.Get() }},
		{name: "Make", sig: t + ".Make", f: func(g, i int) { _ = p.Make() }},
		{name: "Put", sig: t + ".Put", f: func(g, i int) { p.Put(&poolItem{}) }},
		{name: "SetCleanupHook", sig: t + ".SetCleanupHook", f: func(g, i int) { p.SetCleanupHook(func(x *poolItem) *poolItem { return x }) }},
		{name: "SetConstructor", sig: t + ".SetConstructor", f: func(g, i int) { p.SetConstructor(func() *poolItem { return &poolItem{} }) }},
		{name: "FinalizeSetup", sig: t + ".FinalizeSetup", f: func(g, i int) {
			if i%64 == 63 {
				p.FinalizeSetup()
			}
		}},
	}}
}

func setEnv(kind string) env {
	a, b := &dt.Set[int]{}, &dt.Set[int]{}
	a.Synchronize()
	b.Synchronize()
	if kind == "ordered" {
		a.Order()
		b.Order()
	}
	for i := 0; i < 4; i++ {
		a.Add(i)
		b.Add(i)
	}
	lt := func(x, y int) bool { return x < y }
	t := "Set"
	return env{typ: t + "-" + kind, ops: []op{
		// a.Equal(b) while b is being used: Equal reads b's fields
		{name: "Equal(other)", sig: t + ".Equal", f: func(g, i int) { _ = a.Equal(b) }},
		{name: "Extend(other)", sig: t + ".Extend", f: func(g, i int) { a.Extend(b) }},
		{slow: true, name: "Iterator", sig: t + ".Iterator", f: func(g, i int) { drain(a.Iterator(), 8) }},
		{slow: true, name: "Producer", sig: t + ".Producer", f: func(g, i int) { c, cc := tctx(); defer cc(); _, _ = a.Producer()(c) }},
		{name: "MarshalJSON", sig: t + ".MarshalJSON", f: func(g, i int) { _, _ = a.MarshalJSON() }},
		{name: "Len", sig: t + ".Len", f: func(g, i int) { _ = a.Len() }},
		{name: "Check", sig: t + ".Check", f: func(g, i int) { _ = a.Check(i % 8) }},
		{name: "UnmarshalJSON", sig: t + ".UnmarshalJSON", f: func(g, i int) { _ = a.UnmarshalJSON([]byte(`[1,9]`)) }},
		{name: "SortQuick", sig: t + ".SortQuick", f: func(g, i int) { a.SortQuick(lt) }},
		{name: "SortMerge", sig: t + ".SortMerge", f: func(g, i int) { a.SortMerge(lt) }},
		{name: "Order", sig: t + ".Order", f: func(g, i int) { a.Order() }},
		{name: "DeleteCheck", sig: t + ".DeleteCheck", f: func(g, i int) { _ = a.DeleteCheck(i % 8) }},
		{name: "Delete", sig: t + ".Delete", f: func(g, i int) { a.Delete(i % 8) }},
		{name: "AddCheck", sig: t + ".AddCheck", f: func(g, i int) { _ = a.AddCheck(i % 8) }},
		{name: "Add", sig: t + ".Add", f: func(g, i int) { a.Add(i % 8) }},
		// operations on the OTHER set (paired with Equal/Extend above)
		{name: "other.Add", sig: t + ".Add", f: func(g, i int) { b.Add(i % 8) }},
		{name: "other.Delete", sig: t + ".Delete", f: func(g, i int) { b.Delete(i % 8) }},
		{name: "other.SortQuick", sig: t + ".SortQuick", f: func(g, i int) { b.SortQuick(lt) }},
		{name: "other.Order", sig: t + ".Order", f: func(g, i int) { b.Order() }},
	}}
}

// the function wrappers: the user function increments a PLAIN counter, so a wrapper
// that fails to exclude concurrent executions (Lock/WithLock/Once/Limit/TTL run the
// function in isolation) shows up as a race on that counter; the cached results are
// the wrappers' own shared state.
func wrappersEnv() env {
	t := "Wrappers"
	mk := func(name string, build func(count *int) func()) op {
		n := new(int)
		f := build(n)
		return op{name: name, sig: name, solo: true, f: func(g, i int) { f() }}
	}
	bg := context.Background()
	return env{typ: t, ops: []op{
		mk("Worker.Lock", func(n *int) func() {
			w := fun.Worker(func(context.Context) error { *n++; return nil }).Lock()
			return func() { _ = w(bg) }
		}),
		mk("Worker.WithLock", func(n *int) func() {
			w := fun.Worker(func(context.Context) error { *n++; return nil }).WithLock(&sync.Mutex{})
			return func() { _ = w(bg) }
		}),
		mk("Worker.Once", func(n *int) func() {
			w := fun.Worker(func(context.Context) error { *n++; return errors.New("x") }).Once()
			return func() { _ = w(bg) }
		}),
		mk("Worker.Limit", func(n *int) func() {
			w := fun.Worker(func(context.Context) error { *n++; return errors.New("x") }).Limit(5)
			return func() { _ = w(bg) }
		}),
		mk("Worker.TTL", func(n *int) func() {
			w := fun.Worker(func(context.Context) error { *n++; return errors.New("x") }).TTL(time.Millisecond)
			return func() { _ = w(bg) }
		}),
		mk("Operation.Lock", func(n *int) func() {
			w := fun.Operation(func(context.Context) { *n++ }).Lock()
			return func() { w(bg) }
		}),
		mk("Operation.WithLock", func(n *int) func() {
			w := fun.Operation(func(context.Context) { *n++ }).WithLock(&sync.Mutex{})
			return func() { w(bg) }
		}),
		mk("Operation.Once", func(n *int) func() {
			w := fun.Operation(func(context.Context) { *n++ }).Once()
			return func() { w(bg) }
		}),
		mk("Operation.Limit", func(n *int) func() { w := fun.Operation(func(context.Context) {}).Limit(5); return func() { w(bg) } }),
		mk("Operation.TTL", func(n *int) func() {
			w := fun.Operation(func(context.Context) { *n++ }).TTL(time.Millisecond)
			return func() { w(bg) }
		}),
		mk("Producer.Lock", func(n *int) func() {
			w := fun.Producer[int](func(context.Context) (int, error) { *n++; return *n, nil }).Lock()
			return func() { _, _ = w(bg) }
		}),
		mk("Producer.WithLock", func(n *int) func() {
			w := fun.Producer[int](func(context.Context) (int, error) { *n++; return *n, nil }).WithLock(&sync.Mutex{})
			return func() { _, _ = w(bg) }
		}),
		mk("Producer.Once", func(n *int) func() {
			w := fun.Producer[int](func(context.Context) (int, error) { *n++; return *n, nil }).Once()
			return func() { _, _ = w(bg) }
		}),
		mk("Producer.Limit", func(n *int) func() {
			w := fun.Producer[int](func(context.Context) (int, error) { *n++; return *n, nil }).Limit(5)
			return func() { _, _ = w(bg) }
		}),
		mk("Producer.TTL", func(n *int) func() {
			w := fun.Producer[int](func(context.Context) (int, error) { *n++; return *n, nil }).TTL(time.Millisecond)
			return func() { _, _ = w(bg) }
		}),
		mk("Processor.Lock", func(n *int) func() {
			w := fun.Processor[int](func(context.Context, int) error { *n++; return nil }).Lock()
			return func() { _ = w(bg, 1) }
		}),
		mk("Processor.WithLock", func(n *int) func() {
			w := fun.Processor[int](func(context.Context, int) error { *n++; return nil }).WithLock(&sync.Mutex{})
			return func() { _ = w(bg, 1) }
		}),
		mk("Processor.Once", func(n *int) func() {
			w := fun.Processor[int](func(context.Context, int) error { *n++; return errors.New("x") }).Once()
			return func() { _ = w(bg, 1) }
		}),
		mk("Processor.Limit", func(n *int) func() {
			w := fun.Processor[int](func(context.Context, int) error { *n++; return errors.New("x") }).Limit(5)
			return func() { _ = w(bg, 1) }
		}),
		mk("Processor.TTL", func(n *int) func() {
			w := fun.Processor[int](func(context.Context, int) error { *n++; return errors.New("x") }).TTL(time.Millisecond)
			return func() { _ = w(bg, 1) }
		}),
		mk("Handler.Lock", func(n *int) func() { w := fun.Handler[int](func(int) { *n++ }).Lock(); return func() { w(1) } }),
		mk("Handler.WithLock", func(n *int) func() {
			w := fun.Handler[int](func(int) { *n++ }).WithLock(&sync.Mutex{})
			return func() { w(1) }
		}),
		mk("Handler.Once", func(n *int) func() { w := fun.Handler[int](func(int) { *n++ }).Once(); return func() { w(1) } }),
		mk("Future.Lock", func(n *int) func() {
			w := fun.Future[int](func() int { *n++; return *n }).Lock()
			return func() { _ = w() }
		}),
		mk("Future.WithLock", func(n *int) func() {
			w := fun.Future[int](func() int { *n++; return *n }).WithLock(&sync.Mutex{})
			return func() { _ = w() }
		}),
		mk("Future.Limit", func(n *int) func() {
			w := fun.Future[int](func() int { *n++; return *n }).Limit(5)
			return func() { _ = w() }
		}),
		mk("Future.TTL", func(n *int) func() {
			w := fun.Future[int](func() int { *n++; return *n }).TTL(time.Millisecond)
			return func() { _ = w() }
		}),
	}}
}

func brokerEnv(kind string) env {
	ctx := context.Background()
	var b *pubsub.Broker[int]
	switch kind {
	case "queue":
		b = pubsub.NewQueueBroker[int](ctx, pubsub.NewUnlimitedQueue[int](), pubsub.BrokerOptions{WorkerPoolSize: 2})
	case "deque":
		b = pubsub.NewDequeBroker[int](ctx, pubsub.NewUnlimitedDeque[int](), pubsub.BrokerOptions{ParallelDispatch: true})
	default:
		b = pubsub.NewBroker[int](ctx, pubsub.BrokerOptions{BufferSize: 2})
	}
	t := "Broker"
	var mu sync.Mutex
	subs := map[int]chan int{}
	return env{typ: t + "-" + kind, ops: []op{
		{slow: true, name: "Stats", sig: t + ".Stats", f: func(g, i int) { c, cc := context.WithTimeout(ctx, 20*time.Millisecond); defer cc(); _ = b.Stats(c) }},
		{slow: true, name: "Subscribe+Unsubscribe", sig: t + ".Subscribe", f: func(g, i int) {
			c, cc := context.WithTimeout(ctx, 20*time.Millisecond)
			defer cc()
			ch := b.Subscribe(c)
			if ch != nil {
				mu.Lock()
				subs[g] = ch
				mu.Unlock()
				select {
				case <-ch:
				default:
				}
				b.Unsubscribe(c, ch)
			}
		}},
		{slow: true, name: "Publish", sig: t + ".Publish", f: func(g, i int) { c, cc := tctx(); defer cc(); b.Publish(c, i) }},
		{slow: true, name: "Wait", sig: t + ".Wait", f: func(g, i int) { c, cc := tctx(); defer cc(); b.Wait(c) }},
		{name: "Stop", sig: t + ".Stop", f: func(g, i int) {
			if i%64 == 63 {
				b.Stop()
			}
		}},
	}}
}

// limitExec behind Worker/Processor/Producer/Future .Limit(n): n in {2,3,4}, n+2 goroutines released
// together by a barrier, each calling the wrapper once; a fresh wrapper every round.  Several
// PERMITTED runs then come from different goroutines with nothing but the wrapper between them.
func limitRounds(build func(n int) func()) func(rounds int) {
	return func(rounds int) {
		for r := 0; r < rounds; r++ {
			n := 2 + r%3
			call := build(n)
			var wg sync.WaitGroup
			start := make(chan struct{})
			for g := 0; g < n+2; g++ {
				wg.Add(1)
				go func() { defer wg.Done(); <-start; call() }()
			}
			close(start)
			wg.Wait()
		}
	}
}

func limitEnv() env {
	bg := context.Background()
	mk := func(name string, build func(n int) func()) op {
		return op{name: name, sig: "limitExec", custom: limitRounds(build)}
	}
	return env{typ: "Limit", ops: []op{
		mk("Worker.Limit", func(n int) func() {
			c := 0
			w := fun.Worker(func(context.Context) error { c++; return fmt.Errorf("run %d", c) }).Limit(n)
			return func() { _ = w(bg) }
		}),
		mk("Processor.Limit", func(n int) func() {
			c := 0
			w := fun.Processor[int](func(context.Context, int) error { c++; return fmt.Errorf("run %d", c) }).Limit(n)
			return func() { _ = w(bg, 1) }
		}),
		mk("Producer.Limit", func(n int) func() {
			c := 0
			w := fun.Producer[int](func(context.Context) (int, error) { c++; return c, nil }).Limit(n)
			return func() { _, _ = w(bg) }
		}),
		mk("Future.Limit", func(n int) func() {
			c := 0
			w := fun.Future[[4]int](func() [4]int { c++; return [4]int{c, c, c, c} }).Limit(n)
			return func() { _ = w() }
		}),
	}}
}

// Broker.Stats whose context ends while the request is IN FLIGHT: accepted by the broker's main
// loop, result not yet delivered.  The window is widened through the public API only: the
// distributor's length function (called by the main loop to fill BufferDepth) parks until the
// Stats context is done.
func brokerInflightEnv() env {
	round := func() {
		ctx, cancel := context.WithCancel(context.Background())
		defer cancel()
		statsCtx, statsCancel := context.WithCancel(ctx)
		defer statsCancel()
		entered := make(chan struct{})
		once := &sync.Once{}
		dist := pubsub.MakeDistributor(
			func(context.Context, int) error { return nil },
			func(ctx context.Context) (int, error) { <-ctx.Done(); return 0, ctx.Err() },
			func() int {
				once.Do(func() { close(entered) })
				<-statsCtx.Done()
				time.Sleep(2 * time.Millisecond) // let the caller return first
				return 7
			},
		)
		b := pubsub.MakeDistributorBroker(ctx, dist, pubsub.BrokerOptions{})
		result := make(chan pubsub.BrokerStats, 1)
		go func() { result <- b.Stats(statsCtx) }()
		select {
		case <-entered:
		case <-time.After(5 * time.Second):
			return
		}
		statsCancel() // the request is in flight: abandon it
		select {
		case <-result:
		case <-time.After(5 * time.Second):
		}
		time.Sleep(6 * time.Millisecond) // the broker goroutine delivers its (late) result
	}
	return env{typ: "Broker-inflight", ops: []op{
		{name: "Stats(cancelled in flight)", sig: "Broker.Stats", custom: func(rounds int) {
			for r := 0; r < rounds; r++ {
				round()
			}
		}},
	}}
}

var envs = map[string]func() env{
	"Queue-limited":   func() env { return queueEnv("limited") },
	"Queue-unlimited": func() env { return queueEnv("unlimited") },
	"Deque-capacity":  func() env { return dequeEnv("capacity") },
	"Deque-unlimited": func() env { return dequeEnv("unlimited") },
	"WaitGroup":       waitGroupEnv,
	"Collector":       collectorEnv,
	"Synchronized":    synchronizedEnv,
	"Atomic":          atomicEnv,
	"Once":            onceEnv,
	"Map":             mapEnv,
	"Pool":            poolEnv,
	"Set-unordered":   func() env { return setEnv("unordered") },
	"Set-ordered":     func() env { return setEnv("ordered") },
	"Wrappers":        wrappersEnv,
	"Limit":           limitEnv,
	"Broker-inflight": brokerInflightEnv,
	"Broker-channel":  func() env { return brokerEnv("channel") },
	"Broker-queue":    func() env { return brokerEnv("queue") },
	"Broker-deque":    func() env { return brokerEnv("deque") },
}

// ---------------------------------------------------------------- one scenario (child process)

type Scenario struct {
	ID    int    `json:"id"`
	Type  string `json:"type"`
	A     string `json:"a"`
	B     string `json:"b"`
	Iters int    `json:"iters"`
	Procs int    `json:"procs"`
	G     int    `json:"goroutines"`
}

type childResult struct {
	CallsA int  `json:"calls_a"`
	CallsB int  `json:"calls_b"`
	Panics int  `json:"panics"`
	Hung   bool `json:"hung"`
}

func findOp(e env, name string) *op {
	for i := range e.ops {
		if e.ops[i].name == name {
			return &e.ops[i]
		}
	}
	return nil
}

func runChild(sc Scenario) {
	runtime.GOMAXPROCS(sc.Procs)
	mk := envs[sc.Type]
	if mk == nil {
		fmt.Fprintln(os.Stderr, "unknown type", sc.Type)
		os.Exit(2)
	}
	e := mk()
	a, b := findOp(e, sc.A), findOp(e, sc.B)
	if a == nil || b == nil {
		fmt.Fprintln(os.Stderr, "unknown op", sc.A, sc.B)
		os.Exit(2)
	}
	if a.custom != nil {
		done := make(chan struct{})
		go func() { a.custom(sc.Iters); close(done) }()
		res := childResult{CallsA: sc.Iters, CallsB: sc.Iters}
		select {
		case <-done:
		case <-time.After(60 * time.Second):
			res.Hung = true
		}
		out, _ := json.Marshal(res)
		fmt.Println(string(out))
		os.Exit(0)
	}
	var res childResult
	var mu sync.Mutex
	var wg sync.WaitGroup
	start := make(chan struct{})
	for g := 0; g < sc.G; g++ {
		wg.Add(1)
		go func(g int) {
			defer wg.Done()
			o := a
			if g%2 == 1 {
				o = b
			}
			<-start
			calls, panics := 0, 0
			for i := 0; i < sc.Iters; i++ {
				func() {
					defer func() {
						if r := recover(); r != nil {
							panics++
						}
					}()
					o.f(g, i)
					calls++
				}()
			}
			mu.Lock()
			if g%2 == 1 {
				res.CallsB += calls
			} else {
				res.CallsA += calls
			}
			res.Panics += panics
			mu.Unlock()
		}(g)
	}
	close(start)
	done := make(chan struct{})
	go func() { wg.Wait(); close(done) }()
	select {
	case <-done:
	case <-time.After(60 * time.Second):
		mu.Lock()
		res.Hung = true
		mu.Unlock()
	}
	mu.Lock()
	out, _ := json.Marshal(res)
	mu.Unlock()
	fmt.Println(string(out))
	os.Exit(0)
}

// ---------------------------------------------------------------- parent

type outcome struct {
	sc     Scenario
	race   bool
	report string
	res    childResult
	rc     int
	err    string
}

func runScenario(sc Scenario) outcome {
	b, _ := json.Marshal(sc)
	cmd := exec.Command(os.Args[0], "-child", string(b))
	cmd.Env = append(os.Environ(), "GORACE=halt_on_error=1 exitcode=66 atexit_sleep_ms=0")
	var so, se bytes.Buffer
	cmd.Stdout, cmd.Stderr = &so, &se
	done := make(chan error, 1)
	if err := cmd.Start(); err != nil {
		return outcome{sc: sc, err: err.Error(), rc: -1}
	}
	go func() { done <- cmd.Wait() }()
	var err error
	select {
	case err = <-done:
	case <-time.After(120 * time.Second):
		_ = cmd.Process.Kill()
		<-done
		return outcome{sc: sc, err: "killed after 120s", rc: -2, res: childResult{Hung: true}}
	}
	o := outcome{sc: sc}
	if err != nil {
		var ee *exec.ExitError
		if errors.As(err, &ee) {
			o.rc = ee.ExitCode()
		} else {
			o.rc = -1
			o.err = err.Error()
		}
	}
	stderr := se.String()
	if o.rc == 66 || strings.Contains(stderr, "WARNING: DATA RACE") {
		o.race = true
		lines := strings.Split(stderr, "\n")
		if len(lines) > 45 {
			lines = lines[:45]
		}
		o.report = strings.Join(lines, "\n")
	} else if o.rc != 0 {
		o.err = "exit " + strconv.Itoa(o.rc) + ": " + tail(stderr, 400)
	}
	_ = json.Unmarshal(bytes.TrimSpace(so.Bytes()), &o.res)
	return o
}

func tail(s string, n int) string {
	if len(s) > n {
		return s[len(s)-n:]
	}
	return s
}

func signature(sc Scenario) string {
	e := envs[sc.Type]()
	a := findOp(e, sc.A)
	cls := a.cls
	if cls == "" {
		cls = "race"
	}
	return "C13:" + a.sig + ":" + cls
}

func main() {
	// child mode is dispatched before kit parses the flags
	if len(os.Args) == 3 && os.Args[1] == "-child" {
		var sc Scenario
		if err := json.Unmarshal([]byte(os.Args[2]), &sc); err != nil {
			fmt.Fprintln(os.Stderr, err)
			os.Exit(2)
		}
		runChild(sc)
		return
	}
	run := kit.Start()
	run.Rule = "a scenario is non-trivial when both operations of the pair completed at least one call in the child process (distinct key = type/opA/opB/GOMAXPROCS)"

	var scenarios []Scenario
	if run.Replay != "" {
		var sc Scenario
		if err := kit.ReadReplayCase(run.Replay, &sc); err != nil || sc.Type == "" {
			fmt.Fprintln(os.Stderr, "replay: no scenario in", run.Replay, err)
			run.Finish()
			os.Exit(0)
		}
		// a race needs the two accesses to meet: repeat the recorded scenario a few times
		for k := 0; k < 8; k++ {
			s := sc
			s.ID = k
			if s.Iters < 2000 && s.Type != "Broker-inflight" {
				s.Iters = 2000
			}
			scenarios = append(scenarios, s)
		}
	} else {
		iters := run.Pick(300, 1500)
		procs := []int{4}
		if run.Thorough() {
			procs = []int{1, 2, 4, 16}
		}
		var types []string
		quickSkip := map[string]bool{"Deque-unlimited": true, "Broker-deque": true}
		for t := range envs {
			if !run.Thorough() && quickSkip[t] {
				continue // the second configuration of a type is exercised in the thorough tier
			}
			types = append(types, t)
		}
		sort.Strings(types)
		id := 0
		for _, p := range procs {
			for _, t := range types {
				e := envs[t]()
				for i := range e.ops {
					for j := i; j < len(e.ops); j++ {
						if (e.ops[i].solo || e.ops[j].solo || e.ops[i].custom != nil || e.ops[j].custom != nil) && i != j {
							continue
						}
						it := iters
						if e.ops[i].cls != "" { // known findings must reproduce on every run
							it = iters * 8
						}
						if e.ops[i].slow || e.ops[j].slow {
							it = it / 4
						}
						if strings.HasPrefix(t, "Broker") {
							it = iters / 6
						}
						if t == "Limit" {
							it = iters * 10
						}
						if t == "Broker-inflight" {
							it = run.Pick(12, 60)
						}
						scenarios = append(scenarios, Scenario{ID: id, Type: t, A: e.ops[i].name, B: e.ops[j].name, Iters: it, Procs: p, G: 4})
						id++
					}
				}
			}
		}
		// the seed only permutes the order in which scenarios are started
		r := run.Rand
		for i := len(scenarios) - 1; i > 0; i-- {
			j := r.Intn(i + 1)
			scenarios[i], scenarios[j] = scenarios[j], scenarios[i]
		}
	}

	workers := runtime.NumCPU() - 2
	if workers < 2 {
		workers = 2
	}
	if workers > 14 {
		workers = 14
	}
	results := make([]outcome, len(scenarios))
	var wg sync.WaitGroup
	next := make(chan int)
	for w := 0; w < workers; w++ {
		wg.Add(1)
		go func() {
			defer wg.Done()
			for i := range next {
				results[i] = runScenario(scenarios[i])
			}
		}()
	}
	for i := range scenarios {
		next <- i
	}
	close(next)
	wg.Wait()

	races, hung, errs, panics := 0, 0, 0, 0
	seenSig := map[string]bool{}
	for _, o := range results {
		sc := o.sc
		key := fmt.Sprintf("%s/%s/%s/%d", sc.Type, sc.A, sc.B, sc.Procs)
		nontrivial := o.res.CallsA > 0 && o.res.CallsB > 0
		run.Case(sc.ID, sc, "", key, nontrivial)
		run.Count("type/" + strings.SplitN(sc.Type, "-", 2)[0])
		if o.res.Hung {
			hung++
			run.Count("outcome/hung")
		}
		if o.err != "" && !o.race {
			errs++
			run.Count("outcome/child-error")
			fmt.Fprintf(os.Stderr, "scenario %s: %s\n", key, o.err)
		}
		if o.res.Panics > 0 {
			panics++
			run.Count("outcome/some-calls-panicked")
		}
		if o.race {
			races++
			run.Count("outcome/race")
			sig := signature(sc)
			if run.Replay != "" {
				fmt.Printf("scenario %s: DATA RACE (%s)\n%s\n", key, sig, o.report)
			}
			if !seenSig[sig+key] {
				seenSig[sig+key] = true
				run.OracleFail(sc.ID, sig, "race detector report while running "+sc.A+" concurrently with "+sc.B+" on "+sc.Type, sc, o.report)
			}
		} else {
			run.Count("outcome/clean")
			if run.Replay != "" {
				fmt.Printf("scenario %s: no race reported (calls %d/%d)\n", key, o.res.CallsA, o.res.CallsB)
			}
		}
	}
	run.Extra["scenarios"] = len(scenarios)
	run.Extra["races"] = races
	run.Extra["hung"] = hung
	run.Extra["child_errors"] = errs
	run.Finish()
}
