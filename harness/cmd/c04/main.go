// Driver for C04: pipelines terminate — no stuck consumer, no leaked goroutine.
//
// A scenario = (construct, input length n, workers, buffer size, cut point k, stop mode).
// The REAL construct is built over a finite source, the consumer takes k items and then stops in
// the given way; afterwards the goroutine dump (runtime.Stack, all goroutines) is polled until no
// goroutine with a frame in github.com/tychoish/fun remains that was not there before the
// scenario, or a 10 s bound expires. Verdicts never depend on short sleeps: "leaked" and "stuck"
// both mean "still there after 10 s".
package main

import (
	"context"
	"errors"
	"fmt"
	"io"
	"regexp"
	"runtime"
	"strings"
	"sync/atomic"
	"time"

	"github.com/tychoish/fun"
	"github.com/tychoish/fun/adt"
	"github.com/tychoish/fun/dt"
	"github.com/tychoish/fun/itertool"

	"verif/harness/kit"
)

// construct codes — must match coq/Corr/C04_corr.v
const (
	cSplit           = 1
	cProcessParallel = 2
	cMap             = 3
	cParallelBuffer  = 4
	cBuffer          = 5
	cMerge           = 6
	cGenerate        = 7
	cChain           = 9
	cMergeSlices     = 10
	cMergeSliceIters = 11
	cBufferedChannel = 12
	cDtMap           = 13
	cAdtMap          = 14
)

var names = map[int]string{
	cSplit: "Split", cProcessParallel: "ProcessParallel", cMap: "Map", cParallelBuffer: "ParallelBuffer",
	cBuffer: "Buffer", cMerge: "MergeIterators", cGenerate: "GenerateParallel", cChain: "Chain",
	cMergeSlices: "MergeSlices", cMergeSliceIters: "MergeSliceIterators", cBufferedChannel: "BufferedChannel",
	cDtMap: "dt.Map", cAdtMap: "adt.Map",
}

// stop modes — must match coq/Corr/C04_corr.v
const (
	mExhaust      = 0  // read until the iterator reports the end
	mClose        = 1  // take k items, Close
	mCancel       = 2  // take k items, cancel the context passed to the advances
	mCloseCancel  = 3  // take k items, Close, then cancel
	mAbandonClose = 4  // Split only: take k items, abandon one output, Close the others
	mBlockedClose = 5  // source blocks after k items; consumer blocked in ReadOne; Close twice from another goroutine
	mBlockedCancl = 6  // same, but the context is cancelled
	mStarterClose = 7  // Split only: one consumer goroutine per output, each with its own context; output 0 takes k items (it starts the splitter) and is Closed; the others keep reading
	mStarterCancl = 8  // same, but the context of output 0's advances is cancelled
	mRangeCancel  = 9  // BufferedChannel / Channel only: a receiver ranges over the channel (no context of its own); the construction context is cancelled after k items
	mDownstreamEr = 10 // a lazy conversion stage downstream of the construct fails with an ordinary error at item k+1: the consumer sees k items and io.EOF and walks away - no Close, no cancel
	mPeekedInputs = 11 // MergeIterators / Buffer / Chain over goroutine-backed inputs that were advanced once under a live application context before being handed over; take k, then stop (Variant = 10*inner + stop)
	mTinyExhaust  = 12 // K rounds of: build the construct over an input of n <= 1 items and read it to io.EOF (10 s deadline per round)
)

// mode 11: Variant = 10*inner + stop
const (
	inBuffer = 0 // input = source.Buffer(1)
	inMap    = 1 // input = fun.Map(source, identity, 2 workers)
	inSplit  = 2 // input = source.Split(1)[0]
	inPlain  = 3 // input = the (blocking, context guarded) source iterator itself

	stClose       = 1
	stCancel      = 2
	stCloseCancel = 3
	stCancelClose = 4
)

var stopNames = []string{"", "close", "cancel", "close-then-cancel", "cancel-then-close"}

var innerNames = []string{"Buffer(1)", "Map(2 workers)", "Split(1)[0]", "blocking source iterator"}
var errDownstream = errors.New("conversion failed")

var modeNames = []string{"exhaust", "close", "cancel", "close-then-cancel", "abandon-one-close-others", "blocked-close", "blocked-cancel",
	"starter-close-others-read", "starter-cancel-others-read", "range-then-cancel", "downstream-error-eof-walk-away", "peeked-inputs-then-stop", "tiny-input-exhaust-rounds"}

// GenerateParallel: Variant = 10*options + generator behaviour
const (
	gSucceeds  = 0 // n values, then io.EOF (in the blocked modes: then blocks, context guarded)
	gCtxErr    = 1 // n values, then waits for its context to end and returns ctx.Err()
	gFailing   = 2 // n values, then EVERY call fails with an ordinary error; the generator does not look at its context ("the source went down")
	gPanicking = 3 // n values, then every call panics; the generator does not look at its context
	gWrapped   = 4 // n values, then an error that WRAPS io.EOF: the end of the stream everywhere in the library (errors.Is)

	oNone            = 0
	oContinueOnError = 1
	oContinueOnPanic = 2
	oContinueOnBoth  = 3
)

var behNames = []string{"succeeds", "returns-ctx-err", "fails-ignoring-ctx", "panics-ignoring-ctx", "ends-with-wrapped-EOF"}
var optNames = []string{"abort", "ContinueOnError", "ContinueOnPanic", "ContinueOnError+ContinueOnPanic"}

var errSourceDown = errors.New("source is down")

// genCalls counts the calls of the GenerateParallel generator of the current scenario; scenarioOver is
// the end of the scenario: from then on the generator reports io.EOF whatever its behaviour (so that a
// worker the library failed to stop does not outlive the scenario it belongs to).
var (
	genCalls     atomic.Int64
	scenarioOver atomic.Bool
)

func genProducer(c Case, block bool) fun.Producer[int64] {
	beh := c.Variant % 10
	var idx atomic.Int64
	return func(ctx context.Context) (int64, error) {
		genCalls.Add(1)
		i := int(idx.Add(1) - 1)
		if i < c.N {
			return int64(i), nil
		}
		if scenarioOver.Load() {
			return 0, io.EOF
		}
		switch beh {
		case gCtxErr:
			<-ctx.Done()
			return 0, ctx.Err()
		case gFailing:
			time.Sleep(200 * time.Microsecond) // a failing call takes a moment (keeps the error collector small); no verdict depends on it
			return 0, errSourceDown
		case gPanicking:
			time.Sleep(200 * time.Microsecond)
			panic("source is down")
		case gWrapped:
			if i > c.N+64 { // a worker that keeps polling the drained generator: slow it down (keeps the error collector small)
				time.Sleep(200 * time.Microsecond)
			}
			return 0, fmt.Errorf("generator drained: %w", io.EOF)
		}
		if block {
			<-ctx.Done()
			return 0, ctx.Err()
		}
		return 0, io.EOF
	}
}

func genOptions(c Case) []fun.OptionProvider[*fun.WorkerGroupConf] {
	opts := []fun.OptionProvider[*fun.WorkerGroupConf]{fun.WorkerGroupConfNumWorkers(c.Workers)}
	switch c.Variant / 10 {
	case oContinueOnError:
		opts = append(opts, fun.WorkerGroupConfContinueOnError())
	case oContinueOnPanic:
		opts = append(opts, fun.WorkerGroupConfContinueOnPanic())
	case oContinueOnBoth:
		opts = append(opts, fun.WorkerGroupConfContinueOnError(), fun.WorkerGroupConfContinueOnPanic())
	}
	return opts
}

// genAborts: after its n values the generator fails and nothing makes the workers continue: the failure aborts the run
func genAborts(c Case) bool {
	b := c.Variant % 10
	return c.Construct == cGenerate && (b == gFailing || b == gPanicking) && !genSpins(c)
}

// genSpins: after its n values the generator fails for ever and the options make the workers retry
func genSpins(c Case) bool {
	o, b := c.Variant/10, c.Variant%10
	return c.Construct == cGenerate && ((b == gFailing && (o == oContinueOnError || o == oContinueOnBoth)) ||
		(b == gPanicking && (o == oContinueOnPanic || o == oContinueOnBoth)))
}

type Case struct {
	ID        int    `json:"id"`
	Construct int    `json:"construct"`
	Name      string `json:"name"`
	N         int    `json:"n"`
	Workers   int    `json:"workers"`
	Cap       int    `json:"cap"`
	K         int    `json:"k"`
	Mode      int    `json:"mode"`
	ModeName  string `json:"mode_name"`
	Variant   int    `json:"variant"` // mode 4: 0 = the abandoned output is the one advanced first (the starter), 1 = another one; maps: 0 keys, 1 pairs, 2 values; GenerateParallel: 10*options + generator behaviour
	VarName   string `json:"variant_name,omitempty"`
	Procs     int    `json:"gomaxprocs"`
}

type Obs struct {
	Leak       int      `json:"leak"`        // fun goroutines still alive 10 s after the stop
	LeakAfter  int      `json:"leak_after"`  // ... and still alive 10 s after the user's root context ended as well
	Stuck      bool     `json:"stuck"`       // an advance / Close / the worker did not return within the bound
	CloseBlock bool     `json:"close_block"` // Close did not return within the bound
	EOF        bool     `json:"eof"`         // exhaust: the consumer saw io.EOF after exactly n items
	CallsAfter int      `json:"calls_after"` // GenerateParallel: generator calls made after the stop + the leak bound, within a further 20 ms
	NotClosed  bool     `json:"not_closed"`  // BufferedChannel: the channel was not closed within the bound after the cancellation
	Taken      int      `json:"taken"`
	Detail     string   `json:"detail,omitempty"`
	Stacks     []string `json:"stacks,omitempty"`
}

const (
	leakBound = 10 * time.Second
	callBound = 10 * time.Second
	rootBound = 60 * time.Second
)

// ---------------------------------------------------------------- goroutine accounting

var goroutineHeader = regexp.MustCompile(`^goroutine (\d+) \[`)

// funGoroutines returns id -> stack of every goroutine that has a frame in (or was created by) the
// library under test. The driver's own package is verif/harness/..., so a driver goroutine only
// matches while it is inside a call into the library (a consumer blocked in ReadOne, say).
func funGoroutines() map[string]string {
	buf := make([]byte, 1<<20)
	for {
		n := runtime.Stack(buf, true)
		if n < len(buf) {
			buf = buf[:n]
			break
		}
		buf = make([]byte, 2*len(buf))
	}
	out := map[string]string{}
	for _, g := range strings.Split(string(buf), "\n\n") {
		if !strings.Contains(g, "github.com/tychoish/fun") {
			continue
		}
		m := goroutineHeader.FindStringSubmatch(g)
		if m == nil {
			continue
		}
		out[m[1]] = g
	}
	return out
}

// waitNoNew polls until no library goroutine exists that is not in `before`, or the bound expires;
// it returns the survivors.
func waitNoNew(before map[string]string, bound time.Duration) []string {
	deadline := time.Now().Add(bound)
	pause := 20 * time.Microsecond
	for {
		var surv []string
		for id, st := range funGoroutines() {
			if _, ok := before[id]; !ok {
				surv = append(surv, st)
			}
		}
		if len(surv) == 0 || time.Now().After(deadline) {
			return surv
		}
		runtime.Gosched()
		time.Sleep(pause)
		if pause < 20*time.Millisecond {
			pause *= 2
		}
	}
}

// bounded runs f and reports whether it returned within the bound.
func bounded(bound time.Duration, f func()) bool {
	done := make(chan struct{})
	go func() { defer close(done); f() }()
	select {
	case <-done:
		return true
	case <-time.After(bound):
		return false
	}
}

// ---------------------------------------------------------------- sources and constructs

// source yields vals and then reports io.EOF — or, when block is set, blocks (context-guarded, as a
// well behaved producer does) instead of reporting the end.
func source(vals []int64, block bool) *fun.Iterator[int64] {
	var idx atomic.Int64
	return fun.Generator(func(ctx context.Context) (int64, error) {
		i := int(idx.Add(1) - 1)
		if i < len(vals) {
			return vals[i], nil
		}
		if block {
			<-ctx.Done()
			return 0, ctx.Err()
		}
		return 0, io.EOF
	})
}

func seq(lo, hi int) []int64 {
	out := make([]int64, 0, hi-lo)
	for i := lo; i < hi; i++ {
		out = append(out, int64(i))
	}
	return out
}

func chunk(n, w, i int) []int64 { return seq(i*n/w, (i+1)*n/w) }

// reader is the consumer's view of a construct with one output.
type reader struct {
	read  func(ctx context.Context) (int64, error)
	close func() error // nil: the output cannot be closed (a bare channel)
}

func iterReader(it *fun.Iterator[int64]) reader { return reader{read: it.ReadOne, close: it.Close} }

// buildIter constructs the pipelines whose output is an iterator (nil for the others).
func buildIter(c Case, block bool) *fun.Iterator[int64] {
	w, n := c.Workers, c.N
	opt := fun.WorkerGroupConfNumWorkers(w)
	switch c.Construct {
	case cSplit: // only output 0 is used (modes 10, 12)
		return source(seq(0, n), block).Split(w)[0]
	case cMap:
		return fun.Map(source(seq(0, n), block), func(_ context.Context, v int64) (int64, error) { return v, nil }, opt)
	case cParallelBuffer:
		return source(seq(0, n), block).ParallelBuffer(w)
	case cBuffer:
		return source(seq(0, n), block).Buffer(c.Cap)
	case cMerge:
		srcs := make([]*fun.Iterator[int64], w)
		for i := range srcs {
			srcs[i] = source(chunk(n, w, i), block)
		}
		return fun.MergeIterators(srcs...)
	case cGenerate:
		return genProducer(c, block).GenerateParallel(genOptions(c)...)
	case cChain:
		srcs := make([]*fun.Iterator[int64], w)
		for i := range srcs {
			srcs[i] = source(chunk(n, w, i), block && i == w-1)
		}
		return itertool.Chain(srcs...)
	case cMergeSlices:
		sls := make([][]int64, w)
		for i := range sls {
			sls[i] = chunk(n, w, i)
		}
		return itertool.MergeSlices(sls...)
	case cDtMap:
		m := map[int64]int64{}
		for _, v := range seq(0, n) {
			m[v] = v
		}
		return dt.MapKeys(m)
	case cAdtMap:
		m := &adt.Map[int64, int64]{}
		for _, v := range seq(0, n) {
			m.Store(v, v)
		}
		return m.Keys()
	}
	return nil
}

// peekedInput is a goroutine-backed iterator over vals (the source then blocks, context guarded) that has
// already been advanced once under appCtx - a context that outlives the consumer.
func peekedInput(appCtx context.Context, inner int, vals []int64) (*fun.Iterator[int64], error) {
	src := source(vals, true)
	var it *fun.Iterator[int64]
	switch inner {
	case inMap:
		it = fun.Map(src, func(_ context.Context, v int64) (int64, error) { return v, nil }, fun.WorkerGroupConfNumWorkers(2))
	case inSplit:
		it = src.Split(1)[0]
	case inPlain:
		it = src
	default:
		it = src.Buffer(1)
	}
	_, err := it.ReadOne(appCtx)
	return it, err
}

// build constructs the pipeline; root is the user's root context (only BufferedChannel needs a
// context at construction time; it gets the one the consumer will cancel).
func build(c Case, cctx context.Context, block bool) reader {
	w, n := c.Workers, c.N
	opt := fun.WorkerGroupConfNumWorkers(w)
	switch c.Construct {
	case cMap:
		return iterReader(fun.Map(source(seq(0, n), block), func(_ context.Context, v int64) (int64, error) { return v, nil }, opt))
	case cParallelBuffer:
		return iterReader(source(seq(0, n), block).ParallelBuffer(w))
	case cBuffer:
		return iterReader(source(seq(0, n), block).Buffer(c.Cap))
	case cMerge:
		srcs := make([]*fun.Iterator[int64], w)
		for i := range srcs {
			srcs[i] = source(chunk(n, w, i), block)
		}
		return iterReader(fun.MergeIterators(srcs...))
	case cGenerate:
		return iterReader(genProducer(c, block).GenerateParallel(genOptions(c)...))
	case cChain:
		srcs := make([]*fun.Iterator[int64], w)
		for i := range srcs {
			srcs[i] = source(chunk(n, w, i), block && i == w-1)
		}
		return iterReader(itertool.Chain(srcs...))
	case cMergeSlices:
		sls := make([][]int64, w)
		for i := range sls {
			sls[i] = chunk(n, w, i)
		}
		return iterReader(itertool.MergeSlices(sls...))
	case cMergeSliceIters:
		sls := make([][]int64, w)
		for i := range sls {
			sls[i] = chunk(n, w, i)
		}
		var idx atomic.Int64
		outer := fun.Generator(func(ctx context.Context) ([]int64, error) {
			i := int(idx.Add(1) - 1)
			if i < len(sls) {
				return sls[i], nil
			}
			if block {
				<-ctx.Done()
				return nil, ctx.Err()
			}
			return nil, io.EOF
		})
		return iterReader(itertool.MergeSliceIterators(outer))
	case cBufferedChannel:
		ch := source(seq(0, n), block).BufferedChannel(cctx, c.Cap)
		return reader{read: func(ctx context.Context) (int64, error) {
			select {
			case v, ok := <-ch:
				if !ok {
					return 0, io.EOF
				}
				return v, nil
			case <-ctx.Done():
				return 0, ctx.Err()
			}
		}}
	case cDtMap:
		m := map[int64]int64{}
		for _, v := range seq(0, n) {
			m[v] = v
		}
		switch c.Variant {
		case 0:
			return iterReader(dt.MapKeys(m))
		case 2:
			return iterReader(dt.MapValues(m))
		default:
			it := dt.MapIterator(m)
			return reader{read: func(ctx context.Context) (int64, error) { p, err := it.ReadOne(ctx); return p.Key, err }, close: it.Close}
		}
	case cAdtMap:
		m := &adt.Map[int64, int64]{}
		for _, v := range seq(0, n) {
			m.Store(v, v)
		}
		switch c.Variant {
		case 0:
			return iterReader(m.Keys())
		case 2:
			return iterReader(m.Values())
		default:
			it := m.Iterator()
			return reader{read: func(ctx context.Context) (int64, error) { p, err := it.ReadOne(ctx); return p.Key, err }, close: it.Close}
		}
	}
	panic(fmt.Sprintf("build: construct %d", c.Construct))
}

// ---------------------------------------------------------------- scenarios

// take reads up to k items; it returns how many it got and the error that ended it (nil if k reached).
func take(ctx context.Context, rd reader, k int) (int, error) {
	for i := 0; i < k; i++ {
		if _, err := rd.read(ctx); err != nil {
			return i, err
		}
	}
	return k, nil
}

// closeTwice calls Close twice from a fresh goroutine and reports whether both returned in time.
func closeTwice(rd reader) bool {
	return bounded(callBound, func() { _ = rd.close(); _ = rd.close() })
}

func stuckErr(root context.Context, err error) bool {
	return root.Err() != nil || errors.Is(err, context.DeadlineExceeded)
}

// runSingle drives a construct with one output through the scenario. root is the user's root
// context (generous timeout: a hang becomes a reported failure), cctx the context handed to every
// advance (the one "cancel" cancels).
func runSingle(c Case, root context.Context, obs *Obs) {
	cctx, cancel := context.WithCancel(root) // never cancelled implicitly: only the stop mode (or the end of the scenario, through root) ends it
	_ = cancel
	blocked := c.Mode == mBlockedClose || c.Mode == mBlockedCancl
	rd := build(c, cctx, blocked)

	switch c.Mode {
	case mExhaust:
		var got int
		var err error
		bound := rootBound
		if c.Construct == cGenerate && c.Variant != 0 {
			bound = callBound
		}
		ok := bounded(bound, func() { got, err = take(cctx, rd, c.N+1) })
		obs.Taken = got
		obs.EOF = ok && got == c.N && errors.Is(err, io.EOF)
		if !obs.EOF {
			obs.Stuck = !ok || stuckErr(root, err)
			obs.Detail = fmt.Sprintf("exhaust: got %d of %d items, then err=%v returned=%v", got, c.N, err, ok)
		}
		if rd.close != nil {
			obs.CloseBlock = !closeTwice(rd)
		}
	case mClose, mCancel, mCloseCancel:
		var got int
		var err error
		ok := bounded(rootBound, func() { got, err = take(cctx, rd, c.K) })
		obs.Taken = got
		if aborted := ok && got < c.K && genAborts(c) && err != nil && root.Err() == nil; aborted {
			// the generator's failure aborted the run (values in flight may be dropped): the iterator ended early, by design
		} else if !ok || got != c.K {
			obs.Stuck = true
			obs.Detail = fmt.Sprintf("could not take %d items of %d: got %d, err=%v returned=%v", c.K, c.N, got, err, ok)
		}
		if c.Mode != mCancel {
			obs.CloseBlock = !closeTwice(rd)
		}
		if c.Mode != mClose {
			cancel()
		}
		// after the stop an advance must not block (it reports the end or the context error)
		if !bounded(callBound, func() { _, _ = rd.read(cctx) }) {
			obs.Stuck = true
			obs.Detail += " advance after stop did not return"
		}
	case mBlockedClose, mBlockedCancl:
		took := make(chan struct{})
		ret := make(chan error, 1)
		go func() {
			got, err := take(cctx, rd, c.K)
			obs.Taken = got
			close(took)
			if err == nil {
				_, err = rd.read(cctx) // the source blocks now: so does this call
			}
			ret <- err
		}()
		select {
		case <-took:
		case <-time.After(rootBound):
			obs.Stuck = true
			obs.Detail = "consumer never got the first k items"
			return
		}
		runtime.Gosched()
		if c.Mode == mBlockedClose {
			obs.CloseBlock = !closeTwice(rd)
		} else {
			cancel()
		}
		select {
		case err := <-ret:
			if err == nil {
				obs.Detail = "blocked advance returned a value although the source had none"
				obs.Stuck = true
			}
		case <-time.After(callBound):
			obs.Stuck = true
			obs.Detail = fmt.Sprintf("consumer still blocked in ReadOne %v after %s", callBound, modeNames[c.Mode])
		}
	}
}

// runSplit: the outputs are read sequentially by the driver, output 0 first — so output 0 is the
// one whose first advance starts the splitting goroutine (the "starter").
func runSplit(c Case, root context.Context, obs *Obs) {
	cctx, cancel := context.WithCancel(root) // never cancelled implicitly: only the stop mode (or the end of the scenario, through root) ends it
	_ = cancel
	blocked := c.Mode == mBlockedClose || c.Mode == mBlockedCancl
	outs := source(seq(0, c.N), blocked).Split(c.Workers)
	rds := make([]reader, len(outs))
	for i := range outs {
		rds[i] = iterReader(outs[i])
	}
	rr := 0
	rd := reader{read: func(ctx context.Context) (int64, error) { r := rds[rr%len(rds)]; rr++; return r.read(ctx) }}
	closeAll := func(skip int) bool {
		return bounded(callBound, func() {
			for rep := 0; rep < 2; rep++ {
				for i := range rds {
					if i != skip {
						_ = rds[i].close()
					}
				}
			}
		})
	}
	var got int
	var err error
	switch c.Mode {
	case mExhaust:
		// every output reports the end once the input is exhausted
		ok := bounded(rootBound, func() {
			got, err = take(cctx, rd, c.N)
			if err == nil {
				for i := range rds {
					if _, e := rds[i].read(cctx); !errors.Is(e, io.EOF) {
						err = fmt.Errorf("output %d after the last item: %v", i, e)
					}
				}
			}
		})
		obs.Taken = got
		obs.EOF = ok && got == c.N && err == nil
		if !obs.EOF {
			obs.Stuck = !ok || stuckErr(root, err)
			obs.Detail = fmt.Sprintf("exhaust: got %d of %d, err=%v returned=%v", got, c.N, err, ok)
		}
		obs.CloseBlock = !closeAll(-1)
	case mClose, mCancel, mCloseCancel, mAbandonClose:
		ok := bounded(rootBound, func() { got, err = take(cctx, rd, c.K) })
		obs.Taken = got
		if !ok || got != c.K {
			obs.Stuck = true
			obs.Detail = fmt.Sprintf("could not take %d items of %d: got %d, err=%v returned=%v", c.K, c.N, got, err, ok)
		}
		switch c.Mode {
		case mClose:
			obs.CloseBlock = !closeAll(-1)
		case mCancel:
			cancel()
		case mCloseCancel:
			obs.CloseBlock = !closeAll(-1)
			cancel()
		case mAbandonClose:
			skip := 0 // variant 0: abandon the starter
			if c.Variant == 1 {
				skip = len(rds) - 1 // abandon an output that did not start the splitter
			}
			obs.CloseBlock = !closeAll(skip)
		}
	case mBlockedClose, mBlockedCancl:
		took := make(chan struct{})
		ret := make(chan error, 1)
		go func() {
			g, e := take(cctx, rd, c.K)
			obs.Taken = g
			close(took)
			if e == nil {
				_, e = rds[0].read(cctx)
			}
			ret <- e
		}()
		select {
		case <-took:
		case <-time.After(rootBound):
			obs.Stuck, obs.Detail = true, "consumer never got the first k items"
			return
		}
		runtime.Gosched()
		if c.Mode == mBlockedClose {
			obs.CloseBlock = !closeAll(-1)
		} else {
			cancel()
		}
		select {
		case e := <-ret:
			if e == nil {
				obs.Stuck, obs.Detail = true, "blocked advance returned a value although the source had none"
			}
		case <-time.After(callBound):
			obs.Stuck, obs.Detail = true, fmt.Sprintf("consumer still blocked in ReadOne %v after %s", callBound, modeNames[c.Mode])
		}
	}
}

// runSplitStarter: one consumer goroutine per output, each with its OWN context. Output 0 takes k >= 1
// items first - its first advance starts the splitting goroutine, under the context of that advance.
// Then the consumers of the other outputs read until their iterator reports an error, and output 0 is
// closed (mode 7) or the context of its advances is cancelled (mode 8). Whatever the splitter was doing,
// it is gone now, so every other consumer - whose own context is still live - must come back within the
// bound. Variant 1: the source blocks (context guarded) after its n items instead of ending, so the
// splitter can only end through the cancellation.
func runSplitStarter(c Case, root context.Context, obs *Obs) {
	outs := source(seq(0, c.N), c.Variant == 1).Split(c.Workers)
	ctxs := make([]context.Context, len(outs))
	cancels := make([]context.CancelFunc, len(outs))
	for i := range outs {
		ctxs[i], cancels[i] = context.WithCancel(root)
	}
	var got int
	var err error
	ok := bounded(rootBound, func() { got, err = take(ctxs[0], iterReader(outs[0]), c.K) })
	obs.Taken = got
	if !ok || got != c.K {
		obs.Stuck = true
		obs.Detail = fmt.Sprintf("output 0 could not take %d items of %d: got %d, err=%v returned=%v", c.K, c.N, got, err, ok)
		return
	}
	type res struct {
		i, n int
		err  error
	}
	done := make(chan res, len(outs))
	for i := 1; i < len(outs); i++ {
		go func(i int) {
			n := 0
			for {
				if _, e := outs[i].ReadOne(ctxs[i]); e != nil {
					done <- res{i, n, e}
					return
				}
				n++
			}
		}(i)
	}
	runtime.Gosched()
	if c.Mode == mStarterClose {
		obs.CloseBlock = !bounded(callBound, func() { _ = outs[0].Close(); _ = outs[0].Close() })
	} else {
		cancels[0]()
	}
	deadline := time.After(callBound)
	for pending := len(outs) - 1; pending > 0; pending-- {
		select {
		case r := <-done:
			obs.Taken += r.n
		case <-deadline:
			obs.Stuck = true
			obs.Detail = fmt.Sprintf("%d consumer(s) of the other outputs (own contexts live) still parked in ReadOne %v after output 0 - which started the splitter - was %s (n=%d, k=%d)",
				pending, callBound, map[int]string{mStarterClose: "closed", mStarterCancl: "cancelled"}[c.Mode], c.N, c.K)
			return
		}
	}
}

// runDownstream: a lazy conversion stage sits downstream of the construct and fails with an ordinary error
// on its (k+1)-th item. ReadOne records the error and reports io.EOF: as far as the consumer can tell the
// input is exhausted. It walks away - no Close, no cancel; its context stays live. Everything that was
// started on behalf of the pipeline has to go away all the same.
func runDownstream(c Case, root context.Context, obs *Obs) {
	cctx, cancel := context.WithCancel(root)
	_ = cancel
	up := buildIter(c, false)
	var calls atomic.Int64
	out := fun.ConvertIterator(up, fun.ConverterErr(func(v int64) (int64, error) {
		if int(calls.Add(1)) == c.K+1 {
			return 0, errDownstream
		}
		return v, nil
	}))
	var got int
	var err error
	ok := bounded(rootBound, func() { got, err = take(cctx, iterReader(out), c.N+1) })
	obs.Taken = got
	if !ok || got != c.K || !errors.Is(err, io.EOF) {
		obs.Stuck = !ok || stuckErr(root, err)
		obs.Detail = fmt.Sprintf("expected %d items and io.EOF (the conversion fails on item %d of %d): got %d, err=%v returned=%v", c.K, c.K+1, c.N, got, err, ok)
	}
}

// runPeeked: the inputs of MergeIterators / Chain / Buffer are themselves goroutine-backed (Variant/10) and
// were advanced once under the application context (root: it outlives the consumer) before being handed
// over; their sources block (context guarded) after their items, so their pumps are alive when the
// consumer stops after k items (Variant%10: Close / cancel / Close then cancel).
func runPeeked(c Case, root context.Context, obs *Obs) {
	inner, stop := c.Variant/10, c.Variant%10
	w := c.Workers
	if c.Construct == cBuffer {
		w = 1
	}
	inputs := make([]*fun.Iterator[int64], w)
	for i := range inputs {
		var err error
		okp := bounded(rootBound, func() { inputs[i], err = peekedInput(root, inner, chunk(c.N, w, i)) })
		if !okp || err != nil {
			obs.Stuck, obs.Detail = true, fmt.Sprintf("could not peek at input %d: err=%v returned=%v", i, err, okp)
			return
		}
	}
	var out *fun.Iterator[int64]
	switch c.Construct {
	case cMerge:
		out = fun.MergeIterators(inputs...)
	case cChain:
		out = itertool.Chain(inputs...)
	default:
		out = inputs[0].Buffer(c.Cap)
	}
	cctx, cancel := context.WithCancel(root)
	defer cancel()
	rd := iterReader(out)
	var got int
	var err error
	ok := bounded(rootBound, func() { got, err = take(cctx, rd, c.K) })
	obs.Taken = got
	if !ok || got != c.K {
		obs.Stuck = true
		obs.Detail = fmt.Sprintf("could not take %d items: got %d, err=%v returned=%v", c.K, got, err, ok)
	}
	if stop == stCancelClose {
		cancel()
		obs.CloseBlock = !closeTwice(rd)
	} else {
		if stop != stCancel {
			obs.CloseBlock = !closeTwice(rd)
		}
		if stop != stClose {
			cancel()
		}
	}
	if !bounded(callBound, func() { _, _ = rd.read(cctx) }) {
		obs.Stuck = true
		obs.Detail += " advance after stop did not return"
	}
}

// runTiny: K rounds of "build the construct over n <= 1 items and read it to the end": every round must
// end in io.EOF within the bound (the workers finish just as the goroutine that waits for them starts).
func runTiny(c Case, root context.Context, obs *Obs) {
	obs.EOF = true
	for r := 0; r < c.K; r++ {
		it := buildIter(c, false)
		var got int
		var err error
		ok := bounded(callBound, func() { got, err = take(root, iterReader(it), c.N+1) })
		if !ok || got != c.N || !errors.Is(err, io.EOF) {
			obs.EOF = false
			obs.Stuck = !ok || stuckErr(root, err)
			obs.Taken = r
			obs.Detail = fmt.Sprintf("round %d of %d: finite input of %d item(s) did not end in io.EOF within %v: got %d, err=%v returned=%v", r, c.K, c.N, callBound, got, err, ok)
			return
		}
	}
	obs.Taken = c.K
}

// runRange: a receiver ranges over the channel of BufferedChannel / Channel - it has no context, only
// the closing of the channel ends it. After it has received k items the context the channel was built
// with is cancelled: the pump goes away, and the channel has to be closed. Variant 1: the source blocks
// (context guarded) after its n items, k = n: the pump can only end through the cancellation.
func runRange(c Case, root context.Context, obs *Obs) {
	cctx, cancel := context.WithCancel(root)
	defer cancel()
	ch := source(seq(0, c.N), c.Variant == 1).BufferedChannel(cctx, c.Cap)
	reached := make(chan struct{})
	finished := make(chan int, 1)
	go func() {
		n := 0
		if c.K == 0 {
			close(reached)
		}
		for range ch {
			n++
			if n == c.K {
				close(reached)
			}
		}
		finished <- n
	}()
	select {
	case <-reached:
	case <-time.After(rootBound):
		obs.Stuck, obs.Detail = true, "the receiver never got the first k items"
		return
	}
	cancel()
	select {
	case n := <-finished:
		obs.Taken = n
	case <-time.After(callBound):
		obs.NotClosed = true
		obs.Detail = fmt.Sprintf("the channel was not closed %v after its context was cancelled (receiver had %d of %d items, cap=%d)", callBound, c.K, c.N, c.Cap)
	}
}

// runProcessParallel: the construct is a blocking call; the consumer is the processing function.
// exhaust: it returns after n items. cancel: the context is cancelled from inside the k-th call
// (k = 0: before the call) and the call must return.
func runProcessParallel(c Case, root context.Context, obs *Obs) {
	cctx, cancel := context.WithCancel(root) // never cancelled implicitly: only the stop mode (or the end of the scenario, through root) ends it
	_ = cancel
	var count atomic.Int64
	if c.Mode == mCancel && c.K == 0 {
		cancel()
	}
	wk := source(seq(0, c.N), c.Mode == mBlockedCancl).ProcessParallel(func(_ context.Context, v int64) error {
		if n := count.Add(1); (c.Mode == mCancel || c.Mode == mBlockedCancl) && int(n) == c.K {
			if c.Mode == mCancel {
				cancel()
			}
		}
		return nil
	}, fun.WorkerGroupConfNumWorkers(c.Workers))
	if c.Mode == mBlockedCancl {
		// the source blocks after n = k items; cancel once all of them were processed
		go func() {
			for int(count.Load()) < c.K && root.Err() == nil {
				runtime.Gosched()
			}
			cancel()
		}()
	}
	var err error
	ok := bounded(rootBound, func() { err = wk.Run(cctx) })
	obs.Taken = int(count.Load())
	switch {
	case !ok || root.Err() != nil:
		obs.Stuck, obs.Detail = true, fmt.Sprintf("ProcessParallel did not return (processed %d of %d)", obs.Taken, c.N)
	case c.Mode == mExhaust:
		obs.EOF = err == nil && obs.Taken == c.N
		if !obs.EOF {
			obs.Detail = fmt.Sprintf("exhaust: processed %d of %d, err=%v", obs.Taken, c.N, err)
		}
	}
}

// ---------------------------------------------------------------- one scenario, oracle, Coq term

func runScenario(c Case) Obs {
	old := runtime.GOMAXPROCS(c.Procs)
	defer runtime.GOMAXPROCS(old)
	var obs Obs
	genCalls.Store(0)
	scenarioOver.Store(false)
	before := funGoroutines()
	root, rootCancel := context.WithTimeout(context.Background(), rootBound)
	switch c.Construct {
	case cSplit:
		if c.Mode == mDownstreamEr {
			runDownstream(c, root, &obs)
		} else if c.Mode == mTinyExhaust {
			runTiny(c, root, &obs)
		} else if c.Mode == mStarterClose || c.Mode == mStarterCancl {
			runSplitStarter(c, root, &obs)
		} else {
			runSplit(c, root, &obs)
		}
	case cProcessParallel:
		runProcessParallel(c, root, &obs)
	default:
		switch c.Mode {
		case mRangeCancel:
			runRange(c, root, &obs)
		case mDownstreamEr:
			runDownstream(c, root, &obs)
		case mPeekedInputs:
			runPeeked(c, root, &obs)
		case mTinyExhaust:
			runTiny(c, root, &obs)
		default:
			runSingle(c, root, &obs)
		}
	}
	// the consumer has stopped: everything started on its behalf must go away
	surv := waitNoNew(before, leakBound)
	obs.Leak = len(surv)
	if genSpins(c) { // is the generator still being called although the consumer is gone?
		c0 := genCalls.Load()
		time.Sleep(20 * time.Millisecond)
		obs.CallsAfter = int(genCalls.Load() - c0)
	}
	for i, s := range surv {
		if i < 3 {
			obs.Stacks = append(obs.Stacks, s)
		}
	}
	// end of scenario: the user's root context ends; whatever was left must go now (keeps scenarios independent)
	rootCancel()
	obs.LeakAfter = len(waitNoNew(before, leakBound))
	if obs.LeakAfter > 0 {
		scenarioOver.Store(true)
		waitNoNew(before, leakBound)
	}
	return obs
}

// expectedLeak: the one schedule for which the library is known to leave a goroutine behind
// (known finding C04:Split:starter-abandoned): the output that started the splitter is abandoned,
// the others are closed, and the splitter still holds an item it cannot hand to anybody.
func starterAbandoned(c Case) bool {
	return c.Construct == cSplit && c.Mode == mAbandonClose && c.Variant == 0 && c.Workers >= 2 && c.K >= 1 && c.K < c.N
}

var knownHits int

func oracle(run *kit.Run, c Case, o Obs) {
	fail := func(class, detail string) {
		run.OracleFail(c.ID, "C04:"+c.Name+":"+class, detail, c, o)
	}
	switch {
	case o.CloseBlock:
		fail("close-blocks", "Close (called twice from another goroutine) did not return within "+callBound.String()+" "+o.Detail)
	case o.NotClosed:
		fail("not-closed", o.Detail)
	case o.Stuck:
		fail("consumer-stuck", o.Detail)
	case (c.Mode == mExhaust || c.Mode == mTinyExhaust) && !o.EOF:
		fail("consumer-stuck", "finite input did not end in io.EOF: "+o.Detail)
	}
	if o.Leak > 0 {
		first := ""
		if len(o.Stacks) > 0 {
			first = o.Stacks[0]
		}
		if starterAbandoned(c) && o.Leak == 1 && strings.Contains(first, "ChanSend") && o.LeakAfter == 0 {
			knownHits++
			fail("starter-abandoned", fmt.Sprintf("Split(%d): output 0 started the splitter and was abandoned, the others were closed after %d of %d items: the splitter is still blocked in ChanSend.Write %v later (it ends with the user's context)", c.Workers, c.K, c.N, leakBound))
		} else {
			fail("goroutine-leak", fmt.Sprintf("%d goroutine(s) of the library still alive %v after the consumer stopped (%s at k=%d of n=%d, workers=%d%s; generator calls in the next 20 ms: %d): %s",
				o.Leak, leakBound, modeNames[c.Mode], c.K, c.N, c.Workers, c.VarName, o.CallsAfter, firstLines(first, 14)))
		}
	} else if o.LeakAfter > 0 {
		fail("goroutine-leak", fmt.Sprintf("%d goroutine(s) still alive after the user's root context ended", o.LeakAfter))
	} else if o.CallsAfter > 0 {
		fail("goroutine-leak", fmt.Sprintf("the generator was called %d more time(s) in the 20 ms that followed the stop + %v", o.CallsAfter, leakBound))
	}
}

func firstLines(s string, n int) string {
	l := strings.Split(s, "\n")
	if len(l) > n {
		l = l[:n]
	}
	return strings.Join(l, " | ")
}

func execCase(run *kit.Run, c Case, verbose bool) {
	c.Name, c.ModeName = names[c.Construct], modeNames[c.Mode]
	if c.Mode == mPeekedInputs {
		c.VarName = ", inputs " + innerNames[c.Variant/10] + " peeked under a live context, stop=" + stopNames[c.Variant%10]
	} else if c.Construct == cGenerate && c.Variant != 0 {
		c.VarName = ", generator " + behNames[c.Variant%10] + ", " + optNames[c.Variant/10]
	}
	o := runScenario(c)
	if verbose {
		fmt.Printf("%s n=%d workers=%d cap=%d k=%d mode=%s variant=%d gomaxprocs=%d\n  taken=%d eof=%v stuck=%v close_blocks=%v leak=%d leak_after_root_cancel=%d %s\n",
			c.Name, c.N, c.Workers, c.Cap, c.K, c.ModeName, c.Variant, c.Procs, o.Taken, o.EOF, o.Stuck, o.CloseBlock, o.Leak, o.LeakAfter, o.Detail)
		for _, s := range o.Stacks {
			fmt.Println(s)
		}
	}
	oracle(run, c, o)
	run.Count(c.Name)
	run.Count("mode=" + c.ModeName)
	run.Count(fmt.Sprintf("workers=%d", c.Workers))
	term := fmt.Sprintf("C04Case %s %s %s %s %s %s %s %s %s %s %s", kit.ZI(c.ID), kit.ZI(c.Construct), kit.ZI(c.N), kit.ZI(c.Workers),
		kit.ZI(c.Cap), kit.ZI(c.K), kit.ZI(c.Mode), kit.ZI(c.Variant), kit.ZI(o.Leak), kit.Bool(o.Stuck || o.CloseBlock || o.NotClosed), kit.Bool(o.EOF))
	run.Case(c.ID, c, term, fmt.Sprintf("%d|%d|%d|%d|%d|%d|%d", c.Construct, c.N, c.Workers, c.Cap, c.K, c.Mode, c.Variant),
		c.N >= 1 && c.Mode != mExhaust)
}

// ---------------------------------------------------------------- enumeration

func modesFor(k int) []int {
	switch k {
	case cProcessParallel:
		return []int{mExhaust, mCancel, mBlockedCancl}
	case cBufferedChannel: // a bare channel has no Close
		return []int{mExhaust, mCancel, mBlockedCancl, mRangeCancel}
	case cMergeSlices, cDtMap, cAdtMap: // no source that could block
		return []int{mExhaust, mClose, mCancel, mCloseCancel}
	case cSplit:
		return []int{mExhaust, mClose, mCancel, mCloseCancel, mAbandonClose, mBlockedClose, mBlockedCancl, mStarterClose, mStarterCancl}
	default:
		return []int{mExhaust, mClose, mCancel, mCloseCancel, mBlockedClose, mBlockedCancl}
	}
}

func main() {
	run := kit.Start()
	run.Header = "From FunV Require Import Base.Tac Corr.C04_corr."
	run.Footer = "Definition M := Eval vm_compute in mismatches cases.\nPrint M."
	run.CaseType = "case"
	run.Rule = "every construct (Split, ProcessParallel, Map, ParallelBuffer, Buffer, MergeIterators, GenerateParallel, Chain, MergeSlices, MergeSliceIterators, BufferedChannel, dt.Map, adt.Map) x input length n x cut point k in 0..n x stop mode (exhaust, Close, cancel, Close-then-cancel, abandon-one-Split-output-close-others, consumer blocked then Close twice from another goroutine / cancel) x workers x GOMAXPROCS; Split additionally with one consumer goroutine per output, each with its own context: output 0 (the starter) takes k items and is closed / its context cancelled while the others keep reading (finite source / source that blocks after n items) - they must return within 10 s; BufferedChannel / Channel additionally with a receiver that ranges over the channel while the construction context is cancelled after k items - the channel must be closed; GenerateParallel additionally x options {abort, ContinueOnError, ContinueOnPanic, both} x generator behaviour after its n values {io.EOF, waits for ctx and returns ctx.Err(), fails for ever ignoring ctx, panics for ever ignoring ctx} with the oracle 'no goroutine left AND the generator is not called any more'; every iterator construct additionally with a lazy conversion stage downstream that fails with an ordinary error at item k+1 (the consumer sees k items and io.EOF and walks away: no Close, no cancel); MergeIterators / Chain / Buffer additionally over goroutine-backed inputs {Buffer(1), Map, Split(1)[0]} that were advanced once under a live application context before being handed over, stop {Close, cancel, both} at k; MergeIterators / Map / GenerateParallel / ParallelBuffer / Split additionally with thousands of rounds of reading an input of 0 or 1 items to io.EOF at GOMAXPROCS 2/4/8; distinct = distinct (construct, n, workers, cap, k, mode, variant); non-trivial = n >= 1 and the consumer stops before the end"

	if run.Replay != "" {
		var c Case
		if err := kit.ReadReplayCase(run.Replay, &c); err != nil {
			panic(err)
		}
		for i := 0; i < 20 && run.NOracle == 0; i++ { // schedule dependent: a few repetitions
			c.Procs = []int{c.Procs, 1, 2, 4, 8}[i%5]
			if c.Procs == 0 {
				c.Procs = 4
			}
			execCase(run, c, i == 0)
		}
		run.Finish()
		return
	}

	id := 0
	unexpected := func() int { return run.NOracle - knownHits }
	do := func(c Case) {
		if unexpected() >= 3 { // enough evidence; every further failing scenario costs a full time bound
			return
		}
		c.ID = id
		id++
		if c.Procs == 0 {
			c.Procs = []int{1, 2, 4, 8}[run.Rand.Intn(4)]
		}
		execCase(run, c, false)
	}
	// corpus: the known finding, always exercised (each takes the full 10 s leak bound), and its two neighbours
	do(Case{Construct: cSplit, N: 6, Workers: 2, K: 1, Mode: mAbandonClose, Variant: 0, Procs: 4})
	do(Case{Construct: cSplit, N: 6, Workers: 2, K: 1, Mode: mAbandonClose, Variant: 1, Procs: 4})
	do(Case{Construct: cSplit, N: 6, Workers: 2, K: 6, Mode: mAbandonClose, Variant: 0, Procs: 4})
	if run.Thorough() {
		do(Case{Construct: cSplit, N: 4, Workers: 3, K: 2, Mode: mAbandonClose, Variant: 0})
		do(Case{Construct: cSplit, N: 9, Workers: 8, K: 8, Mode: mAbandonClose, Variant: 0})
	}

	constructs := []int{cSplit, cProcessParallel, cMap, cParallelBuffer, cBuffer, cMerge, cGenerate, cChain, cMergeSlices,
		cMergeSliceIters, cBufferedChannel, cDtMap, cAdtMap}
	ns := []int{0, 1, 2, 3, 6}
	workers := []int{1, 2, 3}
	rounds := run.Pick(2, 10)
	if run.Thorough() {
		ns = []int{0, 1, 2, 3, 6, 9, 17}
		workers = []int{1, 2, 3, 8}
	}
	for round := 0; round < rounds; round++ {
		for _, k := range constructs {
			for _, w := range workers {
				caps := []int{0}
				if k == cBuffer || k == cBufferedChannel {
					caps = []int{0, 1, 4}
					if w != 1 {
						continue
					}
				}
				variants := []int{0}
				if k == cDtMap || k == cAdtMap {
					variants = []int{0, 1, 2}
					if w != 1 {
						continue
					}
				}
				for _, n := range ns {
					for _, cp := range caps {
						for _, vr := range variants {
							for _, m := range modesFor(k) {
								switch m {
								case mExhaust:
									do(Case{Construct: k, N: n, Workers: w, Cap: cp, K: n, Mode: m, Variant: vr})
								case mBlockedClose, mBlockedCancl: // the source blocks after its n items: k = n
									do(Case{Construct: k, N: n, Workers: w, Cap: cp, K: n, Mode: m, Variant: vr})
								case mStarterClose, mStarterCancl:
									if w < 2 {
										continue
									}
									for cut := 1; cut <= n; cut++ {
										do(Case{Construct: k, N: n, Workers: w, K: cut, Mode: m, Variant: 0})
									}
									if n >= 1 { // the source blocks after its n items
										do(Case{Construct: k, N: n, Workers: w, K: 1, Mode: m, Variant: 1})
										do(Case{Construct: k, N: n, Workers: w, K: n, Mode: m, Variant: 1})
									}
								case mRangeCancel:
									for cut := 0; cut <= n; cut++ {
										do(Case{Construct: k, N: n, Workers: w, Cap: cp, K: cut, Mode: m, Variant: 0})
									}
									do(Case{Construct: k, N: n, Workers: w, Cap: cp, K: n, Mode: m, Variant: 1})
								case mAbandonClose:
									if w < 2 {
										continue
									}
									for cut := 1; cut <= n; cut++ {
										do(Case{Construct: k, N: n, Workers: w, K: cut, Mode: m, Variant: 1})
									}
									if n >= 1 { // starter abandoned, nothing left to hand over: no leak
										do(Case{Construct: k, N: n, Workers: w, K: n, Mode: m, Variant: 0})
									}
								default:
									for cut := 0; cut <= n; cut++ {
										do(Case{Construct: k, N: n, Workers: w, Cap: cp, K: cut, Mode: m, Variant: vr})
									}
								}
							}
						}
					}
				}
			}
		}
	}
	// a lazy stage downstream fails with an ordinary error at item k+1; the consumer sees EOF and walks away
	dns, dws := []int{1, 2, 4}, []int{1, 2, 3}
	if run.Thorough() {
		dns, dws = []int{1, 2, 3, 6, 9, 17}, []int{1, 2, 3, 8}
	}
	for round := 0; round < run.Pick(1, 4); round++ {
		for _, k := range []int{cSplit, cMap, cParallelBuffer, cBuffer, cMerge, cGenerate, cChain, cMergeSlices, cDtMap, cAdtMap} {
			for _, w := range dws {
				caps := []int{0}
				if k == cBuffer {
					caps = []int{0, 1, 4}
				}
				if (k == cBuffer || k == cDtMap || k == cAdtMap) && w != 1 {
					continue
				}
				for _, n := range dns {
					for _, cp := range caps {
						for cut := 0; cut < n; cut++ {
							do(Case{Construct: k, N: n, Workers: w, Cap: cp, K: cut, Mode: mDownstreamEr})
						}
					}
				}
			}
		}
	}
	// goroutine-backed inputs, advanced once under a live context, handed to MergeIterators / Chain / Buffer
	for round := 0; round < run.Pick(1, 4); round++ {
		for _, k := range []int{cMerge, cChain, cBuffer} {
			for _, w := range []int{1, 2, 3} {
				if (k == cBuffer || k == cChain) && w != 1 { // Chain closes the inputs it has reached, not the ones still ahead of it
					continue
				}
				for inner := inBuffer; inner <= inSplit; inner++ {
					for stop := stClose; stop <= stCloseCancel; stop++ {
						// 8 items per input, the peek takes one; k in {1, 2}: the outer stage has started (it takes over its
						// inputs at its first advance) and an item is left, so its worker is parked in its SEND when the
						// consumer stops. (A worker parked inside the input's ReadOne is not released by the later
						// caller's context at all: the input keeps the context of its first advance - finding #22's root cause.)
						per := 8 // enough for Buffer's prefetch (cap 1 + one in hand) to leave its pump parked in the send as well
						for _, cut := range []int{1, 2} {
							do(Case{Construct: k, N: per * w, Workers: w, Cap: 1, K: cut, Mode: mPeekedInputs, Variant: 10*inner + stop})
						}
					}
				}
			}
		}
	}
	// Buffer over an input that was advanced once under a live context and whose source then runs dry (blocks,
	// context guarded): the consumer takes everything there is, so Buffer's pump is parked INSIDE the input's
	// read - which listens to the context of the input's first advance only. Buffer's close hook closes the
	// input, and that releases the pump: Close / Close-then-cancel / cancel-then-Close must leave nothing behind.
	// (cancel alone cannot; MergeIterators has no close hook: both excluded, see above.)
	for round := 0; round < run.Pick(1, 4); round++ {
		for _, inner := range []int{inPlain, inBuffer, inSplit, inMap} {
			for _, stop := range []int{stClose, stCloseCancel, stCancelClose} {
				for _, per := range []int{2, 3, 5} {
					for _, cp := range []int{0, 1, 4} {
						do(Case{Construct: cBuffer, N: per, Workers: 1, Cap: cp, K: per - 1, Mode: mPeekedInputs, Variant: 10*inner + stop})
					}
				}
			}
		}
	}
	// empty / one-item inputs read to the end, many rounds, real parallelism
	tinyRounds := run.Pick(1500, 20000)
	for _, k := range []int{cMerge, cMap, cGenerate, cParallelBuffer, cSplit} {
		for _, w := range []int{1, 2, 3, 8} {
			for _, n := range []int{0, 1} {
				for _, procs := range []int{2, 4, 8} {
					do(Case{Construct: k, N: n, Workers: w, K: tinyRounds, Mode: mTinyExhaust, Procs: procs})
				}
			}
		}
	}
	// GenerateParallel: options x generator behaviours (Variant = 10*options + behaviour)
	gns, gws := []int{1, 3}, []int{1, 2, 3}
	if run.Thorough() {
		gns, gws = []int{0, 1, 2, 3, 6, 9}, []int{1, 2, 3, 8}
	}
	for round := 0; round < run.Pick(1, 4); round++ {
		for opt := oNone; opt <= oContinueOnBoth; opt++ {
			for beh := gSucceeds; beh <= gWrapped; beh++ {
				vr := 10*opt + beh
				if vr == 0 {
					continue // the main enumeration
				}
				for _, w := range gws {
					for _, n := range gns {
						if beh == gSucceeds || beh == gWrapped { // a finite generator: the consumer must reach io.EOF
							do(Case{Construct: cGenerate, N: n, Workers: w, K: n, Mode: mExhaust, Variant: vr})
						}
						if beh == gWrapped && n > 0 {
							continue // the stop modes of a generator that simply ends are covered by behaviour 0
						}
						for _, m := range []int{mClose, mCancel, mCloseCancel} {
							for cut := 0; cut <= n; cut++ {
								do(Case{Construct: cGenerate, N: n, Workers: w, K: cut, Mode: m, Variant: vr})
							}
						}
						// all n values taken, the consumer is parked in ReadOne (the generator blocks / fails for ever), then Close / cancel
						do(Case{Construct: cGenerate, N: n, Workers: w, K: n, Mode: mBlockedClose, Variant: vr})
						do(Case{Construct: cGenerate, N: n, Workers: w, K: n, Mode: mBlockedCancl, Variant: vr})
					}
				}
			}
		}
	}
	run.Finish()
}
