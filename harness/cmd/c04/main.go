// Driver for C04: pipelines terminate — no stuck consumer, no leaked goroutine.
//
// A scenario = (construct, input length n, workers, buffer size, cut point k, stop mode).
// The REAL construct is built over a finite source, the consumer takes k items and then stops in
// the given way; afterwards the goroutine dump (runtime.Stack, all goroutines) is polled until no
// goroutine with a frame in github.com/tychoish/fun remains that was not there before the
// scenario, or a 10 s bound expires. Verdicts never depend on short sleeps: "leaked" and "stuck"
// both mean "still there after 10 s".
package main

import (
	"context"
	"errors"
	"fmt"
	"io"
	"regexp"
	"runtime"
	"strings"
	"sync/atomic"
	"time"

	"github.com/tychoish/fun"
	"github.com/tychoish/fun/adt"
	"github.com/tychoish/fun/dt"
	"github.com/tychoish/fun/itertool"

	"verif/harness/kit"
)

// construct codes — must match coq/Corr/C04_corr.v
const (
	cSplit           = 1
	cProcessParallel = 2
	cMap             = 3
	cParallelBuffer  = 4
	cBuffer          = 5
	cMerge           = 6
	cGenerate        = 7
	cChain           = 9
	cMergeSlices     = 10
	cMergeSliceIters = 11
	cBufferedChannel = 12
	cDtMap           = 13
	cAdtMap          = 14
)

var names = map[int]string{
	cSplit: "Split", cProcessParallel: "ProcessParallel", cMap: "Map", cParallelBuffer: "ParallelBuffer",
	cBuffer: "Buffer", cMerge: "MergeIterators", cGenerate: "GenerateParallel", cChain: "Chain",
	cMergeSlices: "MergeSlices", cMergeSliceIters: "MergeSliceIterators", cBufferedChannel: "BufferedChannel",
	cDtMap: "dt.Map", cAdtMap: "adt.Map",
}

// stop modes — must match coq/Corr/C04_corr.v
const (
	mExhaust      = 0 // read until the iterator reports the end
	mClose        = 1 // take k items, Close
	mCancel       = 2 // take k items, cancel the context passed to the advances
	mCloseCancel  = 3 // take k items, Close, then cancel
	mAbandonClose = 4 // Split only: take k items, abandon one output, Close the others
	mBlockedClose = 5 // source blocks after k items; consumer blocked in ReadOne; Close twice from another goroutine
	mBlockedCancl = 6 // same, but the context is cancelled
)

var modeNames = []string{"exhaust", "close", "cancel", "close-then-cancel", "abandon-one-close-others", "blocked-close", "blocked-cancel"}

type Case struct {
	ID        int    `json:"id"`
	Construct int    `json:"construct"`
	Name      string `json:"name"`
	N         int    `json:"n"`
	Workers   int    `json:"workers"`
	Cap       int    `json:"cap"`
	K         int    `json:"k"`
	Mode      int    `json:"mode"`
	ModeName  string `json:"mode_name"`
	Variant   int    `json:"variant"` // mode 4: 0 = the abandoned output is the one advanced first (the starter), 1 = another one; maps: 0 keys, 1 pairs, 2 values
	Procs     int    `json:"gomaxprocs"`
}

type Obs struct {
	Leak       int      `json:"leak"`        // fun goroutines still alive 10 s after the stop
	LeakAfter  int      `json:"leak_after"`  // ... and still alive 10 s after the user's root context ended as well
	Stuck      bool     `json:"stuck"`       // an advance / Close / the worker did not return within the bound
	CloseBlock bool     `json:"close_block"` // Close did not return within the bound
	EOF        bool     `json:"eof"`         // exhaust: the consumer saw io.EOF after exactly n items
	Taken      int      `json:"taken"`
	Detail     string   `json:"detail,omitempty"`
	Stacks     []string `json:"stacks,omitempty"`
}

const (
	leakBound = 10 * time.Second
	callBound = 10 * time.Second
	rootBound = 60 * time.Second
)

// ---------------------------------------------------------------- goroutine accounting

var goroutineHeader = regexp.MustCompile(`^goroutine (\d+) \[`)

// funGoroutines returns id -> stack of every goroutine that has a frame in (or was created by) the
// library under test. The driver's own package is verif/harness/..., so a driver goroutine only
// matches while it is inside a call into the library (a consumer blocked in ReadOne, say).
func funGoroutines() map[string]string {
	buf := make([]byte, 1<<20)
	for {
		n := runtime.Stack(buf, true)
		if n < len(buf) {
			buf = buf[:n]
			break
		}
		buf = make([]byte, 2*len(buf))
	}
	out := map[string]string{}
	for _, g := range strings.Split(string(buf), "\n\n") {
		if !strings.Contains(g, "github.com/tychoish/fun") {
			continue
		}
		m := goroutineHeader.FindStringSubmatch(g)
		if m == nil {
			continue
		}
		out[m[1]] = g
	}
	return out
}

// waitNoNew polls until no library goroutine exists that is not in `before`, or the bound expires;
// it returns the survivors.
func waitNoNew(before map[string]string, bound time.Duration) []string {
	deadline := time.Now().Add(bound)
	pause := 20 * time.Microsecond
	for {
		var surv []string
		for id, st := range funGoroutines() {
			if _, ok := before[id]; !ok {
				surv = append(surv, st)
			}
		}
		if len(surv) == 0 || time.Now().After(deadline) {
			return surv
		}
		runtime.Gosched()
		time.Sleep(pause)
		if pause < 20*time.Millisecond {
			pause *= 2
		}
	}
}

// bounded runs f and reports whether it returned within the bound.
func bounded(bound time.Duration, f func()) bool {
	done := make(chan struct{})
	go func() { defer close(done); f() }()
	select {
	case <-done:
		return true
	case <-time.After(bound):
		return false
	}
}

// ---------------------------------------------------------------- sources and constructs

// source yields vals and then reports io.EOF — or, when block is set, blocks (context-guarded, as a
// well behaved producer does) instead of reporting the end.
func source(vals []int64, block bool) *fun.Iterator[int64] {
	var idx atomic.Int64
	return fun.Generator(func(ctx context.Context) (int64, error) {
		i := int(idx.Add(1) - 1)
		if i < len(vals) {
			return vals[i], nil
		}
		if block {
			<-ctx.Done()
			return 0, ctx.Err()
		}
		return 0, io.EOF
	})
}

func seq(lo, hi int) []int64 {
	out := make([]int64, 0, hi-lo)
	for i := lo; i < hi; i++ {
		out = append(out, int64(i))
	}
	return out
}

func chunk(n, w, i int) []int64 { return seq(i*n/w, (i+1)*n/w) }

// reader is the consumer's view of a construct with one output.
type reader struct {
	read  func(ctx context.Context) (int64, error)
	close func() error // nil: the output cannot be closed (a bare channel)
}

func iterReader(it *fun.Iterator[int64]) reader { return reader{read: it.ReadOne, close: it.Close} }

// build constructs the pipeline; root is the user's root context (only BufferedChannel needs a
// context at construction time; it gets the one the consumer will cancel).
func build(c Case, cctx context.Context, block bool) reader {
	w, n := c.Workers, c.N
	opt := fun.WorkerGroupConfNumWorkers(w)
	switch c.Construct {
	case cMap:
		return iterReader(fun.Map(source(seq(0, n), block), func(_ context.Context, v int64) (int64, error) { return v, nil }, opt))
	case cParallelBuffer:
		return iterReader(source(seq(0, n), block).ParallelBuffer(w))
	case cBuffer:
		return iterReader(source(seq(0, n), block).Buffer(c.Cap))
	case cMerge:
		srcs := make([]*fun.Iterator[int64], w)
		for i := range srcs {
			srcs[i] = source(chunk(n, w, i), block)
		}
		return iterReader(fun.MergeIterators(srcs...))
	case cGenerate:
		return iterReader(source(seq(0, n), block).Producer().GenerateParallel(opt))
	case cChain:
		srcs := make([]*fun.Iterator[int64], w)
		for i := range srcs {
			srcs[i] = source(chunk(n, w, i), block && i == w-1)
		}
		return iterReader(itertool.Chain(srcs...))
	case cMergeSlices:
		sls := make([][]int64, w)
		for i := range sls {
			sls[i] = chunk(n, w, i)
		}
		return iterReader(itertool.MergeSlices(sls...))
	case cMergeSliceIters:
		sls := make([][]int64, w)
		for i := range sls {
			sls[i] = chunk(n, w, i)
		}
		var idx atomic.Int64
		outer := fun.Generator(func(ctx context.Context) ([]int64, error) {
			i := int(idx.Add(1) - 1)
			if i < len(sls) {
				return sls[i], nil
			}
			if block {
				<-ctx.Done()
				return nil, ctx.Err()
			}
			return nil, io.EOF
		})
		return iterReader(itertool.MergeSliceIterators(outer))
	case cBufferedChannel:
		ch := source(seq(0, n), block).BufferedChannel(cctx, c.Cap)
		return reader{read: func(ctx context.Context) (int64, error) {
			select {
			case v, ok := <-ch:
				if !ok {
					return 0, io.EOF
				}
				return v, nil
			case <-ctx.Done():
				return 0, ctx.Err()
			}
		}}
	case cDtMap:
		m := map[int64]int64{}
		for _, v := range seq(0, n) {
			m[v] = v
		}
		switch c.Variant {
		case 0:
			return iterReader(dt.MapKeys(m))
		case 2:
			return iterReader(dt.MapValues(m))
		default:
			it := dt.MapIterator(m)
			return reader{read: func(ctx context.Context) (int64, error) { p, err := it.ReadOne(ctx); return p.Key, err }, close: it.Close}
		}
	case cAdtMap:
		m := &adt.Map[int64, int64]{}
		for _, v := range seq(0, n) {
			m.Store(v, v)
		}
		switch c.Variant {
		case 0:
			return iterReader(m.Keys())
		case 2:
			return iterReader(m.Values())
		default:
			it := m.Iterator()
			return reader{read: func(ctx context.Context) (int64, error) { p, err := it.ReadOne(ctx); return p.Key, err }, close: it.Close}
		}
	}
	panic(fmt.Sprintf("build: construct %d", c.Construct))
}

// ---------------------------------------------------------------- scenarios

// take reads up to k items; it returns how many it got and the error that ended it (nil if k reached).
func take(ctx context.Context, rd reader, k int) (int, error) {
	for i := 0; i < k; i++ {
		if _, err := rd.read(ctx); err != nil {
			return i, err
		}
	}
	return k, nil
}

// closeTwice calls Close twice from a fresh goroutine and reports whether both returned in time.
func closeTwice(rd reader) bool {
	return bounded(callBound, func() { _ = rd.close(); _ = rd.close() })
}

func stuckErr(root context.Context, err error) bool {
	return root.Err() != nil || errors.Is(err, context.DeadlineExceeded)
}

// runSingle drives a construct with one output through the scenario. root is the user's root
// context (generous timeout: a hang becomes a reported failure), cctx the context handed to every
// advance (the one "cancel" cancels).
func runSingle(c Case, root context.Context, obs *Obs) {
	cctx, cancel := context.WithCancel(root) // never cancelled implicitly: only the stop mode (or the end of the scenario, through root) ends it
	_ = cancel
	blocked := c.Mode == mBlockedClose || c.Mode == mBlockedCancl
	rd := build(c, cctx, blocked)

	switch c.Mode {
	case mExhaust:
		var got int
		var err error
		ok := bounded(rootBound, func() { got, err = take(cctx, rd, c.N+1) })
		obs.Taken = got
		obs.EOF = ok && got == c.N && errors.Is(err, io.EOF)
		if !obs.EOF {
			obs.Stuck = !ok || stuckErr(root, err)
			obs.Detail = fmt.Sprintf("exhaust: got %d of %d items, then err=%v returned=%v", got, c.N, err, ok)
		}
		if rd.close != nil {
			obs.CloseBlock = !closeTwice(rd)
		}
	case mClose, mCancel, mCloseCancel:
		var got int
		var err error
		ok := bounded(rootBound, func() { got, err = take(cctx, rd, c.K) })
		obs.Taken = got
		if !ok || got != c.K {
			obs.Stuck = true
			obs.Detail = fmt.Sprintf("could not take %d items of %d: got %d, err=%v returned=%v", c.K, c.N, got, err, ok)
		}
		if c.Mode != mCancel {
			obs.CloseBlock = !closeTwice(rd)
		}
		if c.Mode != mClose {
			cancel()
		}
		// after the stop an advance must not block (it reports the end or the context error)
		if !bounded(callBound, func() { _, _ = rd.read(cctx) }) {
			obs.Stuck = true
			obs.Detail += " advance after stop did not return"
		}
	case mBlockedClose, mBlockedCancl:
		took := make(chan struct{})
		ret := make(chan error, 1)
		go func() {
			got, err := take(cctx, rd, c.K)
			obs.Taken = got
			close(took)
			if err == nil {
				_, err = rd.read(cctx) // the source blocks now: so does this call
			}
			ret <- err
		}()
		select {
		case <-took:
		case <-time.After(rootBound):
			obs.Stuck = true
			obs.Detail = "consumer never got the first k items"
			return
		}
		runtime.Gosched()
		if c.Mode == mBlockedClose {
			obs.CloseBlock = !closeTwice(rd)
		} else {
			cancel()
		}
		select {
		case err := <-ret:
			if err == nil {
				obs.Detail = "blocked advance returned a value although the source had none"
				obs.Stuck = true
			}
		case <-time.After(callBound):
			obs.Stuck = true
			obs.Detail = fmt.Sprintf("consumer still blocked in ReadOne %v after %s", callBound, modeNames[c.Mode])
		}
	}
}

// runSplit: the outputs are read sequentially by the driver, output 0 first — so output 0 is the
// one whose first advance starts the splitting goroutine (the "starter").
func runSplit(c Case, root context.Context, obs *Obs) {
	cctx, cancel := context.WithCancel(root) // never cancelled implicitly: only the stop mode (or the end of the scenario, through root) ends it
	_ = cancel
	blocked := c.Mode == mBlockedClose || c.Mode == mBlockedCancl
	outs := source(seq(0, c.N), blocked).Split(c.Workers)
	rds := make([]reader, len(outs))
	for i := range outs {
		rds[i] = iterReader(outs[i])
	}
	rr := 0
	rd := reader{read: func(ctx context.Context) (int64, error) { r := rds[rr%len(rds)]; rr++; return r.read(ctx) }}
	closeAll := func(skip int) bool {
		return bounded(callBound, func() {
			for rep := 0; rep < 2; rep++ {
				for i := range rds {
					if i != skip {
						_ = rds[i].close()
					}
				}
			}
		})
	}
	var got int
	var err error
	switch c.Mode {
	case mExhaust:
		// every output reports the end once the input is exhausted
		ok := bounded(rootBound, func() {
			got, err = take(cctx, rd, c.N)
			if err == nil {
				for i := range rds {
					if _, e := rds[i].read(cctx); !errors.Is(e, io.EOF) {
						err = fmt.Errorf("output %d after the last item: %v", i, e)
					}
				}
			}
		})
		obs.Taken = got
		obs.EOF = ok && got == c.N && err == nil
		if !obs.EOF {
			obs.Stuck = !ok || stuckErr(root, err)
			obs.Detail = fmt.Sprintf("exhaust: got %d of %d, err=%v returned=%v", got, c.N, err, ok)
		}
		obs.CloseBlock = !closeAll(-1)
	case mClose, mCancel, mCloseCancel, mAbandonClose:
		ok := bounded(rootBound, func() { got, err = take(cctx, rd, c.K) })
		obs.Taken = got
		if !ok || got != c.K {
			obs.Stuck = true
			obs.Detail = fmt.Sprintf("could not take %d items of %d: got %d, err=%v returned=%v", c.K, c.N, got, err, ok)
		}
		switch c.Mode {
		case mClose:
			obs.CloseBlock = !closeAll(-1)
		case mCancel:
			cancel()
		case mCloseCancel:
			obs.CloseBlock = !closeAll(-1)
			cancel()
		case mAbandonClose:
			skip := 0 // variant 0: abandon the starter
			if c.Variant == 1 {
				skip = len(rds) - 1 // abandon an output that did not start the splitter
			}
			obs.CloseBlock = !closeAll(skip)
		}
	case mBlockedClose, mBlockedCancl:
		took := make(chan struct{})
		ret := make(chan error, 1)
		go func() {
			g, e := take(cctx, rd, c.K)
			obs.Taken = g
			close(took)
			if e == nil {
				_, e = rds[0].read(cctx)
			}
			ret <- e
		}()
		select {
		case <-took:
		case <-time.After(rootBound):
			obs.Stuck, obs.Detail = true, "consumer never got the first k items"
			return
		}
		runtime.Gosched()
		if c.Mode == mBlockedClose {
			obs.CloseBlock = !closeAll(-1)
		} else {
			cancel()
		}
		select {
		case e := <-ret:
			if e == nil {
				obs.Stuck, obs.Detail = true, "blocked advance returned a value although the source had none"
			}
		case <-time.After(callBound):
			obs.Stuck, obs.Detail = true, fmt.Sprintf("consumer still blocked in ReadOne %v after %s", callBound, modeNames[c.Mode])
		}
	}
}

// runProcessParallel: the construct is a blocking call; the consumer is the processing function.
// exhaust: it returns after n items. cancel: the context is cancelled from inside the k-th call
// (k = 0: before the call) and the call must return.
func runProcessParallel(c Case, root context.Context, obs *Obs) {
	cctx, cancel := context.WithCancel(root) // never cancelled implicitly: only the stop mode (or the end of the scenario, through root) ends it
	_ = cancel
	var count atomic.Int64
	if c.Mode == mCancel && c.K == 0 {
		cancel()
	}
	wk := source(seq(0, c.N), c.Mode == mBlockedCancl).ProcessParallel(func(_ context.Context, v int64) error {
		if n := count.Add(1); (c.Mode == mCancel || c.Mode == mBlockedCancl) && int(n) == c.K {
			if c.Mode == mCancel {
				cancel()
			}
		}
		return nil
	}, fun.WorkerGroupConfNumWorkers(c.Workers))
	if c.Mode == mBlockedCancl {
		// the source blocks after n = k items; cancel once all of them were processed
		go func() {
			for int(count.Load()) < c.K && root.Err() == nil {
				runtime.Gosched()
			}
			cancel()
		}()
	}
	var err error
	ok := bounded(rootBound, func() { err = wk.Run(cctx) })
	obs.Taken = int(count.Load())
	switch {
	case !ok || root.Err() != nil:
		obs.Stuck, obs.Detail = true, fmt.Sprintf("ProcessParallel did not return (processed %d of %d)", obs.Taken, c.N)
	case c.Mode == mExhaust:
		obs.EOF = err == nil && obs.Taken == c.N
		if !obs.EOF {
			obs.Detail = fmt.Sprintf("exhaust: processed %d of %d, err=%v", obs.Taken, c.N, err)
		}
	}
}

// ---------------------------------------------------------------- one scenario, oracle, Coq term

func runScenario(c Case) Obs {
	old := runtime.GOMAXPROCS(c.Procs)
	defer runtime.GOMAXPROCS(old)
	var obs Obs
	before := funGoroutines()
	root, rootCancel := context.WithTimeout(context.Background(), rootBound)
	switch c.Construct {
	case cSplit:
		runSplit(c, root, &obs)
	case cProcessParallel:
		runProcessParallel(c, root, &obs)
	default:
		runSingle(c, root, &obs)
	}
	// the consumer has stopped: everything started on its behalf must go away
	surv := waitNoNew(before, leakBound)
	obs.Leak = len(surv)
	for i, s := range surv {
		if i < 3 {
			obs.Stacks = append(obs.Stacks, s)
		}
	}
	// end of scenario: the user's root context ends; whatever was left must go now (keeps scenarios independent)
	rootCancel()
	obs.LeakAfter = len(waitNoNew(before, leakBound))
	return obs
}

// expectedLeak: the one schedule for which the library is known to leave a goroutine behind
// (known finding C04:Split:starter-abandoned): the output that started the splitter is abandoned,
// the others are closed, and the splitter still holds an item it cannot hand to anybody.
func starterAbandoned(c Case) bool {
	return c.Construct == cSplit && c.Mode == mAbandonClose && c.Variant == 0 && c.Workers >= 2 && c.K >= 1 && c.K < c.N
}

var knownHits int

func oracle(run *kit.Run, c Case, o Obs) {
	fail := func(class, detail string) {
		run.OracleFail(c.ID, "C04:"+c.Name+":"+class, detail, c, o)
	}
	switch {
	case o.CloseBlock:
		fail("close-blocks", "Close (called twice from another goroutine) did not return within "+callBound.String()+" "+o.Detail)
	case o.Stuck:
		fail("consumer-stuck", o.Detail)
	case c.Mode == mExhaust && !o.EOF:
		fail("consumer-stuck", "finite input did not end in io.EOF: "+o.Detail)
	}
	if o.Leak > 0 {
		first := ""
		if len(o.Stacks) > 0 {
			first = o.Stacks[0]
		}
		if starterAbandoned(c) && o.Leak == 1 && strings.Contains(first, "ChanSend") && o.LeakAfter == 0 {
			knownHits++
			fail("starter-abandoned", fmt.Sprintf("Split(%d): output 0 started the splitter and was abandoned, the others were closed after %d of %d items: the splitter is still blocked in ChanSend.Write %v later (it ends with the user's context)", c.Workers, c.K, c.N, leakBound))
		} else {
			fail("goroutine-leak", fmt.Sprintf("%d goroutine(s) of the library still alive %v after the consumer stopped (%s at k=%d of n=%d, workers=%d): %s",
				o.Leak, leakBound, modeNames[c.Mode], c.K, c.N, c.Workers, firstLines(first, 14)))
		}
	} else if o.LeakAfter > 0 {
		fail("goroutine-leak", fmt.Sprintf("%d goroutine(s) still alive after the user's root context ended", o.LeakAfter))
	}
}

func firstLines(s string, n int) string {
	l := strings.Split(s, "\n")
	if len(l) > n {
		l = l[:n]
	}
	return strings.Join(l, " | ")
}

func execCase(run *kit.Run, c Case, verbose bool) {
	c.Name, c.ModeName = names[c.Construct], modeNames[c.Mode]
	o := runScenario(c)
	if verbose {
		fmt.Printf("%s n=%d workers=%d cap=%d k=%d mode=%s variant=%d gomaxprocs=%d\n  taken=%d eof=%v stuck=%v close_blocks=%v leak=%d leak_after_root_cancel=%d %s\n",
			c.Name, c.N, c.Workers, c.Cap, c.K, c.ModeName, c.Variant, c.Procs, o.Taken, o.EOF, o.Stuck, o.CloseBlock, o.Leak, o.LeakAfter, o.Detail)
		for _, s := range o.Stacks {
			fmt.Println(s)
		}
	}
	oracle(run, c, o)
	run.Count(c.Name)
	run.Count("mode=" + c.ModeName)
	run.Count(fmt.Sprintf("workers=%d", c.Workers))
	term := fmt.Sprintf("C04Case %s %s %s %s %s %s %s %s %s %s %s", kit.ZI(c.ID), kit.ZI(c.Construct), kit.ZI(c.N), kit.ZI(c.Workers),
		kit.ZI(c.Cap), kit.ZI(c.K), kit.ZI(c.Mode), kit.ZI(c.Variant), kit.ZI(o.Leak), kit.Bool(o.Stuck || o.CloseBlock), kit.Bool(o.EOF))
	run.Case(c.ID, c, term, fmt.Sprintf("%d|%d|%d|%d|%d|%d|%d", c.Construct, c.N, c.Workers, c.Cap, c.K, c.Mode, c.Variant),
		c.N >= 1 && c.Mode != mExhaust)
}

// ---------------------------------------------------------------- enumeration

func modesFor(k int) []int {
	switch k {
	case cProcessParallel:
		return []int{mExhaust, mCancel, mBlockedCancl}
	case cBufferedChannel: // a bare channel has no Close
		return []int{mExhaust, mCancel, mBlockedCancl}
	case cMergeSlices, cDtMap, cAdtMap: // no source that could block
		return []int{mExhaust, mClose, mCancel, mCloseCancel}
	case cSplit:
		return []int{mExhaust, mClose, mCancel, mCloseCancel, mAbandonClose, mBlockedClose, mBlockedCancl}
	default:
		return []int{mExhaust, mClose, mCancel, mCloseCancel, mBlockedClose, mBlockedCancl}
	}
}

func main() {
	run := kit.Start()
	run.Header = "From FunV Require Import Base.Tac Corr.C04_corr."
	run.Footer = "Definition M := Eval vm_compute in mismatches cases.\nPrint M."
	run.CaseType = "case"
	run.Rule = "every construct (Split, ProcessParallel, Map, ParallelBuffer, Buffer, MergeIterators, GenerateParallel, Chain, MergeSlices, MergeSliceIterators, BufferedChannel, dt.Map, adt.Map) x input length n x cut point k in 0..n x stop mode (exhaust, Close, cancel, Close-then-cancel, abandon-one-Split-output-close-others, consumer blocked then Close twice from another goroutine / cancel) x workers x GOMAXPROCS; distinct = distinct (construct, n, workers, cap, k, mode, variant); non-trivial = n >= 1 and the consumer stops before the end"

	if run.Replay != "" {
		var c Case
		if err := kit.ReadReplayCase(run.Replay, &c); err != nil {
			panic(err)
		}
		for i := 0; i < 20 && run.NOracle == 0; i++ { // schedule dependent: a few repetitions
			c.Procs = []int{c.Procs, 1, 2, 4, 8}[i%5]
			if c.Procs == 0 {
				c.Procs = 4
			}
			execCase(run, c, i == 0)
		}
		run.Finish()
		return
	}

	id := 0
	unexpected := func() int { return run.NOracle - knownHits }
	do := func(c Case) {
		if unexpected() >= 3 { // enough evidence; every further failing scenario costs a full time bound
			return
		}
		c.ID = id
		id++
		if c.Procs == 0 {
			c.Procs = []int{1, 2, 4, 8}[run.Rand.Intn(4)]
		}
		execCase(run, c, false)
	}
	// corpus: the known finding, always exercised (each takes the full 10 s leak bound), and its two neighbours
	do(Case{Construct: cSplit, N: 6, Workers: 2, K: 1, Mode: mAbandonClose, Variant: 0, Procs: 4})
	do(Case{Construct: cSplit, N: 6, Workers: 2, K: 1, Mode: mAbandonClose, Variant: 1, Procs: 4})
	do(Case{Construct: cSplit, N: 6, Workers: 2, K: 6, Mode: mAbandonClose, Variant: 0, Procs: 4})
	if run.Thorough() {
		do(Case{Construct: cSplit, N: 4, Workers: 3, K: 2, Mode: mAbandonClose, Variant: 0})
		do(Case{Construct: cSplit, N: 9, Workers: 8, K: 8, Mode: mAbandonClose, Variant: 0})
	}

	constructs := []int{cSplit, cProcessParallel, cMap, cParallelBuffer, cBuffer, cMerge, cGenerate, cChain, cMergeSlices,
		cMergeSliceIters, cBufferedChannel, cDtMap, cAdtMap}
	ns := []int{0, 1, 2, 3, 6}
	workers := []int{1, 2, 3}
	rounds := run.Pick(2, 10)
	if run.Thorough() {
		ns = []int{0, 1, 2, 3, 6, 9, 17}
		workers = []int{1, 2, 3, 8}
	}
	for round := 0; round < rounds; round++ {
		for _, k := range constructs {
			for _, w := range workers {
				caps := []int{0}
				if k == cBuffer || k == cBufferedChannel {
					caps = []int{0, 1, 4}
					if w != 1 {
						continue
					}
				}
				variants := []int{0}
				if k == cDtMap || k == cAdtMap {
					variants = []int{0, 1, 2}
					if w != 1 {
						continue
					}
				}
				for _, n := range ns {
					for _, cp := range caps {
						for _, vr := range variants {
							for _, m := range modesFor(k) {
								switch m {
								case mExhaust:
									do(Case{Construct: k, N: n, Workers: w, Cap: cp, K: n, Mode: m, Variant: vr})
								case mBlockedClose, mBlockedCancl: // the source blocks after its n items: k = n
									do(Case{Construct: k, N: n, Workers: w, Cap: cp, K: n, Mode: m, Variant: vr})
								case mAbandonClose:
									if w < 2 {
										continue
									}
									for cut := 1; cut <= n; cut++ {
										do(Case{Construct: k, N: n, Workers: w, K: cut, Mode: m, Variant: 1})
									}
									if n >= 1 { // starter abandoned, nothing left to hand over: no leak
										do(Case{Construct: k, N: n, Workers: w, K: n, Mode: m, Variant: 0})
									}
								default:
									for cut := 0; cut <= n; cut++ {
										do(Case{Construct: k, N: n, Workers: w, Cap: cp, K: cut, Mode: m, Variant: vr})
									}
								}
							}
						}
					}
				}
			}
		}
	}
	run.Finish()
}
