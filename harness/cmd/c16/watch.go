package main

// Watchdog: an operation of the real library that does not return (a loop over a corrupted
// ring) cannot be interrupted from Go.  The driver therefore records the pending operation
// before it starts; a monitor goroutine reports it as an oracle failure (class "hang") and
// ends the run when one operation has been pending for longer than hangAfter or the heap
// explodes.  Normal operations take microseconds.

import (
	"fmt"
	"os"
	"runtime"
	"sync"
	"time"

	"verif/harness/kit"
)

const hangAfter = 10 * time.Second

var watch struct {
	sync.Mutex
	run     *kit.Run
	id      int
	active  bool
	since   time.Time
	ops     []Op
	current Op
}

func watchBegin(tr *trace, o Op) {
	watch.Lock()
	watch.active = true
	watch.since = time.Now()
	watch.ops = append(tr.ops(), o)
	watch.current = o
	watch.Unlock()
}

func watchEnd() {
	watch.Lock()
	watch.active = false
	watch.Unlock()
}

func watchCase(id int) {
	watch.Lock()
	watch.id = id
	watch.Unlock()
}

func startWatchdog(run *kit.Run) {
	watch.run = run
	go func() {
		var ms runtime.MemStats
		for {
			time.Sleep(200 * time.Millisecond)
			runtime.ReadMemStats(&ms)
			watch.Lock()
			stuck := watch.active && (time.Since(watch.since) > hangAfter || ms.HeapAlloc > 3<<30)
			if stuck {
				c := Case{ID: watch.id, Ops: watch.ops}
				sig := "C16:" + method(watch.current) + ":hang"
				detail := fmt.Sprintf("step %d %s did not return (pending for %v, heap %d MB)", len(watch.ops)-1, watch.current.String(), time.Since(watch.since).Round(time.Millisecond), ms.HeapAlloc>>20)
				run.OracleFail(watch.id, sig, detail, c, nil)
				run.Case(watch.id, c, "", "hang", true)
				run.Finish()
				fmt.Fprintln(os.Stderr, "watchdog:", sig, detail)
				os.Exit(0)
			}
			watch.Unlock()
		}
	}()
}
