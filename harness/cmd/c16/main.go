// Driver for C16 (dt.List): random operation sequences over two lists with a
// handle table, run on the REAL dt.List.
//
//   - correspondence: after every step the driver observes both walk directions,
//     Slice(), Len, and owner/ok/value/next/prev of every handle, and prints the
//     case (ops + observations) as a Coq term; coq/Corr/C16_corr.v re-runs the
//     pointer-level model (coq/Model/ListHeap.v) and reports disagreeing ids.
//   - direct oracle (independent of the model): a plain-slice reference
//     implementation maintained next to the real lists (oracle.go).
package main

import (
	"fmt"
	"strings"

	"verif/harness/kit"
)

func main() {
	run := kit.Start()
	run.Header = "From FunV Require Import Base.Tac Model.SortSpec Model.ListHeap Corr.C16_corr.\nLocal Open Scope Z_scope."
	run.Footer = "Definition M := Eval vm_compute in mismatches cases.\nPrint M."
	run.CaseType = "case"
	run.ShardSize = 100
	run.Rule = "random op sequences (<= 40 ops) over two dt.List values with a handle table (elements ever returned; handles biased to front/back/middle/adjacent/self/detached/root/nil; values in a small domain); all observations after every step; a corpus of fixed sequences first; thorough adds exhaustive enumeration of all sequences <= 5 ops over a small alphabet (oracle only). distinct = distinct op sequences; non-trivial = at least 3 ops of which one takes an element handle"

	startWatchdog(run)
	if run.Replay != "" {
		var c Case
		if err := kit.ReadReplayCase(run.Replay, &c); err != nil {
			panic(err)
		}
		tr := runCase(c.Ops, nil, nil)
		for i, st := range tr.Steps {
			fmt.Printf("step %d %s -> %v\n", i, st.Op.String(), st.Obs)
		}
		fmt.Printf("final=%d (0 complete, 1 panic, 2 ended by successful Swap)\n", tr.Final)
		if tr.Sig != "" {
			fmt.Printf("ORACLE FAILURE %s: %s\n", tr.Sig, tr.Detail)
			run.OracleFail(c.ID, tr.Sig, tr.Detail, c, tr.obsOnly())
		} else {
			fmt.Println("oracle: ok")
		}
		emit(run, c.ID, tr, "replay")
		run.Finish()
		return
	}

	id := 0
	for _, ops := range corpus() {
		watchCase(id)
		tr := runCase(ops, nil, nil)
		report(run, id, tr, "corpus")
		id++
	}
	n := run.Pick(3000, 60000)
	for i := 0; i < n; i++ {
		r := run.Rand.Fork()
		maxOps := r.Range(1, 40)
		if r.Chance(1, 5) {
			maxOps = r.Range(1, 8)
		}
		watchCase(id)
		tr := runCase(nil, r, &genCfg{maxOps: maxOps, span: int64(r.Range(1, 4)), prelude: r.Chance(1, 2)})
		report(run, id, tr, "random")
		id++
	}
	if run.Thorough() {
		id = enumerate(run, id, 5)
	}
	run.Finish()
}

func report(run *kit.Run, id int, tr *trace, stream string) {
	c := Case{ID: id, Ops: tr.ops()}
	if tr.Sig != "" {
		run.OracleFail(id, tr.Sig, tr.Detail, c, tr.obsOnly())
	}
	emit(run, id, tr, stream)
}

func emit(run *kit.Run, id int, tr *trace, stream string) {
	if stream == "enum-oracle-only" {
		run.Count("stream/" + stream) // judged by the oracle only; not written to cases.jsonl / cases_*.v
		return
	}
	c := Case{ID: id, Ops: tr.ops()}
	usesHandle := false
	var key strings.Builder
	for _, st := range tr.Steps {
		run.Count("op/" + st.Op.Op)
		if st.Class != "" {
			run.Count("class/" + st.Op.Op + "/" + st.Class)
		}
		if st.Op.takesHandle() {
			usesHandle = true
		}
		key.WriteString(st.Op.String())
		key.WriteByte(';')
	}
	if tr.PanicOp != nil {
		run.Count("op/" + tr.PanicOp.Op)
		run.Count("class/" + tr.PanicOp.Op + "/panic")
		key.WriteString(tr.PanicOp.String())
	}
	run.Count(fmt.Sprintf("final/%d", tr.Final))
	run.Count("stream/" + stream)
	run.Count("len/" + bucket(len(c.Ops)))
	term := ""
	if !tr.NoTerm {
		term = tr.coq(id)
	}
	run.Case(id, c, term, key.String(), len(c.Ops) >= 3 && usesHandle)
}

func bucket(n int) string {
	switch {
	case n <= 2:
		return "0-2"
	case n <= 8:
		return "3-8"
	case n <= 20:
		return "9-20"
	default:
		return "21-40"
	}
}
