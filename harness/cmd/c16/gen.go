package main

import (
	"verif/harness/kit"
)

// ---------------------------------------------------------------- random generation (fused with execution)

type gen struct {
	r    *kit.Rand
	cfg  *genCfg
	plan []Op // ops queued by the prelude
	last int  // last handle picked
}

func newGen(r *kit.Rand, cfg *genCfg) *gen {
	g := &gen{r: r, cfg: cfg, last: -1}
	if cfg.prelude {
		// fill a list and walk it, so that the table holds front/middle/back elements early
		n := r.Range(2, 5)
		for i := 0; i < n; i++ {
			g.plan = append(g.plan, Op{Op: "PushBack", L: 0, V: g.val(), H: -1, N: -1})
		}
		for i := 0; i < r.Intn(3); i++ {
			g.plan = append(g.plan, Op{Op: "PushBack", L: 1, V: g.val(), H: -1, N: -1})
		}
		g.plan = append(g.plan, Op{Op: "Front", L: 0, H: -1, N: -1})
		for i := 0; i < r.Range(1, n); i++ {
			g.plan = append(g.plan, Op{Op: "Next", H: -2, N: -1}) // -2: the newest handle
		}
	}
	return g
}

func (g *gen) val() int64 { return int64(g.r.Intn(int(2*g.cfg.span+1))) - g.cfg.span }

// handle categories from the reference's point of view
func (g *gen) pickHandle(s *sim) int {
	r := g.r
	n := len(s.table)
	if n == 0 || r.Chance(1, 16) {
		return -1
	}
	var front, back, middle, detached, roots, adjacent []int
	var lastRel *relem
	if g.last >= 0 && g.last < n {
		lastRel = s.ref.byPtr[s.table[g.last]]
	}
	for i, e := range s.table {
		x := s.ref.byPtr[e]
		switch {
		case x == nil:
		case x.root:
			roots = append(roots, i)
		case x.where < 0:
			detached = append(detached, i)
		default:
			p, m := s.ref.pos(x), len(s.ref.lists[x.where])
			switch {
			case p == 0:
				front = append(front, i)
			case p == m-1:
				back = append(back, i)
			default:
				middle = append(middle, i)
			}
			if lastRel != nil && !lastRel.root && lastRel.where == x.where {
				if d := s.ref.pos(lastRel) - p; d == 1 || d == -1 {
					adjacent = append(adjacent, i)
				}
			}
		}
	}
	pick := func(c []int) int {
		if len(c) == 0 {
			return r.Intn(n)
		}
		return c[r.Intn(len(c))]
	}
	h := 0
	switch r.Intn(9) {
	case 0:
		h = pick(front)
	case 1:
		h = pick(back)
	case 2:
		h = pick(middle)
	case 3:
		h = pick(adjacent)
	case 4:
		if g.last >= 0 && g.last < n {
			h = g.last // self
		} else {
			h = r.Intn(n)
		}
	case 5:
		h = pick(detached)
	case 6:
		h = pick(roots)
	default:
		h = r.Intn(n)
	}
	g.last = h
	return h
}

func (g *gen) pickDetachedOk(s *sim) int {
	var c []int
	for i, e := range s.table {
		if x := s.ref.byPtr[e]; x != nil && !x.root && x.where < 0 && x.ok {
			c = append(c, i)
		}
	}
	if len(c) == 0 {
		return g.pickHandle(s)
	}
	return c[g.r.Intn(len(c))]
}

func (g *gen) pickAttached(s *sim) int {
	var c []int
	for i, e := range s.table {
		if x := s.ref.byPtr[e]; x != nil && x.where >= 0 {
			c = append(c, i)
		}
	}
	if len(c) == 0 || g.r.Chance(1, 4) {
		return g.pickHandle(s)
	}
	return c[g.r.Intn(len(c))]
}

var weights = []struct {
	op string
	w  int
}{
	{"PushBack", 10}, {"PushFront", 6}, {"PopFront", 4}, {"PopBack", 4}, {"Front", 6}, {"Back", 5},
	{"NewElement", 6}, {"Next", 8}, {"Previous", 6}, {"Append", 11}, {"Remove", 5}, {"Drop", 3},
	{"Swap", 2}, {"Set", 3}, {"Extend", 2}, {"Copy", 1}, {"Slice", 1}, {"Iter", 2}, {"JSON", 1},
	{"SortQuick", 2}, {"SortMerge", 3}, {"IsSorted", 2},
}

func (g *gen) next(s *sim) Op {
	if len(g.plan) > 0 {
		o := g.plan[0]
		g.plan = g.plan[1:]
		if o.H == -2 {
			o.H = len(s.table) - 1
		}
		return o
	}
	r := g.r
	total := 0
	for _, w := range weights {
		total += w.w
	}
	x := r.Intn(total)
	name := ""
	for _, w := range weights {
		if x < w.w {
			name = w.op
			break
		}
		x -= w.w
	}
	o := Op{Op: name, L: r.Intn(2), H: -1, N: -1}
	if r.Chance(2, 3) {
		o.L = 0 // keep one list busier so it grows
	}
	switch name {
	case "PushBack", "PushFront", "NewElement":
		o.V = g.val()
	case "Next", "Previous", "Remove", "Drop":
		o.H = g.pickHandle(s)
		if o.H < 0 && r.Chance(4, 5) {
			o.H = g.pickHandle(s) // a nil receiver panics and ends the case: keep it rare
		}
	case "Set":
		o.H = g.pickHandle(s)
		o.V = g.val()
	case "Append":
		o.H = g.pickAttached(s)
		if r.Chance(3, 5) {
			o.N = g.pickDetachedOk(s)
		} else {
			o.N = g.pickHandle(s)
		}
	case "Swap":
		o.H = g.pickAttached(s)
		o.N = g.pickAttached(s)
	case "Extend", "JSON":
		o.L2 = 1 - o.L
		if name == "JSON" && r.Chance(1, 3) {
			o.L2 = o.L
		}
	case "Iter":
		o.K = r.Intn(4)
		if o.K >= 2 && r.Chance(1, 2) {
			o.K -= 2 // destructive iterators less often
		}
	case "SortQuick":
		o.K = r.Intn(nStrict) // sort.SliceStable's result for a non-strict lt is algorithm-specific: not generated
	case "SortMerge", "IsSorted":
		o.K = r.Intn(6)
	}
	if (name == "SortQuick" || name == "SortMerge") && r.Chance(1, 2) {
		// usability probe after a sort: both ends (PushFront goes through the sentinel), a complete
		// drain, pushes into the drained list; every step is judged by the plain-slice reference
		l := o.L
		g.plan = append(g.plan, mk("PushFront", l, g.val()), mk("Front", l, 0), mk("PushBack", l, g.val()), mk("Back", l, 0),
			mk("PopFront", l, 0), mk("PopBack", l, 0), lk("Iter", l, 2), mk("PushBack", l, g.val()), mk("PushFront", l, g.val()),
			mk("Front", l, 0), mk("PopFront", l, 0))
	}
	return o
}

// ---------------------------------------------------------------- corpus: fixed sequences that always run

func mk(op string, l int, v int64) Op { return Op{Op: op, L: l, V: v, H: -1, N: -1} }
func hop1(op string, h int) Op        { return Op{Op: op, H: h, N: -1} }
func hop2(op string, h, n int) Op     { return Op{Op: op, H: h, N: n} }
func lk(op string, l, k int) Op       { return Op{Op: op, L: l, K: k, H: -1, N: -1} }
func ll(op string, l, l2 int) Op      { return Op{Op: op, L: l, L2: l2, H: -1, N: -1} }
func set(h int, v int64) Op           { return Op{Op: "Set", H: h, N: -1, V: v} }

func corpus() [][]Op {
	push1234 := []Op{mk("PushBack", 0, 1), mk("PushBack", 0, 2), mk("PushBack", 0, 3), mk("PushBack", 0, 4),
		mk("Front", 0, 0), hop1("Next", 0), hop1("Next", 1), hop1("Next", 2)}
	cat := func(a []Op, b ...Op) []Op { return append(append([]Op{}, a...), b...) }
	return [][]Op{
		// known finding #1: Element.Swap copies *with.prev by value
		cat(push1234, hop2("Swap", 1, 2)),
		cat(push1234, hop2("Swap", 0, 2)),
		cat(push1234, hop2("Swap", 0, 3)),
		cat(push1234, hop2("Swap", 2, 1)),
		// rejected swaps: across lists, nil, self, detached
		cat(push1234, mk("PushBack", 1, 9), mk("Front", 1, 0), hop2("Swap", 0, 4), hop2("Swap", 0, -1), hop2("Swap", -1, 0),
			hop2("Swap", 1, 1), mk("PopFront", 0, 0), hop2("Swap", 0, 1), hop2("Swap", 1, 0)),
		// finding #2 (fixed): Append of an element that already belongs to a list
		{mk("PushBack", 0, 1), mk("PushBack", 0, 2), mk("PushBack", 1, 3), mk("Front", 0, 0), mk("Front", 1, 0), hop2("Append", 0, 1),
			hop2("Append", 1, 0), hop2("Append", 0, 0), hop1("Next", 0), hop2("Append", 0, 2), hop2("Append", 2, 0), mk("PopFront", 0, 0), mk("PopFront", 1, 0)},
		// finding #3 (fixed): SortMerge must leave the elements owned by the receiver
		{mk("PushBack", 0, 3), mk("PushBack", 0, 1), mk("PushBack", 0, 2), mk("Front", 0, 0), lk("SortMerge", 0, 0), mk("PopFront", 0, 0),
			mk("PushBack", 0, 0), mk("Front", 0, 0), lk("SortMerge", 0, 1), mk("PopBack", 0, 0), lk("IsSorted", 0, 1)},
		// zero-value lists
		{lk("SortMerge", 0, 0), lk("SortQuick", 0, 0), lk("IsSorted", 0, 0), ll("Extend", 0, 1), mk("Copy", 0, 0), ll("JSON", 0, 1),
			mk("Slice", 1, 0), lk("Iter", 0, 2), mk("PopFront", 0, 0), mk("PopBack", 1, 0), mk("Front", 0, 0)},
		// the root is not removable / settable; Append to the root is PushFront
		{mk("Front", 0, 0), hop1("Remove", 0), hop1("Drop", 0), set(0, 5), mk("NewElement", 0, 7), hop2("Append", 0, 1), hop2("Append", 1, 0),
			hop1("Next", 0), hop1("Previous", 0), mk("Back", 0, 0)},
		// nil handles
		{hop2("Append", -1, -1), hop2("Swap", -1, -1), set(-1, 1), mk("PushBack", 0, 1), mk("Front", 0, 0), hop2("Append", 0, -1), hop1("Next", -1)},
		{hop1("Remove", -1)},
		{hop1("Drop", -1)},
		{hop1("Previous", -1)},
		{mk("NewElement", 0, 1), hop2("Append", -1, 0)},
		// Drop clears ok: the element cannot be appended until Set revives it; a failed pop yields a fresh zero element
		{mk("PushBack", 0, 1), mk("PushBack", 0, 2), mk("Back", 0, 0), hop1("Drop", 0), mk("Front", 0, 0), hop2("Append", 1, 0), set(0, 9), hop2("Append", 1, 0),
			mk("PopFront", 1, 0), set(2, 4), hop2("Append", 0, 2), hop1("Remove", 0), hop1("Remove", 0), hop1("Next", 0), hop1("Previous", 0)},
		// Extend, Copy, JSON, iterators, SortQuick stability (key = v mod 3)
		{mk("PushBack", 0, 4), mk("PushBack", 0, 1), mk("PushBack", 0, 3), mk("PushBack", 0, 0), mk("PushBack", 1, 7), mk("PushFront", 1, 2), ll("Extend", 0, 1),
			mk("Copy", 0, 0), ll("JSON", 0, 1), ll("JSON", 1, 1), lk("SortQuick", 1, 2), lk("Iter", 1, 0), lk("Iter", 1, 1), lk("SortMerge", 0, 2), lk("Iter", 0, 3), lk("Iter", 1, 2)},
	}
}

// ---------------------------------------------------------------- exhaustive enumeration (thorough tier; support for the search, not a proof)

func alphabet() []Op {
	return []Op{
		mk("PushBack", 0, 2), mk("PushBack", 0, 1), mk("PushFront", 0, 3), mk("PushBack", 1, 1),
		mk("PopFront", 0, 0), mk("PopBack", 0, 0), mk("Front", 0, 0), hop1("Next", 0),
		hop2("Append", 0, 1), hop2("Append", 1, 0), hop1("Remove", 0), hop1("Remove", 1),
		hop2("Swap", 0, 1), lk("SortMerge", 0, 0), ll("Extend", 0, 1), mk("NewElement", 0, 2),
	}
}

func enumerate(run *kit.Run, id int, depth int) int {
	alpha := alphabet()
	count := 0
	var rec func(prefix []Op)
	rec = func(prefix []Op) {
		tl, ended := 0, false
		if len(prefix) > 0 {
			watchCase(id)
			tr := runCase(prefix, nil, nil)
			stream := "enum-oracle-only"
			if count%150 == 0 {
				stream = "enum"
			}
			count++
			if tr.Sig != "" {
				run.OracleFail(id, tr.Sig, tr.Detail, Case{ID: id, Ops: tr.ops()}, tr.obsOnly())
			}
			emit(run, id, tr, stream)
			id++
			tl, ended = tr.TableLen, tr.Final != 0 || tr.Sig != ""
		}
		if len(prefix) >= depth {
			return
		}
		if ended {
			return
		}
		for _, o := range alpha {
			if o.H >= tl || o.N >= tl {
				continue
			}
			rec(append(append([]Op{}, prefix...), o))
		}
	}
	rec(nil)
	run.Extra["enumerated_sequences"] = count
	return id
}
