package main

// The direct oracle for C16: a reference implementation on plain slices, kept next to the real
// lists and independent of the Coq model.  It predicts, from its own bookkeeping only, what
// every operation must return and what both lists must contain afterwards, and after every
// step compares: forward walk = reverse(backward walk) = Slice() = Iterator() = reversed
// Reverse() = reference; Len = its length; In(l) exactly for the attached elements of l;
// Ok/Value of every handle; rejected operations leave everything unchanged.

import (
	"fmt"
	"sort"
)

type relem struct {
	ptr   *E // bound on first sight
	val   int64
	ok    bool
	where int // -1 detached, else list index
	root  bool
}

type refState struct {
	lists  [2][]*relem
	rootOf [2]*relem
	byPtr  map[*E]*relem
	dead   bool
}

func newRef() *refState { return &refState{byPtr: map[*E]*relem{}} }

type hclass int

const (
	cNil hclass = iota
	cUnknown
	cRoot
	cAttached
	cDetached
)

type pre struct {
	class  string // parameter class of the op for signatures: success | rejected | attached | panic | misuse
	hc, nc hclass
	hr, nr *relem
}

func (r *refState) cls(s *sim, h int) (hclass, *relem) {
	p := s.h(h)
	if p == nil {
		return cNil, nil
	}
	e := r.byPtr[p]
	switch {
	case e == nil:
		return cUnknown, nil
	case e.root:
		return cRoot, e
	case e.where >= 0:
		return cAttached, e
	}
	return cDetached, e
}

func (r *refState) pos(e *relem) int {
	for i, x := range r.lists[e.where] {
		if x == e {
			return i
		}
	}
	return -1
}

// classify decides, before the operation runs, whether the documentation accepts or rejects it.
func (r *refState) classify(s *sim, o Op) pre {
	p := pre{class: "success"}
	if !o.takesHandle() {
		return p
	}
	p.hc, p.hr = r.cls(s, o.H)
	if o.Op == "Append" || o.Op == "Swap" {
		p.nc, p.nr = r.cls(s, o.N)
	}
	switch o.Op {
	case "Next", "Previous":
		if p.hc == cNil {
			p.class = "misuse"
		}
	case "Append":
		switch {
		case p.hc == cNil:
			p.class = "misuse"
		case p.hc == cDetached || p.hc == cUnknown:
			p.class = "rejected"
		case p.nc == cNil || p.nc == cUnknown:
			p.class = "rejected"
		case p.nc == cAttached || p.nc == cRoot:
			p.class = "attached" // appending an element that already belongs to a list: rejected
		case !p.nr.ok:
			p.class = "rejected"
		}
	case "Remove", "Drop":
		switch p.hc {
		case cNil:
			p.class = "misuse"
		case cAttached:
		default:
			p.class = "rejected"
		}
	case "Swap":
		ok := (p.hc == cAttached || p.hc == cRoot) && (p.nc == cAttached || p.nc == cRoot) && p.hr != p.nr && p.hr.where == p.nr.where
		if !ok {
			p.class = "rejected"
		}
	case "Set":
		if p.hc == cNil || p.hc == cRoot {
			p.class = "rejected"
		}
	}
	return p
}

func method(o Op) string {
	switch o.Op {
	case "NewElement":
		return "NewElement"
	case "Next", "Previous", "Append", "Remove", "Drop", "Set":
		return "Element." + o.Op
	case "Iter":
		return "List." + []string{"Iterator", "Reverse", "PopIterator", "PopReverse"}[o.K&3]
	}
	return "List." + o.Op // Swap is reported as List.Swap (DESIGN.md Appendix A)
}

func (r *refState) onPanic(o Op, p pre, res result) (string, string) {
	if r.dead || p.class == "misuse" {
		return "", "" // a method called on a nil receiver: outside the property
	}
	return "C16:" + method(o) + ":panic", "panic: " + res.panicVal
}

func (r *refState) fresh(ptr *E, val int64, ok bool) (*relem, string) {
	if ptr == nil {
		return nil, "returned nil where a new element was expected"
	}
	if r.byPtr[ptr] != nil {
		return nil, "returned an existing element where a new one was expected"
	}
	e := &relem{ptr: ptr, val: val, ok: ok, where: -1}
	r.byPtr[ptr] = e
	return e, ""
}

func (r *refState) expect(got *E, want *relem, what string) string {
	if want == nil {
		if got != nil {
			return what + ": expected nil"
		}
		return ""
	}
	if got == nil {
		return what + ": got nil"
	}
	if want.ptr == nil {
		if r.byPtr[got] != nil {
			return what + ": returned an element that is already known as a different one"
		}
		want.ptr = got
		r.byPtr[got] = want
		return ""
	}
	if want.ptr != got {
		return what + ": returned a different element than the reference expects"
	}
	return ""
}

func (r *refState) root(li int) *relem {
	if r.rootOf[li] == nil {
		r.rootOf[li] = &relem{root: true, where: li}
	}
	return r.rootOf[li]
}

func (r *refState) at(li, i int) *relem {
	if i < 0 || i >= len(r.lists[li]) {
		return r.root(li)
	}
	return r.lists[li][i]
}

func (r *refState) vals(li int) []int64 {
	out := make([]int64, len(r.lists[li]))
	for i, e := range r.lists[li] {
		out[i] = e.val
	}
	return out
}

func reversed(vs []int64) []int64 {
	out := make([]int64, len(vs))
	for i, v := range vs {
		out[len(vs)-1-i] = v
	}
	return out
}

func eqVals(a, b []int64) bool {
	if len(a) != len(b) {
		return false
	}
	for i := range a {
		if a[i] != b[i] {
			return false
		}
	}
	return true
}

func (r *refState) detachAll(li int) {
	for _, e := range r.lists[li] {
		e.where = -1
	}
	r.lists[li] = nil
}

func (r *refState) insertAt(li, i int, e *relem) {
	l := r.lists[li]
	l = append(l, nil)
	copy(l[i+1:], l[i:])
	l[i] = e
	r.lists[li] = l
	e.where = li
}

func (r *refState) deleteAt(li, i int) *relem {
	l := r.lists[li]
	e := l[i]
	r.lists[li] = append(l[:i:i], l[i+1:]...)
	e.where = -1
	return e
}

// step applies the operation to the reference, compares what the implementation returned, and
// then checks the whole observable state.  Returns (signature, detail) of the first failure.
func (r *refState) step(s *sim, o Op, p pre, res result, sliceSafe bool) (string, string) {
	if r.dead {
		return "", ""
	}
	class := p.class
	fail := func(cl, detail string) (string, string) { return "C16:" + method(o) + ":" + cl, detail }
	li := o.L & 1
	var msg string
	switch o.Op {
	case "PushFront":
		r.insertAt(li, 0, &relem{val: o.V, ok: true})
	case "PushBack":
		r.insertAt(li, len(r.lists[li]), &relem{val: o.V, ok: true})
	case "PopFront", "PopBack":
		if len(r.lists[li]) == 0 {
			class = "rejected"
			if _, m := r.fresh(res.elem, 0, false); m != "" {
				msg = "pop on an empty list: " + m
			}
		} else {
			i := 0
			if o.Op == "PopBack" {
				i = len(r.lists[li]) - 1
			}
			want := r.lists[li][i]
			msg = r.expect(res.elem, want, o.Op)
			r.deleteAt(li, i)
		}
	case "Front":
		msg = r.expect(res.elem, r.at(li, 0), "Front")
	case "Back":
		if len(r.lists[li]) == 0 {
			msg = r.expect(res.elem, r.root(li), "Back")
		} else {
			msg = r.expect(res.elem, r.at(li, len(r.lists[li])-1), "Back")
		}
	case "NewElement":
		_, msg = r.fresh(res.elem, o.V, true)
	case "Next", "Previous":
		d := 1
		if o.Op == "Previous" {
			d = -1
		}
		switch p.hc {
		case cAttached:
			msg = r.expect(res.elem, r.at(p.hr.where, r.pos(p.hr)+d), o.Op)
		case cRoot:
			n := len(r.lists[p.hr.where])
			if n == 0 {
				msg = r.expect(res.elem, p.hr, o.Op)
			} else if d == 1 {
				msg = r.expect(res.elem, r.at(p.hr.where, 0), o.Op)
			} else {
				msg = r.expect(res.elem, r.at(p.hr.where, n-1), o.Op)
			}
		default:
			// a detached element keeps stale pointers ("so iteration and deletes can interleave"):
			// the sequence model does not say where they lead
		}
	case "Append":
		if class == "success" {
			if res.elem != p.nr.ptr {
				msg = "Append of a detached element must return the new element"
			}
			i := 0
			if p.hc == cAttached {
				i = r.pos(p.hr) + 1
			}
			r.insertAt(p.hr.where, i, p.nr)
		} else if class != "misuse" {
			if res.elem != s.h(o.H) {
				msg = "a rejected Append must return the receiver"
			}
		}
	case "Remove", "Drop":
		want := class == "success"
		if o.Op == "Remove" && res.b != want {
			msg = fmt.Sprintf("Remove returned %v, expected %v", res.b, want)
		}
		if want {
			r.deleteAt(p.hr.where, r.pos(p.hr))
			if o.Op == "Drop" {
				p.hr.val, p.hr.ok = 0, false
			}
		}
	case "Swap":
		want := class == "success"
		if res.b != want {
			msg = fmt.Sprintf("Swap returned %v, expected %v", res.b, want)
		}
		if want && !p.hr.root && !p.nr.root {
			l := r.lists[p.hr.where]
			i, j := r.pos(p.hr), r.pos(p.nr)
			l[i], l[j] = l[j], l[i]
		} else if want {
			// swapping with the root "moves the head": rotate so that the sequence starts after the root
			other := p.hr
			if other.root {
				other = p.nr
			}
			l := r.lists[other.where]
			i := r.pos(other)
			// ring: root, l[0..i-1], other, l[i+1..]  -> root and other exchange places
			nl := append([]*relem{}, l[i+1:]...)
			nl = append(nl, other)
			nl = append(nl, l[:i]...)
			r.lists[other.where] = nl
		}
	case "Set":
		want := class == "success"
		if res.b != want {
			msg = fmt.Sprintf("Set returned %v, expected %v", res.b, want)
		}
		if want {
			p.hr.val, p.hr.ok = o.V, true
		}
	case "Extend":
		src := o.L2 & 1
		moved := r.lists[src]
		r.lists[src] = nil
		for _, e := range moved {
			r.insertAt(li, len(r.lists[li]), e)
		}
	case "Copy":
		c := res.copyList
		want := r.vals(li)
		if c.Len() != len(want) {
			msg = fmt.Sprintf("Copy has Len %d, expected %d", c.Len(), len(want))
		} else if len(want) > 0 {
			f, fp, _ := walkList(c, true)
			b, _, _ := walkList(c, false)
			if !eqVals(f, want) || !eqVals(reversed(b), want) {
				msg = fmt.Sprintf("Copy walks fwd=%v bwd=%v, expected %v", f, b, want)
			}
			for _, e := range fp {
				if r.byPtr[e] != nil || e.In(s.ls[0]) || e.In(s.ls[1]) || !e.In(c) {
					msg = "Copy shares an element with the original"
				}
			}
		}
	case "Slice":
		if !eqVals(res.vals, r.vals(li)) {
			msg = fmt.Sprintf("Slice = %v, expected %v", res.vals, r.vals(li))
		}
	case "Iter":
		want := r.vals(li)
		if o.K == 1 || o.K == 3 {
			want = reversed(want)
		}
		if !eqVals(res.vals, want) {
			msg = fmt.Sprintf("iterator produced %v, expected %v", res.vals, want)
		}
		if o.K >= 2 {
			r.detachAll(li)
		}
	case "JSON":
		want := r.vals(li)
		if !eqVals(res.vals, want) {
			msg = fmt.Sprintf("MarshalJSON decoded to %v, expected %v", res.vals, want)
		}
		dst := o.L2 & 1
		for _, v := range want {
			r.insertAt(dst, len(r.lists[dst]), &relem{val: v, ok: true})
		}
	case "SortQuick":
		lt := ltOf(o.K)
		l := r.lists[li]
		sort.SliceStable(l, func(i, j int) bool { return lt(l[i].val, l[j].val) }) // reference: any stable sort (unique result for a strict weak order)
	case "SortMerge":
		// contract: a permutation of the same elements with no element lt its predecessor.
		// The reference adopts the implementation's order after checking exactly that.
		var ptrs []*E
		if len(r.lists[li]) > 0 {
			_, ptrs, _ = walkList(s.ls[li], true)
		}
		if len(ptrs) != len(r.lists[li]) {
			msg = fmt.Sprintf("after SortMerge the forward walk has %d elements, expected %d", len(ptrs), len(r.lists[li]))
			break
		}
		seen := map[*relem]bool{}
		nl := make([]*relem, 0, len(ptrs))
		for _, q := range ptrs {
			e := r.byPtr[q]
			if e == nil || e.where != li || seen[e] {
				msg = "SortMerge result is not a permutation of the list's elements"
				break
			}
			seen[e] = true
			nl = append(nl, e)
		}
		if msg != "" {
			break
		}
		if o.K < nStrict {
			lt := ltOf(o.K)
			for i := 0; i+1 < len(nl); i++ {
				if lt(nl[i+1].val, nl[i].val) {
					msg = fmt.Sprintf("SortMerge result %v has an element lt its predecessor", s.ls[li].Slice())
				}
			}
		}
		r.lists[li] = nl
	case "IsSorted":
		lt := ltOf(o.K)
		want := true
		v := r.vals(li)
		for i := 0; i+1 < len(v); i++ {
			if lt(v[i+1], v[i]) {
				want = false
			}
		}
		if res.b != want {
			msg = fmt.Sprintf("IsSorted = %v, adjacent-pair oracle = %v on %v", res.b, want, v)
		}
	}
	if msg != "" {
		return fail(class, msg)
	}
	if kind, m := r.checkState(s, sliceSafe); m != "" {
		if o.Op == "SortMerge" && (kind == "in" || kind == "identity") {
			class = "ownership"
		}
		return fail(class, m)
	}
	return "", ""
}

// checkState compares everything observable through the public API with the reference.
func (r *refState) checkState(s *sim, sliceSafe bool) (kind, msg string) {
	for li, l := range s.ls {
		want := r.vals(li)
		if l.Len() != len(want) {
			return "len", fmt.Sprintf("l%d.Len() = %d, reference has %d elements %v", li, l.Len(), len(want), want)
		}
		if verifRootNil(l) {
			if len(want) != 0 {
				return "walk", fmt.Sprintf("l%d is uninitialised but the reference holds %v", li, want)
			}
			continue
		}
		f, fp, fend := walkList(l, true)
		b, bp, bend := walkList(l, false)
		if !eqVals(f, want) {
			return "walk", fmt.Sprintf("l%d forward walk %v, reference %v (backward %v)", li, f, want, b)
		}
		if !eqVals(reversed(b), want) {
			return "walk", fmt.Sprintf("l%d backward walk %v is not the reverse of the reference %v", li, b, want)
		}
		for i := range fp {
			if fp[i] != bp[len(bp)-1-i] {
				return "walk", fmt.Sprintf("l%d: forward and backward walks visit different elements at position %d", li, i)
			}
			if m := r.expect(fp[i], r.lists[li][i], fmt.Sprintf("l%d position %d", li, i)); m != "" {
				return "identity", m
			}
		}
		if fend != bend {
			return "walk", fmt.Sprintf("l%d: the walks end at different sentinels", li)
		}
		if m := r.expect(fend, r.root(li), fmt.Sprintf("l%d sentinel", li)); m != "" {
			return "identity", m
		}
		if sliceSafe {
			if sl := l.Slice(); !eqVals(sl, want) {
				return "walk", fmt.Sprintf("l%d.Slice() = %v, reference %v", li, sl, want)
			}
			if it := drainIter(l.Iterator()); !eqVals(it, want) {
				return "walk", fmt.Sprintf("l%d.Iterator() = %v, reference %v", li, it, want)
			}
			if it := drainIter(l.Reverse()); !eqVals(reversed(it), want) {
				return "walk", fmt.Sprintf("l%d.Reverse() = %v, reference reversed %v", li, it, want)
			}
		}
	}
	for i, e := range s.table {
		x := r.byPtr[e]
		if x == nil {
			return "identity", fmt.Sprintf("handle h%d is an element the reference has never seen", i)
		}
		for li, l := range s.ls {
			if e.In(l) != (x.where == li) {
				return "in", fmt.Sprintf("h%d.In(l%d) = %v but the reference has it %s", i, li, e.In(l), whereStr(x))
			}
		}
		if e.Ok() != x.ok {
			return "ok", fmt.Sprintf("h%d.Ok() = %v, reference %v", i, e.Ok(), x.ok)
		}
		if e.Value() != x.val {
			return "value", fmt.Sprintf("h%d.Value() = %d, reference %d", i, e.Value(), x.val)
		}
	}
	return "", ""
}

func whereStr(x *relem) string {
	switch {
	case x.root:
		return fmt.Sprintf("as the sentinel of l%d", x.where)
	case x.where < 0:
		return "detached"
	}
	return fmt.Sprintf("attached to l%d", x.where)
}
