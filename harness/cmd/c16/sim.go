package main

import (
	"context"
	"encoding/json"
	"fmt"
	"strings"

	"github.com/tychoish/fun"
	"github.com/tychoish/fun/dt"
	"github.com/tychoish/fun/dt/cmp"

	"verif/harness/kit"
)

type E = dt.Element[int64]
type L = dt.List[int64]

// Op is one operation. L/L2 are list indexes (0/1), H/N handle indexes into the
// table of every element ever returned in this case (-1 = nil), K an lt id
// (sorts, IsSorted) or an iterator kind (0 Iterator, 1 Reverse, 2 PopIterator, 3 PopReverse).
type Op struct {
	Op string `json:"op"`
	L  int    `json:"l"`
	L2 int    `json:"l2"`
	V  int64  `json:"v"`
	H  int    `json:"h"`
	N  int    `json:"n"`
	K  int    `json:"k"`
}

type Case struct {
	ID  int  `json:"id"`
	Ops []Op `json:"ops"`
}

func (o Op) takesHandle() bool {
	switch o.Op {
	case "Next", "Previous", "Append", "Remove", "Drop", "Swap", "Set":
		return true
	}
	return false
}

func (o Op) String() string {
	switch o.Op {
	case "PushFront", "PushBack":
		return fmt.Sprintf("%s(l%d,%d)", o.Op, o.L, o.V)
	case "PopFront", "PopBack", "Front", "Back", "Copy", "Slice":
		return fmt.Sprintf("%s(l%d)", o.Op, o.L)
	case "NewElement":
		return fmt.Sprintf("NewElement(%d)", o.V)
	case "Next", "Previous", "Remove", "Drop":
		return fmt.Sprintf("h%d.%s()", o.H, o.Op)
	case "Append", "Swap":
		return fmt.Sprintf("h%d.%s(h%d)", o.H, o.Op, o.N)
	case "Set":
		return fmt.Sprintf("h%d.Set(%d)", o.H, o.V)
	case "Extend", "JSON":
		return fmt.Sprintf("%s(l%d,l%d)", o.Op, o.L, o.L2)
	case "Iter":
		return fmt.Sprintf("Iter%d(l%d)", o.K, o.L)
	default:
		return fmt.Sprintf("%s(l%d,lt%d)", o.Op, o.L, o.K)
	}
}

func coqH(h int) string {
	if h < 0 {
		return "NIL"
	}
	return fmt.Sprintf("(H %d)", h)
}

func (o Op) coq() string {
	switch o.Op {
	case "PushFront", "PushBack":
		return fmt.Sprintf("O%s %d %s", o.Op, o.L, zs(o.V))
	case "PopFront", "PopBack", "Front", "Back", "Copy", "Slice":
		return fmt.Sprintf("O%s %d", o.Op, o.L)
	case "NewElement":
		return "ONewElement " + zs(o.V)
	case "Next":
		return "ONext " + coqH(o.H)
	case "Previous":
		return "OPrev " + coqH(o.H)
	case "Remove", "Drop":
		return fmt.Sprintf("O%s %s", o.Op, coqH(o.H))
	case "Append", "Swap":
		return fmt.Sprintf("O%s %s %s", o.Op, coqH(o.H), coqH(o.N))
	case "Set":
		return fmt.Sprintf("OSet %s %s", coqH(o.H), zs(o.V))
	case "Extend":
		return fmt.Sprintf("OExtend %d %d", o.L, o.L2)
	case "JSON":
		return fmt.Sprintf("OJSON %d %d", o.L, o.L2)
	case "Iter":
		return fmt.Sprintf("OIter %s %d", []string{"PFwd", "PRev", "PPop", "PRevPop"}[o.K], o.L)
	case "SortQuick", "SortMerge", "IsSorted":
		return fmt.Sprintf("O%s %d %d", o.Op, o.L, o.K)
	}
	panic("unknown op " + o.Op)
}

func zs(v int64) string {
	if v < 0 {
		return fmt.Sprintf("(%d)", v)
	}
	return fmt.Sprint(v)
}

func zlist(vs []int64) string {
	var sb strings.Builder
	sb.WriteByte('[')
	for i, v := range vs {
		if i > 0 {
			sb.WriteByte(';')
		}
		sb.WriteString(zs(v))
	}
	sb.WriteByte(']')
	return sb.String()
}

// ---------------------------------------------------------------- comparison family (ids as lt_of in Model/SortSpec.v)

func mod(a, m int64) int64 {
	r := a % m
	if r < 0 {
		r += m
	}
	return r
}
func abs(a int64) int64 {
	if a < 0 {
		return -a
	}
	return a
}

func ltOf(k int) cmp.LessThan[int64] {
	switch k {
	case 0:
		return cmp.LessThanNative[int64]
	case 1:
		return func(a, b int64) bool { return b < a }
	case 2:
		return cmp.LessThanConverter(func(a int64) int64 { return mod(a, 3) })
	case 3:
		return func(a, b int64) bool { return false }
	case 4:
		return cmp.LessThanConverter(abs)
	default:
		return cmp.Reverse(cmp.LessThanNative[int64])
	}
}

const nStrict = 5 // lt ids 0..4 are strict weak orders; 5 (<= reversed) is not

// ---------------------------------------------------------------- the real implementation under test

type sim struct {
	ls    [2]*L
	table []*E
	idx   map[*E]int
	ref   *refState
}

func newSim() *sim {
	return &sim{ls: [2]*L{{}, {}}, idx: map[*E]int{}, ref: newRef()}
}

func (s *sim) h(i int) *E {
	if i < 0 || i >= len(s.table) {
		return nil
	}
	return s.table[i]
}

func (s *sim) intern(e *E) int64 {
	if e == nil {
		return -1
	}
	if i, ok := s.idx[e]; ok {
		return int64(i)
	}
	s.idx[e] = len(s.table)
	s.table = append(s.table, e)
	return int64(len(s.table) - 1)
}

const (
	rUnit = iota
	rElem
	rBool
	rVals
	rCopy
)

type result struct {
	kind     int
	elem     *E
	b        bool
	vals     []int64
	copyList *L
	panicked bool
	panicVal string
}

func drainIter(it *fun.Iterator[int64]) []int64 {
	ctx := context.Background()
	out := []int64{}
	for it.Next(ctx) {
		out = append(out, it.Value())
	}
	_ = it.Close()
	return out
}

// exec runs one operation on the real lists; a panic is recovered and reported.
func (s *sim) exec(o Op) (res result) {
	defer func() {
		if p := recover(); p != nil {
			res.panicked = true
			res.panicVal = fmt.Sprint(p)
		}
	}()
	l := s.ls[o.L&1]
	switch o.Op {
	case "PushFront":
		l.PushFront(o.V)
	case "PushBack":
		l.PushBack(o.V)
	case "PopFront":
		res = result{kind: rElem, elem: l.PopFront()}
	case "PopBack":
		res = result{kind: rElem, elem: l.PopBack()}
	case "Front":
		res = result{kind: rElem, elem: l.Front()}
	case "Back":
		res = result{kind: rElem, elem: l.Back()}
	case "NewElement":
		res = result{kind: rElem, elem: dt.NewElement(o.V)}
	case "Next":
		res = result{kind: rElem, elem: s.h(o.H).Next()}
	case "Previous":
		res = result{kind: rElem, elem: s.h(o.H).Previous()}
	case "Append":
		res = result{kind: rElem, elem: s.h(o.H).Append(s.h(o.N))}
	case "Remove":
		res = result{kind: rBool, b: s.h(o.H).Remove()}
	case "Drop":
		s.h(o.H).Drop()
	case "Swap":
		res = result{kind: rBool, b: s.h(o.H).Swap(s.h(o.N))}
	case "Set":
		res = result{kind: rBool, b: s.h(o.H).Set(o.V)}
	case "Extend":
		if o.L&1 == o.L2&1 {
			panic("driver: Extend(l,l) is never generated (does not terminate for len >= 2)")
		}
		l.Extend(s.ls[o.L2&1])
	case "Copy":
		res = result{kind: rCopy, copyList: l.Copy()}
	case "Slice":
		res = result{kind: rVals, vals: append([]int64{}, l.Slice()...)}
	case "Iter":
		var it *fun.Iterator[int64]
		switch o.K {
		case 0:
			it = l.Iterator()
		case 1:
			it = l.Reverse()
		case 2:
			it = l.PopIterator()
		default:
			it = l.PopReverse()
		}
		res = result{kind: rVals, vals: drainIter(it)}
	case "JSON":
		data, err := json.Marshal(l)
		if err != nil {
			panic(err)
		}
		var vals []int64
		if err := json.Unmarshal(data, &vals); err != nil {
			panic(err)
		}
		if err := json.Unmarshal(data, s.ls[o.L2&1]); err != nil {
			panic(err)
		}
		res = result{kind: rVals, vals: append([]int64{}, vals...)}
	case "SortQuick":
		l.SortQuick(ltOf(o.K))
	case "SortMerge":
		l.SortMerge(ltOf(o.K))
	case "IsSorted":
		res = result{kind: rBool, b: l.IsSorted(ltOf(o.K))}
	default:
		panic("driver: unknown op " + o.Op)
	}
	return res
}

func verifRootNil(l *L) bool { return dt.VerifListRoot(l) == nil }

func b2z(b bool) int64 {
	if b {
		return 1
	}
	return 0
}

func lp(vs []int64) []int64 { return append([]int64{int64(len(vs))}, vs...) }

// walk a list with the public API in the given direction, while Ok, at most 2*Len+4 steps
func walkList(l *L, forward bool) (vals []int64, ptrs []*E, end *E) {
	bound := 2*l.Len() + 4
	var e *E
	if forward {
		e = l.Front()
	} else {
		e = l.Back()
	}
	vals = []int64{}
	for i := 0; i < bound && e.Ok(); i++ {
		vals = append(vals, e.Value())
		ptrs = append(ptrs, e)
		if forward {
			e = e.Next()
		} else {
			e = e.Previous()
		}
	}
	return vals, ptrs, e
}

func (s *sim) encRef(e *E) int64 {
	if e == nil {
		return -1
	}
	if i, ok := s.idx[e]; ok {
		return int64(i)
	}
	return -2
}

func (s *sim) encResult(res result) []int64 {
	switch res.kind {
	case rElem:
		return []int64{s.intern(res.elem)}
	case rBool:
		return []int64{b2z(res.b)}
	case rVals:
		return lp(res.vals)
	case rCopy:
		c := res.copyList
		out := []int64{int64(c.Len())}
		if dt.VerifListRoot(c) == nil {
			return append(out, 0, 0)
		}
		f, _, _ := walkList(c, true)
		b, _, _ := walkList(c, false)
		return append(append(out, lp(f)...), lp(b)...)
	}
	return []int64{}
}

// observe mirrors `observe` of coq/Corr/C16_corr.v.  A zero-value list (root nil) is not
// touched, so it stays a zero value until an operation initialises it.
func (s *sim) observe(sliceSafe bool) []int64 {
	out := []int64{}
	for _, l := range s.ls {
		if dt.VerifListRoot(l) == nil {
			out = append(out, int64(l.Len()), 0)
			continue
		}
		out = append(out, int64(l.Len()), 1)
		f, _, _ := walkList(l, true)
		b, _, _ := walkList(l, false)
		out = append(out, lp(f)...)
		out = append(out, lp(b)...)
		if sliceSafe {
			out = append(out, 1)
			out = append(out, lp(l.Slice())...)
		} else {
			out = append(out, 0)
		}
	}
	out = append(out, int64(len(s.table)))
	for _, e := range s.table {
		own := int64(-1)
		switch dt.VerifElementList(e) {
		case nil:
		case s.ls[0]:
			own = 0
		case s.ls[1]:
			own = 1
		default:
			own = 2
		}
		out = append(out, own, b2z(e.Ok()), e.Value(), s.encRef(dt.VerifElementNext(e)), s.encRef(dt.VerifElementPrev(e)))
	}
	return out
}

// ---------------------------------------------------------------- running a case

type stepRec struct {
	Op    Op      `json:"op"`
	Obs   []int64 `json:"obs"`
	Class string  `json:"class"`
}

type trace struct {
	Steps    []stepRec
	PanicOp  *Op // the op that panicked (ends the case; no observation)
	Final    int
	NoTerm   bool // the observation itself failed: no Coq term for this case
	TableLen int
	Sig      string
	Detail   string
}

func (t *trace) ops() []Op {
	out := make([]Op, 0, len(t.Steps)+1)
	for _, s := range t.Steps {
		out = append(out, s.Op)
	}
	if t.PanicOp != nil {
		out = append(out, *t.PanicOp)
	}
	return out
}

func (t *trace) obsOnly() [][]int64 {
	out := [][]int64{}
	for _, s := range t.Steps {
		out = append(out, s.Obs)
	}
	return out
}

func (t *trace) coq(id int) string {
	ops := make([]string, 0, len(t.Steps)+1)
	obs := make([]string, 0, len(t.Steps))
	for _, s := range t.Steps {
		ops = append(ops, s.Op.coq())
		obs = append(obs, zlist(s.Obs))
	}
	if t.PanicOp != nil {
		ops = append(ops, t.PanicOp.coq())
	}
	return fmt.Sprintf("mkCase %d [%s] [%s] %d", id, strings.Join(ops, "; "), strings.Join(obs, ";\n "), t.Final)
}

type genCfg struct {
	maxOps  int
	span    int64
	prelude bool
}

// runCase executes fixed ops (replay, corpus, enumeration) or, when ops == nil, generates the
// next op from the current state with r.  A panic ends the case; so does a successful Swap
// (after its observation): later library loops may not terminate on the corrupted ring.
func runCase(ops []Op, r *kit.Rand, cfg *genCfg) *trace {
	s := newSim()
	tr := &trace{}
	defer func() { tr.TableLen = len(s.table) }()
	var g *gen
	n := len(ops)
	if ops == nil {
		g = newGen(r, cfg)
		n = cfg.maxOps
	}
	for i := 0; i < n; i++ {
		var o Op
		if g != nil {
			o = g.next(s)
		} else {
			o = ops[i]
		}
		pre := s.ref.classify(s, o)
		watchBegin(tr, o)
		res := s.exec(o)
		if res.panicked {
			if strings.HasPrefix(res.panicVal, "driver:") {
				panic(res.panicVal)
			}
			watchEnd()
			oo := o
			tr.PanicOp = &oo
			tr.Final = 1
			if sig, detail := s.ref.onPanic(o, pre, res); sig != "" && tr.Sig == "" {
				tr.Sig, tr.Detail = sig, fmt.Sprintf("step %d %s: %s", i, o.String(), detail)
			}
			return tr
		}
		swapped := o.Op == "Swap" && res.b
		var obs []int64
		sig, detail := "", ""
		func() {
			// the observations use the public API; on a corrupted list they may panic themselves
			defer func() {
				if p := recover(); p != nil {
					sig, detail = "C16:"+method(o)+":panic", fmt.Sprint("observing the lists after the operation panicked: ", p)
					tr.NoTerm = true
				}
			}()
			enc := s.encResult(res)
			obs = append(enc, s.observe(!swapped)...)
			tr.Steps = append(tr.Steps, stepRec{Op: o, Obs: obs, Class: pre.class})
			sig, detail = s.ref.step(s, o, pre, res, !swapped)
		}()
		if sig != "" && tr.Sig == "" {
			tr.Sig, tr.Detail = sig, fmt.Sprintf("step %d %s: %s", i, o.String(), detail)
		}
		if swapped {
			tr.Final = 2
			watchEnd()
			return tr
		}
		if tr.Sig != "" {
			// the property is violated: the lists may be corrupted and later library loops may
			// not terminate, so the case ends here (the model is still compared up to this step)
			watchEnd()
			return tr
		}
	}
	watchEnd()
	return tr
}
