// Driver for C03 (worker-group error contract).
//
//	(a) the decision table cell by cell: every WorkerGroupConf (2^3 option bits x ExcludedErrors
//	    variants x recording handler / erc.Collector) x every failure kind, the error built by the
//	    REAL WithRecover wrappers (Processor, Worker, Producer, Transform) and classified by the
//	    REAL WorkerGroupConf.CanContinueOnError;
//	(b) end to end through Iterator.ProcessParallel, itertool.ParallelForEach, itertool.Worker,
//	    Map and Generate(Parallel) for single and double fault positions, every kind, every option
//	    combination, workers in {1,2,4}; every item stamps start and end with one atomic counter.
//
// Each case is printed as a Coq term that carries the observations; coq/Corr/C03_corr.v re-runs the
// model.  The direct oracles below are written from the property text and do not use the model.
//
// The work is done in a child process (same binary, C03_CHILD=1): a panic that escapes a worker
// goroutine kills the process and cannot be recovered in-process; the parent then reports the case
// that was running as C03:panic:escaped.
package main

import (
	"context"
	"encoding/json"
	"errors"
	"fmt"
	"io"
	"os"
	"os/exec"
	"path/filepath"
	"runtime"
	"sort"
	"strconv"
	"strings"
	"sync"
	"sync/atomic"
	"time"

	"github.com/tychoish/fun"
	"github.com/tychoish/fun/erc"
	"github.com/tychoish/fun/ers"
	"github.com/tychoish/fun/itertool"

	"verif/harness/kit"
)

// ---------------------------------------------------------------- kinds and sentinels

const (
	Plain = iota
	Wrapped
	PanicErr
	PanicStr
	PanicOther
	PanicErrSlice
	Skip
	Eof
	Abort
	CtxCanceled
	CtxDeadline
	Excluded
	PanicWrapSkip // panic(v), v is (bare) or wraps (tagged) a control sentinel
	PanicWrapEof
	PanicWrapAbort
	PanicWrapCanceled
	PanicWrapDeadline
	RetMarked // returned error wrapping ErrRecoveredPanic and the own sentinel
	nKinds
)

var kindNames = []string{"Plain", "Wrapped", "PanicErr", "PanicStr", "PanicOther", "PanicErrSlice", "Skip", "Eof", "Abort", "CtxCanceled", "CtxDeadline", "Excluded",
	"PanicWrapSkip", "PanicWrapEof", "PanicWrapAbort", "PanicWrapCanceled", "PanicWrapDeadline", "RetMarked"}

// constructor terms of coq/Model/WorkerConf.v
var coqKinds = []string{"Plain", "Wrapped", "PanicErr", "PanicStr", "PanicOther", "PanicErrSlice", "Skip", "Eof", "Abort", "CtxCanceled", "CtxDeadline", "Excluded",
	"(PanicWrap id_skip)", "(PanicWrap id_eof)", "(PanicWrap id_abort)", "(PanicWrap id_canceled)", "(PanicWrap id_deadline)", "RetMarked"}

// the control sentinel a PanicWrap kind carries (reserved id), 0 if none
func wrapCtl(k int) int {
	switch k {
	case PanicWrapSkip:
		return -2
	case PanicWrapEof:
		return -3
	case PanicWrapAbort:
		return -6
	case PanicWrapCanceled:
		return -4
	case PanicWrapDeadline:
		return -5
	}
	return 0
}

const maxID = 1024
const decoy = 1023

var sent [maxID]error

func init() {
	for i := range sent {
		sent[i] = fmt.Errorf("sentinel-%d!", i)
	}
}

// reserved sentinel ids of coq/Model/WorkerConf.v
var reservedIDs = []int{-1, -2, -3, -4, -5, -6}

func errOfID(id int) error {
	switch id {
	case -1:
		return fun.ErrRecoveredPanic
	case -2:
		return fun.ErrIteratorSkip
	case -3:
		return io.EOF
	case -4:
		return context.Canceled
	case -5:
		return context.DeadlineExceeded
	case -6:
		return ers.ErrCurrentOpAbort
	}
	return sent[id]
}

type weird struct{ Tag string }

func isPanicKind(k int) bool { return (k >= PanicErr && k <= PanicErrSlice) || k >= PanicWrapSkip }
func isErrorKind(k int) bool { return k == Plain || k == Wrapped || k == Abort }
func taggable(k int) bool {
	return k == Skip || k == Eof || k == Abort || k == CtxCanceled || k == CtxDeadline || wrapCtl(k) != 0
}
func carriesID(k int, tagged bool) bool {
	switch k {
	case Plain, Wrapped, Excluded, PanicErr, PanicErrSlice, RetMarked:
		return true
	case PanicStr, PanicOther:
		return false
	}
	return tagged
}
func identifiable(k int, tagged bool) bool {
	return carriesID(k, tagged) || k == PanicStr || k == PanicOther
}

// perform is what the user function does for a failure of the given kind (returns or panics).
func perform(k, id int, tagged bool) error {
	s := sent[id]
	tag := func(base error) error {
		if tagged {
			if id%2 == 0 {
				return ers.Join(base, s)
			}
			return fmt.Errorf("tagged %d: %w / %w", id, base, s)
		}
		return base
	}
	if ctl := wrapCtl(k); ctl != 0 {
		if tagged {
			panic(fmt.Errorf("pw-%d: %w / %w", id, errOfID(ctl), s))
		}
		panic(errOfID(ctl))
	}
	switch k {
	case Plain, Excluded:
		return s
	case Wrapped:
		return fmt.Errorf("wrapped for %d: %w", id, s)
	case PanicErr:
		panic(s)
	case PanicStr:
		panic(fmt.Sprintf("pstr-%d!", id))
	case PanicOther:
		panic(weird{Tag: fmt.Sprintf("pother-%d!", id)})
	case PanicErrSlice:
		panic([]error{s, errors.New("second member")})
	case Skip:
		return tag(fun.ErrIteratorSkip)
	case Eof:
		return tag(io.EOF)
	case Abort:
		return tag(ers.ErrCurrentOpAbort)
	case CtxCanceled:
		return tag(context.Canceled)
	case CtxDeadline:
		return tag(context.DeadlineExceeded)
	case RetMarked:
		return fmt.Errorf("rm-%d: %w / %w", id, fun.ErrRecoveredPanic, s)
	}
	return nil
}

// foundIn: is the failure (kind, id) recognisable in the result?
func foundIn(res error, k, id int, tagged bool) bool {
	if res == nil || !identifiable(k, tagged) {
		return false
	}
	switch k {
	case PanicStr:
		return strings.Contains(res.Error(), fmt.Sprintf("pstr-%d!", id))
	case PanicOther:
		return strings.Contains(res.Error(), fmt.Sprintf("pother-%d!", id))
	}
	return errors.Is(res, sent[id])
}

func profileOf(err error, extra []int) []bool {
	out := []bool{err == nil}
	for _, id := range append(append([]int{}, reservedIDs...), extra...) {
		out = append(out, err != nil && errors.Is(err, errOfID(id)))
	}
	return out
}

// ---------------------------------------------------------------- cases

type Conf struct {
	COE    bool  `json:"coe"`
	COP    bool  `json:"cop"`
	Incl   bool  `json:"incl"`
	Excl   []int `json:"excl"`
	Custom bool  `json:"custom"`
}

type Fault struct {
	Pos    int  `json:"pos"`
	Kind   int  `json:"kind"`
	Tagged bool `json:"tagged"`
}

type Case struct {
	ID   int    `json:"id"`
	Type string `json:"type"` // parse | table | e2e
	// parse
	PV string `json:"pv,omitempty"`
	// table
	Conf   Conf   `json:"conf"`
	Via    string `json:"via,omitempty"` // processor|worker|producer|transform|direct
	Kind   int    `json:"kind"`
	EID    int    `json:"eid"`
	Tagged bool   `json:"tagged"`
	// e2e
	Construct string  `json:"construct,omitempty"` // pp|pfe|worker|map|fmap|gen|fgen
	Workers   int     `json:"workers,omitempty"`
	N         int     `json:"n,omitempty"`
	Faults    []Fault `json:"faults,omitempty"`
	KindNames []string `json:"kind_names,omitempty"`
}

func (c Conf) excludes(id int) bool {
	for _, e := range c.Excl {
		if e == id {
			return true
		}
	}
	return false
}

func coqConf(c Conf) string {
	return fmt.Sprintf("(mkconf %s %s %s %s)", kit.Bool(c.COE), kit.Bool(c.COP), kit.Bool(c.Incl), kit.ZListI(c.Excl))
}

// ---------------------------------------------------------------- the contract, from the property text

// effective kind: an error kind whose error carries an excluded sentinel IS an excluded error
func effectiveKind(c Conf, k, id int, tagged bool) int {
	switch k {
	case Plain, Wrapped, Excluded:
		if c.excludes(id) {
			return Excluded
		}
		if k == Excluded {
			return Plain
		}
	case Abort:
		if c.excludes(-6) || (tagged && c.excludes(id)) {
			return Excluded
		}
	}
	return k
}

// reportable: must the failure appear in the result?  cont: does processing go on after it?
// sliceAsImplemented: treat a []error panic the way the code does (known finding) instead of as a panic.
func contract(c Conf, k, id int, tagged bool, sliceAsImplemented bool) (reportable, cont, panicMarked bool) {
	k = effectiveKind(c, k, id, tagged)
	if k == PanicErrSlice && sliceAsImplemented {
		if c.excludes(id) {
			return false, true, false
		}
		return true, c.COE, false
	}
	switch {
	case isPanicKind(k):
		return true, c.COP, true
	case isErrorKind(k):
		return true, c.COE, false
	case k == Skip || k == Excluded:
		return false, true, false
	case k == Eof:
		return false, false, false
	default: // context
		return c.Incl, false, false
	}
}

// a "failure" in the sense of the abort clause: an error or panic, not a control signal
func isFailure(c Conf, k, id int, tagged bool) bool {
	k = effectiveKind(c, k, id, tagged)
	return isPanicKind(k) || isErrorKind(k)
}

// ---------------------------------------------------------------- (a) the table

type recorder struct {
	mu   sync.Mutex
	errs []error
}

func (r *recorder) add(err error) { r.mu.Lock(); r.errs = append(r.errs, err); r.mu.Unlock() }
func (r *recorder) resolve() error {
	r.mu.Lock()
	defer r.mu.Unlock()
	return ers.Join(r.errs...)
}
func (r *recorder) count() int { r.mu.Lock(); defer r.mu.Unlock(); return len(r.errs) }

func buildErr(via string, k, id int, tagged bool) (err error, escaped any) {
	defer func() {
		if r := recover(); r != nil {
			escaped = r
		}
	}()
	ctx := context.Background()
	do := func() error { return perform(k, id, tagged) }
	switch via {
	case "processor":
		return fun.Processor[int](func(context.Context, int) error { return do() }).WithRecover()(ctx, 0), nil
	case "worker":
		return fun.Worker(func(context.Context) error { return do() }).WithRecover()(ctx), nil
	case "producer":
		_, e := fun.Producer[int](func(context.Context) (int, error) { return 0, do() }).WithRecover()(ctx)
		return e, nil
	case "transform":
		_, e := fun.Transform[int, int](func(context.Context, int) (int, error) { return 0, do() }).WithRecover()(ctx, 0)
		return e, nil
	default: // direct: only for kinds that return
		return do(), nil
	}
}

type tableObs struct {
	Profile  []bool `json:"profile"`
	Record   bool   `json:"record"`
	Continue bool   `json:"continue"`
	Calls    int    `json:"handler_calls"`
	RecPanic bool   `json:"recorded_has_ErrRecoveredPanic"`
	RecID    bool   `json:"recorded_has_sentinel"`
	Escaped  string `json:"escaped,omitempty"`
}

func runTable(c Case) (o tableObs) {
	err, esc := buildErr(c.Via, c.Kind, c.EID, c.Tagged)
	if esc != nil {
		o.Escaped = fmt.Sprint(esc)
		return
	}
	o.Profile = profileOf(err, []int{c.EID})
	var excl []error
	for _, id := range c.Conf.Excl {
		excl = append(excl, errOfID(id))
	}
	var recorded error
	func() {
		defer func() {
			if r := recover(); r != nil {
				o.Escaped = fmt.Sprint(r)
			}
		}()
		if !c.Conf.Custom {
			rec := &recorder{}
			conf := fun.WorkerGroupConf{ContinueOnError: c.Conf.COE, ContinueOnPanic: c.Conf.COP,
				IncludeContextExpirationErrors: c.Conf.Incl, ExcludedErrors: excl, ErrorHandler: rec.add, ErrorResolver: rec.resolve}
			o.Continue = conf.CanContinueOnError(err)
			o.Calls = rec.count()
			recorded = rec.resolve()
		} else {
			// through the option providers and an erc.Collector
			col := &erc.Collector{}
			opts := &fun.WorkerGroupConf{}
			ps := []fun.OptionProvider[*fun.WorkerGroupConf]{fun.WorkerGroupConfWithErrorCollector(col)}
			if c.Conf.COE {
				ps = append(ps, fun.WorkerGroupConfContinueOnError())
			}
			if c.Conf.COP {
				ps = append(ps, fun.WorkerGroupConfContinueOnPanic())
			}
			if c.Conf.Incl {
				ps = append(ps, fun.WorkerGroupConfIncludeContextErrors())
			}
			if len(excl) > 0 {
				ps = append(ps, fun.WorkerGroupConfAddExcludeErrors(excl...))
			}
			if e := fun.JoinOptionProviders(ps...).Apply(opts); e != nil {
				panic(e)
			}
			o.Continue = opts.CanContinueOnError(err)
			recorded = col.Resolve()
			if recorded != nil {
				o.Calls = 1
			}
		}
	}()
	o.Record = o.Calls > 0
	o.RecPanic = recorded != nil && errors.Is(recorded, fun.ErrRecoveredPanic)
	o.RecID = foundIn(recorded, c.Kind, c.EID, c.Tagged)
	return
}

func oracleTable(c Case, o tableObs, sliceAsImpl bool) (sig, detail string) {
	k := c.Kind
	name := kindNames[k]
	if o.Escaped != "" {
		return "C03:panic:escaped", "WithRecover/CanContinueOnError panicked: " + o.Escaped
	}
	rep, cont, marked := contract(c.Conf, k, c.EID, c.Tagged, sliceAsImpl)
	ek := effectiveKind(c.Conf, k, c.EID, c.Tagged)
	if o.Calls > 1 {
		return "C03:CanContinueOnError:recorded-twice", fmt.Sprintf("handler called %d times for one %s", o.Calls, name)
	}
	if o.Record && !rep {
		switch {
		case ek == Excluded:
			return "C03:ExcludedErrors:reported", fmt.Sprintf("%s listed in ExcludedErrors %v was handed to the ErrorHandler", name, c.Conf.Excl)
		case ek == Eof:
			return "C03:eof:reported", "io.EOF handed to the ErrorHandler"
		case ek == Skip:
			return "C03:skip:reported", "ErrIteratorSkip handed to the ErrorHandler"
		case ek == PanicErrSlice:
			return "C03:ParsePanic:error-slice", "excluded []error panic recorded"
		default:
			return "C03:context:reported", name + " handed to the ErrorHandler without IncludeContextExpirationErrors"
		}
	}
	if !o.Record && rep {
		switch {
		case isPanicKind(ek):
			return "C03:panic:swallowed", name + " was not handed to the ErrorHandler"
		case isErrorKind(ek):
			return "C03:error:swallowed", name + " was not handed to the ErrorHandler"
		default:
			return "C03:context:not-reported", name + " not recorded although IncludeContextExpirationErrors is set"
		}
	}
	if o.Record && marked && !o.RecPanic {
		return "C03:panic:not-marked", "errors.Is(recorded, ErrRecoveredPanic) is false for " + name
	}
	if o.Record && identifiable(k, c.Tagged) && !o.RecID {
		return "C03:error:lost-identity", "the original error of " + name + " is not found in what was recorded"
	}
	if o.Continue != cont {
		if ek == Excluded {
			return "C03:ExcludedErrors:aborts", fmt.Sprintf("CanContinueOnError=%v for an excluded error", o.Continue)
		}
		return "C03:CanContinueOnError:continue-bit", fmt.Sprintf("CanContinueOnError=%v for %s under coe=%v cop=%v, contract says %v", o.Continue, name, c.Conf.COE, c.Conf.COP, cont)
	}
	return "", ""
}

// ---------------------------------------------------------------- ParsePanic directly

var parseCases = []struct {
	name string
	val  func() any
	coq  string
}{
	{"nil", func() any { return nil }, "None"},
	{"error", func() any { return sent[0] }, "(Some (PVErr [0]))"},
	{"wrapped-error", func() any { return fmt.Errorf("w: %w", sent[1]) }, "(Some (PVErr [1]))"},
	{"eof", func() any { return io.EOF }, "(Some (PVErr [id_eof]))"},
	{"string", func() any { return "boom" }, "(Some PVStr)"},
	{"int", func() any { return 42 }, "(Some PVOther)"},
	{"struct", func() any { return weird{"x"} }, "(Some PVOther)"},
	{"slice0", func() any { return []error{} }, "(Some (PVErrSlice []))"},
	{"slice1", func() any { return []error{sent[2]} }, "(Some (PVErrSlice [[2]]))"},
	{"slice2", func() any { return []error{sent[2], sent[3]} }, "(Some (PVErrSlice [[2]; [3]]))"},
	{"slice-plain", func() any { return []error{errors.New("a"), errors.New("b")} }, "(Some (PVErrSlice [[]; []]))"},
	{"slice-with-panic-sentinel", func() any { return []error{sent[0], fun.ErrRecoveredPanic} }, "(Some (PVErrSlice [[0]; [id_panic]]))"},
}

// ---------------------------------------------------------------- (b) end to end

var gateBroken atomic.Bool

const gateWait = 10 * time.Second

func goid() int64 {
	var buf [64]byte
	n := runtime.Stack(buf[:], false)
	f := strings.Fields(string(buf[:n]))
	if len(f) < 2 {
		return -1
	}
	v, _ := strconv.ParseInt(f[1], 10, 64)
	return v
}

type tracker struct {
	c        Case
	clock    atomic.Int64
	faultAt  map[int]*Fault
	start    []atomic.Int64
	end      []atomic.Int64
	count    []atomic.Int32
	gid      []atomic.Int64
	failed   atomic.Bool
	timeouts atomic.Int32
}

func newTracker(c Case) *tracker {
	t := &tracker{c: c, faultAt: map[int]*Fault{}}
	t.start = make([]atomic.Int64, c.N)
	t.end = make([]atomic.Int64, c.N)
	t.count = make([]atomic.Int32, c.N)
	t.gid = make([]atomic.Int64, c.N)
	for i := range c.Faults {
		t.faultAt[c.Faults[i].Pos] = &c.Faults[i]
	}
	return t
}

// visit is the body of the user function for item idx.  Items that start after a failure that
// (by the contract) aborts the group wait for the group's context to be cancelled: the cancel()
// call follows the failing function's return by a few instructions, and this makes "how many
// items start after the first failure returned" independent of how fast the others spin.
func (t *tracker) visit(ctx context.Context, idx int) error {
	st := t.clock.Add(1)
	if t.count[idx].Add(1) == 1 {
		t.start[idx].Store(st)
		t.gid[idx].Store(goid())
	}
	if t.failed.Load() && !gateBroken.Load() {
		tm := time.NewTimer(gateWait)
		select {
		case <-ctx.Done():
		case <-tm.C:
			gateBroken.Store(true)
			t.timeouts.Add(1)
		}
		tm.Stop()
	}
	f := t.faultAt[idx]
	if f == nil {
		t.end[idx].Store(t.clock.Add(1))
		return nil
	}
	_, cont, _ := contract(t.c.Conf, f.Kind, f.Pos, f.Tagged, true)
	if !cont && isFailure(t.c.Conf, f.Kind, f.Pos, f.Tagged) {
		t.failed.Store(true)
	}
	t.end[idx].Store(t.clock.Add(1))
	return perform(f.Kind, f.Pos, f.Tagged)
}

type e2eObs struct {
	Nil       bool    `json:"nil"`
	Err       string  `json:"err,omitempty"`
	Found     []bool  `json:"found"`
	Flags     []bool  `json:"flags"`
	Processed int     `json:"processed"`
	Once      bool    `json:"once"`
	Prefix    bool    `json:"prefix"`
	Crash     string  `json:"crash,omitempty"`
	TimedOut  bool    `json:"timed_out,omitempty"`
	Outputs   []int   `json:"outputs,omitempty"`
	Starts    []int64 `json:"starts"`
	Ends      []int64 `json:"ends"`
	Gids      []int64 `json:"gids"`
	GateTO    int     `json:"gate_timeouts,omitempty"`
}

func runE2E(c Case) (o e2eObs) {
	t := newTracker(c)
	ctx, cancel := context.WithTimeout(context.Background(), 120*time.Second)
	defer cancel()

	opts := []fun.OptionProvider[*fun.WorkerGroupConf]{fun.WorkerGroupConfNumWorkers(c.Workers)}
	if c.Conf.COE {
		opts = append(opts, fun.WorkerGroupConfContinueOnError())
	}
	if c.Conf.COP {
		opts = append(opts, fun.WorkerGroupConfContinueOnPanic())
	}
	if c.Conf.Incl {
		opts = append(opts, fun.WorkerGroupConfIncludeContextErrors())
	}
	if len(c.Conf.Excl) > 0 {
		var ex []error
		for _, id := range c.Conf.Excl {
			ex = append(ex, errOfID(id))
		}
		opts = append(opts, fun.WorkerGroupConfAddExcludeErrors(ex...))
	}
	col := &recorder{}
	if c.Conf.Custom {
		opts = append(opts, fun.WorkerGroupConfErrorCollectorPair(col.add, col.resolve))
	}

	items := make([]int, c.N)
	for i := range items {
		items[i] = i
	}
	var res error
	func() {
		defer func() {
			if r := recover(); r != nil {
				o.Crash = fmt.Sprint(r)
			}
		}()
		switch c.Construct {
		case "pp":
			res = fun.SliceIterator(items).ProcessParallel(func(ctx context.Context, i int) error { return t.visit(ctx, i) }, opts...).Run(ctx)
		case "pfe":
			res = itertool.ParallelForEach(ctx, fun.SliceIterator(items), func(ctx context.Context, i int) error { return t.visit(ctx, i) }, opts...)
		case "worker":
			ws := make([]fun.Worker, c.N)
			for i := range ws {
				i := i
				ws[i] = func(ctx context.Context) error { return t.visit(ctx, i) }
			}
			res = itertool.Worker(ctx, fun.SliceIterator(ws), opts...)
		case "map", "fmap":
			fn := func(ctx context.Context, i int) (int, error) { err := t.visit(ctx, i); return i, err }
			var out *fun.Iterator[int]
			if c.Construct == "map" {
				out = itertool.Map(fun.SliceIterator(items), fn, opts...)
			} else {
				out = fun.Map(fun.SliceIterator(items), fn, opts...)
			}
			for out.Next(ctx) {
				o.Outputs = append(o.Outputs, out.Value())
			}
			res = out.Close()
		case "gen", "fgen":
			var calls atomic.Int64
			gen := fun.Producer[int](func(ctx context.Context) (int, error) {
				k := int(calls.Add(1) - 1)
				if k >= c.N {
					return 0, io.EOF
				}
				err := t.visit(ctx, k)
				return k, err
			})
			var out *fun.Iterator[int]
			if c.Construct == "gen" {
				out = itertool.Generate(gen, opts...)
			} else {
				out = gen.GenerateParallel(opts...)
			}
			for out.Next(ctx) {
				o.Outputs = append(o.Outputs, out.Value())
			}
			res = out.Close()
		default:
			panic("unknown construct " + c.Construct)
		}
	}()
	o.TimedOut = ctx.Err() != nil
	if c.Conf.Custom {
		res = ers.Join(res, col.resolve())
	}
	o.Nil = res == nil
	if res != nil {
		o.Err = res.Error()
		if len(o.Err) > 300 {
			o.Err = o.Err[:300]
		}
	}
	for _, f := range c.Faults {
		o.Found = append(o.Found, foundIn(res, f.Kind, f.Pos, f.Tagged))
	}
	o.Flags = profileOf(res, nil)[1:]
	o.Once, o.Prefix = true, true
	for i := 0; i < c.N; i++ {
		n := int(t.count[i].Load())
		o.Starts = append(o.Starts, t.start[i].Load())
		o.Ends = append(o.Ends, t.end[i].Load())
		o.Gids = append(o.Gids, t.gid[i].Load())
		if n > 0 {
			o.Processed++
		}
		if n > 1 {
			o.Once = false
		}
	}
	for i := 0; i < c.N; i++ {
		if (t.count[i].Load() > 0) != (i < o.Processed) {
			o.Prefix = false
		}
	}
	sort.Ints(o.Outputs)
	o.GateTO = int(t.timeouts.Load())
	return
}

// the direct oracle for an end-to-end run, clause by clause from the property text
func oracleE2E(c Case, o e2eObs, sliceAsImpl bool) (sig, detail string) {
	if o.Crash != "" {
		return "C03:panic:escaped", "the call itself panicked: " + o.Crash
	}
	if o.TimedOut {
		return "C03:run:timeout", "the operation did not finish within 120 s"
	}
	processed := func(f Fault) bool { return o.Starts[f.Pos] != 0 }
	anyReportable, allCont := false, true
	panicSeen, cancSeen, deadSeen, abortSeen, skipSeen, eofSeen := false, false, false, false, false, false
	reportablePanic := false
	for i, f := range c.Faults {
		rep, cont, marked := contract(c.Conf, f.Kind, f.Pos, f.Tagged, sliceAsImpl)
		ek := effectiveKind(c.Conf, f.Kind, f.Pos, f.Tagged)
		if !cont {
			allCont = false
		}
		if !processed(f) {
			if o.Found[i] {
				return "C03:result:invented", fmt.Sprintf("failure at %d found in the result although its item never ran", f.Pos)
			}
			continue
		}
		if rep {
			anyReportable = true
			if marked {
				panicSeen = true
			}
			if f.Kind == CtxCanceled {
				cancSeen = true
			}
			if f.Kind == CtxDeadline {
				deadSeen = true
			}
			if f.Kind == Abort {
				abortSeen = true
			}
			if isPanicKind(ek) {
				reportablePanic = true
			}
			// a recovered panic whose value is or wraps a control sentinel legitimately carries it
			if ctl := wrapCtl(f.Kind); ctl != 0 {
				switch ctl {
				case -2:
					skipSeen = true
				case -3:
					eofSeen = true
				case -4:
					cancSeen = true
				case -5:
					deadSeen = true
				case -6:
					abortSeen = true
				}
				flagIdx := map[int]int{-2: 1, -3: 2, -4: 3, -5: 4, -6: 5}[ctl]
				if !o.Flags[flagIdx] || !o.Flags[0] {
					return "C03:panic:swallowed", fmt.Sprintf("panic (%s) at item %d: its value / ErrRecoveredPanic is not in the result", kindNames[f.Kind], f.Pos)
				}
			}
			if identifiable(f.Kind, f.Tagged) && !o.Found[i] {
				if isPanicKind(ek) {
					return "C03:panic:swallowed", fmt.Sprintf("panic (%s) at item %d is not in the result", kindNames[f.Kind], f.Pos)
				}
				return "C03:error:swallowed", fmt.Sprintf("%s at item %d is not in the result", kindNames[f.Kind], f.Pos)
			}
		} else if o.Found[i] {
			switch {
			case ek == Excluded:
				return "C03:ExcludedErrors:reported", fmt.Sprintf("excluded error at item %d is in the result (ExcludedErrors=%v)", f.Pos, c.Conf.Excl)
			case ek == Eof:
				return "C03:eof:reported", fmt.Sprintf("io.EOF failure at item %d is in the result", f.Pos)
			case ek == Skip:
				return "C03:skip:reported", fmt.Sprintf("ErrIteratorSkip at item %d is in the result", f.Pos)
			case ek == PanicErrSlice:
				return "C03:ParsePanic:error-slice", "excluded []error panic reported"
			default:
				return "C03:context:reported", fmt.Sprintf("context error at item %d is in the result without IncludeContextExpirationErrors", f.Pos)
			}
		}
	}
	// flags: panic, skip, eof, canceled, deadline, abort
	if panicSeen && !o.Flags[0] {
		return "C03:panic:not-marked", "a panic was processed but errors.Is(result, ErrRecoveredPanic) is false"
	}
	if o.Flags[1] && !skipSeen {
		return "C03:skip:reported", "errors.Is(result, ErrIteratorSkip)"
	}
	if o.Flags[2] && !eofSeen {
		return "C03:eof:reported", "errors.Is(result, io.EOF)"
	}
	if o.Flags[3] && !cancSeen {
		return "C03:context:reported", "errors.Is(result, context.Canceled) without a reportable cancellation failure"
	}
	if o.Flags[4] && !deadSeen {
		return "C03:context:reported", "errors.Is(result, context.DeadlineExceeded) without a reportable deadline failure"
	}
	if o.Flags[5] && !abortSeen {
		return "C03:result:invented", "errors.Is(result, ErrCurrentOpAbort) without such a failure"
	}
	// nil exactly when no reportable failure occurred
	if o.Nil && anyReportable {
		if reportablePanic {
			return "C03:panic:swallowed", "result is nil although a panic was processed"
		}
		return "C03:error:swallowed", "result is nil although a reportable failure was processed"
	}
	if !o.Nil && !anyReportable {
		return "C03:result:spurious-error", "result is non-nil (" + o.Err + ") although no reportable failure was processed"
	}
	if !o.Once {
		return "C03:item:duplicated", "an item was processed twice"
	}
	if allCont {
		if o.Processed != c.N {
			return "C03:continue:item-lost", fmt.Sprintf("continue mode: %d of %d items processed", o.Processed, c.N)
		}
		if c.Construct == "map" || c.Construct == "fmap" || c.Construct == "gen" || c.Construct == "fgen" {
			want := []int{}
			isFault := map[int]bool{}
			for _, f := range c.Faults {
				isFault[f.Pos] = true
			}
			for i := 0; i < c.N; i++ {
				if !isFault[i] {
					want = append(want, i)
				}
			}
			if fmt.Sprint(want) != fmt.Sprint(append([]int{}, o.Outputs...)) {
				return "C03:continue:output-lost", fmt.Sprintf("continue mode: outputs %v, want %v", o.Outputs, want)
			}
		}
		return "", ""
	}
	// abort clause: failures (errors / panics) that the options do not allow to continue
	var firstEnd int64 = -1
	for _, f := range c.Faults {
		_, cont, _ := contract(c.Conf, f.Kind, f.Pos, f.Tagged, sliceAsImpl)
		if cont || !processed(f) || !isFailure(c.Conf, f.Kind, f.Pos, f.Tagged) {
			continue
		}
		if o.Nil {
			return "C03:abort:nil-result", "abort mode: a failure was processed but the result is nil"
		}
		e, g := o.Ends[f.Pos], o.Gids[f.Pos]
		for j := 0; j < c.N; j++ {
			if o.Starts[j] > e && o.Gids[j] == g {
				return "C03:abort:worker-continued", fmt.Sprintf("abort mode: the worker that failed at item %d went on to item %d", f.Pos, j)
			}
		}
		if firstEnd < 0 || e < firstEnd {
			firstEnd = e
		}
	}
	if firstEnd >= 0 {
		after := 0
		for j := 0; j < c.N; j++ {
			if o.Starts[j] > firstEnd {
				after++
			}
		}
		if after > c.Workers || o.GateTO > 0 {
			return "C03:abort:not-bounded", fmt.Sprintf("abort mode: %d items started after the first failure returned (workers=%d, %d of %d processed, %d item(s) waited %v for the group's cancellation in vain)",
				after, c.Workers, o.Processed, c.N, o.GateTO, gateWait)
		}
	}
	return "", ""
}

// ---------------------------------------------------------------- execution of one case

func coqFaults(fs []Fault) string {
	s := make([]string, len(fs))
	for i, f := range fs {
		s[i] = fmt.Sprintf("mkfault %s %s %s %s", kit.ZI(f.Pos), coqKinds[f.Kind], kit.ZI(f.Pos), kit.Bool(f.Tagged))
	}
	return kit.List(s)
}

func constructCode(s string) int {
	switch s {
	case "map", "fmap":
		return 1
	case "gen", "fgen":
		return 2
	}
	return 0
}

var curCasePath string

func execCase(run *kit.Run, c Case, verbose bool) {
	switch c.Type {
	case "parse":
		var pc = parseCases[c.EID]
		var got error
		esc := ""
		func() {
			defer func() {
				if r := recover(); r != nil {
					esc = fmt.Sprint(r)
				}
			}()
			got = ers.ParsePanic(pc.val())
		}()
		prof := profileOf(got, []int{0, 1, 2, 3})
		if verbose {
			fmt.Printf("ParsePanic(%s) -> nil=%v profile=%v\n", pc.name, got == nil, prof)
		}
		if esc != "" {
			run.OracleFail(c.ID, "C03:panic:escaped", "ers.ParsePanic panicked: "+esc, c, esc)
		}
		isSlice := strings.HasPrefix(pc.name, "slice")
		if pc.name != "nil" && esc == "" {
			// the property: a panic is never swallowed and errors.Is finds ErrRecoveredPanic
			if got == nil || !errors.Is(got, fun.ErrRecoveredPanic) {
				sig := "C03:panic:not-marked"
				if isSlice {
					sig = "C03:ParsePanic:error-slice"
				}
				run.OracleFail(c.ID, sig, fmt.Sprintf("ParsePanic(%s): nil=%v, ErrRecoveredPanic found=%v", pc.name, got == nil, got != nil && errors.Is(got, fun.ErrRecoveredPanic)), c, prof)
			}
		}
		run.Count("parse")
		run.Case(c.ID, c, fmt.Sprintf("CParse %s %s %s", kit.ZI(c.ID), pc.coq, kit.BoolList(prof)), "parse|"+pc.name, pc.name != "nil")
	case "table":
		o := runTable(c)
		if verbose {
			b, _ := json.Marshal(o)
			fmt.Printf("table conf=%+v via=%s kind=%s eid=%d tagged=%v -> %s\n", c.Conf, c.Via, kindNames[c.Kind], c.EID, c.Tagged, b)
		}
		if sig, det := oracleTable(c, o, false); sig != "" {
			if c.Kind == PanicErrSlice {
				if s2, _ := oracleTable(c, o, true); s2 == "" {
					sig = "C03:ParsePanic:error-slice"
				}
			}
			run.OracleFail(c.ID, sig, det, c, o)
		}
		run.Count("table/" + kindNames[c.Kind])
		if o.Escaped != "" {
			o.Profile = profileOf(nil, []int{c.EID})
		}
		term := fmt.Sprintf("CTable %s %s %s %s %s %s %s %s", kit.ZI(c.ID), coqConf(c.Conf), coqKinds[c.Kind], kit.ZI(c.EID), kit.Bool(c.Tagged),
			kit.BoolList(o.Profile), kit.Bool(o.Record), kit.Bool(o.Continue))
		run.Case(c.ID, c, term, fmt.Sprintf("t|%v|%s|%d|%d|%v", c.Conf, c.Via, c.Kind, c.EID, c.Tagged), true)
	case "e2e":
		c.KindNames = nil
		for _, f := range c.Faults {
			c.KindNames = append(c.KindNames, kindNames[f.Kind])
		}
		if curCasePath != "" {
			b, _ := json.Marshal(c)
			_ = os.WriteFile(curCasePath, b, 0o644)
		}
		o := runE2E(c)
		if verbose {
			b, _ := json.Marshal(o)
			fmt.Printf("e2e %s workers=%d n=%d conf=%+v faults=%v %v -> %s\n", c.Construct, c.Workers, c.N, c.Conf, c.Faults, c.KindNames, b)
		}
		if sig, det := oracleE2E(c, o, false); sig != "" {
			hasSlice := false
			for _, f := range c.Faults {
				if f.Kind == PanicErrSlice {
					hasSlice = true
				}
			}
			if hasSlice {
				if s2, _ := oracleE2E(c, o, true); s2 == "" {
					sig = "C03:ParsePanic:error-slice"
				}
			}
			run.OracleFail(c.ID, sig, det, c, o)
			if verbose {
				fmt.Printf("ORACLE FAIL %s: %s\n", sig, det)
			}
		}
		run.Count("e2e/" + c.Construct)
		run.Count(fmt.Sprintf("e2e/workers=%d", c.Workers))
		run.Count(fmt.Sprintf("e2e/faults=%d", len(c.Faults)))
		for _, f := range c.Faults {
			run.Count("e2e/kind/" + kindNames[f.Kind])
		}
		term := fmt.Sprintf("CE2E %s %s %s %s %s %s %s %s %s %s %s %s %s %s %s", kit.ZI(c.ID), kit.ZI(constructCode(c.Construct)), kit.Bool(c.Conf.Custom),
			coqConf(c.Conf), kit.ZI(c.Workers), kit.ZI(c.N), coqFaults(c.Faults),
			kit.Bool(o.Nil), kit.BoolList(o.Found), kit.BoolList(o.Flags), kit.ZI(o.Processed), kit.Bool(o.Once), kit.Bool(o.Prefix), kit.Bool(o.Crash != ""), kit.ZListI(o.Outputs))
		run.Case(c.ID, c, term, fmt.Sprintf("e|%s|%d|%d|%v|%v", c.Construct, c.Workers, c.N, c.Conf, c.Faults), len(c.Faults) > 0)
	}
}

// ---------------------------------------------------------------- generation

var constructs = []string{"pp", "pfe", "worker", "map", "fmap", "gen", "fgen"}
var workerCounts = []int{1, 2, 4}

func confBits(b int) Conf { return Conf{COE: b&1 != 0, COP: b&2 != 0, Incl: b&4 != 0} }

// make the conf consistent with the faults: Excluded-kind positions are listed, plus a decoy
func withExcl(c Conf, fs []Fault, r *kit.Rand) Conf {
	c.Excl = nil
	for _, f := range fs {
		if f.Kind == Excluded {
			c.Excl = append(c.Excl, f.Pos)
		}
	}
	if len(c.Excl) > 0 || r.Chance(1, 4) {
		c.Excl = append(c.Excl, decoy)
	}
	return c
}

func customOK(construct string) bool { return construct != "pfe" && construct != "worker" }

func main() {
	if os.Getenv("C03_CHILD") == "" {
		os.Exit(parent())
	}
	run := kit.Start()
	run.Header = "From FunV Require Import Base.Tac Model.WorkerConf Model.WorkerGroup Corr.C03_corr."
	run.Footer = "Definition M := Eval vm_compute in mismatches cases.\nPrint M."
	run.CaseType = "case"
	run.ShardSize = 1000
	run.Rule = "table: every conf (8 option-bit combinations x ExcludedErrors variants x recording handler / erc.Collector via option providers) x 12 failure kinds x bare/tagged x the 4 real WithRecover wrappers, classified by the real CanContinueOnError; " +
		"e2e: ProcessParallel / ParallelForEach / itertool.Worker / Map / Generate with every single fault position (and pairs of positions) in inputs of length <= 12, every kind, every option-bit combination, workers in {1,2,4}, default or custom collector, plus random cases with 0-3 faults. " +
		"distinct = distinct (conf, construct, workers, n, faults) or table cell; non-trivial = table cell, or e2e case with at least one fault"
	curCasePath = filepath.Join(run.Out, "current_case.json")

	if run.Replay != "" {
		var c Case
		if err := kit.ReadReplayCase(run.Replay, &c); err != nil {
			panic(err)
		}
		execCase(run, c, true)
		run.Finish()
		return
	}

	id := 0
	next := func() int { id++; return id - 1 }

	// ---- corpus (always): the known finding, the two repaired defects, boundary shapes
	corpus := []Case{
		{Type: "e2e", Construct: "pfe", Workers: 3, N: 6, Conf: Conf{COE: true, COP: false}, Faults: []Fault{{Pos: 2, Kind: PanicErrSlice}}},
		{Type: "e2e", Construct: "pp", Workers: 1, N: 4, Conf: Conf{COE: false, COP: true}, Faults: []Fault{{Pos: 1, Kind: PanicErrSlice}}},
		{Type: "e2e", Construct: "pfe", Workers: 4, N: 200, Conf: Conf{}, Faults: []Fault{{Pos: 3, Kind: Plain}}},
		{Type: "e2e", Construct: "fmap", Workers: 4, N: 100, Conf: Conf{COE: true}, Faults: []Fault{{Pos: 3, Kind: PanicErr}}},
		{Type: "e2e", Construct: "gen", Workers: 4, N: 100, Conf: Conf{COP: true}, Faults: []Fault{{Pos: 5, Kind: Wrapped}}},
		{Type: "e2e", Construct: "pfe", Workers: 2, N: 5, Conf: Conf{COE: true, COP: true, Excl: []int{2}}, Faults: []Fault{{Pos: 2, Kind: Excluded}}},
		{Type: "e2e", Construct: "pp", Workers: 1, N: 5, Conf: Conf{Excl: []int{2}}, Faults: []Fault{{Pos: 2, Kind: Excluded}}},
		{Type: "e2e", Construct: "pp", Workers: 2, N: 0, Conf: Conf{}},
		// a panic whose VALUE is or wraps a control sentinel is still a panic
		{Type: "e2e", Construct: "pfe", Workers: 4, N: 200, Conf: Conf{COP: true}, Faults: []Fault{{Pos: 7, Kind: PanicWrapEof}}},
		{Type: "e2e", Construct: "fmap", Workers: 4, N: 99, Conf: Conf{COE: true, COP: true}, Faults: []Fault{{Pos: 3, Kind: PanicWrapCanceled, Tagged: true}}},
		{Type: "e2e", Construct: "gen", Workers: 2, N: 40, Conf: Conf{COP: true}, Faults: []Fault{{Pos: 5, Kind: PanicWrapEof}, {Pos: 9, Kind: PanicWrapSkip, Tagged: true}}},
		{Type: "e2e", Construct: "pp", Workers: 1, N: 6, Conf: Conf{COE: true}, Faults: []Fault{{Pos: 2, Kind: PanicWrapDeadline}}},
		{Type: "e2e", Construct: "worker", Workers: 2, N: 8, Conf: Conf{COP: true}, Faults: []Fault{{Pos: 1, Kind: RetMarked}, {Pos: 4, Kind: PanicWrapAbort}}},
		{Type: "e2e", Construct: "map", Workers: 4, N: 12, Conf: Conf{COE: true, COP: true}, Faults: []Fault{{Pos: 0, Kind: PanicStr}, {Pos: 11, Kind: Abort, Tagged: true}}},
	}
	for _, c := range corpus {
		c.ID = next()
		execCase(run, c, false)
	}
	for i := range parseCases {
		execCase(run, Case{ID: next(), Type: "parse", EID: i, PV: parseCases[i].name}, false)
	}

	// ---- (a) table, exhaustive in both tiers
	vias := []string{"processor", "worker", "producer", "transform", "direct"}
	for k := 0; k < nKinds; k++ {
		for _, tagged := range []bool{false, true} {
			if tagged && !taggable(k) {
				continue
			}
			eid := 3 + k
			// ExcludedErrors variants
			exclVariants := [][]int{{}, {decoy}, {-6}, {eid}, {decoy, eid}}
			for vi, excl := range exclVariants {
				ownListed := vi >= 3
				if k == Excluded && !ownListed {
					continue
				}
				if ownListed && (k == CtxCanceled || k == CtxDeadline) {
					continue // property text is ambiguous for an excluded context error with Include set
				}
				for b := 0; b < 8; b++ {
					for _, custom := range []bool{false, true} {
						for _, via := range vias {
							if via == "direct" && isPanicKind(k) {
								continue
							}
							cf := confBits(b)
							cf.Excl = excl
							cf.Custom = custom
							execCase(run, Case{ID: next(), Type: "table", Conf: cf, Via: via, Kind: k, EID: eid, Tagged: tagged}, false)
						}
					}
				}
			}
		}
	}

	// ---- (b) end to end
	pick := 0
	nextConstruct := func(r *kit.Rand) string {
		pick++
		return constructs[pick%len(constructs)]
	}
	emit := func(construct string, workers, n int, cf Conf, fs []Fault, r *kit.Rand) {
		cf = withExcl(cf, fs, r)
		cf.Custom = customOK(construct) && r.Bool()
		execCase(run, Case{ID: next(), Type: "e2e", Construct: construct, Workers: workers, N: n, Conf: cf, Faults: fs}, false)
	}
	// singles: every position x kind x option bits x workers
	singleNs := []int{1, 2, 3, 5, 8, 12}
	if run.Thorough() {
		singleNs = []int{1, 2, 3, 4, 5, 6, 7, 8, 9, 10, 11, 12}
	}
	for _, n := range singleNs {
		for pos := 0; pos < n; pos++ {
			for k := 0; k < nKinds; k++ {
				for b := 0; b < 8; b++ {
					for _, w := range workerCounts {
						r := run.Rand.Fork()
						f := []Fault{{Pos: pos, Kind: k, Tagged: taggable(k) && r.Bool()}}
						if run.Thorough() {
							for _, cn := range constructs {
								emit(cn, w, n, confBits(b), f, r)
							}
						} else {
							emit(nextConstruct(r), w, n, confBits(b), f, r)
						}
					}
				}
			}
		}
	}
	// doubles: every pair of positions; kinds / options / workers sampled per pair
	doubleNs := []int{2, 4, 7, 12}
	perPair := 30
	if run.Thorough() {
		doubleNs = []int{2, 3, 4, 5, 6, 7, 8, 9, 10, 11, 12}
		perPair = 150
	}
	for _, n := range doubleNs {
		for p1 := 0; p1 < n; p1++ {
			for p2 := p1 + 1; p2 < n; p2++ {
				for j := 0; j < perPair; j++ {
					r := run.Rand.Fork()
					k1, k2 := r.Intn(nKinds), r.Intn(nKinds)
					fs := []Fault{{Pos: p1, Kind: k1, Tagged: taggable(k1) && r.Bool()}, {Pos: p2, Kind: k2, Tagged: taggable(k2) && r.Bool()}}
					emit(nextConstruct(r), workerCounts[r.Intn(3)], n, confBits(r.Intn(8)), fs, r)
				}
			}
		}
	}
	// random: 0-3 faults, lengths 0..12 (and a few long inputs), everything else random
	nrand := run.Pick(8000, 120000)
	for i := 0; i < nrand; i++ {
		r := run.Rand.Fork()
		n := r.Intn(13)
		if r.Chance(1, 40) {
			n = r.Range(30, 120)
		}
		nf := r.Intn(4)
		if nf > n {
			nf = n
		}
		used := map[int]bool{}
		var fs []Fault
		for len(fs) < nf {
			p := r.Intn(n)
			if used[p] {
				continue
			}
			used[p] = true
			k := r.Intn(nKinds)
			fs = append(fs, Fault{Pos: p, Kind: k, Tagged: taggable(k) && r.Bool()})
		}
		sort.Slice(fs, func(a, b int) bool { return fs[a].Pos < fs[b].Pos })
		emit(constructs[r.Intn(len(constructs))], workerCounts[r.Intn(3)], n, confBits(r.Intn(8)), fs, r)
	}
	_ = os.Remove(curCasePath)
	run.Finish()
}

// ---------------------------------------------------------------- parent: crash isolation

func parent() int {
	out := ""
	for i, a := range os.Args {
		if (a == "-out" || a == "--out") && i+1 < len(os.Args) {
			out = os.Args[i+1]
		} else if strings.HasPrefix(a, "-out=") {
			out = strings.TrimPrefix(a, "-out=")
		}
	}
	cmd := exec.Command(os.Args[0], os.Args[1:]...)
	cmd.Env = append(os.Environ(), "C03_CHILD=1")
	cmd.Stdout = os.Stdout
	var tail tailBuf
	cmd.Stderr = &tail
	err := cmd.Run()
	if err == nil {
		os.Stderr.Write(tail.b)
		return 0
	}
	os.Stderr.Write(tail.b)
	if out == "" {
		return 2
	}
	// the child died: a panic escaped some goroutine (or the runtime aborted)
	var cs json.RawMessage
	b, rerr := os.ReadFile(filepath.Join(out, "current_case.json"))
	if rerr != nil {
		fmt.Fprintln(os.Stderr, "child failed and no current case is known:", err)
		return 2
	}
	cs = b
	var idv struct {
		ID int `json:"id"`
	}
	_ = json.Unmarshal(b, &idv)
	msg := string(tail.b)
	if i := strings.Index(msg, "panic:"); i >= 0 {
		msg = msg[i:]
	}
	if len(msg) > 600 {
		msg = msg[:600]
	}
	line, _ := json.Marshal(map[string]any{"case_id": idv.ID, "signature": "C03:panic:escaped",
		"detail": "the driver process died while running this case (a panic escaped a worker goroutine): " + msg, "case": cs, "impl": err.Error()})
	f, ferr := os.OpenFile(filepath.Join(out, "oracle.jsonl"), os.O_APPEND|os.O_CREATE|os.O_WRONLY, 0o644)
	if ferr == nil {
		f.Write(append(line, '\n'))
		f.Close()
	}
	fmt.Println("ORACLE FAIL C03:panic:escaped (child process died)")
	if _, serr := os.Stat(filepath.Join(out, "stats.json")); serr != nil {
		st, _ := json.Marshal(map[string]any{"evaluations": idv.ID, "distinct_nontrivial": 0, "rule": "run aborted: the driver's child process died", "samples": []any{cs}, "distribution": map[string]int{}, "oracle_failures": 1})
		_ = os.WriteFile(filepath.Join(out, "stats.json"), st, 0o644)
	}
	return 0
}

type tailBuf struct{ b []byte }

func (t *tailBuf) Write(p []byte) (int, error) {
	t.b = append(t.b, p...)
	if len(t.b) > 1<<16 {
		t.b = t.b[len(t.b)-(1<<16):]
	}
	return len(p), nil
}
