// Driver for C10 (srv.Service lifecycle). Runs the REAL srv.Service under
// deterministic, hook-driven schedules and free-running concurrent callers,
// records one call log per case (phase begin/end, API invocation/return, yield
// points; all stamped by one atomic counter), checks the property's direct
// oracles on that log, and prints the log as a Coq term so that the model's
// `accepts` (coq/Model/ServiceModel.v) is evaluated on it by vm_compute.
package main

import (
	"context"
	"errors"
	"fmt"
	"runtime"
	"sort"
	"strconv"
	"strings"
	"sync"
	"sync/atomic"
	"time"

	"github.com/tychoish/fun/ers"
	"github.com/tychoish/fun/srv"

	"verif/harness/kit"
)

// ---------------------------------------------------------------- case description

const (
	oAbsent = 0
	oOk     = 1
	oErr    = 2
	oPanic  = 3
)

const (
	runImmediate = 0 // Run returns at once
	runGate      = 1 // Run returns when the driver opens the gate (or its ctx ends)
	runCtx       = 2 // Run returns when its ctx ends
)

const (
	hookChecked  = "srv.Service.Start.checked"
	hookLaunched = "srv.Service.Start.launched"
	hookMainFin  = "srv.Service.main.finished"
)

type Step struct {
	Op    string `json:"op"`             // go | release | await | gate | pcancel | quiesce | mainpark | mainrelease
	Kind  string `json:"kind,omitempty"` // start | wait | close | running  (op=go)
	T     int    `json:"t,omitempty"`    // caller index (spawn order) for release/await
	Park  string `json:"park,omitempty"` // hook name at which the spawned Start caller parks
	Await bool   `json:"await,omitempty"`
}

type Case struct {
	ID       int    `json:"id"`
	Tmpl     string `json:"tmpl"`
	Out      [4]int `json:"out"` // Run, Shutdown, Cleanup, ErrorHandler
	RunMode  int    `json:"runmode"`
	ParkMain bool   `json:"parkmain,omitempty"`
	BlockFmt int    `json:"blockfmt"` // 0 none; 1+ph: that phase panics with a value whose String() parks until released
	Steps    []Step `json:"steps"`
}

// ---------------------------------------------------------------- events

const (
	evInv = iota
	evRet
	evBegin
	evEnd
	evYield
	evYieldMain
	evPCancel
	evQuiesced
	evResume
	evResumeMain
)

type Event struct {
	Stamp int64  `json:"stamp"`
	Ty    int    `json:"ty"`
	T     int    `json:"t"`              // caller index (Inv/Ret/Yield)
	Kind  string `json:"kind,omitempty"` // Inv: caller kind
	Ph    int    `json:"ph"`             // phase 0..3 (Begin/End)
	Hook  string `json:"hook,omitempty"`
	Res   string `json:"res,omitempty"` // Ret: result class
	Mask  int    `json:"mask"`          // Ret(wait agg) / Quiesced: token mask
	ArgNN bool   `json:"argnn"`         // Begin(Eh): argument non-nil
}

type tokErr struct{ name string }

func (e *tokErr) Error() string { return e.name }

var (
	errRun      = &tokErr{"run-error"}
	errRunPanic = &tokErr{"run-panic"}
	errSd       = &tokErr{"shutdown-error"}
	errSdPanic  = &tokErr{"shutdown-panic"}
	errCl       = &tokErr{"cleanup-error"}
	errClPanic  = &tokErr{"cleanup-panic"}
	errEhPanic  = &tokErr{"handler-panic"}
)

// token bits (must match ServiceModel.v): 0 RunErr 1 RunPanic 2 SdErr 3 SdPanic 4 ClErr 5 ClPanic 6 EhPanic 7 Marker
var tokens = []error{errRun, errRunPanic, errSd, errSdPanic, errCl, errClPanic, errEhPanic, ers.ErrRecoveredPanic}

func maskOf(err error) int {
	m := 0
	if err == nil {
		return 0
	}
	for i, t := range tokens {
		if errors.Is(err, t) {
			m |= 1 << i
		}
	}
	// a panic value that was formatted (blockVal) is found by its text
	for _, e := range ers.Unwind(err) {
		for i, t := range tokens[:7] {
			if strings.HasSuffix(e.Error(), "]: "+t.Error()) {
				m |= 1 << i
			}
		}
	}
	return m
}

// ---------------------------------------------------------------- one execution

const longWait = 10 * time.Second

type caller struct {
	idx      int
	kind     string
	park     string
	parkOnce atomic.Bool
	parked   chan struct{}
	release  chan struct{}
	done     chan struct{}
	err      error // Start / Wait result
	running  bool
	retStamp int64
}

type exec struct {
	c        Case
	clock    atomic.Int64
	events   []Event
	svc      *srv.Service
	parent   context.Context
	pcancel  context.CancelFunc
	gate     chan struct{}
	gateOnce sync.Once
	callers  []*caller
	byGoid   sync.Map // goid -> *caller
	mainPark chan struct{}
	mainRel  chan struct{}
	mainOnce sync.Once
	fmtIn    chan struct{} // closed when the panic value's formatter is entered
	fmtRel   chan struct{} // closed by the driver to let it return
	fmtOnce  sync.Once
	fails    []string // "signature|detail"
	aborted  bool
	failMu   sync.Mutex
}

func (x *exec) log(e Event) int64 {
	st := x.clock.Add(1)
	e.Stamp = st
	if int(st) < len(x.events) {
		x.events[st] = e
	}
	return st
}

func (x *exec) fail(sig, detail string) {
	x.failMu.Lock()
	x.fails = append(x.fails, sig+"|"+detail)
	x.failMu.Unlock()
}

func goid() int64 {
	var buf [64]byte
	n := runtime.Stack(buf[:], false)
	s := strings.TrimPrefix(string(buf[:n]), "goroutine ")
	if i := strings.IndexByte(s, ' '); i > 0 {
		v, _ := strconv.ParseInt(s[:i], 10, 64)
		return v
	}
	return -1
}

func waitCh(ch <-chan struct{}) bool {
	select {
	case <-ch:
		return true
	default:
	}
	t := time.NewTimer(longWait)
	defer t.Stop()
	select {
	case <-ch:
		return true
	case <-t.C:
		return false
	}
}

var current atomic.Pointer[exec]

func hook(name string) {
	x := current.Load()
	if x == nil {
		return
	}
	if name == hookMainFin {
		if x.c.ParkMain {
			x.mainOnce.Do(func() {
				x.log(Event{Ty: evYieldMain})
				close(x.mainPark)
				if !waitCh(x.mainRel) {
					x.fail("C10:harness:main-release-timeout", "main goroutine was never released")
				}
			})
		}
		return
	}
	v, ok := x.byGoid.Load(goid())
	if !ok {
		return
	}
	cl := v.(*caller)
	if cl.park != name || !cl.parkOnce.CompareAndSwap(false, true) {
		return
	}
	x.log(Event{Ty: evYield, T: cl.idx, Hook: name})
	close(cl.parked)
	if !waitCh(cl.release) {
		x.fail("C10:harness:release-timeout", "parked caller was never released")
	}
}

func (x *exec) phase(ph int, body func()) {
	x.log(Event{Ty: evBegin, Ph: ph})
	if body != nil {
		body()
	}
	x.log(Event{Ty: evEnd, Ph: ph})
}

// blockVal is a panic value that is neither an error nor a string, so ers.ParsePanic formats it (%v ->
// String()). String parks until the driver releases it: the goroutine is then held inside erc.Recover,
// after its phase function stopped and before the panic is recorded in the collector.
type blockVal struct {
	x    *exec
	name string
}

func (b blockVal) String() string {
	b.x.fmtOnce.Do(func() {
		close(b.x.fmtIn)
		if !waitCh(b.x.fmtRel) {
			b.x.fail("C10:harness:formatter-release-timeout", "the parked panic formatter was never released")
		}
	})
	return b.name
}

func (x *exec) outcomeOf(ph int, e, p *tokErr) error {
	if x.c.Out[ph] == oPanic && x.c.BlockFmt == ph+1 {
		panic(blockVal{x, p.name})
	}
	return outcome(x.c.Out[ph], e, p)
}

func outcome(o int, e, p *tokErr) error {
	switch o {
	case oErr:
		return e
	case oPanic:
		panic(p)
	}
	return nil
}

func (x *exec) build() {
	c := x.c
	s := &srv.Service{Name: "c10"}
	if c.Out[0] != oAbsent {
		s.Run = func(ctx context.Context) error {
			x.phase(0, func() {
				switch c.RunMode {
				case runGate:
					t := time.NewTimer(longWait)
					defer t.Stop()
					select {
					case <-x.gate:
					case <-ctx.Done():
					case <-t.C:
						x.fail("C10:harness:run-timeout", "Run was never told to return")
					}
				case runCtx:
					t := time.NewTimer(longWait)
					defer t.Stop()
					select {
					case <-ctx.Done():
					case <-t.C:
						x.fail("C10:Run:ctx-never-ended", "Run's context did not end within 10s of the stop request")
					}
				}
			})
			return x.outcomeOf(0, errRun, errRunPanic)
		}
	}
	if c.Out[1] != oAbsent {
		s.Shutdown = func() error { x.phase(1, nil); return x.outcomeOf(1, errSd, errSdPanic) }
	}
	if c.Out[2] != oAbsent {
		s.Cleanup = func() error { x.phase(2, nil); return x.outcomeOf(2, errCl, errClPanic) }
	}
	if c.Out[3] != oAbsent {
		s.ErrorHandler.Set(func(err error) {
			x.log(Event{Ty: evBegin, Ph: 3, ArgNN: err != nil})
			x.log(Event{Ty: evEnd, Ph: 3})
			if c.Out[3] == oPanic {
				if c.BlockFmt == 4 {
					panic(blockVal{x, errEhPanic.name})
				}
				panic(errEhPanic)
			}
		})
	}
	x.svc = s
}

func (x *exec) spawn(st Step) *caller {
	cl := &caller{idx: len(x.callers), kind: st.Kind, park: st.Park,
		parked: make(chan struct{}), release: make(chan struct{}), done: make(chan struct{})}
	x.callers = append(x.callers, cl)
	x.log(Event{Ty: evInv, T: cl.idx, Kind: st.Kind})
	reg := make(chan struct{})
	go func() {
		defer close(cl.done)
		if cl.park != "" {
			x.byGoid.Store(goid(), cl)
		}
		close(reg)
		switch cl.kind {
		case "start":
			cl.err = x.svc.Start(x.parent)
		case "wait":
			cl.err = x.svc.Wait()
		case "close":
			x.svc.Close()
		case "running":
			cl.running = x.svc.Running()
		}
		cl.retStamp = x.log(Event{Ty: evRet, T: cl.idx, Kind: cl.kind})
	}()
	<-reg
	return cl
}

func (x *exec) abort(sig, detail string) {
	x.fail(sig, detail)
	x.aborted = true
}

// run executes the script; every wait is a handshake with a 10s deadline.
func (x *exec) run() {
	x.parent, x.pcancel = context.WithCancel(context.Background())
	x.gate = make(chan struct{})
	x.mainPark = make(chan struct{})
	x.mainRel = make(chan struct{})
	x.fmtIn = make(chan struct{})
	x.fmtRel = make(chan struct{})
	x.events = make([]Event, 64+16*len(x.c.Steps))
	x.build()
	current.Store(x)
	defer current.Store(nil)

	for _, st := range x.c.Steps {
		if x.aborted {
			break
		}
		switch st.Op {
		case "go":
			cl := x.spawn(st)
			if st.Park != "" {
				if !waitCh(cl.parked) {
					x.abort("C10:harness:never-parked", fmt.Sprintf("caller %d (%s) did not reach %s", cl.idx, cl.kind, st.Park))
				}
			} else if st.Await {
				if !waitCh(cl.done) {
					x.abort("C10:"+title(cl.kind)+":blocked", fmt.Sprintf("%s call (caller %d) did not return within 10s", cl.kind, cl.idx))
				}
			}
		case "release":
			cl := x.callers[st.T]
			x.log(Event{Ty: evResume, T: cl.idx})
			close(cl.release)
			if st.Await && !waitCh(cl.done) {
				x.abort("C10:"+title(cl.kind)+":blocked", fmt.Sprintf("%s call (caller %d) did not return within 10s of its release", cl.kind, cl.idx))
			}
		case "await":
			cl := x.callers[st.T]
			if !waitCh(cl.done) {
				x.abort("C10:"+title(cl.kind)+":blocked", fmt.Sprintf("%s call (caller %d) did not return within 10s", cl.kind, cl.idx))
			}
		case "gate":
			x.gateOnce.Do(func() { close(x.gate) })
		case "pcancel":
			x.log(Event{Ty: evPCancel})
			x.pcancel()
		case "mainpark":
			if !waitCh(x.mainPark) {
				x.abort("C10:harness:main-never-parked", "main goroutine did not reach "+hookMainFin)
			}
		case "fmtpark":
			if !waitCh(x.fmtIn) {
				x.abort("C10:harness:formatter-never-entered", "the panic value's formatter was not entered within 10s")
			}
		case "fmtrelease":
			x.releaseFmt()
		case "grace":
			// scheduling aid only (never evidence): give caller T the chance to return on its own
			t := time.NewTimer(300 * time.Millisecond)
			select {
			case <-x.callers[st.T].done:
			case <-t.C:
			}
			t.Stop()
		case "mainrelease":
			x.log(Event{Ty: evResumeMain})
			close(x.mainRel)
		case "quiesce":
			ctx, cancel := context.WithTimeout(context.Background(), longWait)
			srv.VerifWaitGoroutines(ctx, x.svc)
			if ctx.Err() != nil {
				x.abort("C10:Service:goroutines-not-finished", "the service's goroutines did not all return within 10s of the stop request")
			} else {
				// probe: every goroutine of the service has returned (Wait takes its fast path here and touches nothing)
				x.log(Event{Ty: evQuiesced, Mask: maskOf(x.svc.Wait())})
			}
			cancel()
		}
	}
	if !x.aborted {
		// everything the script started has been told to stop: wait for all callers, then for the service
		x.releaseFmt()
		for _, cl := range x.callers {
			select {
			case <-cl.release:
			default:
				if cl.parkOnce.Load() {
					x.log(Event{Ty: evResume, T: cl.idx})
				}
				close(cl.release) // parked and never released by the script
			}
		}
		for _, cl := range x.callers {
			if !waitCh(cl.done) {
				x.abort("C10:"+title(cl.kind)+":blocked", fmt.Sprintf("%s call (caller %d) still blocked 10s after the end of the script", cl.kind, cl.idx))
				break
			}
		}
	}
	if !x.aborted && x.started() {
		ctx, cancel := context.WithTimeout(context.Background(), longWait)
		srv.VerifWaitGoroutines(ctx, x.svc)
		if ctx.Err() != nil {
			x.abort("C10:Service:goroutines-not-finished", "the service's goroutines did not all return within 10s")
		} else if x.finishedByLog() {
			x.log(Event{Ty: evQuiesced, Mask: maskOf(x.svc.Wait())})
		}
		cancel()
	}
	if x.aborted {
		// unblock whatever is left so that nothing leaks into the next case
		x.releaseFmt()
		x.gateOnce.Do(func() { close(x.gate) })
		x.pcancel()
		x.mainOnce.Do(func() {})
		select {
		case <-x.mainRel:
		default:
			close(x.mainRel)
		}
		for _, cl := range x.callers {
			select {
			case <-cl.release:
			default:
				close(cl.release)
			}
		}
	}
	x.pcancel()
}

func (x *exec) releaseFmt() {
	select {
	case <-x.fmtRel:
	default:
		close(x.fmtRel)
	}
}

func title(k string) string {
	switch k {
	case "start":
		return "Start"
	case "wait":
		return "Wait"
	case "close":
		return "Close"
	}
	return "Running"
}

func (x *exec) started() bool {
	for _, cl := range x.callers {
		if cl.kind == "start" {
			select {
			case <-cl.done:
				if cl.err == nil {
					return true
				}
			default:
			}
		}
	}
	return false
}

// finishedByLog: the service was told to stop in a way that lets it finish (its Run returned or is absent).
func (x *exec) finishedByLog() bool {
	if x.c.Out[0] == oAbsent {
		return true
	}
	n := int(x.clock.Load())
	for i := 1; i <= n && i < len(x.events); i++ {
		if x.events[i].Ty == evEnd && x.events[i].Ph == 0 {
			return true
		}
	}
	return false
}

// sortedLog fills in results (evaluated after quiescence) and returns the events in stamp order.
func (x *exec) sortedLog() []Event {
	n := int(x.clock.Load())
	if n >= len(x.events) {
		n = len(x.events) - 1
	}
	evs := make([]Event, 0, n)
	for i := 1; i <= n; i++ {
		e := x.events[i]
		if e.Ty == evRet {
			cl := x.callers[e.T]
			switch cl.kind {
			case "start":
				switch {
				case cl.err == nil:
					e.Res = "nil"
				case errors.Is(cl.err, srv.ErrServiceAlreadyStarted):
					e.Res = "already"
				case errors.Is(cl.err, srv.ErrServiceReturned):
					e.Res = "returned"
				default:
					e.Res = "other"
				}
			case "wait":
				switch {
				case cl.err == nil:
					e.Res = "nil"
				case errors.Is(cl.err, srv.ErrServiceNotStarted):
					e.Res = "notstarted"
				default:
					e.Res = "agg"
					e.Mask = maskOf(cl.err)
				}
			case "close":
				e.Res = "closed"
			case "running":
				e.Res = strconv.FormatBool(cl.running)
			}
		}
		evs = append(evs, e)
	}
	sort.Slice(evs, func(i, j int) bool { return evs[i].Stamp < evs[j].Stamp })
	return evs
}

// ---------------------------------------------------------------- direct oracles (independent of the model)

type verdict struct{ sig, detail string }

func oracles(c Case, evs []Event) []verdict {
	var out []verdict
	bad := func(sig, f string, a ...any) { out = append(out, verdict{sig, fmt.Sprintf(f, a...)}) }
	begin := [4]int{}
	firstBegin := [4]int{-1, -1, -1, -1}
	firstEnd := [4]int{-1, -1, -1, -1}
	closeInv, pcancel := -1, -1
	firstWaitRet := -1 // first Wait return other than not-started
	startNilRet := -1
	nils, starts, startsReturned := 0, 0, 0
	invPos := map[int]int{}
	for i, e := range evs {
		switch e.Ty {
		case evInv:
			invPos[e.T] = i
			if e.Kind == "close" && closeInv < 0 {
				closeInv = i
			}
			if e.Kind == "start" {
				starts++
			}
		case evPCancel:
			if pcancel < 0 {
				pcancel = i
			}
		case evBegin:
			begin[e.Ph]++
			if firstBegin[e.Ph] < 0 {
				firstBegin[e.Ph] = i
			}
		case evEnd:
			if firstEnd[e.Ph] < 0 {
				firstEnd[e.Ph] = i
			}
		}
	}
	before := func(a, b int) bool { return a >= 0 && a < b }
	phaseDone := func(ph, at int) bool { return c.Out[ph] == oAbsent || before(firstEnd[ph], at) }
	allDone := func(at int) bool { return phaseDone(0, at) && phaseDone(1, at) && phaseDone(2, at) }
	names := []string{"Run", "Shutdown", "Cleanup", "ErrorHandler"}
	for ph := 0; ph < 4; ph++ {
		if begin[ph] > 1 {
			bad("C10:"+names[ph]+":count", "%s was invoked %d times", names[ph], begin[ph])
		}
	}
	if b := firstBegin[1]; b >= 0 {
		if !(c.Out[0] == oAbsent || before(firstEnd[0], b) || before(closeInv, b) || before(pcancel, b)) {
			bad("C10:Shutdown:before-ctx-end", "Shutdown began before Run returned, Close was called or the parent context was cancelled")
		}
	}
	if b := firstBegin[2]; b >= 0 {
		if !(phaseDone(0, b) && phaseDone(1, b)) {
			bad("C10:Cleanup:order", "Cleanup began before both Run and Shutdown had returned")
		}
	}
	if b := firstBegin[3]; b >= 0 {
		if !allDone(b) {
			bad("C10:ErrorHandler:order", "ErrorHandler was called before Run, Shutdown and Cleanup had all returned")
		}
		if !evs[b].ArgNN {
			bad("C10:ErrorHandler:nil-aggregate", "ErrorHandler was called with a nil error")
		}
	}
	wantMask := 0
	anyPanic := c.Out[0] == oAbsent
	for ph, bits := range [][2]int{{0, 1}, {2, 3}, {4, 5}} {
		switch c.Out[ph] {
		case oErr:
			wantMask |= 1 << bits[0]
		case oPanic:
			wantMask |= 1 << bits[1]
			anyPanic = true
		}
	}
	failing := wantMask != 0 || anyPanic
	for i, e := range evs {
		switch {
		case e.Ty == evRet && e.Kind == "start":
			startsReturned++
			switch e.Res {
			case "nil":
				nils++
				if startNilRet < 0 {
					startNilRet = i
				}
			case "already":
			case "returned":
				if !allDone(i) {
					bad("C10:Start:returned-early", "Start reported ErrServiceReturned before Run, Shutdown and Cleanup had returned")
				}
			default:
				bad("C10:Start:bad-error", "Start returned an unexpected error")
			}
		case e.Ty == evRet && e.Kind == "wait":
			if e.Res == "notstarted" {
				if startNilRet >= 0 && startNilRet < invPos[e.T] {
					bad("C10:Wait:not-started-after-start", "Wait reported ErrServiceNotStarted although Start had already returned nil")
				}
				continue
			}
			if firstWaitRet < 0 {
				firstWaitRet = i
			}
			if !allDone(i) {
				bad("C10:Wait:early", "Wait returned before Run, Shutdown and Cleanup had all returned")
			}
			if (c.Out[1] != oAbsent && begin[1] == 0) || (c.Out[2] != oAbsent && begin[2] == 0) {
				bad("C10:Wait:early", "Wait returned although a configured Shutdown/Cleanup never ran")
			}
			got := e.Mask
			if e.Res == "nil" {
				got = 0
			}
			switch {
			case !failing && e.Res != "nil":
				bad("C10:Wait:spurious-error", "Wait returned an error although no phase failed (mask %d)", got)
			case failing && e.Res == "nil":
				bad("C10:Wait:error-missing", "Wait returned nil although a phase failed (want mask %d)", wantMask)
			case got&wantMask&0x15 != wantMask&0x15:
				bad("C10:Wait:error-missing", "Wait's result lacks a returned error: want mask %d, got %d", wantMask, got)
			case got&wantMask != wantMask || (anyPanic && got&(1<<7) == 0):
				bad("C10:Wait:panic-missing", "Wait's result lacks a recovered panic / ErrRecoveredPanic: want mask %d (+marker %v), got %d", wantMask, anyPanic, got)
			}
		case e.Ty == evRet && e.Kind == "running":
			if e.Res == "true" && firstWaitRet >= 0 && firstWaitRet < invPos[e.T] {
				bad("C10:Running:true-after-wait", "Running() reported true in a call made after Wait had returned")
			}
		case e.Ty == evQuiesced:
			if c.Out[1] != oAbsent && begin[1] != 1 {
				bad("C10:Shutdown:count", "the service finished but Shutdown ran %d times", begin[1])
			}
			if c.Out[2] != oAbsent && begin[2] != 1 {
				bad("C10:Cleanup:count", "the service finished but Cleanup ran %d times", begin[2])
			}
		}
	}
	if startsReturned == starts && starts > 0 {
		if nils == 0 {
			bad("C10:Start:no-nil", "%d Start calls returned, none with nil", starts)
		}
		if nils > 1 {
			bad("C10:Start:two-nil", "%d Start calls returned nil", nils)
		}
	} else if nils > 1 {
		bad("C10:Start:two-nil", "%d Start calls returned nil", nils)
	}
	return out
}

// ---------------------------------------------------------------- Coq term

func coqEvents(evs []Event) string {
	ph := []string{"PRun", "PSd", "PCl", "PEh"}
	var s []string
	for _, e := range evs {
		switch e.Ty {
		case evInv:
			s = append(s, "EL (LInv "+map[string]string{"start": "KStart", "wait": "KWait", "close": "KClose", "running": "KRunning"}[e.Kind]+")")
		case evRet:
			var r string
			switch e.Kind {
			case "start":
				r = map[string]string{"nil": "RStart SNil", "already": "RStart SAlready", "returned": "RStart SReturned", "other": ""}[e.Res]
			case "wait":
				switch e.Res {
				case "nil":
					r = "RWait WNil"
				case "notstarted":
					r = "RWait WNotStarted"
				default:
					s = append(s, fmt.Sprintf("EWaitAgg %d %d", e.T, e.Mask))
					continue
				}
			case "close":
				r = "RClose"
			default:
				r = "RRunning " + e.Res
			}
			if r == "" {
				s = append(s, "EBad")
				continue
			}
			s = append(s, fmt.Sprintf("EL (LRet %d (%s))", e.T, r))
		case evBegin:
			s = append(s, "EL (LBegin "+ph[e.Ph]+")")
		case evEnd:
			s = append(s, "EL (LEnd "+ph[e.Ph]+")")
		case evYield:
			h := "HChecked"
			if e.Hook == hookLaunched {
				h = "HLaunched"
			}
			s = append(s, fmt.Sprintf("EL (LYield %s %d)", h, e.T))
		case evYieldMain:
			s = append(s, "EL LYieldMain")
		case evPCancel:
			s = append(s, "EL LParentCancel")
		case evQuiesced:
			s = append(s, fmt.Sprintf("EQuiesced %d", e.Mask))
		case evResume:
			s = append(s, fmt.Sprintf("EResume %d", e.T))
		case evResumeMain:
			s = append(s, "EResumeMain")
		}
	}
	return kit.List(s)
}

func coqCase(c Case, evs []Event) string {
	o := []string{"OAbsent", "OOk", "OErr", "OPanic"}
	return fmt.Sprintf("MkCase %s (MkCfg %s %s %s %s) %s", kit.ZI(c.ID), o[c.Out[0]], o[c.Out[1]], o[c.Out[2]], o[c.Out[3]], coqEvents(evs))
}

// ---------------------------------------------------------------- scenario templates

func goS(kind string, await bool) Step { return Step{Op: "go", Kind: kind, Await: await} }
func parkS(hook string) Step           { return Step{Op: "go", Kind: "start", Park: hook} }
func rel(t int, await bool) Step       { return Step{Op: "release", T: t, Await: await} }
func aw(t int) Step                    { return Step{Op: "await", T: t} }
func op(o string) Step                 { return Step{Op: o} }

// stopStep is the action that ends the service for termination mode m (0 self, 1 Close, 2 parent cancel).
func stopStep(m int) (Step, int) {
	switch m {
	case 0:
		return op("gate"), runGate
	case 1:
		return goS("close", true), runCtx
	}
	return op("pcancel"), runCtx
}

// template builds the script. The caller index comments give the spawn order.
func template(name string, mode int, r *kit.Rand) (steps []Step, runMode int, parkMain bool) {
	stop, rm := stopStep(mode)
	runMode = rm
	switch name {
	case "after": // stop after Start returned; a Wait is already blocked
		steps = []Step{goS("start", true), goS("wait", false), stop, aw(1), op("quiesce"), goS("running", true)}
	case "before": // stop while the starter is parked at `launched`, service finishes before Start returns
		if mode == 0 {
			runMode = runImmediate
			steps = []Step{parkS(hookLaunched), op("quiesce"), goS("wait", true), goS("running", true), rel(0, true), goS("wait", true), goS("running", true)}
		} else {
			steps = []Step{parkS(hookLaunched), stop, op("quiesce"), goS("wait", true), goS("running", true), rel(0, true), goS("wait", true), goS("running", true)}
		}
	case "early-cancel": // parent context already cancelled when Start is called
		runMode = runCtx
		steps = []Step{op("pcancel"), goS("start", true), goS("wait", true), op("quiesce"), goS("running", true)}
	case "checked-finished": // a second caller is overtaken by the whole service between its isFinished load and its next step
		runMode = runImmediate
		steps = []Step{parkS(hookChecked), goS("start", true), op("quiesce"), rel(0, true), goS("wait", true), goS("running", true), goS("start", true)}
	case "checked-running": // the parked caller resumes while the service is still running
		steps = []Step{parkS(hookChecked), goS("start", true), rel(0, true), goS("running", true), stop, goS("wait", true), op("quiesce"), goS("running", true)}
	case "checked-first": // the parked caller is the one that starts the service; another Start waits on the once
		steps = []Step{parkS(hookChecked), rel(0, true), goS("start", true), stop, goS("wait", true), op("quiesce"), goS("running", true)}
	case "launched-second": // a second Start runs while the first is parked inside the once body
		steps = []Step{parkS(hookLaunched), goS("start", false), goS("wait", true), rel(0, true), aw(1), stop, goS("wait", true), op("quiesce"), goS("running", true)}
	case "main-window": // Wait / Running / Start issued between the main goroutine's two final stores
		runMode = runImmediate
		parkMain = true
		steps = []Step{goS("start", true), op("mainpark"), goS("wait", true), goS("running", true), goS("start", true), op("mainrelease"), op("quiesce"), goS("wait", true), goS("running", true)}
	case "multi": // 2..3 concurrent Start callers, concurrent Wait and Close callers, all free-running
		n := 2 + r.Intn(2)
		for i := 0; i < n; i++ {
			steps = append(steps, goS("start", false))
		}
		extra := 1 + r.Intn(3)
		for i := 0; i < extra; i++ {
			if r.Bool() {
				steps = append(steps, goS("wait", false))
			} else if mode == 1 {
				steps = append(steps, goS("close", false))
			} else {
				steps = append(steps, goS("running", false))
			}
		}
		for i := 0; i < n; i++ {
			steps = append(steps, aw(i))
		}
		steps = append(steps, stop)
		steps = append(steps, goS("wait", true), op("quiesce"), goS("running", true), goS("start", true))
	case "multi-immediate": // 3 concurrent Start callers on a service whose Run returns at once
		runMode = runImmediate
		steps = []Step{goS("start", false), goS("start", false), goS("start", false), goS("wait", false), aw(0), aw(1), aw(2), aw(3), goS("wait", true), op("quiesce"), goS("running", true)}
	case "unstarted": // Wait and Close on a service that was never started, then a normal life
		steps = []Step{goS("wait", true), goS("close", true), goS("running", true), goS("start", true), goS("running", true), stop, goS("wait", true), op("quiesce"), goS("running", true), goS("start", true)}
	}
	return
}

// panicWindow: phase ph (0 Run, 1 Shutdown, 2 Cleanup, 3 ErrorHandler) panics with a value whose formatter
// parks, which holds its goroutine inside erc.Recover before the panic is recorded.  While it is held, a
// late Wait, a Running and a Start call are issued: Wait must either stay blocked until the formatter is
// released or return an aggregate that already has ErrRecoveredPanic — never nil.
func panicWindow(id, ph, mode int, out [4]int) Case {
	stop, rm := stopStep(mode)
	out[ph] = oPanic
	if ph == 3 && out[0] != oErr && out[0] != oPanic && out[0] != oAbsent && out[1] < oErr && out[2] < oErr {
		out[0] = oErr // the handler is only called with a non-nil aggregate
	}
	if ph == 0 && mode == 0 {
		rm = runGate
	}
	steps := []Step{goS("start", true), stop, op("fmtpark"),
		goS("wait", false), {Op: "grace", T: 1 + stopCallers(mode)},
		goS("running", true), goS("start", true),
		op("fmtrelease"), aw(1 + stopCallers(mode)), op("quiesce"), goS("wait", true), goS("running", true)}
	return Case{ID: id, Tmpl: fmt.Sprintf("panic-window-%d/%d", ph, mode), Out: out, RunMode: rm, BlockFmt: ph + 1, Steps: steps}
}

// stopCallers: number of callers the stop step spawns (Close is a caller)
func stopCallers(mode int) int {
	if mode == 1 {
		return 1
	}
	return 0
}

var tmplNames = []string{"after", "before", "early-cancel", "checked-finished", "checked-running", "checked-first", "launched-second", "main-window", "multi", "multi-immediate", "unstarted"}

// ---------------------------------------------------------------- main

// failure cap: a broken tree must not cost 10 s per hanging scenario for thousands of cases
const (
	capPerSignature = 5 // oracle failures of one signature
	capTimeouts     = 3 // scenarios that ran into a 10 s deadline
)

var (
	sigCount  = map[string]int{}
	nTimeouts int
	stopGen   bool
)

func execCase(run *kit.Run, c Case, verbose, emit bool) int {
	if stopGen {
		return 0
	}
	x := &exec{c: c}
	x.run()
	evs := x.sortedLog()
	vs := oracles(c, evs)
	for _, f := range x.fails {
		p := strings.SplitN(f, "|", 2)
		vs = append(vs, verdict{p[0], p[1]})
	}
	if verbose {
		fmt.Printf("case %d tmpl=%s out=%v runmode=%d\n", c.ID, c.Tmpl, c.Out, c.RunMode)
		for _, e := range evs {
			fmt.Printf("  %3d %s\n", e.Stamp, coqEvents([]Event{e}))
		}
		for _, v := range vs {
			fmt.Printf("  ORACLE %s: %s\n", v.sig, v.detail)
		}
	}
	seen := map[string]bool{}
	for _, v := range vs {
		if seen[v.sig] {
			continue
		}
		seen[v.sig] = true
		run.OracleFail(c.ID, v.sig, v.detail, c, evs)
		sigCount[v.sig]++
		if sigCount[v.sig] >= capPerSignature {
			stopGen = true
		}
	}
	if x.aborted {
		nTimeouts++
		if nTimeouts >= capTimeouts {
			stopGen = true
		}
	}
	if stopGen {
		run.Extra["stopped_early"] = fmt.Sprintf("generation stopped after case %d: failure cap reached (%d timed-out scenarios, per-signature counts %v)", c.ID, nTimeouts, sigCount)
	}
	if emit {
		run.Count("tmpl/" + c.Tmpl)
		run.Count(fmt.Sprintf("events/%s", bucket(len(evs))))
		// the log goes to the model unless the run was aborted or a direct oracle already failed on it
		// (that case is reported through oracle.jsonl with its replay; a rejected log is also the most
		// expensive input of the model's search)
		term := ""
		if !x.aborted && len(vs) == 0 {
			term = coqCase(c, evs)
		}
		run.Case(c.ID, c, term, fmt.Sprintf("%s|%v|%d|%s", c.Tmpl, c.Out, c.RunMode, coqEvents(evs)), true)
	}
	return len(vs)
}

func bucket(n int) string {
	switch {
	case n <= 10:
		return "<=10"
	case n <= 20:
		return "11-20"
	case n <= 30:
		return "21-30"
	}
	return ">30"
}

func mkCase(id int, name string, mode int, out [4]int, r *kit.Rand) Case {
	steps, rm, pm := template(name, mode, r)
	return Case{ID: id, Tmpl: fmt.Sprintf("%s/%d", name, mode), Out: out, RunMode: rm, ParkMain: pm, Steps: steps}
}

func main() {
	run := kit.Start()
	run.Header = "From FunV Require Import Base.Tac Model.ServiceModel Model.ServiceAccept Corr.C10_corr."
	run.Footer = "Definition M := Eval vm_compute in mismatches cases.\nPrint M."
	run.CaseType = "case"
	run.ShardSize = 100
	run.Rule = "real srv.Service; outcomes {absent,ok,error,panic}^4 for Run/Shutdown/Cleanup/ErrorHandler x termination {Run returns, Close, parent cancel} x {after Start returned, while the starter is parked at Start.launched, parent cancelled before Start} (full 4^4 matrix), plus hook-driven races (Start.checked overtaken by a finished / running service, second Start during the once body, calls between the main goroutine's final stores) and 2..3 free-running concurrent Start callers with concurrent Wait/Close/Running callers on random outcomes; distinct = distinct (template, outcomes, recorded call log); every case is non-trivial (a service is started and stopped)"
	srv.SetVerifYieldHook(hook)

	if run.Replay != "" {
		var c Case
		if err := kit.ReadReplayCase(run.Replay, &c); err != nil {
			panic(err)
		}
		execCase(run, c, true, true)
		run.Finish()
		return
	}

	id := 0
	// 1. the full outcome matrix for the seven basic ways of ending the service
	for o := 0; o < 256; o++ {
		out := [4]int{o & 3, (o >> 2) & 3, (o >> 4) & 3, (o >> 6) & 3}
		for _, tm := range []struct {
			n string
			m int
		}{{"after", 0}, {"after", 1}, {"after", 2}, {"before", 0}, {"before", 1}, {"before", 2}, {"early-cancel", 2}} {
			execCase(run, mkCase(id, tm.n, tm.m, out, run.Rand.Fork()), false, true)
			id++
		}
	}
	// 2. race placements and concurrent callers on random outcomes
	n := run.Pick(700, 20000)
	races := []string{"checked-finished", "checked-running", "checked-first", "launched-second", "main-window", "multi", "multi-immediate", "unstarted"}
	for i := 0; i < n; i++ {
		r := run.Rand.Fork()
		out := [4]int{r.Intn(4), r.Intn(4), r.Intn(4), r.Intn(4)}
		if r.Chance(1, 3) && out[0] == oAbsent {
			out[0] = oOk
		}
		execCase(run, mkCase(id, races[i%len(races)], r.Intn(3), out, r), false, true)
		id++
	}
	// 2b. panic windows: every phase x termination mode, on several outcome combinations
	nw := run.Pick(2, 12)
	for k := 0; k < nw; k++ {
		for ph := 0; ph < 4; ph++ {
			for mode := 0; mode < 3; mode++ {
				r := run.Rand.Fork()
				out := [4]int{1 + r.Intn(3), r.Intn(4), r.Intn(4), r.Intn(4)}
				if k == 0 {
					out = [4]int{oOk, oOk, oOk, oOk}
					if ph != 1 {
						out[1] = oAbsent
					}
				}
				execCase(run, panicWindow(id, ph, mode, out), false, true)
				id++
			}
		}
	}
	// 3. thorough only: unhooked stress, 3 concurrent Starts on a service whose Run returns immediately
	if run.Thorough() {
		srv.SetVerifYieldHook(nil)
		bad := 0
		for i := 0; i < 20000 && bad < 5; i++ {
			r := run.Rand.Fork()
			out := [4]int{1 + r.Intn(3), r.Intn(4), r.Intn(4), r.Intn(4)}
			c := mkCase(id, "multi-immediate", 0, out, r)
			id++
			bad += execCase(run, c, false, i%40 == 0)
		}
		run.Extra["stress_rounds"] = 20000
		srv.SetVerifYieldHook(hook)
	}
	run.Finish()
}
