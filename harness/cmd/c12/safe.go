package main

import (
	"errors"
	"fmt"
	"strconv"

	"github.com/tychoish/fun/ers"
)

// ---------------------------------------------------------------- uncomparable user error types
// Go's == on two values of one of these types panics ("comparing uncomparable type"); errors.Is guards its ==
// with a comparability test, so they are matched through their Is method only.

type sliceErr []string     // {"slice", "<id>"}
type mapErr map[string]int // {"id": <id>}

func (e sliceErr) Error() string { return fmt.Sprint("sliceErr", []string(e)) }
func (e sliceErr) Is(t error) bool {
	o, ok := t.(sliceErr)
	if !ok || len(o) != len(e) {
		return false
	}
	for i := range e {
		if e[i] != o[i] {
			return false
		}
	}
	return true
}

func (e mapErr) Error() string { return fmt.Sprint("mapErr", map[string]int(e)) }
func (e mapErr) Is(t error) bool {
	o, ok := t.(mapErr)
	if !ok || len(o) != len(e) {
		return false
	}
	for k, v := range e {
		if ov, ok := o[k]; !ok || ov != v {
			return false
		}
	}
	return true
}

var typedUIDs = []typedKey{{4, 240}, {4, 241}, {5, 250}, {5, 251}}

// mkTypedU builds a FRESH value each time (equal contents, different backing store)
func mkTypedU(ty, id int) error {
	if ty == 4 {
		return sliceErr{"slice", strconv.Itoa(id)}
	}
	return mapErr{"id": id}
}

// typedUKey recognises a value of the uncomparable types (never used as a map key, never compared with ==)
func typedUKey(err error) (typedKey, bool) {
	switch v := err.(type) {
	case sliceErr:
		if len(v) == 2 {
			id, _ := strconv.Atoi(v[1])
			return typedKey{4, id}, true
		}
		return typedKey{4, -2}, true
	case mapErr:
		return typedKey{5, v["id"]}, true
	}
	return typedKey{}, false
}

// sameErr: identity of two error values without ever evaluating == on an uncomparable dynamic type
func sameErr(a, b error) bool {
	ka, ua := typedUKey(a)
	kb, ub := typedUKey(b)
	if ua || ub {
		return ua && ub && ka == kb
	}
	return a == b
}

// ---------------------------------------------------------------- panics inside errors.Is / errors.As / Unwind are verdicts

func (e *env) is(res, target error, what string) (out bool) {
	defer func() {
		if p := recover(); p != nil {
			e.fail("C12:Is:panic", fmt.Sprintf("errors.Is(%s, %s) panicked: %v", e.describe(res), what, p), what)
			out = false
		}
	}()
	return errors.Is(res, target)
}

func (e *env) unwind(res error) (out []error) {
	defer func() {
		if p := recover(); p != nil {
			e.fail("C12:Unwind:panic", fmt.Sprintf("ers.Unwind(%s) panicked: %v", e.describe(res), p), nil)
			out = nil
		}
	}()
	return ers.Unwind(res)
}

func (e *env) describe(res error) string {
	if res == nil {
		return "nil"
	}
	if st, ok := res.(*ers.Stack); ok {
		return fmt.Sprintf("*ers.Stack%v", e.ids(st.Unwind()))
	}
	return fmt.Sprintf("%T#%d", res, e.idOf(res))
}
