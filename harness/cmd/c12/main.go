// Driver for C12 (error aggregation): builds random finite trees of applications of the REAL
// ers.Join / ers.Wrap / fmt.Errorf("%w") / errors.Join / (*ers.Stack).Add,Push / ers.ParsePanic /
// erc.Collector over a small universe of leaves (ers.Error constants, pointer errors, typed errors, nils),
// observes the result (nil-ness, identity, ers.Unwind, Stack.Unwind, errors.Is for every leaf of the
// universe, errors.As per type, Len, ers.Ok), prints program + observations as a Coq term (the model in
// coq/Model/ErrTree.v is re-run on it by coqc), and runs the property's direct oracles — independent of the
// Coq model — at every aggregation node of every tree, plus a concurrent Collector stress.
package main

import (
	"context"
	"encoding/json"
	"errors"
	"flag"
	"fmt"
	"regexp"
	"strconv"
	"sync"
	"sync/atomic"

	"github.com/tychoish/fun/erc"
	"github.com/tychoish/fun/ers"

	"verif/harness/kit"
)

// ---------------------------------------------------------------- universe of leaves

type tyA struct{ id int }
type tyB struct{ id int }
type tyC struct{ id int } // value type: compared by value

func (e *tyA) Error() string { return fmt.Sprintf("tyA-%d", e.id) }
func (e *tyB) Error() string { return fmt.Sprintf("tyB-%d", e.id) }
func (e tyC) Error() string  { return fmt.Sprintf("tyC-%d", e.id) }

// user type with Unwrap() []error that keeps nils
type multiErr struct {
	id   int
	errs []error
}

func (m *multiErr) Error() string   { return fmt.Sprintf("multi-%d", m.id) }
func (m *multiErr) Unwrap() []error { return m.errs }

const nConst = 6 // Const 0 = "", Const 1 = ers.ErrRecoveredPanic, 2..5 other sentinels

func constStr(s int) string {
	switch s {
	case 0:
		return ""
	case 1:
		return string(ers.ErrRecoveredPanic)
	default:
		return fmt.Sprintf("sentinel-%d", s)
	}
}

func constErr(s int) error { return ers.Error(constStr(s)) }

var ptrIDs = []int{100, 101, 102, 103}
var ptrErrs = map[int]error{}

type typedKey struct{ ty, id int }

var typedErrs = map[typedKey]error{}
var typedIDs []typedKey

func init() {
	for _, id := range ptrIDs {
		ptrErrs[id] = errors.New(fmt.Sprintf("ptr-%d", id))
	}
	for ty := 1; ty <= 3; ty++ {
		for i := 0; i < 2; i++ {
			id := 200 + 10*ty + i
			k := typedKey{ty, id}
			typedIDs = append(typedIDs, k)
			switch ty {
			case 1:
				typedErrs[k] = &tyA{id}
			case 2:
				typedErrs[k] = &tyB{id}
			default:
				typedErrs[k] = tyC{id}
			}
		}
	}
}

// ---------------------------------------------------------------- programs

type X struct {
	K   string `json:"k"`
	S   int    `json:"s,omitempty"`   // const: string number; typed: type number; panicstr: string number; wrap: 1 = Wrapf; unwrap: 1 = ers.Unwrap
	ID  int    `json:"id,omitempty"`  // leaf identity; wrap: identity of the annotation error; panicother: the int
	Tag int    `json:"tag,omitempty"` // identity of the object this node creates
	Xs  []*X   `json:"xs,omitempty"`
	// filterexclude: Xs[0] is the operand, Xs[1:] the exclusions.
	// consume: Xs = the scripted source (Kinds[i]: 0 item, 1 the source fails with it, 2 cancel the context and
	// yield it), Adds = errors added to the collector first (Via[i] = the helper used), Pre = iter.AddError
	// operands, B = context already cancelled, Stream = use erc.Stream over a channel
	Adds   []*X  `json:"adds,omitempty"`
	Pre    []*X  `json:"pre,omitempty"`
	Kinds  []int `json:"kinds,omitempty"`
	Via    []int `json:"via,omitempty"`
	B      bool  `json:"b,omitempty"`
	Stream bool  `json:"stream,omitempty"`
}

func (x *X) children() []*X {
	out := append([]*X{}, x.Xs...)
	out = append(out, x.Adds...)
	return append(out, x.Pre...)
}

type ConcCase struct {
	K     int     `json:"k"`
	Items [][]int `json:"items"` // per goroutine: 0 nil, 1 unique pointer error, 2 wrapped unique, 3 errors.Join of two unique, 4 sentinel, 5 ers.Join of two unique
}

type Case struct {
	ID   int       `json:"id"`
	Kind string    `json:"kind"` // tree | conc
	X    *X        `json:"x,omitempty"`
	Conc *ConcCase `json:"conc,omitempty"`
	Snap *SnapCase `json:"snap,omitempty"`
}

func (x *X) coq() string {
	xs := func() string {
		s := make([]string, len(x.Xs))
		for i, c := range x.Xs {
			s[i] = c.coq()
		}
		return kit.List(s)
	}
	switch x.K {
	case "nil":
		return "XNil"
	case "const":
		return "XConst " + kit.ZI(x.S)
	case "ptr":
		return "XPtr " + kit.ZI(x.ID)
	case "typed":
		return "XTyped " + kit.ZI(x.S) + " " + kit.ZI(x.ID)
	case "typedu":
		return "XTypedU " + kit.ZI(x.S) + " " + kit.ZI(x.ID)
	case "errorf":
		return "XErrorf " + kit.ZI(x.Tag) + " (" + x.Xs[0].coq() + ")"
	case "ejoin":
		return "XErrorsJoin " + kit.ZI(x.Tag) + " " + xs()
	case "multi":
		return "XMulti " + kit.ZI(x.Tag) + " " + xs()
	case "join":
		return "XJoin " + kit.ZI(x.Tag) + " " + xs()
	case "wrap":
		return "XWrap " + kit.ZI(x.Tag) + " " + kit.ZI(x.ID) + " (" + x.Xs[0].coq() + ")"
	case "stack":
		return "XStack " + kit.ZI(x.Tag) + " " + xs()
	case "stackpush":
		return "XStackPush " + kit.ZI(x.Tag) + " " + xs()
	case "collect":
		return "XCollect " + kit.ZI(x.Tag) + " " + xs()
	case "panicerr":
		return "XPanicErr " + kit.ZI(x.Tag) + " (" + x.Xs[0].coq() + ")"
	case "panicstr":
		return "XPanicStr " + kit.ZI(x.Tag) + " " + kit.ZI(x.S)
	case "panicerrs":
		return "XPanicErrs " + kit.ZI(x.Tag) + " " + xs()
	case "panicother":
		return "XPanicOther " + kit.ZI(x.Tag) + " " + kit.ZI(x.ID)
	case "unwrap":
		return "XUnwrap " + kit.ZI(x.Tag) + " (" + x.Xs[0].coq() + ")"
	case "joinremoveok":
		return "XJoinRemoveOk " + kit.ZI(x.Tag) + " " + xs()
	case "joinappend":
		return "XJoinAppend " + kit.ZI(x.Tag) + " " + xs()
	case "filterexclude":
		ex := make([]string, len(x.Xs)-1)
		for i, c := range x.Xs[1:] {
			ex[i] = c.coq()
		}
		return "XFilterExclude " + kit.List(ex) + " (" + x.Xs[0].coq() + ")"
	case "consume":
		var adds []string
		for i, a := range x.Adds {
			adds = append(adds, a.coq())
			if x.Via[i] == viaRecoverHook { // RecoverHook adds the error and then the marker
				adds = append(adds, "XConst 1%Z")
			}
		}
		pre := make([]string, len(x.Pre))
		for i, c := range x.Pre {
			pre[i] = c.coq()
		}
		return "XConsume " + kit.ZI(x.Tag) + " " + kit.Bool(x.B) + " " + kit.List(adds) + " " + kit.List(pre) + " " + xs() + " " + kit.ZListI(x.Kinds)
	}
	panic("bad kind " + x.K)
}

// ---------------------------------------------------------------- shadow structure (the driver's own bookkeeping)

type nkind int

const (
	kLeaf nkind = iota
	kWrap
	kMulti
	kStack
)

// node describes one real error object: what it is and what it directly contains. For objects made by the
// code under test (a *ers.Stack) the children are read back from the object's own Unwind() at creation time,
// after the oracle of the creating operation has compared them with what was supplied.
type node struct {
	id   int
	kind nkind
	lk   string // leaf kind: const ptr typed other
	ty   int
	kids []*node
}

type env struct {
	unodes map[typedKey]*node
	colls  map[error]*erc.Collector
	reg    map[error]*node
	caseID int
	run    *kit.Run
	cs     Case
	fails  int
}

func newEnv(run *kit.Run, c Case) *env {
	e := &env{reg: map[error]*node{}, unodes: map[typedKey]*node{}, colls: map[error]*erc.Collector{}, caseID: c.ID, run: run, cs: c}
	e.reg[context.Canceled] = &node{id: 90, kind: kLeaf, lk: "ctx"}
	for s := 0; s < nConst; s++ {
		e.reg[constErr(s)] = &node{id: s, kind: kLeaf, lk: "const"}
	}
	for id, p := range ptrErrs {
		e.reg[p] = &node{id: id, kind: kLeaf, lk: "ptr"}
	}
	for k, t := range typedErrs {
		e.reg[t] = &node{id: k.id, kind: kLeaf, lk: "typed", ty: k.ty}
	}
	return e
}

var annRE = regexp.MustCompile(`^ann-(\d+)$`)
var otherRE = regexp.MustCompile(`^\[int\]: (\d+)$`)

// lookup returns the node of a real error; objects created inside the code under test (the annotation of
// ers.Wrap, the fmt.Errorf of ParsePanic's default arm) are recognised by their message and registered.
func (e *env) lookup(err error) *node {
	if err == nil {
		return nil
	}
	if k, ok := typedUKey(err); ok { // never hash an uncomparable value
		if n, ok := e.unodes[k]; ok {
			return n
		}
		n := &node{id: k.id, kind: kLeaf, lk: "typedu", ty: k.ty}
		e.unodes[k] = n
		return n
	}
	if n, ok := e.reg[err]; ok {
		return n
	}
	if fmt.Sprintf("%T", err) != "*errors.errorString" {
		return nil
	}
	msg := err.Error()
	for _, re := range []*regexp.Regexp{annRE, otherRE} {
		if m := re.FindStringSubmatch(msg); m != nil {
			id, _ := strconv.Atoi(m[1])
			n := &node{id: id, kind: kLeaf, lk: "other"}
			e.reg[err] = n
			return n
		}
	}
	return nil
}

func (e *env) idOf(err error) int {
	if err == nil {
		return -1
	}
	if n := e.lookup(err); n != nil {
		return n.id
	}
	return -2
}

func (e *env) ids(errs []error) []int {
	out := make([]int, len(errs))
	for i, x := range errs {
		out[i] = e.idOf(x)
	}
	return out
}

// flatten: the constituents an aggregation sees when this node is supplied to it, in the order supplied
// (a stack contributes its elements in its own Unwind order, a multi in slice order).
func flatten(n *node) []*node {
	if n == nil {
		return nil
	}
	switch n.kind {
	case kMulti, kStack:
		var out []*node
		for _, k := range n.kids {
			out = append(out, flatten(k)...)
		}
		return out
	default:
		return []*node{n}
	}
}

// occurs: the leaf (lk,id) is somewhere in the tree of n
func occurs(n *node, pred func(*node) bool) bool {
	if n == nil {
		return false
	}
	if pred(n) {
		return true
	}
	for _, k := range n.kids {
		if occurs(k, pred) {
			return true
		}
	}
	return false
}

func (e *env) fail(sig, detail string, impl any) {
	e.fails++
	if e.fails > 3 {
		return
	}
	e.run.OracleFail(e.caseID, sig, detail, e.cs, impl)
}

// registerResult gives the object created by an aggregation the node's tag (if it is a new object).
func (e *env) registerResult(tag int, res error) {
	if res == nil {
		return
	}
	if e.lookup(res) != nil {
		return
	}
	if st, ok := res.(*ers.Stack); ok {
		n := &node{id: tag, kind: kStack}
		for _, k := range st.Unwind() {
			kn := e.lookup(k)
			if kn == nil {
				kn = &node{id: -2, kind: kLeaf, lk: "unknown"}
			}
			n.kids = append(n.kids, kn)
		}
		e.reg[res] = n
		return
	}
	e.reg[res] = &node{id: tag, kind: kLeaf, lk: "unknown"}
}

// ---------------------------------------------------------------- direct oracles (independent of the Coq model)

type target struct {
	coq  string
	err  error
	pred func(*node) bool
}

var targets []target

func init() {
	for s := 0; s < nConst; s++ {
		s := s
		targets = append(targets, target{"Const " + kit.ZI(s), constErr(s), func(n *node) bool { return n.kind == kLeaf && n.lk == "const" && n.id == s }})
	}
	for _, id := range ptrIDs {
		id := id
		targets = append(targets, target{"Ptr " + kit.ZI(id), ptrErrs[id], func(n *node) bool { return n.kind == kLeaf && n.lk == "ptr" && n.id == id }})
	}
	for _, k := range typedUIDs {
		k := k
		targets = append(targets, target{"TypedU " + kit.ZI(k.ty) + " " + kit.ZI(k.id), mkTypedU(k.ty, k.id), func(n *node) bool { return n.kind == kLeaf && n.lk == "typedu" && n.ty == k.ty && n.id == k.id }})
	}
	for _, k := range typedIDs {
		k := k
		targets = append(targets, target{"Typed " + kit.ZI(k.ty) + " " + kit.ZI(k.id), typedErrs[k], func(n *node) bool { return n.kind == kLeaf && n.lk == "typed" && n.id == k.id }})
	}
}

// asProbe runs errors.As for target kind k (0 = ers.Error, 1..3 = typed) and returns the identity found (-1 none).
const nAsKinds = 6 // 0 = ers.Error, 1..3 comparable typed, 4 = sliceErr, 5 = mapErr

func (e *env) asProbe(res error, k int) (out int) {
	defer func() {
		if p := recover(); p != nil {
			e.fail("C12:As:panic", fmt.Sprintf("errors.As(%s, type %d) panicked: %v", e.describe(res), k, p), k)
			out = -1
		}
	}()
	switch k {
	case 0:
		var t ers.Error
		if errors.As(res, &t) {
			return e.idOf(t)
		}
	case 1:
		var t *tyA
		if errors.As(res, &t) {
			return t.id
		}
	case 2:
		var t *tyB
		if errors.As(res, &t) {
			return t.id
		}
	case 3:
		var t tyC
		if errors.As(res, &t) {
			return t.id
		}
	case 4:
		var t sliceErr
		if errors.As(res, &t) {
			return e.idOf(t)
		}
	case 5:
		var t mapErr
		if errors.As(res, &t) {
			return e.idOf(t)
		}
	}
	return -1
}

func asPred(k int) func(*node) bool {
	if k == 0 {
		return func(n *node) bool { return n.kind == kLeaf && n.lk == "const" }
	}
	if k >= 4 {
		return func(n *node) bool { return n.kind == kLeaf && n.lk == "typedu" && n.ty == k }
	}
	return func(n *node) bool { return n.kind == kLeaf && n.lk == "typed" && n.ty == k }
}

func idsOfNodes(ns []*node) []int {
	out := make([]int, len(ns))
	for i, n := range ns {
		out[i] = n.id
	}
	return out
}

func sameMultiset(a, b []int) bool {
	if len(a) != len(b) {
		return false
	}
	x := kit.SortedInts(a)
	y := kit.SortedInts(b)
	for i := range x {
		if x[i] != y[i] {
			return false
		}
	}
	return true
}

func reversed(a []int) []int {
	out := make([]int, len(a))
	for i, v := range a {
		out[len(a)-1-i] = v
	}
	return out
}

func eqInts(a, b []int) bool {
	if len(a) != len(b) {
		return false
	}
	for i := range a {
		if a[i] != b[i] {
			return false
		}
	}
	return true
}

// checkAggregate is the property, stated on the implementation: `supplied` are the nodes of the (non-nil)
// operands in supply order, res is what the operation returned.
func (e *env) checkAggregate(op string, supplied []*node, res error) {
	var cons []*node
	for _, s := range supplied {
		cons = append(cons, flatten(s)...)
	}
	want := idsOfNodes(cons)
	// nil exactly when no non-nil constituent was supplied
	if (res == nil) != (len(cons) == 0) {
		e.fail("C12:"+op+":nil-iff", fmt.Sprintf("result nil=%v but %d constituent(s) supplied %v", res == nil, len(cons), want), e.idOf(res))
		return
	}
	if res == nil {
		return
	}
	// a single constituent is returned itself
	if len(cons) == 1 && op != "Collector" {
		if e.idOf(res) != cons[0].id {
			e.fail("C12:"+op+":single-identity", fmt.Sprintf("one constituent %d supplied but the result is object %d (%T)", cons[0].id, e.idOf(res), res), e.idOf(res))
		}
	}
	// Unwind: each supplied constituent exactly once, most recent first
	if len(cons) >= 2 || op == "Collector" {
		got := e.ids(e.unwind(res))
		if !sameMultiset(got, want) {
			e.fail("C12:Unwind:multiset", fmt.Sprintf("%s: ers.Unwind(result)=%v is not the multiset of supplied constituents %v", op, got, want), got)
		} else if !eqInts(got, reversed(want)) {
			e.fail("C12:Unwind:order", fmt.Sprintf("%s: ers.Unwind(result)=%v, supplied (oldest first) %v", op, got, want), got)
		}
		if st, ok := res.(*ers.Stack); ok {
			got2 := e.ids(st.Unwind())
			if !sameMultiset(got2, want) {
				e.fail("C12:Unwind:multiset", fmt.Sprintf("%s: Stack.Unwind()=%v is not the multiset of supplied constituents %v", op, got2, want), got2)
			} else if !eqInts(got2, reversed(want)) {
				e.fail("C12:Unwind:order", fmt.Sprintf("%s: Stack.Unwind()=%v, supplied (oldest first) %v", op, got2, want), got2)
			}
		} else {
			e.fail("C12:"+op+":result-type", fmt.Sprintf("%d constituents but the result is %T", len(cons), res), nil)
		}
	} else {
		// single constituent: it heads the unwound chain of the result
		got := e.ids(e.unwind(res))
		if c := cons[0]; (c.kind == kLeaf || c.kind == kWrap) && (len(got) == 0 || got[0] != c.id) {
			e.fail("C12:Unwind:multiset", fmt.Sprintf("%s: single constituent %d but ers.Unwind(result)=%v", op, c.id, got), got)
		}
	}
	// errors.Is: succeeds for everything supplied (through single and multi wrapping), fails for the rest
	for _, t := range targets {
		exp := false
		for _, s := range supplied {
			if occurs(s, t.pred) {
				exp = true
			}
		}
		got := e.is(res, t.err, t.coq)
		if exp && !got {
			e.fail("C12:Is:missing", fmt.Sprintf("%s: errors.Is(result, %s)=false although it was supplied; constituents %v", op, t.coq, want), t.coq)
		}
		if !exp && got {
			e.fail("C12:Is:spurious", fmt.Sprintf("%s: errors.Is(result, %s)=true although it was never supplied; constituents %v", op, t.coq, want), t.coq)
		}
	}
	// errors.As per type
	for k := 0; k < nAsKinds; k++ {
		p := asPred(k)
		exp := false
		for _, s := range supplied {
			if occurs(s, p) {
				exp = true
			}
		}
		found := e.asProbe(res, k)
		if exp && found == -1 {
			e.fail("C12:As:missing", fmt.Sprintf("%s: errors.As(result, type %d) failed although such an error was supplied; constituents %v", op, k, want), k)
		}
		if !exp && found != -1 {
			e.fail("C12:As:spurious", fmt.Sprintf("%s: errors.As(result, type %d) found %d although none was supplied", op, k, found), k)
		}
		if exp && found != -1 {
			okf := false
			for _, s := range supplied {
				if occurs(s, func(n *node) bool { return p(n) && n.id == found }) {
					okf = true
				}
			}
			if !okf {
				e.fail("C12:As:spurious", fmt.Sprintf("%s: errors.As(result, type %d) found %d which was not supplied", op, k, found), k)
			}
		}
	}
}

func (e *env) nodesOf(vs []error) []*node {
	var out []*node
	for _, v := range vs {
		if v == nil {
			continue
		}
		n := e.lookup(v)
		if n == nil {
			n = &node{id: -2, kind: kLeaf, lk: "unknown"}
		}
		out = append(out, n)
	}
	return out
}

// ---------------------------------------------------------------- running a program on the real code

type topInfo struct {
	length int // Len() of the top-level collector / stack, -1 otherwise
}

// ev evaluates a node and checks, on every value any node produces, that an error which still holds
// constituents is never reported Ok (ers.Ok / ers.IsError are what Wrap, Wrapf, Append, RemoveOk, ... consult).
func (e *env) ev(x *X, top *topInfo) error {
	v := e.evNode(x, top)
	if v != nil {
		if n := e.lookup(v); n != nil {
			held := idsOfNodes(flatten(n))
			if len(held) > 0 && (ers.Ok(v) || !ers.IsError(v)) {
				e.fail("C12:Ok:nonempty", fmt.Sprintf("%s: ers.Ok=%v ers.IsError=%v on a %T that holds constituents %v", x.K, ers.Ok(v), ers.IsError(v), v, held), held)
			}
			if len(held) == 0 && n.kind == kStack && (!ers.Ok(v) || ers.IsError(v)) {
				e.fail("C12:Ok:empty", fmt.Sprintf("%s: ers.Ok=%v on an empty stack", x.K, ers.Ok(v)), nil)
			}
		}
	}
	return v
}

// keptAll: a filter (RemoveOk / Append) must keep every operand that still holds constituents, in order, and no nil
func (e *env) keptAll(op string, vs, kept []error) {
	j := 0
	for _, v := range vs {
		if v == nil {
			continue
		}
		n := e.lookup(v)
		holds := n != nil && len(flatten(n)) > 0
		if j < len(kept) && sameErr(kept[j], v) {
			j++
			continue
		}
		if holds {
			e.fail("C12:"+op+":lost", fmt.Sprintf("ers.%s dropped operand %d which holds constituents %v", op, e.idOf(v), idsOfNodes(flatten(n))), e.ids(kept))
		}
	}
	if j != len(kept) {
		e.fail("C12:"+op+":invented", fmt.Sprintf("ers.%s returned %v from operands %v", op, e.ids(kept), e.ids(vs)), e.ids(kept))
	}
}

func (e *env) evNode(x *X, top *topInfo) error {
	kids := func() []error {
		vs := make([]error, len(x.Xs))
		for i, c := range x.Xs {
			vs[i] = e.ev(c, nil)
		}
		return vs
	}
	switch x.K {
	case "nil":
		return nil
	case "const":
		return constErr(x.S)
	case "ptr":
		return ptrErrs[x.ID]
	case "typed":
		return typedErrs[typedKey{x.S, x.ID}]
	case "typedu":
		return mkTypedU(x.S, x.ID)
	case "errorf":
		v := e.ev(x.Xs[0], nil)
		res := fmt.Errorf("w%d: %w", x.Tag, v)
		if v == nil {
			e.reg[res] = &node{id: x.Tag, kind: kLeaf, lk: "ptr"}
		} else {
			e.reg[res] = &node{id: x.Tag, kind: kWrap, kids: e.nodesOf([]error{v})}
		}
		return res
	case "ejoin":
		vs := kids()
		res := errors.Join(vs...)
		if res != nil {
			e.reg[res] = &node{id: x.Tag, kind: kMulti, kids: e.nodesOf(vs)}
		}
		return res
	case "multi":
		vs := kids()
		res := &multiErr{id: x.Tag, errs: vs}
		e.reg[res] = &node{id: x.Tag, kind: kMulti, kids: e.nodesOf(vs)}
		return res
	case "join":
		vs := kids()
		res := ers.Join(vs...)
		e.checkAggregate("Join", e.nodesOf(vs), res)
		e.registerResult(x.Tag, res)
		return res
	case "wrap":
		v := e.ev(x.Xs[0], nil)
		var res error
		if x.S == 1 {
			res = ers.Wrapf(v, "ann-%d", x.ID)
		} else {
			res = ers.Wrap(v, fmt.Sprintf("ann-%d", x.ID))
		}
		vn := e.lookup(v)
		isOk := v == nil || (vn != nil && vn.kind == kStack && len(vn.kids) == 0)
		if isOk {
			if res != nil {
				e.fail("C12:Wrap:nil-iff", "ers.Wrap of a nil/empty error returned a non-nil error", e.idOf(res))
			}
		} else {
			sup := append(e.nodesOf([]error{v}), &node{id: x.ID, kind: kLeaf, lk: "other"})
			e.checkAggregate("Wrap", sup, res)
		}
		e.registerResult(x.Tag, res)
		return res
	case "stack", "stackpush":
		vs := kids()
		st := &ers.Stack{}
		if x.K == "stack" {
			st.Add(vs...)
		} else {
			for _, v := range vs {
				st.Push(v)
			}
		}
		// the property on the stack: Resolve() of it is the aggregate of what was supplied
		sup := e.nodesOf(vs)
		res := st.Resolve()
		e.checkAggregate("Stack", sup, res)
		ncons := 0
		for _, s := range sup {
			ncons += len(flatten(s))
		}
		if st.Len() != ncons {
			e.fail("C12:Stack:len", fmt.Sprintf("Stack.Len()=%d after %d constituents were pushed", st.Len(), ncons), st.Len())
		}
		if st.Ok() != (ncons == 0) {
			e.fail("C12:Stack:ok", fmt.Sprintf("Stack.Ok()=%v with %d constituents", st.Ok(), ncons), st.Ok())
		}
		if top != nil {
			top.length = st.Len()
		}
		e.registerResult(x.Tag, st)
		return st
	case "collect":
		vs := kids()
		ec := &erc.Collector{}
		for _, v := range vs {
			ec.Add(v)
		}
		res := ec.Resolve()
		sup := e.nodesOf(vs)
		ncons := 0
		for _, s := range sup {
			ncons += len(flatten(s))
		}
		if ec.Len() != ncons {
			e.fail("C12:Collector:lost", fmt.Sprintf("Collector.Len()=%d after %d non-nil constituents were added", ec.Len(), ncons), ec.Len())
		}
		if ec.HasErrors() != (ncons != 0) || ec.Ok() != (ncons == 0) {
			e.fail("C12:Collector:lost", fmt.Sprintf("HasErrors=%v Ok=%v with %d constituents", ec.HasErrors(), ec.Ok(), ncons), nil)
		}
		if res != nil {
			e.colls[res] = ec
		}
		e.checkAggregate("Collector", sup, res)
		// Iterator: from the most recent error to the oldest, exactly what was added
		if items, ierr := ec.Iterator().Slice(context.Background()); ierr != nil {
			e.fail("C12:Collector:iterator", fmt.Sprintf("Collector.Iterator().Slice failed: %v", ierr), nil)
		} else {
			var want []int
			for _, s := range sup {
				want = append(want, idsOfNodes(flatten(s))...)
			}
			if got := e.ids(items); !eqInts(got, reversed(want)) {
				e.fail("C12:Collector:iterator", fmt.Sprintf("Collector.Iterator() yields %v, added (oldest first) %v", got, want), got)
			}
		}
		if top != nil {
			top.length = ec.Len()
		}
		e.registerResult(x.Tag, res)
		return res
	case "unwrap":
		v := e.ev(x.Xs[0], nil)
		var res error
		if x.S == 1 {
			res = ers.Unwrap(v)
		} else {
			res = errors.Unwrap(v)
		}
		// the inner layer of a stack holds everything but the most recent constituent; a %w wrapper yields its operand
		if vn := e.lookup(v); vn != nil {
			switch vn.kind {
			case kStack:
				var want []int
				if len(vn.kids) >= 2 {
					want = idsOfNodes(vn.kids[1:])
				}
				got := e.ids(e.unwind(res))
				if (res == nil) != (len(want) == 0) || !eqInts(got, want) {
					e.fail("C12:Unwrap:layer", fmt.Sprintf("Unwrap of a stack holding %v yields %v (nil=%v), want %v", idsOfNodes(vn.kids), got, res == nil, want), got)
				}
			case kWrap:
				if e.idOf(res) != vn.kids[0].id {
					e.fail("C12:Unwrap:layer", fmt.Sprintf("Unwrap of wrapper %d yields %d", vn.id, e.idOf(res)), e.idOf(res))
				}
			default:
				if res != nil {
					e.fail("C12:Unwrap:layer", fmt.Sprintf("Unwrap of %d (no Unwrap() error) is non-nil", vn.id), e.idOf(res))
				}
			}
		}
		e.registerResult(x.Tag, res)
		return res
	case "filterexclude":
		return e.evFilterExclude(x)
	case "consume":
		return e.evConsume(x, top)
	case "joinremoveok", "joinappend":
		vs := kids()
		var kept []error
		if x.K == "joinremoveok" {
			kept = ers.RemoveOk(vs)
			e.keptAll("RemoveOk", vs, kept)
		} else {
			kept = ers.Append(nil, vs...)
			e.keptAll("Append", vs, kept)
		}
		res := ers.Join(kept...)
		e.checkAggregate("Join", e.nodesOf(vs), res)
		e.registerResult(x.Tag, res)
		return res
	case "panicerr", "panicstr", "panicerrs", "panicother":
		var r any
		var sup []*node
		rp := e.reg[constErr(1)]
		switch x.K {
		case "panicerr":
			v := e.ev(x.Xs[0], nil)
			if v != nil {
				r = v
				sup = append(e.nodesOf([]error{v}), rp)
			}
		case "panicstr":
			r = constStr(x.S)
			sup = []*node{e.reg[constErr(x.S)], rp}
		case "panicerrs":
			vs := kids()
			r = vs
			sup = e.nodesOf(vs) // what the code joins; the marker is the oracle below
		case "panicother":
			r = x.ID
			sup = []*node{{id: x.ID, kind: kLeaf, lk: "other"}, rp}
		}
		res := ers.ParsePanic(r)
		if r == nil {
			if res != nil {
				e.fail("C12:ParsePanic:nil", "ParsePanic(nil) returned an error", e.idOf(res))
			}
			return res
		}
		// every recovered panic is marked
		if !e.is(res, ers.ErrRecoveredPanic, "ErrRecoveredPanic") {
			cls := "unmarked"
			if x.K == "panicerrs" {
				cls = "error-slice"
			}
			e.fail("C12:ParsePanic:"+cls, fmt.Sprintf("ParsePanic(%T) = %v: errors.Is(result, ErrRecoveredPanic) is false", r, e.ids(e.unwind(res))), e.idOf(res))
		}
		e.checkAggregate("ParsePanic", sup, res)
		e.registerResult(x.Tag, res)
		return res
	}
	panic("bad kind " + x.K)
}

// ---------------------------------------------------------------- generator

type gen struct {
	r   *kit.Rand
	tag int
}

func (g *gen) next() int { g.tag++; return g.tag }

func (g *gen) leaf() *X {
	switch g.r.Intn(10) {
	case 0, 1:
		return &X{K: "nil"}
	case 2, 3, 4:
		return &X{K: "const", S: g.r.Intn(nConst)}
	case 5, 6:
		return &X{K: "ptr", ID: ptrIDs[g.r.Intn(len(ptrIDs))]}
	case 7:
		k := typedUIDs[g.r.Intn(len(typedUIDs))]
		return &X{K: "typedu", S: k.ty, ID: k.id}
	default:
		k := typedIDs[g.r.Intn(len(typedIDs))]
		return &X{K: "typed", S: k.ty, ID: k.id}
	}
}

func (g *gen) list(depth int) []*X {
	n := g.r.Intn(5)
	if g.r.Chance(1, 12) {
		n = g.r.Range(5, 8)
	}
	out := make([]*X, n)
	for i := range out {
		out[i] = g.tree(depth)
	}
	return out
}

var kinds = []string{"errorf", "errorf", "ejoin", "ejoin", "multi", "join", "join", "join", "wrap", "wrap", "stack", "stack", "stackpush", "collect", "panicerr", "panicstr", "panicerrs", "panicother", "unwrap", "unwrap", "unwrap", "joinremoveok", "joinappend", "filterexclude", "consume", "consume"}

func (g *gen) node(k string, depth int) *X {
	x := &X{K: k, Tag: g.next()}
	switch k {
	case "errorf", "panicerr":
		x.Xs = []*X{g.tree(depth - 1)}
	case "unwrap":
		x.S = g.r.Intn(2)
		x.Xs = []*X{g.layerSource(depth - 1)}
	case "filterexclude":
		x.Tag = 0
		x.Xs = []*X{g.tree(depth - 1)}
		for n := g.r.Intn(4); n > 0; n-- {
			x.Xs = append(x.Xs, g.leaf())
		}
	case "consume":
		g.consume(x, depth)
	case "wrap":
		x.ID = g.next()
		x.S = g.r.Intn(2)
		if g.r.Chance(1, 3) {
			x.Xs = []*X{g.node("unwrap", depth)}
		} else {
			x.Xs = []*X{g.tree(depth - 1)}
		}
	case "panicstr":
		x.S = g.r.Intn(nConst)
	case "panicother":
		x.ID = g.next()
	default:
		x.Xs = g.list(depth - 1)
	}
	return x
}

func (g *gen) nonNilLeaf() *X {
	for {
		if l := g.leaf(); l.K != "nil" {
			return l
		}
	}
}

// consume: errors added first (through the different helpers), iterator errors, a scripted source, a context
func (g *gen) consume(x *X, depth int) {
	for n := g.r.Intn(4); n > 0; n-- {
		via := g.r.Intn(nVia)
		var a *X
		switch via {
		case viaRecover:
			a = g.node([]string{"panicerr", "panicstr", "panicother"}[g.r.Intn(3)], depth-1)
		case viaRecoverHook:
			a = g.nonNilLeaf()
		default:
			a = g.tree(depth - 1)
		}
		x.Adds = append(x.Adds, a)
		x.Via = append(x.Via, via)
	}
	x.B = g.r.Chance(1, 3)
	x.Stream = g.r.Chance(1, 4)
	nitems := g.r.Intn(5)
	for i := 0; i < nitems; i++ {
		k := 0
		if !x.Stream {
			switch g.r.Intn(6) {
			case 0:
				k = 1
			case 1, 2:
				k = 2
			}
		}
		x.Kinds = append(x.Kinds, k)
		if k == 1 {
			x.Xs = append(x.Xs, g.nonNilLeaf())
		} else {
			x.Xs = append(x.Xs, g.tree(depth-1))
		}
	}
	if !x.Stream {
		for n := g.r.Intn(4); n > 0; n-- {
			if g.r.Chance(1, 4) {
				x.Pre = append(x.Pre, g.node("collect", depth-1))
			} else {
				x.Pre = append(x.Pre, g.tree(depth-1))
			}
		}
	}
}

// layerSource: something worth peeling with Unwrap — mostly an aggregate of several errors (so the result is an
// inner layer that still holds constituents), sometimes another peeled layer, a wrapper, or anything else.
func (g *gen) layerSource(depth int) *X {
	switch g.r.Intn(8) {
	case 0, 1, 2, 3:
		k := []string{"join", "join", "stack", "stackpush", "collect", "joinremoveok"}[g.r.Intn(6)]
		x := &X{K: k, Tag: g.next()}
		n := g.r.Range(2, 5)
		for i := 0; i < n; i++ {
			x.Xs = append(x.Xs, g.tree(depth-1))
		}
		return x
	case 4, 5:
		return g.node("unwrap", depth)
	case 6:
		return g.node("errorf", depth)
	default:
		return g.tree(depth)
	}
}

func (g *gen) tree(depth int) *X {
	if depth <= 0 || g.r.Chance(1, 4) {
		return g.leaf()
	}
	return g.node(kinds[g.r.Intn(len(kinds))], depth)
}

var topKinds = []string{"join", "join", "join", "join", "join", "join", "wrap", "wrap", "wrap", "stack", "stack", "stackpush", "collect", "collect", "collect", "panicerr", "panicerr", "panicerrs", "panicstr", "panicother", "ejoin", "errorf", "multi", "unwrap", "unwrap", "joinremoveok", "joinappend", "filterexclude", "consume", "consume", "consume"}

func genCase(r *kit.Rand) *X {
	g := &gen{r: r, tag: 1000}
	depth := r.Range(2, 4)
	if r.Chance(1, 6) {
		depth = 1
	}
	if r.Chance(1, 12) {
		return g.tree(depth)
	}
	return g.node(topKinds[r.Intn(len(topKinds))], depth)
}

func depthOf(x *X) int {
	d := 0
	for _, c := range x.children() {
		if cd := depthOf(c); cd > d {
			d = cd
		}
	}
	if x.K == "nil" || x.K == "const" || x.K == "ptr" || x.K == "typed" || x.K == "typedu" {
		return 0
	}
	return d + 1
}

func countKinds(x *X, into map[string]int) {
	into[x.K]++
	for _, c := range x.children() {
		countKinds(c, into)
	}
}

// ---------------------------------------------------------------- executing a tree case

func optList(v []int, ok bool) string {
	if !ok {
		return "None"
	}
	return "(Some " + kit.ZListI(v) + ")"
}

func execTree(run *kit.Run, c Case, verbose bool) {
	e := newEnv(run, c)
	top := &topInfo{length: -1}
	var res error
	func() {
		defer func() {
			if p := recover(); p != nil {
				e.fail("C12:panic", fmt.Sprintf("the program panicked: %v", p), nil)
				res = nil
			}
		}()
		res = e.ev(c.X, top)
	}()
	rid := e.idOf(res)
	okv := ers.Ok(res)
	unw := e.ids(e.unwind(res))
	// never a nil, never an object nobody supplied
	for i, u := range e.unwind(res) {
		if u == nil {
			e.fail("C12:Unwind:nil-element", fmt.Sprintf("ers.Unwind(result)[%d] is nil (%v)", i, unw), unw)
		} else if unw[i] == -2 {
			e.fail("C12:Unwind:invented", fmt.Sprintf("ers.Unwind(result)[%d] is an object that was never supplied: %T %q", i, u, u.Error()), unw)
		}
	}
	var sunw []int
	st, isStack := res.(*ers.Stack)
	if isStack {
		sunw = e.ids(st.Unwind())
	}
	isObs := make([]string, len(targets))
	isBools := make([]bool, len(targets))
	for i, t := range targets {
		isBools[i] = e.is(res, t.err, t.coq)
		isObs[i] = kit.Pair(t.coq, kit.Bool(isBools[i]))
	}
	asObs := make([]string, nAsKinds)
	asIDs := make([]int, nAsKinds)
	for k := 0; k < nAsKinds; k++ {
		asIDs[k] = e.asProbe(res, k)
		kk := "KConst"
		if k > 0 {
			kk = "KTyped " + kit.ZI(k)
		}
		asObs[k] = kit.Pair(kk, kit.ZI(asIDs[k]))
	}
	if verbose {
		b, _ := json.Marshal(c.X)
		fmt.Printf("program %s\n result id=%d (%T) ok=%v len=%d\n ers.Unwind=%v Stack.Unwind=%v(%v)\n Is=%v\n As=%v\n oracle failures=%d\n",
			b, rid, res, okv, top.length, unw, sunw, isStack, isBools, asIDs, e.fails)
	}
	vlen := -1
	if isStack {
		vlen = st.Len()
	}
	term := fmt.Sprintf("CTree %s (%s) (mkObs %s %s %s %s %s %s %s %s)", kit.ZI(c.ID), c.X.coq(),
		kit.ZI(rid), kit.Bool(okv), kit.ZListI(unw), optList(sunw, isStack), kit.List(isObs), kit.List(asObs), kit.ZI(top.length), kit.ZI(vlen))
	d := depthOf(c.X)
	hist := map[string]int{}
	countKinds(c.X, hist)
	nonnil := hist["const"] + hist["ptr"] + hist["typed"] + hist["typedu"]
	run.Count("tree/top=" + c.X.K)
	run.Count(fmt.Sprintf("tree/depth=%d", d))
	run.Count("tree/result=" + resultClass(res, isStack))
	for k, v := range hist {
		run.Dist["nodes/"+k] += v
	}
	b, _ := json.Marshal(c.X)
	run.Case(c.ID, c, term, string(b), d >= 2 && nonnil >= 2)
}

func resultClass(res error, isStack bool) string {
	switch {
	case res == nil:
		return "nil"
	case isStack:
		return "stack"
	default:
		return "single"
	}
}

// ---------------------------------------------------------------- concurrent Collector stress

func genConc(r *kit.Rand) *ConcCase {
	k := r.Range(2, 8)
	c := &ConcCase{K: k}
	for g := 0; g < k; g++ {
		m := r.Intn(40)
		if r.Chance(1, 8) {
			m = 0
		}
		it := make([]int, m)
		for i := range it {
			it[i] = r.Intn(6)
		}
		c.Items = append(c.Items, it)
	}
	return c
}

func execConc(run *kit.Run, c Case, verbose bool) {
	cc := c.Conc
	ec := &erc.Collector{}
	ident := map[error]int{}
	var mu sync.Mutex
	perG := make([][]int, cc.K) // unique ids in program order (constituent order)
	var wantAll []int
	mk := func(g, i, j int) (error, int) {
		id := 100000*(g+1) + 10*i + j
		err := errors.New(fmt.Sprintf("g%d", id))
		mu.Lock()
		ident[err] = id
		mu.Unlock()
		return err, id
	}
	// build every operand first (no bookkeeping inside the racing section)
	ops := make([][]error, cc.K)
	for g := 0; g < cc.K; g++ {
		for i, kind := range cc.Items[g] {
			switch kind {
			case 0:
				ops[g] = append(ops[g], nil)
			case 1:
				e1, id := mk(g, i, 0)
				ops[g] = append(ops[g], e1)
				perG[g] = append(perG[g], id)
			case 2:
				e1, id := mk(g, i, 0)
				w := fmt.Errorf("w: %w", e1)
				mu.Lock()
				ident[w] = id + 5
				mu.Unlock()
				ops[g] = append(ops[g], w)
				perG[g] = append(perG[g], id+5)
			case 3:
				e1, id1 := mk(g, i, 0)
				e2, id2 := mk(g, i, 1)
				ops[g] = append(ops[g], errors.Join(e1, e2))
				perG[g] = append(perG[g], id1, id2)
			case 4:
				ops[g] = append(ops[g], constErr(2+(i%4)))
				perG[g] = append(perG[g], 2+(i%4))
			case 5:
				e1, id1 := mk(g, i, 0)
				e2, id2 := mk(g, i, 1)
				ops[g] = append(ops[g], ers.Join(e1, e2))
				perG[g] = append(perG[g], id2, id1) // a stack is supplied in its own Unwind order
			}
		}
		wantAll = append(wantAll, perG[g]...)
	}
	for s := 2; s < nConst; s++ {
		ident[constErr(s)] = s
	}
	var wg sync.WaitGroup
	var stop atomic.Bool
	var lenBad atomic.Int64
	total := len(wantAll)
	rd := make(chan struct{})
	go func() { // a reader: Len is monotone and bounded, Resolve nil-ness is consistent with it
		defer close(rd)
		last := 0
		for !stop.Load() {
			n := ec.Len()
			if n < last || n > total {
				lenBad.Store(int64(n)*1000000 + int64(last))
			}
			last = n
			if r := ec.Resolve(); r == nil && last > 0 {
				lenBad.Store(-1)
			}
		}
	}()
	start := make(chan struct{})
	for g := 0; g < cc.K; g++ {
		wg.Add(1)
		go func(g int) {
			defer wg.Done()
			<-start
			for _, op := range ops[g] {
				ec.Add(op)
			}
		}(g)
	}
	close(start)
	wg.Wait()
	stop.Store(true)
	<-rd
	fails := 0
	fail := func(sig, detail string, impl any) {
		fails++
		if fails <= 2 {
			run.OracleFail(c.ID, sig, detail, c, impl)
		}
	}
	if v := lenBad.Load(); v != 0 {
		fail("C12:Collector:len-nonmonotone", fmt.Sprintf("a concurrent reader saw Len/Resolve inconsistent (code %d, total %d)", v, total), v)
	}
	if ec.Len() != total {
		fail("C12:Collector:lost", fmt.Sprintf("Len()=%d after %d goroutines added %d non-nil constituents", ec.Len(), cc.K, total), ec.Len())
	}
	res := ec.Resolve()
	if (res == nil) != (total == 0) {
		fail("C12:Collector:lost", fmt.Sprintf("Resolve() nil=%v with %d constituents added", res == nil, total), nil)
	}
	var got []int
	for _, x := range ers.Unwind(res) {
		id, ok := ident[x]
		if !ok {
			id = -2
		}
		got = append(got, id)
	}
	if !sameMultiset(got, wantAll) {
		fail("C12:Collector:lost", fmt.Sprintf("Unwind(Resolve()) holds %d errors, multiset differs from the %d added", len(got), total), len(got))
	} else {
		// per goroutine, its (unique) errors appear most recent first
		pos := map[int]int{}
		for i, id := range got {
			pos[id] = i
		}
		for g := 0; g < cc.K; g++ {
			lastPos := len(got)
			for _, id := range perG[g] {
				if id < 100 {
					continue
				}
				if pos[id] > lastPos {
					fail("C12:Collector:order", fmt.Sprintf("goroutine %d: error %d added later sits deeper in the stack than an earlier one", g, id), id)
					break
				}
				lastPos = pos[id]
			}
		}
	}
	for _, t := range targets[:nConst] {
		exp := false
		for _, id := range wantAll {
			if "Const "+kit.ZI(id) == t.coq {
				exp = true
			}
		}
		if g := errors.Is(res, t.err); g != exp {
			cls := "missing"
			if g {
				cls = "spurious"
			}
			fail("C12:Is:"+cls, fmt.Sprintf("Collector: errors.Is(Resolve(), %s)=%v, expected %v", t.coq, g, exp), t.coq)
		}
	}
	if verbose {
		fmt.Printf("concurrent collector: k=%d total=%d Len=%d unwind=%d oracle failures=%d\n", cc.K, total, ec.Len(), len(got), fails)
	}
	run.Count(fmt.Sprintf("conc/goroutines=%d", cc.K))
	b, _ := json.Marshal(cc)
	run.Case(c.ID, c, "", "conc|"+string(b), total >= 2)
}

// ---------------------------------------------------------------- corpus

func leafC(s int) *X                    { return &X{K: "const", S: s} }
func leafP(id int) *X                   { return &X{K: "ptr", ID: id} }
func leafT(ty, i int) *X                { return &X{K: "typed", S: ty, ID: 200 + 10*ty + i} }
func leafU(ty, id int) *X               { return &X{K: "typedu", S: ty, ID: id} }
func nilX() *X                          { return &X{K: "nil"} }
func op(k string, tag int, xs ...*X) *X { return &X{K: k, Tag: tag, Xs: xs} }

func corpus() []*X {
	return []*X{
		// known finding #27: ParsePanic([]error{...}) does not attach ErrRecoveredPanic (always reproduced)
		op("panicerrs", 1001, leafP(100), leafP(101)),
		op("panicerrs", 1001),
		op("join", 1001),
		op("join", 1001, nilX(), nilX()),
		op("join", 1001, nilX(), leafP(100), nilX()),
		op("join", 1001, leafC(2), leafC(3)),
		op("join", 1001, leafC(0)),
		op("join", 1001, leafC(0), leafC(0)),
		op("join", 1002, op("join", 1001, leafC(2), leafP(100)), leafT(1, 0)),
		op("join", 1003, op("join", 1001, leafC(2), leafP(100)), op("join", 1002, leafT(1, 0), leafT(3, 1))),
		op("join", 1002, op("errorf", 1001, leafC(2))),
		op("join", 1003, op("errorf", 1001, leafC(2)), op("ejoin", 1002, leafP(100), nilX(), leafT(2, 0))),
		op("join", 1003, op("errorf", 1002, op("ejoin", 1001, leafP(100), leafT(2, 0))), leafC(3)),
		op("join", 1002, op("multi", 1001, nilX(), leafP(100), nilX(), leafC(4)), nilX()),
		op("join", 1002, op("stack", 1001), leafC(2)),
		op("join", 1002, op("stack", 1001)),
		op("stack", 1001),
		op("stack", 1001, leafC(2)),
		op("stackpush", 1002, op("stack", 1001, leafC(2), leafC(3)), leafC(4)),
		op("errorf", 1002, op("join", 1001, leafC(2), leafC(3))),
		op("errorf", 1001, nilX()),
		{K: "wrap", Tag: 1001, ID: 1002, Xs: []*X{leafC(2)}},
		{K: "wrap", Tag: 1001, ID: 1002, Xs: []*X{nilX()}},
		{K: "wrap", Tag: 1002, ID: 1003, Xs: []*X{op("stack", 1001)}},
		{K: "wrap", Tag: 1002, ID: 1003, Xs: []*X{op("multi", 1001)}},
		{K: "wrap", Tag: 1003, ID: 1004, Xs: []*X{op("join", 1001, leafC(2), leafT(1, 1))}},
		op("collect", 1001),
		op("collect", 1001, nilX()),
		op("collect", 1001, leafC(2)),
		op("collect", 1002, leafC(2), nilX(), op("ejoin", 1001, leafP(100), leafP(101)), leafT(3, 0)),
		op("collect", 1003, op("collect", 1001, leafC(2), leafC(3)), op("stack", 1002, leafC(4), leafC(5))),
		op("panicerr", 1001, leafP(100)),
		op("panicerr", 1001, nilX()),
		op("panicerr", 1002, op("join", 1001, leafP(100), leafC(1))),
		{K: "panicstr", Tag: 1001, S: 0},
		{K: "panicstr", Tag: 1001, S: 1},
		{K: "panicstr", Tag: 1001, S: 3},
		{K: "panicother", Tag: 1001, ID: 1002},
		op("join", 1003, op("panicerrs", 1001, leafP(100), leafP(101)), &X{K: "panicother", Tag: 1002, ID: 1004}),
		// inner layers of aggregates (errors.Unwrap / ers.Unwrap) fed back into everything that consults Ok
		op("unwrap", 1002, op("join", 1001, leafC(2), leafP(100), leafT(1, 0))),
		{K: "unwrap", S: 1, Tag: 1003, Xs: []*X{op("unwrap", 1002, op("join", 1001, leafC(2), leafP(100), leafT(1, 0)))}},
		op("unwrap", 1004, op("unwrap", 1003, op("unwrap", 1002, op("join", 1001, leafC(2), leafP(100), leafT(1, 0))))),
		op("unwrap", 1002, op("join", 1001, leafC(2))),
		op("unwrap", 1002, op("errorf", 1001, leafC(2))),
		op("unwrap", 1002, op("ejoin", 1001, leafC(2), leafC(3))),
		{K: "wrap", Tag: 1003, ID: 1004, Xs: []*X{op("unwrap", 1002, op("join", 1001, leafC(2), leafP(100), leafT(1, 0)))}},
		{K: "wrap", S: 1, Tag: 1003, ID: 1004, Xs: []*X{op("unwrap", 1002, op("join", 1001, leafC(2), leafP(100), leafT(1, 0)))}},
		{K: "wrap", Tag: 1004, ID: 1005, Xs: []*X{op("unwrap", 1003, op("unwrap", 1002, op("join", 1001, leafC(2), leafP(100), leafT(1, 0))))}},
		{K: "wrap", Tag: 1003, ID: 1004, Xs: []*X{op("unwrap", 1002, op("collect", 1001, leafC(2), leafP(100)))}},
		op("join", 1003, op("unwrap", 1002, op("join", 1001, leafC(2), leafP(100), leafT(1, 0)))),
		op("join", 1003, op("unwrap", 1002, op("join", 1001, leafC(2), leafP(100), leafT(1, 0))), leafC(4)),
		op("stackpush", 1003, op("unwrap", 1002, op("stack", 1001, leafC(2), leafP(100), leafT(1, 0))), nilX()),
		op("collect", 1003, op("unwrap", 1002, op("join", 1001, leafC(2), leafP(100), leafT(1, 0)))),
		op("panicerr", 1003, op("unwrap", 1002, op("join", 1001, leafC(2), leafP(100)))),
		op("joinremoveok", 1004, nilX(), op("unwrap", 1002, op("join", 1001, leafC(2), leafP(100), leafT(1, 0))), op("stack", 1003), leafC(5)),
		op("joinappend", 1004, nilX(), op("unwrap", 1002, op("join", 1001, leafC(2), leafP(100), leafT(1, 0))), op("stack", 1003), leafC(5)),
		op("joinremoveok", 1001),
		op("errorf", 1003, op("unwrap", 1002, op("join", 1001, leafC(2), leafP(100), leafT(1, 0)))),
		// uncomparable typed errors as constituents (and, always, as errors.Is / errors.As targets)
		op("join", 1001, leafU(4, 240), leafC(2)),
		op("join", 1001, leafU(4, 240), leafU(4, 241), leafU(5, 250)),
		op("join", 1002, op("errorf", 1001, leafU(5, 251)), leafU(4, 240), leafP(100)),
		op("collect", 1001, leafU(4, 241), leafU(5, 250)),
		op("panicerr", 1001, leafU(4, 240)),
		{K: "wrap", Tag: 1001, ID: 1002, Xs: []*X{leafU(5, 250)}},
		op("unwrap", 1002, op("join", 1001, leafU(4, 240), leafU(4, 240), leafC(3))),
		// FilterExclude: all-or-nothing on an aggregate
		{K: "filterexclude", Xs: []*X{op("join", 1001, leafC(2), leafP(100)), leafP(100)}},
		{K: "filterexclude", Xs: []*X{op("join", 1001, leafC(2), leafP(100)), leafP(101), nilX()}},
		{K: "filterexclude", Xs: []*X{op("join", 1001, leafC(2), leafP(100))}},
		{K: "filterexclude", Xs: []*X{op("stack", 1001), leafP(101)}},
		{K: "filterexclude", Xs: []*X{leafU(4, 240), leafU(4, 240)}},
		// Consume / Stream: iterator errors x live / cancelled / mid-stream cancelled contexts
		{K: "consume", Tag: 1001, Xs: []*X{leafP(100), nilX(), leafP(101)}, Kinds: []int{0, 0, 0}},
		{K: "consume", Tag: 1001, Xs: []*X{leafP(100)}, Kinds: []int{0}, Pre: []*X{leafC(2), leafT(1, 0)}},
		{K: "consume", Tag: 1001, B: true, Xs: []*X{leafP(100)}, Kinds: []int{0}, Pre: []*X{leafC(2), leafT(1, 0)}},
		{K: "consume", Tag: 1001, B: true, Xs: []*X{leafP(100)}, Kinds: []int{0}, Pre: []*X{leafC(2)}},
		{K: "consume", Tag: 1001, Xs: []*X{leafP(100), leafP(101), leafP(102)}, Kinds: []int{0, 2, 0}, Pre: []*X{leafC(2), leafT(1, 0)}},
		{K: "consume", Tag: 1001, Xs: []*X{leafP(100), leafC(3), leafP(102)}, Kinds: []int{0, 1, 0}, Pre: []*X{leafC(2)}},
		{K: "consume", Tag: 1001, Xs: []*X{leafP(100), leafC(3)}, Kinds: []int{2, 1}},
		{K: "consume", Tag: 1001, B: true},
		{K: "consume", Tag: 1001, Stream: true, Xs: []*X{leafP(100), nilX(), leafC(2)}, Kinds: []int{0, 0, 0}},
		{K: "consume", Tag: 1001, Stream: true, B: true, Xs: []*X{leafP(100)}, Kinds: []int{0}, Adds: []*X{leafC(4)}, Via: []int{viaAdd}},
		{K: "consume", Tag: 1004, Xs: []*X{leafP(100)}, Kinds: []int{2},
			Adds: []*X{leafC(4), nilX(), leafP(101), op("ejoin", 1001, leafC(2), leafC(3)), leafT(2, 0), op("panicerr", 1002, leafP(102)), leafP(103)},
			Via:  []int{viaHandler, viaWhen, viaWhen, viaCheck, viaCollect, viaRecover, viaRecoverHook},
			Pre:  []*X{op("collect", 1003, leafC(5), leafT(3, 1))}},
		{K: "consume", Tag: 1003, Adds: []*X{{K: "panicstr", Tag: 1001, S: 3}, {K: "panicother", Tag: 1002, ID: 1005}}, Via: []int{viaRecover, viaRecover}},
	}
}

func main() {
	snapFile := flag.String("snap-child", "", "internal: run the snapshot rounds of this file and report on stdout")
	snapFrom := flag.Int("snap-from", 0, "internal: first configuration to run")
	run := kit.Start()
	if *snapFile != "" {
		snapChild(*snapFile, *snapFrom)
		return
	}
	run.Header = "From FunV Require Import Base.Tac Model.ErrTree Corr.C12_corr.\nLocal Open Scope Z_scope."
	run.Footer = "Definition M := Eval vm_compute in mismatches cases.\nPrint M."
	run.CaseType = "case"
	run.Rule = "tree cases: random finite programs (depth 1-4, fan-out 0-8) of ers.Join / ers.Wrap / ers.Wrapf / errors.Unwrap and ers.Unwrap (inner layers of aggregates, applied repeatedly) / ers.RemoveOk / ers.Append / fmt.Errorf(%w) / errors.Join / user Unwrap()[]error type / Stack.Add / Stack.Push / erc.Collector / ers.ParsePanic (error, string, []error, other) over 6 ers.Error constants (incl. \"\" and ErrRecoveredPanic), 4 pointer errors, 6 typed errors of 3 types, and nils; conc cases: 2-8 goroutines adding 0-39 operands each to one Collector with a concurrent Len/Resolve reader; snap cases: 1-4 producers adding 6-120 distinct errors each while 2-6 readers loop on Iterator()/Len()/Resolve(), every snapshot checked for prefix consistency against atomic stamps, run in a child process. distinct = distinct program (JSON); non-trivial = program depth >= 2 with at least two non-nil leaves (tree) or at least two constituents added (conc)"

	if run.Replay != "" {
		var c Case
		if err := kit.ReadReplayCase(run.Replay, &c); err != nil {
			panic(err)
		}
		if c.Kind == "snap" {
			sc := *c.Snap
			if sc.Reps < 400 {
				sc.Reps = 400
			}
			n := runSnapStream(run, c.ID, []SnapCase{sc}, true)
			fmt.Printf("concurrent snapshot stream: %+v, %d snapshots checked\n", sc, n)
		} else if c.Kind == "conc" {
			execConc(run, c, true)
		} else {
			execTree(run, c, true)
		}
		run.Finish()
		return
	}

	id := 0
	for _, x := range corpus() {
		execTree(run, Case{ID: id, Kind: "tree", X: x}, false)
		id++
	}
	n := run.Pick(6000, 120000)
	for i := 0; i < n; i++ {
		r := run.Rand.Fork()
		execTree(run, Case{ID: id, Kind: "tree", X: genCase(r)}, false)
		id++
	}
	m := run.Pick(400, 6000)
	for i := 0; i < m; i++ {
		r := run.Rand.Fork()
		execConc(run, Case{ID: id, Kind: "conc", Conc: genConc(r)}, false)
		id++
	}
	ns := run.Pick(60, 600)
	var snaps []SnapCase
	for i := 0; i < ns; i++ {
		snaps = append(snaps, genSnap(run.Rand.Fork(), run.Pick(40, 80)))
	}
	run.Extra["snapshots_checked"] = runSnapStream(run, id, snaps, false)
	run.Finish()
}
