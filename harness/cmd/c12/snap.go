// Concurrent Collector snapshot stream (C12): while K producers Add distinct errors, M readers loop on
// Iterator() (drained) and Len(); every snapshot must be PREFIX-CONSISTENT — the executable projection of
// C12_collector_concurrent_results (each returned Iterator/Len equals the sequential value on the Adds
// linearized before it).  The rounds run in a CHILD process of this same binary, so that a runtime fatal error
// or a panic caused by an unsynchronised read is reported as an oracle failure instead of killing the driver.
//
// Not done while Adds are in flight: walking the value returned by Resolve().  Resolve hands out a pointer to
// the live stack; inspecting it concurrently with Add is the known finding C13:Collector.Resolve:live-stack
// (DESIGN section 6 C12 "Limits").  Its nil-ness is checked against the stamps; its content is walked only at
// quiescence.
package main

import (
	"bufio"
	"context"
	"encoding/json"
	"fmt"
	"os"
	"runtime"
	"sync"
	"sync/atomic"

	"github.com/tychoish/fun/erc"
	"github.com/tychoish/fun/ers"
)

type SnapCase struct {
	K    int `json:"k"`    // producers
	P    int `json:"p"`    // adds per producer
	M    int `json:"m"`    // readers
	Reps int `json:"reps"` // fresh collectors this configuration is run on
}

type snapErr struct {
	round, prod, idx int
}

func (e *snapErr) Error() string { return fmt.Sprintf("snap-%d-%d-%d", e.round, e.prod, e.idx) }

type snapFail struct {
	Sig    string `json:"sig"`
	Detail string `json:"detail"`
}

type snapshot struct {
	kind   byte // 'i' Iterator, 'l' Len, 'r' Resolve nil-ness
	t0, t1 int64
	items  []error
	n      int
	isNil  bool
}

// one fresh collector: returns the failures found (at most 3)
func snapRound(round int, sc SnapCase) (fails []snapFail, nsnap int) {
	ec := &erc.Collector{}
	var clock atomic.Int64
	started := make([][]atomic.Int64, sc.K)
	done := make([][]atomic.Int64, sc.K)
	errs := make([][]*snapErr, sc.K)
	for g := 0; g < sc.K; g++ {
		started[g] = make([]atomic.Int64, sc.P)
		done[g] = make([]atomic.Int64, sc.P)
		errs[g] = make([]*snapErr, sc.P)
		for i := range errs[g] {
			errs[g][i] = &snapErr{round, g, i}
		}
	}
	var stop atomic.Bool
	var ready, wg, rg sync.WaitGroup
	snaps := make([][]snapshot, sc.M)
	ctx := context.Background()
	const maxSnaps = 3000
	ready.Add(sc.M)
	for r := 0; r < sc.M; r++ {
		rg.Add(1)
		go func(r int) {
			defer rg.Done()
			first := true
			for !stop.Load() && len(snaps[r]) < maxSnaps {
				var s snapshot
				switch {
				case len(snaps[r])%8 == 6:
					s.kind = 'l'
					s.t0 = clock.Add(1)
					s.n = ec.Len()
					s.t1 = clock.Add(1)
				case len(snaps[r])%8 == 7:
					s.kind = 'r'
					s.t0 = clock.Add(1)
					s.isNil = ec.Resolve() == nil
					s.t1 = clock.Add(1)
				default:
					s.kind = 'i'
					s.t0 = clock.Add(1)
					s.items, _ = ec.Iterator().Slice(ctx)
					s.t1 = clock.Add(1)
				}
				snaps[r] = append(snaps[r], s)
				if first {
					first = false
					ready.Done()
				}
			}
			if first {
				ready.Done()
			}
		}(r)
	}
	ready.Wait()
	start := make(chan struct{})
	for g := 0; g < sc.K; g++ {
		wg.Add(1)
		go func(g int) {
			defer wg.Done()
			<-start
			for i := 0; i < sc.P; i++ {
				started[g][i].Store(clock.Add(1))
				ec.Add(errs[g][i])
				done[g][i].Store(clock.Add(1))
				if i%4 == 3 {
					runtime.Gosched()
				}
			}
		}(g)
	}
	close(start)
	wg.Wait()
	stop.Store(true)
	rg.Wait()

	add := func(sig, detail string) {
		if len(fails) < 3 {
			fails = append(fails, snapFail{sig, detail})
		}
	}
	render := func(items []error) string {
		out := "["
		for i, it := range items {
			if i > 0 {
				out += " "
			}
			if se, ok := it.(*snapErr); ok && se != nil {
				out += fmt.Sprintf("%d.%d", se.prod, se.idx)
			} else {
				out += fmt.Sprintf("?%T", it)
			}
			if i > 40 {
				out += " ..."
				break
			}
		}
		return out + "]"
	}
	// number of Adds completed before t / started before t
	doneBefore := func(t int64) (n int) {
		for g := range done {
			for i := range done[g] {
				if d := done[g][i].Load(); d != 0 && d < t {
					n++
				}
			}
		}
		return
	}
	startedBefore := func(t int64) (n int) {
		for g := range started {
			for i := range started[g] {
				if s := started[g][i].Load(); s != 0 && s < t {
					n++
				}
			}
		}
		return
	}
	checkItems := func(what string, s snapshot) {
		lo, hi := doneBefore(s.t0), startedBefore(s.t1)
		if len(s.items) < lo || len(s.items) > hi {
			add("C12:Collector:snapshot-inconsistent", fmt.Sprintf("%s holds %d errors but %d Adds had returned before the call and %d had started before it returned: %s", what, len(s.items), lo, hi, render(s.items)))
			return
		}
		seen := map[*snapErr]int{}
		next := make([]int, sc.K) // per producer: the index expected next (descending)
		for g := range next {
			next[g] = -2
		}
		var prev *snapErr
		for pos, it := range s.items {
			se, ok := it.(*snapErr)
			if !ok || se == nil || se.round != round || se.prod >= sc.K || se.idx >= sc.P || errs[se.prod][se.idx] != se {
				add("C12:Collector:snapshot-inconsistent", fmt.Sprintf("%s position %d is not an error that was added (%T): %s", what, pos, it, render(s.items)))
				return
			}
			if _, dup := seen[se]; dup {
				add("C12:Collector:snapshot-inconsistent", fmt.Sprintf("%s lists error %d.%d twice: %s", what, se.prod, se.idx, render(s.items)))
				return
			}
			seen[se] = pos
			if st := started[se.prod][se.idx].Load(); st == 0 || st >= s.t1 {
				add("C12:Collector:snapshot-inconsistent", fmt.Sprintf("%s contains %d.%d whose Add had not started when the call returned: %s", what, se.prod, se.idx, render(s.items)))
				return
			}
			// per producer: most recent first, no gaps
			if next[se.prod] != -2 && se.idx != next[se.prod] {
				add("C12:Collector:snapshot-inconsistent", fmt.Sprintf("%s: producer %d's errors are not in reverse add order without gaps (saw %d, expected %d): %s", what, se.prod, se.idx, next[se.prod], render(s.items)))
				return
			}
			next[se.prod] = se.idx - 1
			// real time: a more recent entry cannot have been completely added before an older one started
			if prev != nil {
				if d := done[prev.prod][prev.idx].Load(); d != 0 && d < started[se.prod][se.idx].Load() {
					add("C12:Collector:snapshot-inconsistent", fmt.Sprintf("%s: %d.%d sits above %d.%d although its Add returned before the other started: %s", what, prev.prod, prev.idx, se.prod, se.idx, render(s.items)))
					return
				}
			}
			prev = se
		}
		for g := range next {
			if next[g] != -2 && next[g] != -1 {
				add("C12:Collector:snapshot-inconsistent", fmt.Sprintf("%s: producer %d's errors do not go back to its first one (stopped above %d): %s", what, g, next[g], render(s.items)))
				return
			}
		}
		// every Add that returned before the call started is included
		for g := range done {
			for i := range done[g] {
				if d := done[g][i].Load(); d != 0 && d < s.t0 {
					if _, ok := seen[errs[g][i]]; !ok {
						add("C12:Collector:snapshot-inconsistent", fmt.Sprintf("%s misses %d.%d whose Add had returned before the call: %s", what, g, i, render(s.items)))
						return
					}
				}
			}
		}
	}
	for r := range snaps {
		for _, s := range snaps[r] {
			nsnap++
			switch s.kind {
			case 'i':
				checkItems("Iterator()", s)
			case 'l':
				if lo, hi := doneBefore(s.t0), startedBefore(s.t1); s.n < lo || s.n > hi {
					add("C12:Collector:snapshot-inconsistent", fmt.Sprintf("Len()=%d but %d Adds had returned before the call and %d had started before it returned", s.n, lo, hi))
				}
			case 'r':
				if lo, hi := doneBefore(s.t0), startedBefore(s.t1); (s.isNil && lo > 0) || (!s.isNil && hi == 0) {
					add("C12:Collector:snapshot-inconsistent", fmt.Sprintf("Resolve() nil=%v but %d Adds had returned before the call and %d had started before it returned", s.isNil, lo, hi))
				}
			}
			if len(fails) >= 3 {
				return
			}
		}
	}
	// quiescence: Iterator, Len, Resolve+Unwind all hold exactly what was added
	total := sc.K * sc.P
	final := snapshot{kind: 'i', t0: clock.Add(1)}
	final.items, _ = ec.Iterator().Slice(ctx)
	final.t1 = clock.Add(1)
	checkItems("Iterator() after all Adds", final)
	final.items = ers.Unwind(ec.Resolve())
	checkItems("Unwind(Resolve()) after all Adds", final)
	if ec.Len() != total {
		add("C12:Collector:lost", fmt.Sprintf("Len()=%d after %d Adds", ec.Len(), total))
	}
	return
}

// snapChild: run the rounds listed in the file, reporting on stdout:
//
//	R <index>          before each configuration
//	F <index> <json>   one line per failure
//	S <index> <nsnap>  after each configuration
//	D                  at the end
func snapChild(path string, from int) {
	b, err := os.ReadFile(path)
	if err != nil {
		fmt.Fprintln(os.Stderr, "snap child:", err)
		os.Exit(3)
	}
	var cases []SnapCase
	if err := json.Unmarshal(b, &cases); err != nil {
		fmt.Fprintln(os.Stderr, "snap child:", err)
		os.Exit(3)
	}
	w := bufio.NewWriter(os.Stdout)
	for i := from; i < len(cases); i++ {
		fmt.Fprintf(w, "R %d\n", i)
		w.Flush()
		nsnap := 0
		nf := 0
		for rep := 0; rep < cases[i].Reps && nf < 3; rep++ {
			fails, n := snapRound(i*100000+rep, cases[i])
			nsnap += n
			for _, f := range fails {
				jb, _ := json.Marshal(f)
				fmt.Fprintf(w, "F %d %s\n", i, jb)
				nf++
			}
		}
		fmt.Fprintf(w, "S %d %d\n", i, nsnap)
		w.Flush()
	}
	fmt.Fprintln(w, "D")
	w.Flush()
}

// ---------------------------------------------------------------- parent side
