package main

import (
	"context"
	"fmt"
	"io"

	"github.com/tychoish/fun"
	"github.com/tychoish/fun/erc"
	"github.com/tychoish/fun/ers"
)

// how an error reaches the collector (erc/helpers.go and Collector methods)
const (
	viaAdd = iota
	viaHandler
	viaCheck
	viaCollect
	viaWhen
	viaRecover     // erc.WithRecoverCall / WithRecoverDo around a real panic; the operand is a panic* node
	viaRecoverHook // erc.RecoverHook around a real panic(err): adds err, then ErrRecoveredPanic
	nVia
)

func isLeafKind(k string) bool { return k == "const" || k == "ptr" || k == "typed" || k == "typedu" }

// deliver hands v to the collector through one of the helpers
func (e *env) deliver(ec *erc.Collector, v error, via int, i int) {
	switch via {
	case viaHandler:
		ec.Handler()(v)
	case viaCheck:
		erc.Check(ec, func() error { return v })
	case viaCollect:
		if got := erc.Collect[int](ec)(i, v); got != i {
			e.fail("C12:Collector:collect-value", fmt.Sprintf("erc.Collect returned %d for %d", got, i), got)
		}
	case viaWhen:
		if v == nil {
			erc.When(ec, false, "unused")
			erc.Whenf(ec, false, "unused %d", i)
		} else {
			erc.When(ec, true, v)
		}
	case viaRecoverHook:
		hooked := false
		func() {
			defer erc.RecoverHook(ec, func() { hooked = true })
			panic(v)
		}()
		if !hooked {
			e.fail("C12:Collector:recover-hook", "erc.RecoverHook did not run its hook after a panic", nil)
		}
	default:
		ec.Add(v)
	}
}

// evFilterExclude: ers.FilterExclude(excl...).Run(v) returns nil or v itself; nil exactly when v is nil / Ok or
// one of the (non-nil) exclusions is found in it.
func (e *env) evFilterExclude(x *X) error {
	v := e.ev(x.Xs[0], nil)
	var excl []error
	for _, c := range x.Xs[1:] {
		excl = append(excl, e.ev(c, nil))
	}
	res := ers.FilterExclude(excl...).Run(v)
	if res != nil && !sameErr(res, v) {
		e.fail("C12:FilterExclude:wrong", fmt.Sprintf("FilterExclude returned object %d for operand %d", e.idOf(res), e.idOf(res)), e.idOf(res))
	}
	vn := e.lookup(v)
	want := v // expected result
	if len(excl) > 0 {
		drop := v == nil || (vn != nil && vn.kind == kStack && len(vn.kids) == 0)
		for _, t := range excl {
			tn := e.lookup(t)
			if tn == nil || tn.kind != kLeaf {
				continue
			}
			if occurs(vn, func(n *node) bool { return n.kind == kLeaf && n.lk == tn.lk && n.ty == tn.ty && n.id == tn.id }) {
				drop = true
			}
		}
		if drop {
			want = nil
		}
	}
	if (res == nil) != (want == nil) {
		e.fail("C12:FilterExclude:wrong", fmt.Sprintf("FilterExclude(%v).Run(%d): nil=%v, expected nil=%v", e.ids(excl), e.idOf(v), res == nil, want == nil), e.idOf(res))
	}
	return res
}

// evConsume: a collector that already holds some errors consumes a stream whose iterator carries errors of its own,
// under a live / already cancelled / mid-stream cancelled context. Oracle: nothing is lost, nothing is invented;
// the context error itself may or may not be recorded.
func (e *env) evConsume(x *X, top *topInfo) error {
	ec := &erc.Collector{}
	var supplied []*node
	rp := e.reg[constErr(1)]
	for i, a := range x.Adds {
		via := x.Via[i]
		if via == viaRecover {
			// the operand is a panic* node: raise the panic for real and let the helper recover it
			var r any
			var sup []*node
			switch a.K {
			case "panicerr":
				if v := e.ev(a.Xs[0], nil); v != nil {
					r = v
					sup = append(e.nodesOf([]error{v}), rp)
				}
			case "panicstr":
				r = constStr(a.S)
				sup = []*node{e.reg[constErr(a.S)], rp}
			case "panicother":
				r = a.ID
				sup = []*node{{id: a.ID, kind: kLeaf, lk: "other"}, rp}
			}
			if r == nil {
				erc.Recover(ec) // recover() outside a panic is nil: adds nothing
			} else if i%2 == 0 {
				erc.WithRecoverCall(ec, func() { panic(r) })
			} else {
				_ = erc.WithRecoverDo(ec, func() int { panic(r) })
			}
			supplied = append(supplied, sup...)
			continue
		}
		v := e.ev(a, nil)
		e.deliver(ec, v, via, i)
		supplied = append(supplied, e.nodesOf([]error{v})...)
		if via == viaRecoverHook {
			supplied = append(supplied, rp)
		}
	}
	var pre []error
	for _, p := range x.Pre {
		pre = append(pre, e.ev(p, nil))
	}
	items := make([]error, len(x.Xs))
	for i, c := range x.Xs {
		items[i] = e.ev(c, nil)
	}
	ctx, cancel := context.WithCancel(context.Background())
	defer cancel()
	if x.B {
		cancel()
	}
	// what must end up in the collector
	supplied = append(supplied, e.nodesOf(pre)...)
	cancelled := x.B
	for i, it := range items {
		if cancelled {
			break
		}
		if x.Kinds[i] == 1 {
			supplied = append(supplied, e.nodesOf([]error{it})...)
			break
		}
		supplied = append(supplied, e.nodesOf([]error{it})...)
		if x.Kinds[i] == 2 {
			cancelled = true
		}
	}
	if x.Stream {
		ch := make(chan error, len(items)+1)
		for _, it := range items {
			ch <- it
		}
		close(ch)
		erc.Stream(ctx, ec, ch)
	} else {
		idx := 0
		prod := fun.Producer[error](func(context.Context) (error, error) {
			if idx >= len(items) {
				return nil, io.EOF
			}
			k, v := x.Kinds[idx], items[idx]
			idx++
			switch k {
			case 1:
				return nil, v
			case 2:
				cancel()
				return v, nil
			default:
				return v, nil
			}
		})
		iter := prod.Iterator()
		for i, p := range pre {
			var c *erc.Collector
			if _, unc := typedUKey(p); !unc && p != nil && x.Pre[i].K == "collect" {
				c = e.colls[p]
			}
			if c != nil {
				erc.IteratorHook[error](c)(iter) // it.AddError(c.Resolve())
			} else {
				iter.AddError(p)
			}
		}
		erc.Consume(ctx, ec, iter)
	}
	res := ec.Resolve()
	var want []int
	for _, s := range supplied {
		for _, id := range idsOfNodes(flatten(s)) {
			if id != 90 {
				want = append(want, id)
			}
		}
	}
	var got []int
	for _, id := range e.ids(e.unwind(res)) {
		if id != 90 { // context.Canceled may or may not be recorded
			got = append(got, id)
		}
	}
	if !sameMultiset(got, want) {
		cls := "lost"
		if len(got) > len(want) {
			cls = "invented"
		}
		e.fail("C12:Collector:"+cls, fmt.Sprintf("after Consume (cancelled at start=%v, stream=%v) the collector holds %v but it was given (adds, delivered items, iterator errors) %v", x.B, x.Stream, got, want), got)
	}
	for _, t := range targets {
		exp := false
		for _, s := range supplied {
			if occurs(s, t.pred) {
				exp = true
			}
		}
		if g := e.is(res, t.err, t.coq); exp && !g {
			e.fail("C12:Collector:lost", fmt.Sprintf("after Consume errors.Is(Resolve(), %s) is false although it was given to the collector / carried by the iterator", t.coq), t.coq)
		} else if !exp && g {
			e.fail("C12:Is:spurious", fmt.Sprintf("after Consume errors.Is(Resolve(), %s) is true although nothing supplied it", t.coq), t.coq)
		}
	}
	if ec.Len() != len(e.unwind(res)) {
		e.fail("C12:Collector:lost", fmt.Sprintf("Len()=%d but Unwind(Resolve()) has %d", ec.Len(), len(e.unwind(res))), ec.Len())
	}
	if top != nil {
		top.length = ec.Len()
	}
	e.registerResult(x.Tag, res)
	return res
}
