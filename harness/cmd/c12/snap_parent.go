package main

import (
	"bytes"
	"context"
	"encoding/json"
	"fmt"
	"os"
	"os/exec"
	"path/filepath"
	"strconv"
	"strings"
	"time"

	"verif/harness/kit"
)

func genSnap(r *kit.Rand, reps int) SnapCase {
	sc := SnapCase{K: r.Range(1, 4), P: r.Range(6, 40), M: r.Range(2, 6), Reps: reps}
	if r.Chance(1, 5) {
		sc.P = r.Range(40, 120)
	}
	return sc
}

// runSnapStream runs the configurations in a child process of this binary and turns what it reports — or its
// death — into oracle failures. Returns the number of snapshots checked.
func runSnapStream(run *kit.Run, firstID int, cases []SnapCase, verbose bool) int {
	dir := filepath.Join(run.Out, "snap-child")
	_ = os.MkdirAll(dir, 0o755)
	file := filepath.Join(dir, "snap_cases.json")
	b, _ := json.Marshal(cases)
	if err := os.WriteFile(file, b, 0o644); err != nil {
		panic(err)
	}
	caseOf := func(i int) Case { sc := cases[i]; return Case{ID: firstID + i, Kind: "snap", Snap: &sc} }
	total := 0
	from := 0
	crashes := 0
	for from < len(cases) && crashes < 3 {
		ctx, cancel := context.WithTimeout(context.Background(), 10*time.Minute)
		cmd := exec.CommandContext(ctx, os.Args[0], "-snap-child", file, "-snap-from", strconv.Itoa(from), "-out", dir, "-seed", "1")
		var stdout, stderr bytes.Buffer
		cmd.Stdout = &stdout
		cmd.Stderr = &stderr
		err := cmd.Run()
		cancel()
		cur, finished := from-1, false
		for _, line := range strings.Split(stdout.String(), "\n") {
			f := strings.SplitN(line, " ", 3)
			switch f[0] {
			case "R":
				cur, _ = strconv.Atoi(f[1])
			case "F":
				i, _ := strconv.Atoi(f[1])
				var sf snapFail
				_ = json.Unmarshal([]byte(f[2]), &sf)
				run.OracleFail(firstID+i, sf.Sig, sf.Detail, caseOf(i), nil)
				if verbose {
					fmt.Printf("FAIL %s: %s\n", sf.Sig, sf.Detail)
				}
			case "S":
				n, _ := strconv.Atoi(f[2])
				total += n
			case "D":
				finished = true
			}
		}
		if finished {
			break
		}
		// the child died (runtime fatal error, panic, signal) or hung
		crashes++
		if cur < from {
			cur = from
		}
		tail := stderr.String()
		if len(tail) > 1500 {
			tail = tail[:1500]
		}
		run.OracleFail(firstID+cur, "C12:Collector:crash", fmt.Sprintf("the process running concurrent Add/Iterator/Len/Resolve died or hung (%v): %s", err, tail), caseOf(cur), nil)
		if verbose {
			fmt.Printf("FAIL C12:Collector:crash (%v)\n%s\n", err, tail)
		}
		from = cur + 1
	}
	for i := range cases {
		sc := cases[i]
		run.Count(fmt.Sprintf("snap/producers=%d", sc.K))
		run.Count(fmt.Sprintf("snap/readers=%d", sc.M))
		jb, _ := json.Marshal(sc)
		run.Case(firstID+i, caseOf(i), "", "snap|"+string(jb), true)
	}
	return total
}
