// Driver for C01: every parallel stage of /repo delivers every input item exactly once.
//
// For each case (construct, input, workers, buffer size, GOMAXPROCS, jitter seed) the REAL
// construct is run to completion (nothing aborts the run) and the multiset that came out is
// compared with the multiset that went in (and the order, where the property fixes it).
// The verdict of a case does not depend on timing: a run either terminates (then the multisets
// are compared) or it does not terminate within a generous 20 s bound (reported as a failure).
package main

import (
	"context"
	"errors"
	"fmt"
	"io"
	"runtime"
	"sync"
	"sync/atomic"
	"time"

	"github.com/tychoish/fun"
	"github.com/tychoish/fun/ers"
	"github.com/tychoish/fun/itertool"

	"verif/harness/kit"
)

// construct codes — must match coq/Corr/C01_corr.v
const (
	cSplit           = 1
	cProcessParallel = 2
	cMap             = 3
	cParallelBuffer  = 4
	cBuffer          = 5
	cMerge           = 6
	cGenerate        = 7
	cReadOne         = 8
	cForEach         = 15
	cWorker          = 16
	cGenerateAbort   = 17 // GenerateParallel whose generator ends with a real error: an ABORTED run
	cShared          = 18 // several fan-out stages draining ONE channel-backed (concurrency-safe) iterator
)

// kinds of fan-out stage of a shared-input case
const (
	shForEach = 0 // itertool.ParallelForEach pools (ProcessParallel -> Split)
	shSplit   = 1 // Split(w), one reader goroutine per output
	shMap     = 2 // fun.Map with w workers, one reader
)

var shNames = []string{"ParallelForEach", "Split", "Map"}

// how the generator of a GenerateParallel case reports that it has no more values
const (
	endEOF     = 0 // a bare io.EOF
	endWrapped = 1 // an error that wraps io.EOF: end-of-stream everywhere in the library (errors.Is)
	endFailure = 2 // a real error: the run is aborted (construct code cGenerateAbort)
)

var errGenerator = errors.New("generator failed")

var names = map[int]string{
	cSplit: "Split", cProcessParallel: "ProcessParallel", cMap: "Map", cParallelBuffer: "ParallelBuffer",
	cBuffer: "Buffer", cMerge: "MergeIterators", cGenerate: "GenerateParallel", cReadOne: "ReadOne",
	cForEach: "ParallelForEach", cWorker: "Worker", cGenerateAbort: "GenerateParallel", cShared: "shared-input",
}

type Case struct {
	ID        int     `json:"id"`
	Construct int     `json:"construct"`
	Name      string  `json:"name"`
	Input     []int64 `json:"input"`
	Workers   int     `json:"workers"`
	Cap       int     `json:"cap"`
	Procs     int     `json:"gomaxprocs"`
	Jitter    uint64  `json:"jitter"`
	End       int     `json:"end"`              // GenerateParallel: endEOF / endWrapped / endFailure
	Race      bool    `json:"race"`             // GenerateParallel: the call producing the last value is still running when another call reports the end
	Stages    int     `json:"stages,omitempty"` // shared-input: number of fan-out stages over the one input
	Kind      int     `json:"kind,omitempty"`   // shared-input: shForEach / shSplit / shMap
	Count     int     `json:"count,omitempty"`  // shared-input: the input is 0..count-1 (not stored in Input)
}

const runBound = 20 * time.Second

// jit yields the processor a pseudo-random (seeded, value dependent) number of times; it is the
// schedule perturbation injected through the user supplied functions.
func jit(seed uint64, v int64, site uint64) {
	if seed == 0 {
		return
	}
	z := seed ^ (uint64(v)+1)*0x9E3779B97F4A7C15 ^ site*0xBF58476D1CE4E5B9
	z ^= z >> 29
	z *= 0x94D049BB133111EB
	z ^= z >> 32
	for n := z % 4; n > 0; n-- {
		runtime.Gosched()
	}
	if z%97 == 0 {
		time.Sleep(50 * time.Microsecond)
	}
}

type bag struct {
	mu sync.Mutex
	l  []int64
}

func (b *bag) add(v int64) { b.mu.Lock(); b.l = append(b.l, v); b.mu.Unlock() }
func (b *bag) get() []int64 {
	b.mu.Lock()
	defer b.mu.Unlock()
	return append([]int64(nil), b.l...)
}

// source is a single-reader iterator over the input with jitter in the producer.
func source(c Case, in []int64, site uint64) *fun.Iterator[int64] {
	idx := 0
	return fun.Generator(func(ctx context.Context) (int64, error) {
		if idx >= len(in) {
			return 0, io.EOF
		}
		v := in[idx]
		idx++
		jit(c.Jitter, v, site)
		return v, nil
	})
}

// generator hands out the input, one value per call (calls come from several goroutines), and then
// reports the end in the way the case says. With Race the schedule is driven from inside the
// generator: the call that produces the LAST value does not return before another call has seen the
// end of the stream, and then waits (bounded, 2 ms) for its own context to end - which only happens if
// that other call's end-of-stream made the library cancel the worker group. The value it returns is
// then "generated but not yet sent"; nothing was aborted, so it has to come out.
func generator(c Case) fun.Producer[int64] {
	var next atomic.Int64
	in := c.Input
	end := func() error {
		switch c.End {
		case endWrapped:
			return fmt.Errorf("generator exhausted: %w", io.EOF)
		case endFailure:
			return errGenerator
		}
		return io.EOF
	}
	if !c.Race || len(in) == 0 || c.Workers < 2 {
		return func(context.Context) (int64, error) {
			i := next.Add(1) - 1
			if int(i) >= len(in) {
				return 0, end()
			}
			jit(c.Jitter, in[i], 2)
			return in[i], nil
		}
	}
	lastStarted, endSeen := make(chan struct{}), make(chan struct{})
	var once sync.Once
	return func(ctx context.Context) (int64, error) {
		i := int(next.Add(1) - 1)
		switch {
		case i < len(in)-1:
			jit(c.Jitter, in[i], 2)
			return in[i], nil
		case i == len(in)-1:
			close(lastStarted)
			<-endSeen
			select {
			case <-ctx.Done():
			case <-time.After(2 * time.Millisecond):
			}
			return in[i], nil
		default:
			<-lastStarted
			once.Do(func() { close(endSeen) })
			return 0, end()
		}
	}
}

// drain reads an iterator with ReadOne until it reports an error and returns that error.
func drain(ctx context.Context, it *fun.Iterator[int64], c Case, out *bag, site uint64) error {
	for {
		v, err := it.ReadOne(ctx)
		if err != nil {
			return err
		}
		out.add(v)
		jit(c.Jitter, v, site)
	}
}

type result struct {
	Lost      int     `json:"lost,omitempty"`       // shared-input: values nobody got
	Dup       int     `json:"duplicated,omitempty"` // shared-input: extra deliveries
	Invented  int     `json:"invented,omitempty"`   // shared-input: values outside the input
	Sample    []int64 `json:"sample,omitempty"`     // shared-input: the first few lost / duplicated values
	Delivered []int64 `json:"delivered"`
	TimedOut  bool    `json:"timed_out"`
	Err       string  `json:"err,omitempty"`
}

// runCase runs the real construct; every path ends either with all background work finished
// (the construct's own completion signal: EOF on the output / the worker returned) or with the
// 20 s bound expiring.
func runCase(c Case) result {
	old := runtime.GOMAXPROCS(c.Procs)
	defer runtime.GOMAXPROCS(old)
	ctx, cancel := context.WithTimeout(context.Background(), runBound)
	defer cancel()

	if c.Construct == cShared {
		return runShared(ctx, c)
	}
	out := &bag{}
	errc := make(chan error, 1)
	go func() { errc <- body(ctx, c, out) }()
	var err error
	select {
	case err = <-errc:
	case <-time.After(runBound + 5*time.Second):
		return result{Delivered: out.get(), TimedOut: true, Err: "run did not return"}
	}
	res := result{Delivered: out.get(), TimedOut: ctx.Err() != nil}
	if err != nil {
		res.Err = err.Error()
	}
	return res
}

// runShared: c.Stages fan-out stages of one kind drain ONE channel-backed iterator at the same time. The
// iterator is safe for concurrent ReadOne, so every value must reach exactly one worker of exactly one
// stage: the union of what the stages processed is the input.
func runShared(ctx context.Context, c Case) result {
	n := c.Count
	ch := make(chan int64, 256)
	go func() {
		defer close(ch)
		for v := 0; v < n; v++ {
			select {
			case ch <- int64(v):
			case <-ctx.Done():
				return
			}
		}
	}()
	src := fun.ChannelIterator(ch)
	counts := make([]atomic.Int32, n)
	var invented atomic.Int64
	record := func(v int64) {
		if v < 0 || int(v) >= n {
			invented.Add(1)
			return
		}
		counts[v].Add(1)
	}
	opt := fun.WorkerGroupConfNumWorkers(c.Workers)
	drainTo := func(it *fun.Iterator[int64]) {
		for {
			v, err := it.ReadOne(ctx)
			if err != nil {
				return
			}
			record(v)
		}
	}
	var wg sync.WaitGroup
	for p := 0; p < c.Stages; p++ {
		wg.Add(1)
		go func() {
			defer wg.Done()
			switch c.Kind {
			case shSplit:
				var inner sync.WaitGroup
				for _, o := range src.Split(c.Workers) {
					inner.Add(1)
					go func(o *fun.Iterator[int64]) { defer inner.Done(); drainTo(o) }(o)
				}
				inner.Wait()
			case shMap:
				drainTo(fun.Map(src, func(_ context.Context, v int64) (int64, error) { return v, nil }, opt))
			default:
				_ = itertool.ParallelForEach(ctx, src, func(_ context.Context, v int64) error { record(v); return nil }, opt)
			}
		}()
	}
	done := make(chan struct{})
	go func() { wg.Wait(); close(done) }()
	res := result{}
	select {
	case <-done:
	case <-time.After(runBound + 5*time.Second):
		res.TimedOut, res.Err = true, "run did not return"
	}
	if ctx.Err() != nil {
		res.TimedOut = true
	}
	for v := 0; v < n; v++ {
		switch k := int(counts[v].Load()); {
		case k == 0:
			res.Lost++
			if len(res.Sample) < 8 {
				res.Sample = append(res.Sample, int64(v))
			}
		case k > 1:
			res.Dup += k - 1
			if len(res.Sample) < 8 {
				res.Sample = append(res.Sample, int64(v))
			}
		}
	}
	res.Invented = int(invented.Load())
	return res
}

func isEOF(err error) error {
	if err == nil || err == io.EOF {
		return nil
	}
	return err
}

func body(ctx context.Context, c Case, out *bag) error {
	w := c.Workers
	opt := fun.WorkerGroupConfNumWorkers(w)
	switch c.Construct {
	case cSplit:
		outs := source(c, c.Input, 1).Split(w)
		var wg sync.WaitGroup
		errs := make([]error, len(outs))
		for i := range outs {
			wg.Add(1)
			go func(i int) { defer wg.Done(); errs[i] = isEOF(drain(ctx, outs[i], c, out, uint64(10+i))) }(i)
		}
		wg.Wait()
		for _, e := range errs {
			if e != nil {
				return e
			}
		}
		return nil
	case cProcessParallel:
		return source(c, c.Input, 1).ProcessParallel(func(_ context.Context, v int64) error {
			jit(c.Jitter, v, 2)
			out.add(v)
			return nil
		}, opt).Run(ctx)
	case cForEach:
		return itertool.ParallelForEach(ctx, source(c, c.Input, 1), func(_ context.Context, v int64) error {
			jit(c.Jitter, v, 2)
			out.add(v)
			return nil
		}, opt)
	case cWorker:
		ops := make([]fun.Worker, len(c.Input))
		for i, v := range c.Input {
			v := v
			ops[i] = func(context.Context) error { jit(c.Jitter, v, 2); out.add(v); return nil }
		}
		idx := 0
		src := fun.Generator(func(context.Context) (fun.Worker, error) {
			if idx >= len(ops) {
				return nil, io.EOF
			}
			idx++
			return ops[idx-1], nil
		})
		return itertool.Worker(ctx, src, opt)
	case cMap:
		// the transform is injective (v -> 2v+1) so that a wrong pairing would show; undone below
		it := fun.Map(source(c, c.Input, 1), func(_ context.Context, v int64) (int64, error) {
			jit(c.Jitter, v, 2)
			return 2*v + 1, nil
		}, opt)
		tmp := &bag{}
		err := isEOF(drain(ctx, it, c, tmp, 3))
		for _, v := range tmp.get() {
			if v%2 == 0 {
				out.add(-1000000 - v) // not an image of the transform: invented
			} else {
				out.add((v - 1) / 2)
			}
		}
		return ers.Join(err, it.Close())
	case cParallelBuffer:
		it := source(c, c.Input, 1).ParallelBuffer(w)
		err := isEOF(drain(ctx, it, c, out, 3))
		return ers.Join(err, it.Close())
	case cBuffer:
		it := source(c, c.Input, 1).Buffer(c.Cap)
		err := isEOF(drain(ctx, it, c, out, 3))
		return ers.Join(err, it.Close())
	case cMerge:
		// w sources holding contiguous chunks of the input (so a single source keeps the input order)
		srcs := make([]*fun.Iterator[int64], w)
		for i := 0; i < w; i++ {
			lo, hi := i*len(c.Input)/w, (i+1)*len(c.Input)/w
			srcs[i] = source(c, c.Input[lo:hi], uint64(20+i))
		}
		it := fun.MergeIterators(srcs...)
		err := isEOF(drain(ctx, it, c, out, 3))
		return ers.Join(err, it.Close())
	case cGenerate, cGenerateAbort:
		it := generator(c).GenerateParallel(opt)
		err := isEOF(drain(ctx, it, c, out, 3))
		if c.Construct == cGenerateAbort {
			_, _ = err, it.Close() // both report the generator's error: the run was aborted by it
			return nil
		}
		return ers.Join(err, it.Close())
	case cReadOne:
		ch := make(chan int64, c.Cap)
		go func() {
			defer close(ch)
			for _, v := range c.Input {
				jit(c.Jitter, v, 1)
				select {
				case ch <- v:
				case <-ctx.Done():
					return
				}
			}
		}()
		it := fun.ChannelIterator(ch)
		var wg sync.WaitGroup
		errs := make([]error, w)
		for i := 0; i < w; i++ {
			wg.Add(1)
			go func(i int) {
				defer wg.Done()
				err := isEOF(drain(ctx, it, c, out, uint64(10+i)))
				// the reader that sees EOF closes the shared iterator, which cancels the iterator's
				// own context: a peer blocked in the same select may report that instead of EOF.
				// The caller's context is still live, so this is the end of the stream, not an abort.
				if errors.Is(err, context.Canceled) && ctx.Err() == nil {
					err = nil
				}
				errs[i] = err
			}(i)
		}
		wg.Wait()
		for _, e := range errs {
			if e != nil {
				return e
			}
		}
		return nil
	}
	return fmt.Errorf("unknown construct %d", c.Construct)
}

// ---------------------------------------------------------------- oracle

func counts(l []int64) map[int64]int {
	m := map[int64]int{}
	for _, v := range l {
		m[v]++
	}
	return m
}

// ordered reports whether the property fixes the output order for this case.
func ordered(c Case) bool { return c.Construct == cBuffer || c.Workers == 1 }

// oracle returns "" or the violation class and a description.
func oracle(c Case, r result) (string, string) {
	if c.Construct == cShared {
		what := fmt.Sprintf("%d %s stage(s) x %d workers over one channel-backed iterator of %d distinct values", c.Stages, shNames[c.Kind], c.Workers, c.Count)
		switch {
		case r.TimedOut:
			return "lost", "run did not finish within " + runBound.String() + ": " + what
		case r.Invented > 0:
			return "invented", fmt.Sprintf("%d value(s) outside the input were processed: %s", r.Invented, what)
		case r.Dup > 0:
			return "duplicated", fmt.Sprintf("%d extra deliveries (and %d values lost), e.g. %v: %s", r.Dup, r.Lost, r.Sample, what)
		case r.Lost > 0:
			return "lost", fmt.Sprintf("%d values reached nobody, e.g. %v: %s", r.Lost, r.Sample, what)
		}
		return "", ""
	}
	if r.TimedOut {
		return "lost", fmt.Sprintf("run did not finish within %v (delivered %d of %d): %s", runBound, len(r.Delivered), len(c.Input), r.Err)
	}
	in, got := counts(c.Input), counts(r.Delivered)
	for v, n := range got {
		if in[v] == 0 {
			return "invented", fmt.Sprintf("value %d delivered %d time(s) but never supplied", v, n)
		}
	}
	for v, n := range got {
		if n > in[v] {
			return "duplicated", fmt.Sprintf("value %d supplied %d time(s), delivered %d time(s)", v, in[v], n)
		}
	}
	if c.Construct == cGenerateAbort { // an aborted run may stop short; it must not invent or duplicate
		return "", ""
	}
	for v, n := range in {
		if got[v] < n {
			return "lost", fmt.Sprintf("value %d supplied %d time(s), delivered %d time(s)", v, n, got[v])
		}
	}
	if ordered(c) {
		for i := range c.Input {
			if c.Input[i] != r.Delivered[i] {
				return "order", fmt.Sprintf("position %d: supplied %d, delivered %d", i, c.Input[i], r.Delivered[i])
			}
		}
	}
	if r.Err != "" {
		return "lost", "run reported an error although nothing aborted it: " + r.Err
	}
	return "", ""
}

func execCase(run *kit.Run, c Case, verbose bool) {
	c.Name = names[c.Construct]
	r := runCase(c)
	cls, detail := oracle(c, r)
	if verbose {
		fmt.Printf("%s workers=%d cap=%d gomaxprocs=%d input=%v\n  delivered=%v timed_out=%v err=%q\n  oracle: %s %s\n",
			c.Name, c.Workers, c.Cap, c.Procs, c.Input, r.Delivered, r.TimedOut, r.Err, cls, detail)
	}
	if cls != "" {
		run.OracleFail(c.ID, "C01:"+c.Name+":"+cls, detail, c, r)
	}
	if c.Construct == cShared {
		run.Count(c.Name)
		run.Count(fmt.Sprintf("stages=%d", c.Stages))
		term := fmt.Sprintf("C01Shared %s %s %s %s %s %s %s %s %s", kit.ZI(c.ID), kit.ZI(c.Stages), kit.ZI(c.Kind), kit.ZI(c.Workers), kit.ZI(c.Count),
			kit.ZI(r.Lost), kit.ZI(r.Dup), kit.ZI(r.Invented), kit.Bool(!r.TimedOut))
		run.Case(c.ID, c, term, fmt.Sprintf("shared|%d|%d|%d|%d", c.Stages, c.Kind, c.Workers, c.Count), true)
		return
	}
	run.Count(c.Name)
	run.Count("len" + bucket(len(c.Input)))
	run.Count(fmt.Sprintf("workers=%d", c.Workers))
	term := fmt.Sprintf("C01Case %s %s %s %s %s %s %s", kit.ZI(c.ID), kit.ZI(c.Construct), kit.ZI(c.Workers), kit.ZI(c.Cap),
		kit.ZList(c.Input), kit.ZList(r.Delivered), kit.Bool(!r.TimedOut && r.Err == ""))
	run.Case(c.ID, c, term, fmt.Sprintf("%d|%d|%d|%d|%v|%v", c.Construct, c.Workers, c.Cap, c.End, c.Race, c.Input), len(c.Input) >= 2)
}

func bucket(n int) string {
	switch {
	case n <= 2:
		return fmt.Sprintf("=%d", n)
	case n <= 9:
		return "3-9"
	case n <= 33:
		return "10-33"
	default:
		return ">33"
	}
}

func genInput(r *kit.Rand, n int) []int64 {
	l := make([]int64, n)
	if r.Chance(1, 4) { // small domain: duplicates, so that multiset (not set) equality is what is tested
		for i := range l {
			l[i] = int64(r.Intn(4))
		}
		return l
	}
	for i := range l {
		l[i] = int64(i)
	}
	if r.Chance(1, 2) {
		for i := n - 1; i > 0; i-- {
			j := r.Intn(i + 1)
			l[i], l[j] = l[j], l[i]
		}
	}
	return l
}

func main() {
	run := kit.Start()
	run.Header = "From FunV Require Import Base.Tac Corr.C01_corr."
	run.Footer = "Definition M := Eval vm_compute in mismatches cases.\nPrint M."
	run.CaseType = "case"
	run.Rule = "every construct (Split, ProcessParallel, ParallelForEach, Worker, Map, ParallelBuffer, Buffer, MergeIterators, GenerateParallel, concurrent ReadOne) x workers {1,2,3,8} x lengths {0,1,2,w-1,w,w+1,7,16,33,64} x buffer sizes {0,1,len} (Buffer, ReadOne) x GOMAXPROCS {1,2,4,8} x seeded Gosched/sleep jitter in every user function; Map additionally with 2000 distinct items, 4/8 workers, GOMAXPROCS 8, no jitter (volume); shared-input: k in {2,4,8} fan-out stages (ParallelForEach pools / Split / Map, 2 workers each) draining ONE channel-backed iterator of 120000+ distinct values at GOMAXPROCS 8 - the union of what the stages processed must be the input; GenerateParallel additionally x end-of-stream kind {io.EOF, error wrapping io.EOF, real error = aborted run (only no-invention/no-duplication is required)} x {free schedule, driver-controlled schedule: the call producing the last value returns only after another worker's call reported the end} x workers {2,3,8} x lengths {1,2,3,4,7}; distinct = distinct (construct, workers, cap, end kind, schedule, input); non-trivial = at least 2 items"

	if run.Replay != "" {
		var c Case
		if err := kit.ReadReplayCase(run.Replay, &c); err != nil {
			panic(err)
		}
		reps := 200 // the failure may be schedule dependent: repeat with fresh jitter seeds
		for i := 0; i < reps; i++ {
			cc := c
			if i > 0 {
				cc.Jitter = run.Rand.U64() | 1
				cc.Procs = []int{1, 2, 4, 8}[i%4]
			}
			execCase(run, cc, i == 0)
			if run.NOracle > 0 {
				break
			}
		}
		run.Finish()
		return
	}

	id := 0
	constructs := []int{cSplit, cProcessParallel, cForEach, cWorker, cMap, cParallelBuffer, cBuffer, cMerge, cGenerate, cReadOne}
	rounds := run.Pick(30, 600)
	procs := []int{1, 2, 4, 8}
	for round := 0; round < rounds; round++ {
		for _, k := range constructs {
			for _, w := range []int{1, 2, 3, 8} {
				if k == cBuffer && w != 1 {
					continue
				}
				lens := []int{0, 1, 2, w - 1, w, w + 1, 7, 16, 33, 64}
				seen := map[int]bool{}
				for _, n := range lens {
					if n < 0 || seen[n] {
						continue
					}
					seen[n] = true
					caps := []int{0}
					if k == cBuffer || k == cReadOne {
						caps = []int{0, 1, n}
					}
					for ci, cp := range caps {
						if ci > 0 && cp == caps[ci-1] {
							continue
						}
						r := run.Rand.Fork()
						c := Case{ID: id, Construct: k, Workers: w, Cap: cp, Input: genInput(r, n),
							Procs: procs[r.Intn(4)], Jitter: r.U64() | 1}
						if r.Chance(1, 8) {
							c.Jitter = 0
						}
						if k == cGenerate {
							c.End = r.Intn(2)
						}
						id++
						if run.NOracle >= 5 { // enough evidence; a hanging case costs the full time bound
							continue
						}
						execCase(run, c, false)
					}
				}
			}
		}
	}
	// Map under volume: many distinct items, no jitter, full parallelism - a pairing mistake between workers
	// (a value sent for somebody else's item) shows as one item lost and another duplicated
	for round := 0; round < run.Pick(16, 120); round++ {
		for _, w := range []int{4, 8} {
			r := run.Rand.Fork()
			in := make([]int64, 2000)
			for i := range in {
				in[i] = int64(i)
			}
			c := Case{ID: id, Construct: cMap, Workers: w, Input: in, Procs: 8, Jitter: 0}
			_ = r
			id++
			if run.NOracle >= 5 {
				continue
			}
			execCase(run, c, false)
		}
	}
	// several fan-out stages over ONE shared, concurrency-safe input: volume, distinct values
	shCount := run.Pick(120000, 600000)
	for round := 0; round < run.Pick(1, 4); round++ {
		for _, stages := range []int{2, 4, 8} {
			for kind := shForEach; kind <= shMap; kind++ {
				c := Case{ID: id, Construct: cShared, Stages: stages, Kind: kind, Workers: 2, Count: shCount + round, Procs: 8}
				id++
				if run.NOracle >= 5 {
					continue
				}
				execCase(run, c, false)
			}
		}
	}
	// GenerateParallel: a value that is in flight when another worker reports the end of the stream
	raceRounds := run.Pick(12, 120)
	for round := 0; round < raceRounds; round++ {
		for _, w := range []int{2, 3, 8} {
			for _, n := range []int{1, 2, 3, 4, 7} {
				for _, end := range []int{endEOF, endWrapped, endFailure} {
					for _, race := range []bool{true, false} {
						if end == endFailure && round%4 != 0 {
							continue
						}
						r := run.Rand.Fork()
						c := Case{ID: id, Construct: cGenerate, Workers: w, Input: genInput(r, n), Procs: procs[r.Intn(4)],
							Jitter: r.U64() | 1, End: end, Race: race}
						if end == endFailure {
							c.Construct = cGenerateAbort
						}
						id++
						if run.NOracle >= 5 {
							continue
						}
						execCase(run, c, false)
					}
				}
			}
		}
	}
	run.Finish()
}
